(* C07 - no application message is lost, duplicated or reordered across connection loss.
   Theorems only (proofs in AF.Lemmas.NetL).  The model is Fix/Net.v: two worlds of the session
   model Fix/Session.v (A = initiator object, B = acceptor object), two FIFO channels, and the actions
   ASend / ADeliver / ABreak / AReconnect;  `settle fuel s` = drain what is in flight, and when the
   link is down afterwards: reconnect (same objects, retained journals and counters) + Logon + drain;
   `holds s` = the property decided on a settled state (quiescent, both ACTIVE, next_in of each =
   next_out of the other, each application received exactly the peer's accepted / committed sends, in order;
   committed = the call raised from the dead transport after the message had been journaled, see Net.do_send).

   THE PROPERTY AT FULL STRENGTH is
       forall l : list action, exists f0, forall fuel, f0 <= fuel -> holds (settle fuel (run net0 l)) = true.
   It is NOT proved in this generality.  PROVED, each for all sizes (induction; the only bound is 64-bit numbers):
     C07_single_break, C07_single_break_B_to_A   one break, traffic in one direction, last k in flight;
     C07_single_break_both                       one break, both applications have sent (A's n, then B's m), the
                                                 last ka of A's and the last kb of B's in flight, all ka, kb;
     C07_repeated_breaks                         A -> B, then any number of further breaks during the retransmission;
     C07_repeated_breaks_with_B_traffic          the same when B has sent too and all of B's messages had arrived;
     C07_failed_write                            the link dies inside a send_msg (journaled, write raises);
     C07_logon_cut_repaired, C07_logon_cut       the FIRST Logon exchange is cut at either moment, repaired, and
                                                 then n messages are sent and delivered.
   NOT proved, EXPLORED only (harness/c07.py: model BFS with exact state hashing + two real connection objects; no
   failing state is known): sends whose order in time interleaves the two sides (payload naming), sends and
   deliveries interleaved with the Logon exchange / the recovery, further breaks when BOTH ends miss messages,
   further breaks on the B -> A side, breaks at other moments of a recovery.  That is exploration, not proof.
   The model is the code with all repairs up to round 13 (before the D12 repair of _process_resend two breaks with a
   resend reply in flight lost messages for good; the former witnesses are the positive Examples
   C07_double_break_recovers, C07_gap_fill_lost_recovers). *)
From Coq Require Import ZArith NArith List Bool.
From AF Require Import Base.Sx Py.Str Fix.Session Fix.Net Lemmas.NetL.
Import ListNotations.
Open Scope Z_scope.

(* First Logon exchange; A's application sends n messages (payloads m1 .. mn); the first n - k reach
   B; the link breaks with the last k in flight (they are lost; both ends run their disconnect path);
   then: new transport for the same two objects, Logon(next_out) from the initiator, everything in
   flight delivered until nothing is pending.  Then (`recovered`): the network is quiescent, both ends
   are ACTIVE, next_in of each = next_out of the other, all n sends had been accepted, B's application
   has been handed exactly m1 .. mn once and in order, nothing went the other way, and `holds` is true.
   Also: at the break no reply to a ResendRequest is in flight. *)
Theorem C07_single_break : forall (n k fuel : nat),
  (k <= n)%nat -> Z.of_nat n + 3 <= 9223372036854775807 -> (k + 4 <= fuel)%nat ->
  let before_break :=
    [AReconnect; ADeliver SB; ADeliver SA] ++ repeat (ASend SA) (n - k + k) ++ repeat (ADeliver SB) (n - k) in
  let s := settle fuel (run net0 (before_break ++ [ABreak])) in
  reply_in_flight (run net0 before_break) = false
  /\ quiescent s = true
  /\ st (wa s) = ST_ACTIVE /\ st (wb s) = ST_ACTIVE
  /\ nin (wa s) = nout (wb s) /\ nin (wb s) = nout (wa s)
  /\ sa s = texts 1 n /\ gb s = map Some (texts 1 n) /\ sb s = [] /\ ga s = []
  /\ holds s = true.
Proof. exact single_break_nk. Qed.
Print Assumptions C07_single_break.

(* The mirror image: B's application sends n messages, the first n - k reach A, the last k are in flight
   when the link breaks.  (Here the Logon of the initiator is numbered as expected, the acceptor's Logon
   REPLY is too high for A; A sends the ResendRequest and B replays.)  Same conclusion with the roles
   exchanged.  Traffic in flight in BOTH directions at the break is not covered by a theorem: explored. *)
Theorem C07_single_break_B_to_A : forall (n k fuel : nat),
  (k <= n)%nat -> Z.of_nat n + 3 <= 9223372036854775807 -> (k + 4 <= fuel)%nat ->
  let before_break :=
    [AReconnect; ADeliver SB; ADeliver SA] ++ repeat (ASend SB) (n - k + k) ++ repeat (ADeliver SA) (n - k) in
  let s := settle fuel (run net0 (before_break ++ [ABreak])) in
  reply_in_flight (run net0 before_break) = false
  /\ quiescent s = true
  /\ st (wa s) = ST_ACTIVE /\ st (wb s) = ST_ACTIVE
  /\ nin (wa s) = nout (wb s) /\ nin (wb s) = nout (wa s)
  /\ sb s = texts 1 n /\ ga s = map Some (texts 1 n) /\ sa s = [] /\ gb s = []
  /\ holds s = true.
Proof. exact single_break_m_nk. Qed.
Print Assumptions C07_single_break_B_to_A.

(* BOTH DIRECTIONS AT ONCE.  First Logon exchange; A's application sends n = da + ka messages (payloads m1 .. mn),
   then B's application sends m = db + kb (payloads m(n+1) .. m(n+m)); the first da of A's reach B and the first db of
   B's reach A; the link breaks with the last ka of A's AND the last kb of B's in flight.  Reconnect + Logon + drain:
   when both ends miss something the Logon exchange carries two gaps, both ends send a ResendRequest, each services
   the other's request while itself waiting for its own resend.  Conclusion: quiescent, both ACTIVE, next_in of each
   = next_out of the other, B's application got exactly m1 .. mn and A's exactly m(n+1) .. m(n+m), once and in order.
   For ALL da, ka, db, kb (four cases: nothing / only B / only A / both miss something).
   The sends are in block order (all of A's, then all of B's): interleaving them differently in time changes only
   which payload names each side uses (the names come from one shared counter), not the session-level behaviour;
   that general naming is not covered by the theorem. *)
Theorem C07_single_break_both : forall (da ka db kb fuel : nat),
  Z.of_nat (da + ka) + 5 <= 9223372036854775807 -> Z.of_nat (db + kb) + 5 <= 9223372036854775807 ->
  (ka + kb + 6 <= fuel)%nat ->
  let n := (da + ka)%nat in
  let m := (db + kb)%nat in
  let schedule :=
    ([AReconnect; ADeliver SB; ADeliver SA] ++ repeat (ASend SA) n ++ repeat (ASend SB) m
     ++ repeat (ADeliver SB) da ++ repeat (ADeliver SA) db) ++ [ABreak] in
  let s := settle fuel (run net0 schedule) in
  quiescent s = true
  /\ st (wa s) = ST_ACTIVE /\ st (wb s) = ST_ACTIVE
  /\ nin (wa s) = nout (wb s) /\ nin (wb s) = nout (wa s)
  /\ sa s = texts 1 n /\ gb s = map Some (texts 1 n)
  /\ sb s = texts (1 + Z.of_nat n) m /\ ga s = map Some (texts (1 + Z.of_nat n) m)
  /\ holds s = true.
Proof. exact single_break_both. Qed.
Print Assumptions C07_single_break_both.

(* computed instance: A sends 3, B sends 2; two of A's and one of B's are in flight at the break *)
Example C07_single_break_both_instance :
  let s := settle 20 (run net0 (sched_before_both 1 2 1 1 ++ [ABreak])) in
  holds s = true /\ gb s = map Some (texts 1 3) /\ ga s = map Some (texts 4 2)
  /\ nin (wa s) = nout (wb s) /\ nin (wb s) = nout (wa s).
Proof. exact both_instance. Qed.
Print Assumptions C07_single_break_both_instance.

(* BOTH APPLICATIONS HAVE SENT, THEN ANY NUMBER OF BREAKS (partial answer to "C07_single_break_both followed by
   further breaks").  A sends n = da + k + 1, then B sends m = db; ALL of B's messages have reached A, the last
   k + 1 of A's are in flight at the first break; then one further break per element of js as in
   C07_repeated_breaks.  Conclusion as in C07_single_break_both.  NOT covered by a theorem: further breaks when A
   misses messages of B as well (then both ends send a ResendRequest in every round and the journals of both ends
   end in alternating Logon / ResendRequest rows; the general-position lemmas `recovery_both_*` handle one such
   round, the step lemma and the induction over rounds for that shape are not done) - explored only. *)
Theorem C07_repeated_breaks_with_B_traffic : forall (da k db : nat) (js : list nat) (fuel : nat),
  fits (S k) js ->
  Z.of_nat (da + S k) + 5 + 2 * Z.of_nat (length js) <= 9223372036854775807 ->
  Z.of_nat db + 5 + 2 * Z.of_nat (length js) <= 9223372036854775807 ->
  (S k + 4 <= fuel)%nat ->
  let n := (da + S k)%nat in
  let m := (db + 0)%nat in
  let one_more_break (j : nat) :=
    [ADeliver SB; ADeliver SA; ADeliver SA] ++ repeat (ADeliver SB) j ++ [ABreak; AReconnect] in
  let schedule :=
    ([AReconnect; ADeliver SB; ADeliver SA] ++ repeat (ASend SA) n ++ repeat (ASend SB) m
     ++ repeat (ADeliver SB) da ++ repeat (ADeliver SA) db)
    ++ [ABreak; AReconnect] ++ flat_map one_more_break js in
  let s := drain fuel (run net0 schedule) in
  quiescent s = true
  /\ st (wa s) = ST_ACTIVE /\ st (wb s) = ST_ACTIVE
  /\ nin (wa s) = nout (wb s) /\ nin (wb s) = nout (wa s)
  /\ sa s = texts 1 n /\ gb s = map Some (texts 1 n)
  /\ sb s = texts (1 + Z.of_nat n) m /\ ga s = map Some (texts (1 + Z.of_nat n) m)
  /\ holds s = true.
Proof. exact repeated_breaks_B_traffic. Qed.
Print Assumptions C07_repeated_breaks_with_B_traffic.

Example C07_repeated_breaks_with_B_traffic_instance :
  let s := drain 20 (run net0 (sched_before_both 1 3 2 0 ++ [ABreak; AReconnect] ++ rounds [1; 0; 1]%nat)) in
  holds s = true /\ gb s = map Some (texts 1 4) /\ ga s = map Some (texts 5 2)
  /\ nin (wa s) = nout (wb s) /\ nin (wb s) = nout (wa s).
Proof. exact repeated_breaks_B_traffic_instance. Qed.
Print Assumptions C07_repeated_breaks_with_B_traffic_instance.

(* A BREAK DURING THE FIRST LOGON EXCHANGE, before the session is established: with the initiator's Logon in flight
   (i = 0: REC BRK) or with the acceptor's Logon reply in flight (i = 1: REC dB BRK; here B is already ACTIVE, A is
   not).  Part 1: reconnect + Logon + drain (`settle`, any fuel >= 8) repairs it: both ends ACTIVE, numbers agree
   (the lost Logon / Logon reply is gap-filled through a ResendRequest).  Part 2: for every n, after the cut and
   the (explicitly scheduled) repair A's application sends n messages and all of them are delivered, once and in
   order: the session is established and nothing is lost. *)
Theorem C07_logon_cut_repaired : forall (i f : nat),
  let s := settle (8 + f) (run net0 (cut_prefix i)) in
  quiescent s = true /\ st (wa s) = ST_ACTIVE /\ st (wb s) = ST_ACTIVE
  /\ nin (wa s) = nout (wb s) /\ nin (wb s) = nout (wa s) /\ holds s = true
  /\ s = run net0 (sched_logon_cut i).
Proof.
  intros i f. cbv zeta. rewrite settle_cut, logon_cut_repaired. destruct i; vm_compute; repeat split.
Qed.
Print Assumptions C07_logon_cut_repaired.

Theorem C07_logon_cut : forall (i n : nat),
  Z.of_nat n + 6 <= 9223372036854775807 ->
  let s := run net0 (sched_logon_cut i ++ repeat (ASend SA) n ++ repeat (ADeliver SB) n) in
  quiescent s = true
  /\ st (wa s) = ST_ACTIVE /\ st (wb s) = ST_ACTIVE
  /\ nin (wa s) = nout (wb s) /\ nin (wb s) = nout (wa s)
  /\ sa s = texts 1 n /\ gb s = map Some (texts 1 n) /\ sb s = [] /\ ga s = []
  /\ holds s = true.
Proof. exact logon_cut. Qed.
Print Assumptions C07_logon_cut.

(* the two cut schedules, and a computed instance (i = 1, n = 2) *)
Example C07_logon_cut_schedules :
  cut_prefix 0 = [AReconnect; ABreak] /\ cut_prefix 1 = [AReconnect; ADeliver SB; ABreak]
  /\ sched_logon_cut 0 = [AReconnect; ABreak; AReconnect; ADeliver SB; ADeliver SA; ADeliver SA; ADeliver SB]
  /\ sched_logon_cut 1 = [AReconnect; ADeliver SB; ABreak; AReconnect; ADeliver SB; ADeliver SA; ADeliver SB; ADeliver SA].
Proof. repeat split. Qed.
Print Assumptions C07_logon_cut_schedules.

Example C07_logon_cut_instance :
  let s := run net0 (sched_logon_cut 1 ++ repeat (ASend SA) 2 ++ repeat (ADeliver SB) 2) in
  holds s = true /\ gb s = map Some (texts 1 2) /\ nin (wb s) = 6 /\ nout (wa s) = 6 /\ nin (wa s) = 3 /\ nout (wb s) = 3.
Proof. exact logon_cut_instance. Qed.
Print Assumptions C07_logon_cut_instance.

(* A BREAK POINT INSIDE A SEND.  As C07_single_break (d delivered, k in flight), but the link dies while A's
   application is inside one more send_msg: the message has been journaled under its number (send_msg journals
   before it writes), write()/drain() raise, the caller sees an exception, nothing reaches the wire, both ends
   disconnect.  The send is COMMITTED (`sa` lists accepted and committed sends): after reconnect + Logon + drain
   B's application has received all d + k + 1 messages, the last one included, once and in order. *)
Theorem C07_failed_write : forall (d k fuel : nat),
  Z.of_nat (d + S k) + 3 <= 9223372036854775807 -> (S k + 4 <= fuel)%nat ->
  let schedule :=
    ([AReconnect; ADeliver SB; ADeliver SA] ++ repeat (ASend SA) (d + k) ++ repeat (ADeliver SB) d)
    ++ [ASendFail SA] in
  let s := settle fuel (run net0 schedule) in
  quiescent s = true
  /\ st (wa s) = ST_ACTIVE /\ st (wb s) = ST_ACTIVE
  /\ nin (wa s) = nout (wb s) /\ nin (wb s) = nout (wa s)
  /\ sa s = texts 1 (d + S k) /\ gb s = map Some (texts 1 (d + S k)) /\ sb s = [] /\ ga s = []
  /\ holds s = true.
Proof. exact failed_write. Qed.
Print Assumptions C07_failed_write.

Example C07_failed_write_instance :
  let s := settle 20 (run net0 ([AReconnect; ADeliver SB; ADeliver SA; ASend SA; ASend SA; ADeliver SB; ASend SA; ASendFail SA])) in
  holds s = true /\ sa s = texts 1 4 /\ gb s = map Some (texts 1 4) /\ nin (wb s) = 7 /\ nout (wa s) = 7.
Proof. exact failed_write_instance. Qed.
Print Assumptions C07_failed_write_instance.

(* ANY NUMBER OF BREAKS of the following kind.  A sends n = d + k + 1 messages, d reach B, the link breaks with
   the last k + 1 in flight.  Then, for every j in the list js (one more break per element): reconnect + Logon,
   B answers (Logon reply + ResendRequest), A takes the reply and services the request (retransmissions + gap
   fill), j of the retransmissions still missing reach B, and the link breaks AGAIN with the remaining
   retransmissions and the gap fill in flight (`fits`: j never exceeds what is still missing).  After the last
   break: reconnect + Logon + drain.  Conclusion as in C07_single_break: nothing lost, duplicated or reordered,
   both ACTIVE, numbers agree.  Unbounded in d, k, the number of breaks and every j (induction on js; the model
   is the code WITH the D12 repair - before it this family lost messages from the second break on).
   Breaks at other moments of the recovery, and with traffic of B in flight, are explored only. *)
Theorem C07_repeated_breaks : forall (d k : nat) (js : list nat) (fuel : nat),
  fits (S k) js ->
  Z.of_nat (d + S k) + 5 + 2 * Z.of_nat (length js) <= 9223372036854775807 -> (S k + 4 <= fuel)%nat ->
  let one_more_break (j : nat) :=
    [ADeliver SB; ADeliver SA; ADeliver SA] ++ repeat (ADeliver SB) j ++ [ABreak; AReconnect] in
  let schedule :=
    ([AReconnect; ADeliver SB; ADeliver SA] ++ repeat (ASend SA) (d + S k) ++ repeat (ADeliver SB) d)
    ++ [ABreak; AReconnect] ++ flat_map one_more_break js in
  let s := drain fuel (run net0 schedule) in
  quiescent s = true
  /\ st (wa s) = ST_ACTIVE /\ st (wb s) = ST_ACTIVE
  /\ nin (wa s) = nout (wb s) /\ nin (wb s) = nout (wa s)
  /\ sa s = texts 1 (d + S k) /\ gb s = map Some (texts 1 (d + S k)) /\ sb s = [] /\ ga s = []
  /\ holds s = true.
Proof. exact repeated_breaks. Qed.
Print Assumptions C07_repeated_breaks.

(* `fits k js`: each j of js is at most what is still missing (k minus the earlier ones) *)
Example C07_fits : fits 4 [1; 0; 2]%nat /\ ~ fits 2 [1; 2]%nat.
Proof. cbn. split; [repeat split; auto with arith | intros [_ [H _]]; inversion H as [|? H1]; inversion H1]. Qed.
Print Assumptions C07_fits.

(* computed instance (non-vacuity): n = 5, four in flight, then three more breaks after 1, 0 and 2 retransmissions *)
Example C07_repeated_breaks_instance :
  let s := drain 20 (run net0 (sched_before 1 4 ++ [ABreak; AReconnect] ++ rounds [1; 0; 2]%nat)) in
  holds s = true /\ gb s = map Some (texts 1 5) /\ nin (wb s) = 11 /\ nout (wa s) = 11 /\ nin (wa s) = 10 /\ nout (wb s) = 10.
Proof. exact repeated_breaks_instance. Qed.
Print Assumptions C07_repeated_breaks_instance.

(* `texts 1 n` is the list of the payload texts "m1" .. "mn" *)
Example C07_texts : texts 1 3 = [payload 1; payload 2; payload 3] /\ payload 17 = [109; 49; 55]%N.
Proof. split; reflexivity. Qed.
Print Assumptions C07_texts.

(* D13 (repaired by the D12 fix: _process_resend no longer rewrites the journal).  Second break while the
   replies to the ResendRequest (the retransmission with PossDupFlag and the gap fill) are in flight: after the
   final reconnect + Logon + quiescence m1 HAS been delivered, both ends are ACTIVE, B expects 5 = A's next.
   (sched_double_break = REC dB dA sA BRK REC dB dA dA BRK; before the repair: A stuck in RESENDREQ_HANDLING
   with next_num_out rewound, B stuck in RESENDREQ_AWAITING, m1 lost.) *)
Example C07_double_break_recovers :
  let before := run net0 (firstn 9 sched_double_break) in
  let n := settle 80 (run net0 sched_double_break) in
  reply_in_flight before = true
  /\ sa n = [payload 1] /\ gb n = [Some (payload 1)] /\ quiescent n = true /\ holds n = true
  /\ st (wa n) = ST_ACTIVE /\ st (wb n) = ST_ACTIVE /\ nout (wa n) = 5 /\ nin (wb n) = 5.
Proof. exact double_break_recovers. Qed.
Print Assumptions C07_double_break_recovers.

(* The former silent loss: a gap fill is lost, an application message is sent behind it and lost too.
   (sched_gap_fill_lost = REC BRK REC dB dA dA sA BRK; before the repair: both ACTIVE, numbers matching,
   m1 never delivered.) *)
Example C07_gap_fill_lost_recovers :
  let before := run net0 (firstn 7 sched_gap_fill_lost) in
  let n := settle 80 (run net0 sched_gap_fill_lost) in
  reply_in_flight before = true
  /\ sa n = [payload 1] /\ gb n = [Some (payload 1)] /\ quiescent n = true /\ holds n = true
  /\ st (wa n) = ST_ACTIVE /\ st (wb n) = ST_ACTIVE
  /\ nin (wa n) = nout (wb n) /\ nin (wb n) = nout (wa n).
Proof. exact gap_fill_lost_recovers. Qed.
Print Assumptions C07_gap_fill_lost_recovers.

(* non-vacuity, by computation in the kernel: n = 3, k = 2 (numbers after recovery: B expects 6 = A's next) *)
Example C07_family_instance :
  let n := settle 10 (run net0 (sched_before 1 2 ++ [ABreak])) in
  holds n = true /\ gb n = [Some (payload 1); Some (payload 2); Some (payload 3)]
  /\ nin (wb n) = 6 /\ nout (wa n) = 6 /\ nin (wa n) = 4 /\ nout (wb n) = 4.
Proof. exact family_instance. Qed.
Print Assumptions C07_family_instance.

(* computed instances of the mirror direction and of both directions in flight at the break
   (bounded instances: the general statements for these are explored by the harness, not proved) *)
Example C07_instance_B_to_A :
  holds (settle 20 (run net0 [AReconnect; ADeliver SB; ADeliver SA; ASend SB; ASend SB; ADeliver SA; ABreak])) = true.
Proof. exact instance_B_to_A. Qed.
Print Assumptions C07_instance_B_to_A.

Example C07_instance_both_directions :
  holds (settle 20 (run net0 [AReconnect; ADeliver SB; ADeliver SA; ASend SA; ASend SB; ASend SA; ABreak])) = true.
Proof. exact instance_both_directions. Qed.
Print Assumptions C07_instance_both_directions.

(* the state / role numbers, the application message type and sys.maxsize used by Net.v are the code's *)
Example C07_constants_tied : net_constants_ok = true.
Proof. exact net_constants_tied. Qed.
Print Assumptions C07_constants_tied.
