(* Model of the dictionary parse of asyncfix/protocol/schema.py: FIXSchema._parse,
   _parse_field, _parse_header, _parse_component, _parse_group, _parse_msg_set, _parse_message,
   SchemaSet.add / merge (C15, clause "the outcome does not depend on the order in which components
   are declared").  No proofs here.

   Input [raw]: what xml.etree gives for the <fields>, <header>, <components>, <messages> children,
   read directly from the XML (translator/gen_schema.py: raw_of_root), names replaced by codes:
     field names     -> index in the sorted list of distinct field names (as in Fix/SchemaModel)
     component names -> index in order of first appearance (declared or merely referenced)
     message names   -> index in order of first appearance
   and [r_groupable] = the name codes of the fields SchemaSet.__init__ accepts as group fields
   (tabulated by calling the real constructor).
   Output: the [schema] of Fix/SchemaModel.v, i.e. what translator/gen_schema.py dumps from the
   parsed objects; Props/C15.v checks parse raw = that dump for both dictionaries.

   Python objects rendered:
     SchemaSet.members / .required   ordered [list member]; `add` appends
     `assert field not in self.members` (dict lookup by name: a same-named field OR group member
                                      is a hit)  -> PAssertion
     a GROUP added while a same-named member is present: Python keeps both (two SchemaGroup objects
       are never ==, and a SchemaField key is never == a group); the [list member] rendering has no
       object identity, so this case is OUTSIDE the model -> PUnsupported (never met by the two
       dictionaries; the harness skips such synthetic inputs)
     self._components                assoc list [cmap], appended on success
     header parsed before any component exists: a component reference leaves self._header = None
       (no exception) -> reported at the end as PHeaderNone
   Exceptions: PAssertion (duplicate member / duplicate component or message name / message with an
   unresolved reference), PRuntime (a pass parses nothing: circular or undeclared reference),
   PKeyError (unknown field name), PValueError (group field refused by SchemaSet.__init__). *)
From Coq Require Import ZArith NArith List Bool.
From AF Require Import Base.Sx Py.Str Fix.SchemaModel.
Import ListNotations.
Local Open Scope nat_scope.

Inductive rchild :=
| RField (n : N) (req : bool)                         (* <field name= required=/> *)
| RComp (c : N)                                        (* <component name=/> reference *)
| RGroup (n : N) (req : bool) (ch : list rchild).      (* <group name= required=> children *)

Definition rcomp : Type := N * list rchild.            (* <component name=> children *)
Definition rmsg : Type := N * str * list rchild.       (* <message name= msgtype=> children *)

Record raw := mkRaw {
  r_fields : list field;        (* <fields> children in XML order *)
  r_groupable : list N;
  r_header : list rchild;
  r_comps : list rcomp;
  r_msgs : list rmsg
}.

Inductive perr := PAssertion | PRuntime | PKeyError | PValueError | PHeaderNone | PUnsupported.

Definition cmap : Type := list (N * list member).
Definition lookup (cm : cmap) (n : N) : option (list member) :=
  option_map snd (find (fun p => N.eqb (fst p) n) cm).
Definition has_key (cm : cmap) (n : N) : bool := existsb (fun p => N.eqb (fst p) n) cm.

(* dict[k] = v : overwrite in place, else append *)
Fixpoint dict_set {K V : Type} (eqb : K -> K -> bool) (k : K) (v : V) (d : list (K * V)) : list (K * V) :=
  match d with
  | [] => [(k, v)]
  | (k', v') :: r => if eqb k' k then (k', v) :: r else (k', v') :: dict_set eqb k v r
  end.

(* _tag2field: fields keyed by tag, a later definition of a tag replaces the earlier one in place *)
Fixpoint tag2field_set (f : field) (d : list field) : list field :=
  match d with
  | [] => [f]
  | g :: r => if str_eqb (f_tag g) (f_tag f) then f :: r else g :: tag2field_set f r
  end.
Definition tag2field_of (fs : list field) : list field :=
  fold_left (fun d f => tag2field_set f d) fs [].

Definition member_name (m : member) : N := f_name (mfield m).
Definition has_name (n : N) (ms : list member) : bool := existsb (fun m => N.eqb (member_name m) n) ms.

(* SchemaSet.add *)
Definition add (m : member) (acc : list member) : perr + list member :=
  if has_name (member_name m) acc
  then inl (match m with MField _ _ => PAssertion | MGroup _ _ _ => PUnsupported end)
  else inr (acc ++ [m]).

(* SchemaSet.merge *)
Fixpoint merge (ms acc : list member) : perr + list member :=
  match ms with
  | [] => inr acc
  | m :: r => match add m acc with inl e => inl e | inr acc' => merge r acc' end
  end.

Section Parse.
  Variable flds : list field.       (* r_fields *)
  Variable groupable : list N.

  (* self._field2tag[name]: the last <field> with that name *)
  Fixpoint find_last (n : N) (l : list field) (cur : option field) : option field :=
    match l with
    | [] => cur
    | f :: r => find_last n r (if N.eqb (f_name f) n then Some f else cur)
    end.
  Definition field_by_name (n : N) : option field := find_last n flds None.

  Section Children.
    Variable L : N -> option (list member).     (* self._components, as a lookup *)

    (* the loop of _parse_msg_set over a child list; state = (members so far, has_circular_refs) *)
    Section Loop.
      Variable pc : rchild -> list member -> bool -> perr + (list member * bool).
      Fixpoint children_loop (ch : list rchild) (acc : list member) (d : bool) : perr + (list member * bool) :=
        match ch with
        | [] => inr (acc, d)
        | c :: r => match pc c acc d with
                    | inl e => inl e
                    | inr (acc', d') => children_loop r acc' d'
                    end
        end.
    End Loop.

    Fixpoint parse_child (c : rchild) (acc : list member) (d : bool) {struct c} : perr + (list member * bool) :=
      match c with
      | RField n r =>
          match field_by_name n with
          | None => inl PKeyError
          | Some f => match add (MField f r) acc with inl e => inl e | inr a => inr (a, d) end
          end
      | RComp cn =>
          match L cn with
          | None => inr (acc, true)                      (* referenced before parsed: skip, rerun later *)
          | Some ms => match merge ms acc with inl e => inl e | inr a => inr (a, d) end
          end
      | RGroup n r ch =>
          match field_by_name n with
          | None => inl PKeyError
          | Some f =>
              if negb (existsb (N.eqb (f_name f)) groupable) then inl PValueError
              else match children_loop parse_child ch [] false with
                   | inl e => inl e
                   | inr (_, true) => inr (acc, true)    (* _parse_group returned None *)
                   | inr (gms, false) =>
                       match add (MGroup f r gms) acc with inl e => inl e | inr a => inr (a, d) end
                   end
          end
      end.

    Definition parse_children := children_loop parse_child.
  End Children.

  (* _parse_component on one declaration, given the components parsed so far *)
  Inductive attempt_res := AParsed (ms : list member) | ADefer | AErr (e : perr).
  Definition attempt (cm : cmap) (c : rcomp) : attempt_res :=
    if has_key cm (fst c) then AErr PAssertion            (* "Duplicate component name or double run" *)
    else match parse_children (lookup cm) (snd c) [] false with
         | inl e => AErr e
         | inr (_, true) => ADefer
         | inr (ms, false) => AParsed ms
         end.

  (* one pass `while i < len(all_components)` : parsed ones leave the list at once *)
  Fixpoint sweep (cm : cmap) (pending : list rcomp) : perr + (cmap * list rcomp) :=
    match pending with
    | [] => inr (cm, [])
    | c :: r =>
        match attempt cm c with
        | AErr e => inl e
        | AParsed ms => sweep (cm ++ [(fst c, ms)]) r
        | ADefer => match sweep cm r with
                    | inl e => inl e
                    | inr (cm', rest) => inr (cm', c :: rest)
                    end
        end
    end.

  (* `while all_components:` ; RuntimeError when a pass leaves the list as long as it was.
     fuel = number of declarations (never exhausted, Lemmas/SchemaParseL.resolve_fuel) *)
  Fixpoint resolve (fuel : nat) (cm : cmap) (pending : list rcomp) : perr + cmap :=
    match pending with
    | [] => inr cm
    | _ :: _ =>
        match fuel with
        | O => inl PRuntime
        | S fuel' =>
            match sweep cm pending with
            | inl e => inl e
            | inr (cm', rest) =>
                match rest with
                | [] => inr cm'
                | _ :: _ => if Nat.eqb (length rest) (length pending) then inl PRuntime
                            else resolve fuel' cm' rest
                end
            end
        end
    end.

  (* _parse_message for each <message>; self._messages keyed by name (assert), _messages_types by type *)
  Fixpoint parse_messages (L : N -> option (list member)) (msgs : list rmsg) (seen : list N)
           (acc : list (str * list member)) : perr + list (str * list member) :=
    match msgs with
    | [] => inr acc
    | (nm, mt, ch) :: r =>
        if existsb (N.eqb nm) seen then inl PAssertion
        else match parse_children L ch [] false with
             | inl e => inl e
             | inr (_, true) => inl PAssertion              (* assert message, "... circular refs" *)
             | inr (ms, false) => parse_messages L r (nm :: seen) (dict_set str_eqb mt ms acc)
             end
    end.
End Parse.

(* FIXSchema._parse: fields, header (no component exists yet), components, messages *)
Definition parse_with (r : raw) (comps : list rcomp) : perr + schema :=
  let flds := r_fields r in
  let grp := r_groupable r in
  match parse_children flds grp (fun _ => None) (r_header r) [] false with
  | inl e => inl e
  | inr (hms, hd) =>
      match resolve flds grp (length comps) [] comps with
      | inl e => inl e
      | inr cm =>
          match parse_messages flds grp (lookup cm) (r_msgs r) [] [] with
          | inl e => inl e
          | inr msgs => if hd then inl PHeaderNone else inr (mkSchema (tag2field_of flds) hms msgs)
          end
      end
  end.

Definition parse (r : raw) : perr + schema := parse_with r (r_comps r).

(* the component table alone (what every message's member list is computed from) *)
Definition components_of (r : raw) (comps : list rcomp) : perr + cmap :=
  resolve (r_fields r) (r_groupable r) (length comps) [] comps.

(* ---- structural equality of schemas (boolean), for the runner and the instance checks ---- *)
Fixpoint member_eqb (a b : member) {struct a} : bool :=
  match a, b with
  | MField f r, MField g s => field_eqb f g && Bool.eqb r s
  | MGroup f r ms, MGroup g s ns =>
      field_eqb f g && Bool.eqb r s &&
      (fix go (l1 l2 : list member) : bool :=
         match l1, l2 with
         | [], [] => true
         | x :: l1', y :: l2' => member_eqb x y && go l1' l2'
         | _, _ => false
         end) ms ns
  | _, _ => false
  end.

Fixpoint list_eqb {A : Type} (eqb : A -> A -> bool) (l1 l2 : list A) : bool :=
  match l1, l2 with
  | [], [] => true
  | x :: l1', y :: l2' => eqb x y && list_eqb eqb l1' l2'
  | _, _ => false
  end.

Definition schema_eqb (a b : schema) : bool :=
  list_eqb field_eqb (s_fields a) (s_fields b)
  && list_eqb member_eqb (s_header a) (s_header b)
  && list_eqb (fun p q => str_eqb (fst p) (fst q) && list_eqb member_eqb (snd p) (snd q))
              (s_messages a) (s_messages b).
