(* Sx front end of the counter-ledger model (C09).

   request   [role, ops1, [[k, ops2], ...]]
       role   1 = AsyncFIXClient (initiator), 2 = AsyncFIXDummyServer (acceptor)
       op     [0] connect | [1, type, seq, pd, a, b] inbound frame | [2, type, seq, pd, a, b] send_msg
              | [3, with_logout] disconnect | [4] restart at this quiescent point
              | [5, type, seq, pd, a, b, d] send_msg over a transport that raises in write() (d = 0) / in drain() after the write (d = 1)
       k      number of effects (write / drain / SQL statement / commit) of the LAST incarnation of ops1
              after which the process dies; -1 = graceful stop after ops1
   answer    [steps1, effect log of the last incarnation, [[restored nin, restored nout], steps2, new wire] ...]
       step   [exception escaping the operation (0 none), state, nin, nout, stored in, stored out,
               effects so far in this incarnation, numbers delivered to on_message]              *)
From Coq Require Import ZArith NArith List Bool.
From AF Require Import Base.Sx Fix.Restart.
Import ListNotations.
Open Scope Z_scope.

Definition mtype_code (t : mtype) : Z :=
  match t with TApp => 0 | THb => 1 | TTest => 2 | TResend => 3 | TSeqReset => 4 | TLogon => 5 | TLogout => 6 end.
Definition mtype_of (z : Z) : option mtype :=
  match z with
  | 0 => Some TApp | 1 => Some THb | 2 => Some TTest | 3 => Some TResend | 4 => Some TSeqReset
  | 5 => Some TLogon | 6 => Some TLogout | _ => None
  end.

(* ConnectionState numbers; 0 = any of the three disconnected states *)
Definition st_code (s : cstate) : Z :=
  match s with
  | Disc => 0 | NCE => 6 | LogonSent => 7 | LogonRecv => 8 | Handling => 10 | TooHigh => 11
  | Awaiting => 12 | Active => 17
  end.

Definition exc_code (e : option exc) : Z :=
  match e with None => 0 | Some XConn => 1 | Some XDup => 2 | Some XAssert => 3 | Some XDupTag => 4 | Some XIO => 5 end.

Definition sx_frame (f : frame) : sx :=
  SL [SI (mtype_code (f_type f)); SI (f_seq f); sx_of_bool (f_pd f); SI (f_a f); SI (f_b f)].

Definition prim_code (p : jprim) : Z :=
  match p with
  | PInsIn _ => 10 | PInsOut _ => 11 | PUpdIn _ => 12 | PUpdOut _ => 13 | PUpdBoth _ _ => 14
  | PDelIn _ => 15 | PDelOut _ => 16 | PCommit => 17
  end.

Definition sx_effect (e : effect) : sx :=
  match e with
  | EWrite f => sx_frame f
  | EDrain => SI 1
  | EStmt p => SI (prim_code p)
  end.

Definition get_frame (t s pd a b : sx) : option frame :=
  match t, s, get_bool pd, a, b with
  | SI t, SI s, Some pd, SI a, SI b => option_map (fun t => mkF t s pd a b) (mtype_of t)
  | _, _, _, _, _ => None
  end.

Definition get_op (s : sx) : option op :=
  match s with
  | SL [SI 0] => Some OConnect
  | SL [SI 1; t; n; pd; a; b] => option_map OIn (get_frame t n pd a b)
  | SL [SI 2; t; n; pd; a; b] => option_map OSend (get_frame t n pd a b)
  | SL [SI 3; b] => option_map ODisc (get_bool b)
  | SL [SI 4] => Some ORestart
  | SL [SI 5; t; n; pd; a; b; d] =>
      match get_frame t n pd a b, get_bool d with
      | Some m, Some d => Some (OSendFault d m)
      | _, _ => None
      end
  | _ => None
  end.

Definition sx_step (e : option exc) (w : world) : sx :=
  SL [SI (exc_code e); SI (st_code (st w)); SI (nin w); SI (nout w); SI (sin (jt w)); SI (sout (jt w));
      sx_of_nat (length (log w)); sx_of_list SI (dlv w)].

Definition exc_of {A} (r : A + exc) : option exc := match r with inl _ => None | inr e => Some e end.

Fixpoint run_steps (w : world) (ops : list op) : world * list sx :=
  match ops with
  | [] => (w, [])
  | o :: ops' =>
      let (r, w') := step o w in
      let (w'', l) := run_steps w' ops' in
      (w'', sx_step (exc_of r) w' :: l)
  end.

Definition get_point (s : sx) : option (Z * list op) :=
  match s with
  | SL [SI k; ops] => option_map (fun ops => (k, ops)) (get_list get_op ops)
  | _ => None
  end.

Definition point (w : world) (p : Z * list op) : sx :=
  let (k, ops2) := p in
  let w' := if k <? 0 then restart w else crash_at (Z.to_nat k) w in
  let (w2, steps2) := run_steps w' ops2 in
  SL [SL [SI (nin w'); SI (nout w')]; SL steps2; sx_of_list sx_frame (writes (log w2))].

Definition run (req : sx) : sx :=
  match req with
  | SL [SI r; ops1; pts] =>
      match get_list get_op ops1, get_list get_point pts with
      | Some ops1, Some pts =>
          let role := if r =? 1 then Initiator else Acceptor in
          let (w, steps1) := run_steps (fresh role) ops1 in
          SL [SL steps1; sx_of_list sx_effect (log w); SL (map (point w) pts)]
      | _, _ => err_sx 1
      end
  | _ => err_sx 2
  end.

Definition entry (line : str) : str := run_line run line.
