#!/bin/bash
# Development tool (not part of MANIFEST): run one property check against a scratch worktree of /repo
# with a patch applied.   usage: selftest/mutant.sh <Cxx> <patch.diff> [demo.py] [--tests]
set -u
PID=$1; PATCH=$2; DEMO=${3:-}; 
WT=$(mktemp -d /tmp/mt_XXXXXX); rmdir "$WT"
git -C /repo worktree add --detach "$WT" HEAD >/dev/null 2>&1 || { echo "worktree failed"; exit 2; }
cleanup() { git -C /repo worktree remove --force "$WT" >/dev/null 2>&1; rm -rf "$WT"; }
trap cleanup EXIT
if [ -n "$DEMO" ] && [ -f "$DEMO" ]; then
  timeout 60 /venv/bin/python "$DEMO" "$WT" >/dev/null 2>&1; echo "demo on HEAD: exit $?"
fi
git -C "$WT" apply "$PATCH" || { echo "patch does not apply"; exit 2; }
if [[ " $* " == *" --tests "* ]]; then
  (cd "$WT" && timeout 900 /venv/bin/python -m pytest -q -p no:cacheprovider --timeout=900 2>&1 | tail -1)
fi
if [ -n "$DEMO" ] && [ -f "$DEMO" ]; then
  timeout 60 /venv/bin/python "$DEMO" "$WT" >/dev/null 2>&1; echo "demo with patch: exit $?"
fi
cd /verif && VERIF_REPO="$WT" timeout 1800 ./run "$PID" quick 2>&1 | grep -v "^KNOWN-FINDING" | tail -3
echo "check exit: ${PIPESTATUS[0]}"
