(* Sx front end of the order / exchange models (C17).

   request  [0, legacy, init, [action ...]]   walk of the product system
            [1, legacy, init, [op ...]]       operations on the order object alone
            [2, text]                         clord_root(text)
   init   = [root, ticker, side, price, qty, ordtype, account, [target]?, order_id]
   action = [0] new_req | [1] cancel_req | [2,[px]?,[qty]?] replace_req | [3] deliver oldest report
          | [4] exchange receives oldest request
          | [10] pending-new [11] ack [12] reject-new [13,f,avg] fill [14] pending-cancel/replace
            [15] cancelled [16] replaced [17] cancel-reject [18] unsolicited cancel [19] expire
            [20] suspend [21] resume
   op     = [0] | [1] | [2,..] as above | [5, report] process_execution_report
          | [6, report] process_cancel_rej_report
   report = [0, clid, [orig]?, order_id, exec_type, status, cum, leaves, avg, [px]?, [qty]?]
          | [1, clid, orig, status]
   answer: one entry per action:  [observation, order, exchange]  (exchange omitted for mode 1) *)
From Coq Require Import ZArith NArith List Bool.
From AF Require Import Base.Sx Py.Str Fix.OrderStatus Fix.Order Fix.Exchange.
Import ListNotations.
Open Scope N_scope.

Definition sx_z (z : Z) : sx := SI z.
Definition sx_exn (e : exn) : sx :=
  SI (match e with EFIXError => 1 | EAssertion => 2 | EValueError => 3 | EAttribute => 4 end)%Z.

Definition sx_order (o : order) : sx :=
  SL [sx_of_str (o_clord o); sx_of_opt sx_of_str (o_orig o); sx_of_opt sx_of_str (o_order_id o);
      sx_of_str (o_ticker o); sx_of_str (o_side o); SI (o_price o); SI (o_qty o); SI (o_leaves o);
      SI (o_cum o); sx_of_opt sx_z (o_avg o); sx_of_str (o_ordtype o); sx_of_str (o_account o);
      sx_of_N (o_cnt o); sx_of_N (o_status o); sx_of_bool (o_senum o); SI (o_target o);
      sx_of_bool (can_cancel o); sx_of_bool (can_replace o); sx_of_bool (is_finished o)].

(* the request message: (tag, text) or (tag, number) pairs sorted by tag; TransactTime (60) omitted *)
Definition tag_s (t : Z) (s : str) : sx := SL [SI t; SI 0; sx_of_str s].
Definition tag_n (t : Z) (z : Z) : sx := SL [SI t; SI 1; SI z].
Definition sx_req (o : order) (r : req) : sx :=
  match r with
  | RNew id px qty =>
      SL [SI 0; SL [tag_s 1 (o_account o); tag_s 11 id; tag_n 38 qty; tag_s 40 (o_ordtype o);
                    tag_n 44 px; tag_s 54 (o_side o); tag_s 55 (o_ticker o)]]
  | RCancel id orig qty =>
      SL [SI 1; SL [tag_s 11 id; tag_n 38 qty; tag_s 41 orig; tag_s 54 (o_side o); tag_s 55 (o_ticker o)]]
  | RReplace id orig px qty =>
      SL [SI 2; SL [tag_s 11 id; tag_n 38 qty; tag_s 40 (o_ordtype o); tag_s 41 orig; tag_n 44 px;
                    tag_s 54 (o_side o); tag_s 55 (o_ticker o)]]
  end.

Definition sx_rep (r : rep) : sx :=
  match r with
  | RExec e =>
      SL [SI 0; sx_of_str (e_clid e); sx_of_opt sx_of_str (e_orig e); sx_of_str (e_oid e);
          sx_of_N (e_ex e); sx_of_N (e_st e); SI (e_cum e); SI (e_leaves e); SI (e_avg e);
          sx_of_opt sx_z (e_px e); sx_of_opt sx_z (e_qty e)]
  | RRej clid orig st => SL [SI 1; sx_of_str clid; sx_of_str orig; sx_of_N st]
  end.

Definition sx_exch (x : exch) : sx :=
  SL [sx_of_N (x_base x); sx_of_str (x_clord x); SI (x_price x); SI (x_qty x); SI (x_cum x);
      SI (x_leaves x); SI (x_avg x);
      sx_of_opt (fun p => SL [SI (match p_kind p with PCancel => 0 | PReplace => 1 end)%Z;
                              sx_of_str (p_clid p); sx_of_str (p_orig p); SI (p_px p); SI (p_qty p)])
                (x_pend x);
      sx_of_N (x_nrep x); sx_of_N (x_status x)].

Definition sx_res {A} (f : A -> sx) (r : res A) : sx :=
  match r with Ok a => SL [SI 0; f a] | Exc e => SL [SI 1; sx_exn e] end.

(* ---------- parsing *)
Definition bind {A B} (o : option A) (f : A -> option B) : option B :=
  match o with Some a => f a | None => None end.

Definition get_rep (s : sx) : option rep :=
  match s with
  | SL [SI 0%Z; clid; orig; oid; ex; st; SI cum; SI leaves; SI avg; px; qty] =>
      bind (get_str clid) (fun clid =>
      bind (get_opt get_str orig) (fun orig =>
      bind (get_str oid) (fun oid =>
      bind (get_N ex) (fun ex =>
      bind (get_N st) (fun st =>
      bind (get_opt get_z px) (fun px =>
      bind (get_opt get_z qty) (fun qty =>
      Some (RExec (mkE clid orig oid ex st cum leaves avg px qty)))))))))
  | SL [SI 1%Z; clid; orig; st] =>
      bind (get_str clid) (fun clid =>
      bind (get_str orig) (fun orig =>
      bind (get_N st) (fun st => Some (RRej clid orig st))))
  | _ => None
  end.

Inductive op := OAct (a : act) | OExec (r : rep) | ORej (r : rep).

Definition get_op (s : sx) : option op :=
  match s with
  | SL [SI 0%Z] => Some (OAct ANew)
  | SL [SI 1%Z] => Some (OAct ACancel)
  | SL [SI 2%Z; px; qty] =>
      bind (get_opt get_z px) (fun px => bind (get_opt get_z qty) (fun qty => Some (OAct (AReplace px qty))))
  | SL [SI 3%Z] => Some (OAct ADeliver)
  | SL [SI 4%Z] => Some (OAct XRecv)
  | SL [SI 5%Z; r] => bind (get_rep r) (fun r => Some (OExec r))
  | SL [SI 6%Z; r] => bind (get_rep r) (fun r => Some (ORej r))
  | SL [SI 10%Z] => Some (OAct (XDo XPendNew))
  | SL [SI 11%Z] => Some (OAct (XDo XAck))
  | SL [SI 12%Z] => Some (OAct (XDo XRejNew))
  | SL [SI 13%Z; SI f; SI avg] => Some (OAct (XDo (XFill f avg)))
  | SL [SI 14%Z] => Some (OAct (XDo XPendAck))
  | SL [SI 15%Z] => Some (OAct (XDo XAcceptCxl))
  | SL [SI 16%Z] => Some (OAct (XDo XAcceptRpl))
  | SL [SI 17%Z] => Some (OAct (XDo XRejReq))
  | SL [SI 18%Z] => Some (OAct (XDo XCancelUnsol))
  | SL [SI 19%Z] => Some (OAct (XDo XExpire))
  | SL [SI 20%Z] => Some (OAct (XDo XSuspend))
  | SL [SI 21%Z] => Some (OAct (XDo XResume))
  | _ => None
  end.

Definition get_init (s : sx) : option (res order * str) :=
  match s with
  | SL [root; ticker; side; SI price; SI qty; ordtype; account; target; oid] =>
      bind (get_str root) (fun root =>
      bind (get_str ticker) (fun ticker =>
      bind (get_str side) (fun side =>
      bind (get_str ordtype) (fun ordtype =>
      bind (get_str account) (fun account =>
      bind (get_opt get_z target) (fun target =>
      bind (get_str oid) (fun oid =>
      Some (init_order root ticker side price qty ordtype account target, oid))))))))
  | _ => None
  end.

(* ---------- observations *)
Definition obs_build (ob : order * res req) : sx := sx_res (sx_req (fst ob)) (snd ob).

Definition observe (legacy : bool) (s : sys) (a : act) : sx :=
  match a with
  | ANew => obs_build (new_req (s_o s))
  | ACancel => obs_build (cancel_req (s_o s))
  | AReplace px qty => obs_build (replace_req (s_o s) px qty)
  | ADeliver =>
      match s_x2c s with
      | [] => SL []
      | r :: _ => SL [sx_rep r; sx_res sx_of_bool (snd (process_report legacy (s_o s) r))]
      end
  | XRecv => match s_c2x s with [] => SL [] | r :: _ => SL [sx_req (s_o s) r] end
  | XDo a => match xstep (s_x s) a with Some (_, r) => SL [sx_rep r] | None => SL [] end
  end.

Fixpoint walk (legacy : bool) (s : sys) (ops : list op) : list sx :=
  match ops with
  | [] => []
  | OAct a :: ops' =>
      let s' := step legacy s a in
      SL [observe legacy s a; sx_order (s_o s'); sx_exch (s_x s');
          sx_of_nat (length (s_c2x s')); sx_of_nat (length (s_x2c s')); sx_of_bool (bad_step s a)]
      :: walk legacy s' ops'
  | _ :: ops' => SL [SI (-2)%Z] :: walk legacy s ops'
  end.

Fixpoint solo (legacy : bool) (o : order) (ops : list op) : list sx :=
  match ops with
  | [] => []
  | p :: ops' =>
      let '(o', obs) :=
        match p with
        | OAct ANew => let ob := new_req o in (fst ob, obs_build ob)
        | OAct ACancel => let ob := cancel_req o in (fst ob, obs_build ob)
        | OAct (AReplace px qty) => let ob := replace_req o px qty in (fst ob, obs_build ob)
        | OExec r => let ob := process_execution_report o r in (fst ob, sx_res sx_of_bool (snd ob))
        | ORej r => let ob := process_cancel_rej_report legacy o r in (fst ob, sx_res sx_of_bool (snd ob))
        | _ => (o, SI (-2)%Z)
        end in
      SL [obs; sx_order o'] :: solo legacy o' ops'
  end.

Definition run (s : sx) : sx :=
  match s with
  | SL [SI 2%Z; t] =>
      match get_str t with Some t => sx_of_str (clord_root t) | None => err_sx 1 end
  | SL [SI mode; legacy; init; ops] =>
      match get_bool legacy, get_init init, get_list get_op ops with
      | Some legacy, Some (Ok o, oid), Some ops =>
          if (mode =? 0)%Z then SL (walk legacy (init_sys o oid) ops)
          else if (mode =? 1)%Z then SL (solo legacy o ops)
          else err_sx 2
      | Some _, Some (Exc e, _), Some _ => SL [SI (-3)%Z; sx_exn e]
      | _, _, _ => err_sx 1
      end
  | _ => err_sx 1
  end.

Definition entry (line : str) : str := run_line run line.
