"""C16 - order status transition function: total, closed, lifecycle-safe.

Deciding method: the complete graph of the real change_status is regenerated into
coq/gen/GenChangeStatus.v on every run and the laws are proved over it inside the kernel
(Props/C16.v).  This harness (a) re-evaluates the same laws directly on the implementation as
the property oracle, so that a broken theorem comes with the failing cell, (b) checks the glue the
tabulation relies on (enum members vs plain strings give the same cell), (c) compares the graph
with an independently written reference table (informational)."""
import itertools
import json

META = {
    "level": "proof",
    "needs_model": False,
    "tables": ["GenChangeStatus", "GenEnums"],
    "files": ["asyncfix/protocol/order_single.py", "asyncfix/protocol/common.py"],
    "rule": "every cell (status x kind x exec type x reported status x error mode) of the finite domain is "
            "evaluated on the implementation; a cell is non-trivial when its kind is supported and the status is an enum member; "
            "distinct = distinct (status,kind,exec,reported,mode) tuples",
    "trusted_base": ["translator/gen_change_status.py evaluates FIXNewOrderSingle.change_status on the whole domain "
                     "(assumes it is deterministic and side-effect free)"],
    "assumptions": ["statuses, kinds and exec types are passed as enum members (and, checked here, equivalently as their string values)"],
}

FIN = {"2", "4", "8", "C"}
REQ_OK = {"0", "1", "9"}
REQ_PENDING = {"6", "E"}


def val(x):
    return 0 if (isinstance(x, int) and x == 0) else (x.value if hasattr(x, "value") else x)


def laws(st, kind, ex, ms, r_raise, r_soft):
    """Returns the list of violated law names for one cell (results are codes 0/1/2/3/4)."""
    bad = []
    if r_raise not in (0, 1, 2) or r_soft not in (0, 1) or r_soft != (0 if r_raise == 2 else r_raise):
        bad.append("closed")
    if st in FIN and (r_raise == 1 or r_soft == 1):
        bad.append("absorbing")
    report = kind in ("8", "9")
    if report and ms == "Z" and r_raise == 1:
        bad.append("no_created")
    if report and ms == "A" and st not in ("Z", "A") and r_raise == 1:
        bad.append("no_pending_new")
    if report and st == "Z" and r_raise == 1 and ms not in ("A", "8"):
        bad.append("created_accepts")
    if kind in ("F", "G"):
        want = 1 if st in REQ_OK else (0 if st in REQ_PENDING else 2)
        if r_raise != want:
            bad.append("requests")
    return bad


def classify(st, kind, ex, ms, bad):
    # known finding D16 (what the repair of the table left, pinned by tests): an OrderCancelReject reporting
    # PENDING_NEW moves an acknowledged, unfinished order back to PENDING_NEW
    if kind == "9" and bad == ["no_pending_new"] and ms == "A" and st not in FIN:
        return "D16-cancel-reject-pending-new"
    return None


def sweep(ctx, as_strings=False):
    from translator import gen_change_status as g

    statuses, kinds, execs, reported = g.domain()
    for st, kind, ex in itertools.product(statuses, kinds, execs):
        for ms in reported:
            if as_strings:
                a = (val(st), val(kind), val(ex), val(ms))
            else:
                a = (st, kind, ex, ms)
            rr = g.cell(a[0], a[1], a[2], a[3], True)
            rs = g.cell(a[0], a[1], a[2], a[3], False)
            if as_strings:
                # returned object is the string itself: code 1 by identity as well
                yield (val(st), val(kind), val(ex), val(ms), rr, rs)
            else:
                yield (val(st), val(kind), val(ex), val(ms), rr, rs)


def sweep_again(g):
    statuses, kinds, execs, reported = g.domain()
    for st, kind, ex in itertools.product(statuses, kinds, execs):
        for ms in reported:
            yield (val(st), val(kind), val(ex), val(ms), g.cell(st, kind, ex, ms, True), None)


def run(ctx):
    cells = list(sweep(ctx))
    by_key = {}
    for (st, kind, ex, ms, rr, rs) in cells:
        key = (st, kind, ex, ms)
        by_key[key] = (rr, rs)
        nontrivial = kind in ("8", "9", "F", "G") and st != "?"
        ctx.case(("r", key), nontrivial, sample={"status": st, "kind": kind, "exec_type": ex, "reported": ms,
                                                  "raise_on_err": [rr, rs]} if (len(ctx.samples) < 3 and rr == 1) else None)
        ctx.case(("s", key), nontrivial)
        ctx.count("kind=" + str(kind))
        ctx.count("result=%d" % rr)
        bad = laws(st, kind, ex, ms, rr, rs)
        if bad:
            ctx.fail({"status": st, "kind": kind, "exec_type": ex, "reported": ms},
                     "laws violated: %s (raise->%d, no-raise->%d)" % (",".join(bad), rr, rs),
                     classify(st, kind, ex, ms, bad))
    ctx.extra["exhaustive"] = True
    # the transition function is a function: asking again (after the no-raise call of the same cell) gives the same answer
    # (added after seeded change C16-5, a result cache keyed without the error mode)
    from translator import gen_change_status as g
    again = 0
    for (st, kind, ex, ms, rr, rs) in sweep_again(g):
        again += 1
        if by_key[(st, kind, ex, ms)][0] != rr:
            ctx.fail({"status": st, "kind": kind, "exec_type": ex, "reported": ms, "order": "raise,no-raise,raise"},
                     "result depends on the call history: raise mode gave %d first and %d after the no-raise call of the same cell"
                     % (by_key[(st, kind, ex, ms)][0], rr), None)
    ctx.extra["repeat_evaluations"] = again
    # glue: plain strings instead of enum members reach the same cells
    diff = 0
    for (st, kind, ex, ms, rr, rs) in sweep(ctx, as_strings=True):
        if by_key[(st, kind, ex, ms)] != (rr, rs):
            diff += 1
            if diff <= 5:
                ctx.disagree({"status": st, "kind": kind, "exec_type": ex, "reported": ms},
                             [rr, rs], list(by_key[(st, kind, ex, ms)]), "enum-vs-string")
    ctx.extra["string_vs_enum_cells_compared"] = len(cells)
    ctx.traces = len(cells)
    # informational: independent reference table (FIX 4.4 order state change matrices)
    try:
        from harness import c16_reference as ref
        deltas = ref.compare(by_key)
        ctx.extra["reference_table_deltas"] = deltas[:40]
        ctx.extra["reference_table_delta_count"] = len(deltas)
    except Exception as e:  # pragma: no cover - informational only
        ctx.notes.append("reference table not compared: %r" % (e,))


def search(ctx, cases):
    # the oracle in run() is already exhaustive over the domain; nothing further to search
    ctx.notes.append("search: oracle sweep is exhaustive over the finite domain")


def replay(path):
    from translator import gen_change_status as g
    from asyncfix import FMsg
    from asyncfix.protocol.common import FExecType, FOrdStatus

    rec = json.load(open(path))
    c = rec.get("input") or {}
    if not c:
        print("replay: no concrete input in", path, "- broken:", rec.get("broken"))
        return 1
    rr = g.cell(c["status"], c["kind"], c["exec_type"], c["reported"], True)
    rs = g.cell(c["status"], c["kind"], c["exec_type"], c["reported"], False)
    if c.get("order"):
        rr2 = g.cell(c["status"], c["kind"], c["exec_type"], c["reported"], True)
        print("replay C16 cell %s: raise mode %d, then no-raise %d, then raise mode again %d" % (c, rr, rs, rr2))
        if rr2 != rr:
            return 1
    bad = laws(c["status"], c["kind"], c["exec_type"], c["reported"], rr, rs)
    print("replay C16 cell %s -> raise:%d soft:%d violated:%s" % (c, rr, rs, bad))
    return 1 if bad else 0
