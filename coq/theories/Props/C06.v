(* C06 - a ResendRequest is answered completely, in order and without side effects.
   Theorems only (proofs in AF.Lemmas.ResendL) about the model Fix/Resend.v of
   AsyncFIXConnection._process_resend and what it calls.

   The property for one request (bs, es = texts of tags 7 and 16) with replay filter f in state s is
   the predicate  resend_correct f s bs es  (Lemmas/ResendL.v):
     the frames written are  chain (rows s) f hi lo hi  over the requested range [lo, hi) of
     already-sent numbers (a retransmission with the number kept, PossDupFlag=Y, OrigSendingTime =
     the original SendingTime and the body otherwise identical for every journaled application
     message the filter accepts; one GapFill(seq = first, NewSeqNo = next) per maximal run of other
     numbers - session-level, declined, missing; hence no session-level message retransmitted);
     nothing is written for a request that must not be answered; journaled messages outside the
     range, next_num_out (live and stored) and the connection state are what they were.
   FULL STATEMENT (what C06 asks):   forall f s bs es, resend_correct f s bs es.
   It does not hold of the code.  Below: the part that holds, with exactly the negations of the
   known-finding class predicates as hypotheses, and one refutation per class. *)
From Coq Require Import ZArith NArith List Bool.
From AF Require Import Base.Sx Py.Str Fix.Resend Lemmas.ResendL.
From AFGen Require Import GenEnums.
Import ListNotations.
Open Scope Z_scope.

(* The part that holds, unbounded in the journal: for every journal with unique keys below the
   counter (journal_ok: the C05/C13 invariants), every replay filter, both start states, every
   readable request outside the six classes the property holds in full. *)
Theorem C06_reply_chain_partial : forall f s bs es b e0,
  py_int bs = Some b -> py_int es = Some e0 ->
  (cstate s = ST_ACTIVE \/ cstate s = ST_AWAITING) ->
  journal_ok s -> NoDup (map r_seq (rows s)) ->
  k_unparsable (Some bs) (Some es) = false ->          (* tags 7/16 readable, within 64 bits *)
  k_begin_nonpositive b = false ->                     (* 1 <= BeginSeqNo *)
  k_begin_beyond s b = false ->                        (* BeginSeqNo <= next_num_out *)
  k_bounded_end s b e0 = false ->                      (* EndSeqNo = 0 or >= the last sent number *)
  k_leftover_copy f s b e0 = false ->                  (* no replayed row in range is a PossDup copy *)
  k_hole_before_replayed f s b e0 = false ->           (* no replayed row in range follows a missing number *)
  resend_correct f s (Some bs) (Some es).
Proof. exact resend_partial_classes. Qed.
Print Assumptions C06_reply_chain_partial.

(* the same for pristine journals (original sends numbered 1..n, a suffix may be missing), every
   BeginSeqNo in [1, next_num_out], EndSeqNo = 0 *)
Theorem C06_reply_chain_pristine : forall f s bs es b,
  py_int bs = Some b -> py_int es = Some 0 ->
  (cstate s = ST_ACTIVE \/ cstate s = ST_AWAITING) -> pristine s -> 1 <= b <= nout s ->
  resend_correct f s (Some bs) (Some es).
Proof. exact pristine_partial. Qed.
Print Assumptions C06_reply_chain_pristine.

(* what a chain is made of: every frame is the copy of a replayable journaled message or a gap fill *)
Theorem C06_no_session_retransmit : forall J f lim a c W, chain J f lim a c W -> forall fr, In fr W ->
  (exists r, In r J /\ replayable f r = true /\ is_copy_of r fr) \/ (exists x h, is_gap_fill fr x h).
Proof. exact chain_frames. Qed.
Print Assumptions C06_no_session_retransmit.

(* the row hypothesis of journal_ok / pristine is an invariant of journals written by send_msg *)
Theorem C06_sent_rows_wellformed : forall m s s',
  send_msg m s = Ok s' -> exists fr, rows s' = rows s ++ [fr] /\ codec_row fr = true.
Proof. exact send_msg_frame_codec_row. Qed.
Print Assumptions C06_sent_rows_wellformed.

(* For EVERY journal with unique keys, every request and every filter: the only exceptions that can
   leave the handler are AssertionError, DuplicatedTagError, TagNotFoundError, ValueError and
   OverflowError - in particular the journal write of a gap fill / retransmission never raises
   DuplicateSeqNoError (rows >= BeginSeqNo were deleted first and the numbers sent are strictly
   increasing), the state gates of send_msg never refuse and the encoder always has a number; and
   whenever an exception is swallowed the connection is left in RESENDREQ_HANDLING (in
   RESENDREQ_AWAITING if it was awaiting a resend itself). *)
Theorem C06_abort_shape : forall f s bs es,
  NoDup (map r_seq (rows s)) ->
  let (s', x) := process_resend f bs es s in
  allowed_exc x
  /\ (x <> None -> cstate s' = (if cstate s =? ST_AWAITING then ST_AWAITING else ST_HANDLING)).
Proof. exact resend_exceptions. Qed.
Print Assumptions C06_abort_shape.

(* ---- refutations of the full statement, one per known-finding class (each witness is replayed on
   the implementation by harness/c06.py; classes_of = the six class predicates in the order above) *)

(* bounded EndSeqNo: the reply gap-fills past EndSeqNo and the journal tail is deleted (D12) *)
Theorem C06_bounded_end_refuted :
  pristine w_bounded
  /\ classes_of w_all w_bounded (dec 2) (dec 2) 2 2 = (false, false, false, true, false, false)
  /\ ~ resend_correct w_all w_bounded (dec 2) (dec 2).
Proof. exact bounded_end_refuted. Qed.
Print Assumptions C06_bounded_end_refuted.

(* a second request over an already replayed range aborts, leaving the counter rewound (D12) *)
Theorem C06_second_request_refuted :
  pristine w_first /\ resend_correct w_all w_first (dec 2) (dec 0)
  /\ journal_ok w_second /\ cstate w_second = ST_ACTIVE
  /\ classes_of w_all w_second (dec 2) (dec 0) 2 0 = (false, false, false, false, true, false)
  /\ ~ resend_correct w_all w_second (dec 2) (dec 0)
  /\ (let (s', x) := process_resend w_all (dec 2) (dec 0) w_second in
      x = Some EDuplicatedTag /\ wire s' = wire w_second /\ nout s' = 2 /\ nout w_second = 4
      /\ map r_seq (rows s') = [1] /\ cstate s' = ST_HANDLING).
Proof. exact second_request_refuted. Qed.
Print Assumptions C06_second_request_refuted.

(* BeginSeqNo beyond next_num_out: counter advanced, state stuck (D12) *)
Theorem C06_begin_beyond_refuted :
  pristine w_small
  /\ classes_of w_all w_small (dec 5) (dec 0) 5 0 = (false, false, true, false, false, false)
  /\ ~ resend_correct w_all w_small (dec 5) (dec 0)
  /\ (let (s', x) := process_resend w_all (dec 5) (dec 0) w_small in
      x = Some EAssertion /\ nout s' = 5 /\ sout s' = 4 /\ cstate s' = ST_HANDLING).
Proof. exact begin_beyond_refuted. Qed.
Print Assumptions C06_begin_beyond_refuted.

(* BeginSeqNo <= 0: state stuck in RESENDREQ_HANDLING (D12) *)
Theorem C06_begin_nonpositive_refuted :
  pristine w_small
  /\ classes_of w_all w_small (dec 0) (dec 0) 0 0 = (false, true, false, false, false, false)
  /\ ~ resend_correct w_all w_small (dec 0) (dec 0)
  /\ (let (s', x) := process_resend w_all (dec 0) (dec 0) w_small in
      x = Some EAssertion /\ nout s' = 3 /\ rows s' = rows w_small /\ cstate s' = ST_HANDLING).
Proof. exact begin_nonpositive_refuted. Qed.
Print Assumptions C06_begin_nonpositive_refuted.

(* unreadable BeginSeqNo: state stuck *)
Theorem C06_unparsable_refuted :
  k_unparsable (Some [120%N]) (dec 0) = true
  /\ ~ resend_correct w_all w_small (Some [120%N]) (dec 0)
  /\ (let (s', x) := process_resend w_all (Some [120%N]) (dec 0) w_small in
      x = Some EValue /\ cstate s' = ST_HANDLING).
Proof. exact unparsable_refuted. Qed.
Print Assumptions C06_unparsable_refuted.

(* a hole between two application rows is not gap-filled: rows {1,2,4,5} -> reply 2,4,5 (D21) *)
Theorem C06_hole_refuted :
  journal_ok w_hole /\ NoDup (map r_seq (rows w_hole))
  /\ classes_of w_all w_hole (dec 2) (dec 0) 2 0 = (false, false, false, false, false, true)
  /\ ~ resend_correct w_all w_hole (dec 2) (dec 0)
  /\ (let (s', x) := process_resend w_all (dec 2) (dec 0) w_hole in
      x = None /\ map r_seq (wire s') = [2; 4; 5] /\ map r_type (wire s') = [[68%N]; [68%N]; [68%N]]).
Proof. exact hole_refuted. Qed.
Print Assumptions C06_hole_refuted.

(* "journaled messages outside the range are what they were" holds in the pristine case; the rows
   INSIDE the range are all replaced (copies with tags 43/122 and a new SendingTime, one gap-fill row
   per run, the rest of each run deleted).  The property text does not protect them, so this is no
   breach by itself - it is the cause of C06_second_request_refuted. *)
Theorem C06_in_range_rows_replaced :
  pristine w_mixed /\ resend_correct w_all w_mixed (dec 2) (dec 0)
  /\ (let s' := fst (process_resend w_all (dec 2) (dec 0) w_mixed) in
      In w_logon (rows s') /\ ~ In (w_app 2) (rows s') /\ ~ In (w_hb 3) (rows s') /\ ~ In (w_hb 4) (rows s')
      /\ map r_seq (rows s') = [1; 2; 3; 5]
      /\ map (fun r => has_tag T_PossDupFlag (r_body r)) (rows s') = [false; true; false; true]
      /\ map r_type (rows s') = [[65%N]; [68%N]; MT_SEQUENCERESET; [68%N]]).
Proof. exact in_range_rows_replaced. Qed.
Print Assumptions C06_in_range_rows_replaced.

(* non-vacuity: a journal with application, session, SequenceReset and declined rows and a missing
   suffix, in RESENDREQ_AWAITING, meets every hypothesis of C06_reply_chain_partial *)
Example C06_nonvacuous :
  journal_ok w_rich /\ NoDup (map r_seq (rows w_rich)) /\ cstate w_rich = ST_AWAITING
  /\ classes_of w_filter w_rich (dec 2) (dec 0) 2 0 = (false, false, false, false, false, false)
  /\ (let s' := fst (process_resend w_filter (dec 2) (dec 0) w_rich) in
      map r_seq (wire s') = [2; 3; 5; 6] /\ map r_type (wire s') = [[68%N]; MT_SEQUENCERESET; [68%N]; MT_SEQUENCERESET]
      /\ map (fun r => get_tag T_NewSeqNo (r_body r)) (wire s') = [None; Some [53%N]; None; Some [57%N]]
      /\ nout s' = 9 /\ cstate s' = ST_AWAITING).
Proof. exact nonvacuous. Qed.
Print Assumptions C06_nonvacuous.

(* the model's noreply_msgs is the code's literal (regenerated by gen_const.py) *)
From AF Require Import Lemmas.ConstTieL.
From AFGen Require Import GenConst.
Theorem C06_noreply_set_is_code : same_set Resend.noreply_msgs noreply_values = true.
Proof. exact noreply_set_is_code. Qed.
Print Assumptions C06_noreply_set_is_code.
