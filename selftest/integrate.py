#!/usr/bin/env python3
"""Development tool: merge a builder's notes (proposed MANIFEST entry, known-finding records) into
MANIFEST.json / known_findings.jsonl.  usage: integrate.py Cxx [Cyy ...]"""
import json, os, re, sys
ROOT = os.path.dirname(os.path.dirname(os.path.abspath(__file__)))
man = json.load(open(os.path.join(ROOT, "MANIFEST.json")))
kf_path = os.path.join(ROOT, "known_findings.jsonl")
have = set()
for l in open(kf_path):
    if l.strip():
        r = json.loads(l); have.add((r.get("property"), r.get("class")))
for pid in sys.argv[1:]:
    notes = os.path.join(ROOT, "notes", pid + ".md")
    entry = None
    if os.path.exists(notes):
        for blk in re.findall(r"```json\n(.*?)```", open(notes).read(), re.S):
            try:
                j = json.loads(blk)
            except Exception:
                continue
            if isinstance(j, dict) and j.get("property_id") == pid:
                entry = j; break
    if entry:
        entry.setdefault("quick_cmd", "./run %s quick" % pid); entry.setdefault("thorough_cmd", "./run %s thorough" % pid)
        entry.setdefault("evidence_file", "evidence/%s.json" % pid); entry.setdefault("replay_cmd_template", "./run %s --replay {path}" % pid)
        entry.setdefault("engine", "coq-models")
        man["checks"] = [c for c in man["checks"] if c["property_id"] != pid] + [entry]
        print(pid, "manifest entry merged")
    else:
        print(pid, "NO manifest entry found in notes")
    f = os.path.join(ROOT, "notes", pid + ".findings.jsonl")
    if os.path.exists(f):
        with open(kf_path, "a") as out:
            for l in open(f):
                if not l.strip(): continue
                r = json.loads(l)
                key = (r.get("property"), r.get("class"))
                if key in have: continue
                have.add(key); out.write(json.dumps(r) + "\n"); print(pid, "finding", r.get("class"), r.get("kind"))
man["checks"].sort(key=lambda c: c["property_id"])
for e in man["engines"]:
    e["serves_properties"] = sorted({c["property_id"] for c in man["checks"]})
json.dump(man, open(os.path.join(ROOT, "MANIFEST.json"), "w"), indent=1)
