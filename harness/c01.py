"""C01 - encode/decode round trip preserves every well-formed message.

Correspondence: Codec.encode and Codec.decode vs the extracted model (Fix/Codec.v) on messages
generated from the protocol's current group table (well-formed and not) in all sequence-number
modes.  Oracle: structural equality of the decoded message with the original for every
well-formed message (Python twin of wf_msg), whole frame consumed, raw frame returned unchanged,
header CompIDs and sequence number as the property states."""
import json
import logging

from harness import codec_common as cc

META = {
    "level": "proof",
    "tables": ["GenGroups", "GenEnums", "GenConst"],
    "files": ["asyncfix/codec.py", "asyncfix/message.py", "asyncfix/protocol/protocol_fix44.py", "asyncfix/session.py"],
    "rule": "messages generated from the regenerated repeating-group table (0-2 groups, 1-3 items, optional members, nesting to table depth, "
            "values over printable single-byte text incl. '=', '10=', '9=', '8=FIX.' look-alikes) in allocate / raw / PossDup / SequenceReset modes, "
            "plus a separate stream of malformed containers; non-trivial = well-formed message with at least one repeating group or a framing look-alike value; "
            "distinct by canonical (message, mode, counter)",
    "trusted_base": ["CPython str/int primitives as modelled in Py/Str.v", "time string injected by patching Codec.current_datetime"],
    "assumptions": ["field values are single-byte text without SOH (the property's domain)"],
}

MODES = ("alloc", "raw", "possdup", "seqreset", "stale34", "possdupN")


def with_mode(rng, m, mode):
    m = [list(m[0]), [kv for kv in m[1]]]
    body = [kv for kv in m[1] if cc.txt(kv[0]) not in ("34", "43")]
    seq = rng.choice([1, 7, 42, 99999, 2 ** 40])
    if mode == "alloc":
        if cc.txt(m[0]) == "4":          # a SequenceReset must carry its own number: not an allocate-mode message
            m[0] = cc.cp("D")
        return [m[0], body], False, None
    if mode in ("stale34", "possdupN"):
        # a NEW message that happens to carry a MsgSeqNum (e.g. a decoded message re-submitted), with or without
        # PossDupFlag=N: not a retransmission, so a fresh number must be allocated
        if cc.txt(m[0]) == "4":
            m[0] = cc.cp("D")
        extra = [[cc.cp("34"), [0, cc.cp(str(seq))]]] + ([[cc.cp("43"), [0, cc.cp("N")]]] if mode == "possdupN" else [])
        return [m[0], extra + body], False, None
    if mode == "raw":
        return [m[0], [[cc.cp("34"), [0, cc.cp(str(seq))]]] + body], True, seq
    if mode == "possdup":
        if cc.txt(m[0]) == "4":
            m[0] = cc.cp("D")
        return [m[0], [[cc.cp("43"), [0, cc.cp("Y")]], [cc.cp("34"), [0, cc.cp(str(seq))]]] + body], False, seq
    return [cc.cp("4"), body + [[cc.cp("34"), [0, cc.cp(str(seq))]]]], False, seq


def strip_header(c):
    return [kv for kv in c if cc.txt(kv[0]) not in ("8", "9", "35", "49", "56", "34", "52", "10")]


def oracle(ctx, case, m, raw, keep_seq, nout, enc, dec):
    """property statement on the implementation's own results, for a well-formed message"""
    if enc[0] != 0:
        return "encoder refused a well-formed message: %r" % (enc,)
    frame = enc[1]
    if dec[0] != 0 or not dec[1]:
        return "decoder returned no message for the encoder's frame: %r" % (dec[:1] + dec[2:3],)
    dm = dec[1][0]
    want_body = [kv for kv in m[1] if cc.txt(kv[0]) not in ("34", "52", "49", "56")]
    if strip_header(dm[1]) != want_body:
        return "decoded body differs from the original"
    if dm[0] != m[0]:
        return "message type differs"
    if dec[2] != len(frame) or dec[3] != [frame]:
        return "frame not reported as consumed/returned unchanged (consumed %r of %d)" % (dec[2], len(frame))
    hdr = {cc.txt(k): v for k, v in dm[1] if v[0] == 0}
    if cc.txt(hdr.get("49", [0, []])[1]) != "SND" or cc.txt(hdr.get("56", [0, []])[1]) != "TGT":
        return "CompIDs not carried in the header"
    want_seq = nout if keep_seq is None else keep_seq
    if cc.txt(hdr.get("34", [0, []])[1]) != str(want_seq):
        return "MsgSeqNum %r, expected %d" % (cc.txt(hdr.get("34", [0, []])[1]), want_seq)
    if enc[2] != (nout + 1 if keep_seq is None else nout):
        return "next outbound number after encode is %d" % enc[2]
    return None


def classify(frame):
    if frame is not None and cc.marker_beyond_start(frame):
        return "D5-marker-in-field"
    return None


def one(ctx, m, raw, keep_seq, nout, model_enc=None, model_dec=None, check_model=True):
    enc = cc.impl_encode(m, "SND", "TGT", nout, raw)
    if enc[0] == 2:
        ctx.count("unbuildable")
        return None
    frame = None
    dec = None
    if enc[0] == 0 and all(c < 256 for c in enc[1]):
        frame = bytes(enc[1])
        dec = cc.impl_decode(frame)
    wf = cc.wf_msg([m[0], [kv for kv in m[1] if cc.txt(kv[0]) != "34"]])
    case = {"message": m, "raw_seq_num": raw, "next_out": nout}
    nontrivial = wf and (any(kv[1][0] == 1 for kv in m[1]) or (frame is not None and (b"=10=" in frame or b"=9=" in frame)))
    ctx.case((m, raw, nout), nontrivial,
             sample={"message_type": cc.txt(m[0]), "body": [[cc.txt(k), (cc.txt(v[1]) if v[0] == 0 else "<group of %d>" % len(v[1]) if v[0] == 1 else "<err>")] for k, v in m[1]][:8],
                     "frame": frame.decode("latin-1") if frame else None} if (len(ctx.samples) < 3 and nontrivial) else None)
    ctx.count("wf" if wf else "not-wf")
    ctx.count("enc-ok" if enc[0] == 0 else "enc-exc-%s" % enc[1])
    if wf and frame is not None:
        why = oracle(ctx, case, m, raw, keep_seq, nout, enc, dec)
        if why:
            ctx.fail(case, why, classify(frame))
    return enc, frame, dec


def run(ctx):
    logging.disable(logging.CRITICAL)
    n = ctx.scale(2500, 60000)
    rng = ctx.rng
    cases = []
    for i in range(n):
        r = rng.random()
        base = cc.gen_wf_message(rng, marker_ok=(r < 0.08)) if r < 0.75 else cc.gen_any_message(rng)
        mode = rng.choice(MODES) if rng.random() < 0.5 else "alloc"
        m, raw, keep = with_mode(rng, base, mode)
        ctx.count("mode-" + mode)
        cases.append((m, raw, keep, rng.choice([1, 2, 77, 10 ** 6, 2 ** 63, 10 ** 20])))
    cases = corpus() + cases
    results = [one(ctx, *c) for c in cases]
    if not ctx.model:
        return
    live = [(c, r) for c, r in zip(cases, results) if r is not None]
    menc = ctx.model.batch([cc.req_encode(c[0], "SND", "TGT", c[3], c[1]) for c, _ in live])
    frames = [(c, r) for c, r in live if r[1] is not None]
    mdec = ctx.model.batch([cc.req_decode(r[1]) for _, r in frames])
    for (c, r), me in zip(live, menc):
        ctx.traces += 1
        if r[0] != me:
            ctx.disagree({"message": c[0], "raw_seq_num": c[1], "next_out": c[3]}, r[0][:1] + [str(r[0][1])[:200]], me[:1] + [str(me[1])[:200]], "encode")
    for (c, r), md in zip(frames, mdec):
        if r[2] != md:
            ctx.disagree({"frame": r[1].hex()}, str(r[2])[:300], str(md)[:300], "decode-of-encoder-frame")


def corpus():
    import glob
    import os
    out = []
    for f in sorted(glob.glob(os.path.join(os.path.dirname(__file__), "..", "corpus", "C01", "*.json"))):
        c = json.load(open(f))
        out.append((c["message"], c["raw_seq_num"], c.get("keep_seq"), c["next_out"]))
    return out


def search(ctx, cases):
    import random
    logging.disable(logging.CRITICAL)
    rng = random.Random(ctx.seed + 11)
    for c in cases:
        if "message" in c:
            one(ctx, c["message"], c["raw_seq_num"], None if not c["raw_seq_num"] else None, c["next_out"])
    for _ in range(ctx.scale(6000, 60000)):
        base = cc.gen_wf_message(rng, marker_ok=False)
        m, raw, keep = with_mode(rng, base, rng.choice(MODES))
        one(ctx, m, raw, keep, rng.choice([1, 5, 123456]))
        if ctx.failures:
            return


def replay(path):
    logging.disable(logging.CRITICAL)
    rec = json.load(open(path))
    c = rec.get("input")
    if not c or "message" not in c:
        print("replay: no concrete message; broken:", rec.get("broken"))
        return 1
    m = c["message"]
    enc = cc.impl_encode(m, "SND", "TGT", c["next_out"], c["raw_seq_num"])
    print("encode ->", enc[0], (bytes(enc[1]).decode("latin-1") if enc[0] == 0 and all(x < 256 for x in enc[1]) else enc[1:]))
    if enc[0] != 0:
        return 1
    dec = cc.impl_decode(bytes(enc[1]))
    keep = None
    for k, v in m[1]:
        if cc.txt(k) == "34" and (c["raw_seq_num"] or cc.txt(m[0]) == "4" or any(cc.txt(a) == "43" and cc.txt(b[1]) == "Y" for a, b in m[1] if b[0] == 0)):
            keep = int(cc.txt(v[1]))
    why = oracle(None, c, m, c["raw_seq_num"], keep, c["next_out"], enc, dec)
    print("decode ->", dec[0], "consumed", dec[2] if dec[0] == 0 else None, "| oracle:", why or "round trip holds")
    return 1 if why else 0
