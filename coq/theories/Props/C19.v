(* C19 - field value validation matches the FIX 4.4 datatype lexical spaces.
   Theorems only (proofs in AF.Lemmas.LexL).
     validate_value : field -> str -> result     model of the patched SchemaField.validate_value (Fix/ValidateValue.v)
     lex d s                                     the lexical space of FIX datatype d, written from the standard (Fix/Lex.v)
     kf d s                                      the known-finding classes (Fix/Lex.v): exactly where the two differ
     plain tag name                              a field without enumerators
   All statements are over all strings [s : list N] (no length bound).  TAG_16 is EndSeqNo, whose value "0" is
   accepted by _validate_special_cases. *)
From Coq Require Import ZArith NArith List Bool.
From AF Require Import Base.Sx Py.Str Fix.Lex Fix.ValidateValue Lemmas.LexL Lemmas.LexDictL.
From AFGen Require Import GenLex.
Import ListNotations.
Open Scope N_scope.

(* ---------------------------------------------------------------- the property, for every datatype name at once *)

(* the full statement "accepted <-> in the lexical space" holds exactly outside the known-finding classes ... *)
Theorem C19_lexical_partial : forall tag name d s,
  datatype_of_name name = Some d -> tag <> TAG_16 -> kf d s = false ->
  (validate_value (plain tag name) s = Accept false <-> lex d s = true).
Proof. exact validate_lexical. Qed.
Print Assumptions C19_lexical_partial.

(* ... and fails on every member of a class: the classes are exact (acceptance = lexical space XOR class) *)
Theorem C19_deviation_exact : forall tag name d s,
  datatype_of_name name = Some d -> tag <> TAG_16 ->
  (validate_value (plain tag name) s = Accept false <-> xorb (lex d s) (kf d s) = true).
Proof. exact validate_exact. Qed.
Print Assumptions C19_deviation_exact.

Theorem C19_known_classes_deviate : forall tag name d s,
  datatype_of_name name = Some d -> tag <> TAG_16 -> kf d s = true ->
  (validate_value (plain tag name) s = Accept false <-> lex d s = false).
Proof. exact validate_deviates. Qed.
Print Assumptions C19_known_classes_deviate.

(* EndSeqNo (tag 16): the same, plus the value "0" *)
Theorem C19_endseqno : forall name d s,
  datatype_of_name name = Some d ->
  (validate_value (plain TAG_16 name) s = Accept false <-> xorb (lex d s) (kf d s) = true \/ s = [48]).
Proof. exact validate_endseqno. Qed.
Print Assumptions C19_endseqno.

(* the dispatch sends every dictionary name of a FIX datatype to that datatype's validator, never to the
   "unsupported datatype" warning *)
Theorem C19_dispatch : forall name d, datatype_of_name name = Some d -> classify (upper name) = kind_of d.
Proof. exact classify_ok. Qed.
Print Assumptions C19_dispatch.

Theorem C19_no_unsupported_warning : forall tag name d s,
  datatype_of_name name = Some d -> validate_value (plain tag name) s <> Accept true.
Proof. exact validate_no_warning. Qed.
Print Assumptions C19_no_unsupported_warning.

(* ---------------------------------------------------------------- datatypes without any deviation: full strength *)

Theorem C19_boolean : forall tag s, tag <> TAG_16 ->
  (validate_value (plain tag n_BOOLEAN) s = Accept false <-> lex_boolean s = true).
Proof. exact boolean_full. Qed.
Print Assumptions C19_boolean.

Theorem C19_country : forall tag s, tag <> TAG_16 ->
  (validate_value (plain tag n_COUNTRY) s = Accept false <-> lex_code 2 s = true).
Proof. exact country_full. Qed.
Print Assumptions C19_country.

Theorem C19_currency : forall tag s, tag <> TAG_16 ->
  (validate_value (plain tag n_CURRENCY) s = Accept false <-> lex_code 3 s = true).
Proof. exact currency_full. Qed.
Print Assumptions C19_currency.

Theorem C19_exchange : forall tag s, tag <> TAG_16 ->
  (validate_value (plain tag n_EXCHANGE) s = Accept false <-> lex_code 4 s = true).
Proof. exact exchange_full. Qed.
Print Assumptions C19_exchange.

Theorem C19_data : forall tag s, tag <> TAG_16 ->
  (validate_value (plain tag n_DATA) s = Accept false <-> s <> []).
Proof. exact data_full. Qed.
Print Assumptions C19_data.

(* ---------------------------------------------------------------- per family, with the class hypothesis spelled out *)

Theorem C19_int_partial : forall tag s, tag <> TAG_16 -> too_many_digits s = false ->
  (validate_value (plain tag n_INT) s = Accept false <-> lex_int s = true).
Proof. exact int_partial. Qed.
Print Assumptions C19_int_partial.

Theorem C19_positive_partial : forall tag name s, In name [n_SEQNUM; n_NUMINGROUP] -> tag <> TAG_16 ->
  too_many_digits s = false ->
  (validate_value (plain tag name) s = Accept false <-> lex_positive s = true).
Proof. exact positive_partial. Qed.
Print Assumptions C19_positive_partial.

Theorem C19_dayofmonth_partial : forall tag s, tag <> TAG_16 -> too_many_digits s = false ->
  (validate_value (plain tag n_DAYOFMONTH) s = Accept false <-> lex_dayofmonth s = true).
Proof. exact dayofmonth_partial. Qed.
Print Assumptions C19_dayofmonth_partial.

Theorem C19_float_partial : forall tag name s,
  In name [n_FLOAT; n_QTY; n_PRICE; n_PRICEOFFSET; n_AMT; n_PERCENTAGE] -> tag <> TAG_16 ->
  float_overflows s = false ->
  (validate_value (plain tag name) s = Accept false <-> lex_float s = true).
Proof. exact float_partial. Qed.
Print Assumptions C19_float_partial.

Theorem C19_string_partial : forall tag s, tag <> TAG_16 -> has_equals s = false ->
  (validate_value (plain tag n_STRING) s = Accept false <-> lex_string s = true)
  /\ (validate_value (plain tag n_CHAR) s = Accept false <-> lex_char s = true)
  /\ (validate_value (plain tag n_MULTIPLEVALUESTRING) s = Accept false <-> lex_multi s = true)
  /\ (validate_value (plain tag n_MULTIPLESTRINGVALUE) s = Accept false <-> lex_multi s = true).
Proof. exact string_partial. Qed.
Print Assumptions C19_string_partial.

Theorem C19_date_partial : forall tag name s, In name [n_UTCDATEONLY; n_LOCALMKTDATE] -> tag <> TAG_16 ->
  year0 s = false ->
  (validate_value (plain tag name) s = Accept false <-> lex_date s = true).
Proof. exact date_partial. Qed.
Print Assumptions C19_date_partial.

Theorem C19_monthyear_partial : forall tag s, tag <> TAG_16 -> year0 s = false ->
  (validate_value (plain tag n_MONTHYEAR) s = Accept false <-> lex_monthyear s = true).
Proof. exact monthyear_partial. Qed.
Print Assumptions C19_monthyear_partial.

(* time and timestamp: outside year 0000, second 60 and a six-digit fraction *)
Theorem C19_timeonly_partial : forall tag s, tag <> TAG_16 -> kf DUTCTimeOnly s = false ->
  (validate_value (plain tag n_UTCTIMEONLY) s = Accept false <-> lex_time s = true).
Proof. exact timeonly_partial. Qed.
Print Assumptions C19_timeonly_partial.

Theorem C19_timestamp_partial : forall tag s, tag <> TAG_16 -> kf DUTCTimestamp s = false ->
  (validate_value (plain tag n_UTCTIMESTAMP) s = Accept false <-> lex_timestamp s = true).
Proof. exact timestamp_partial. Qed.
Print Assumptions C19_timestamp_partial.

(* LENGTH is not validated: every non-empty value is accepted (so the space is included, not matched) *)
Theorem C19_length_partial : forall tag s, tag <> TAG_16 ->
  (validate_value (plain tag n_LENGTH) s = Accept false <-> s <> []).
Proof. exact length_unchecked. Qed.
Print Assumptions C19_length_partial.

(* ---------------------------------------------------------------- refutations: one witness per known-finding class *)

Theorem C19_int_refuted : exists s, lex DInt s = true /\ validate_value (plain TAG_1 n_INT) s = Raise EFIXMessageError.
Proof. exact int_refuted. Qed.
Print Assumptions C19_int_refuted.

Theorem C19_float_refuted : exists s, lex DFloat s = true /\ validate_value (plain TAG_1 n_FLOAT) s = Raise EFIXMessageError.
Proof. exact float_refuted. Qed.
Print Assumptions C19_float_refuted.

Theorem C19_float_threshold_exact :
  validate_value (plain TAG_1 n_FLOAT) (Sx.n_to_dec (FLOAT_INF - 1)) = Accept false
  /\ validate_value (plain TAG_1 n_FLOAT) (Sx.n_to_dec FLOAT_INF) = Raise EFIXMessageError.
Proof. exact float_below_threshold_accepted. Qed.
Print Assumptions C19_float_threshold_exact.

Theorem C19_string_refuted : exists s, lex DString s = true /\ validate_value (plain TAG_1 n_STRING) s = Raise EFIXMessageError.
Proof. exact string_refuted. Qed.
Print Assumptions C19_string_refuted.

Theorem C19_length_refuted : exists s, lex DLength s = false /\ validate_value (plain TAG_1 n_LENGTH) s = Accept false.
Proof. exact length_refuted. Qed.
Print Assumptions C19_length_refuted.

Theorem C19_date_refuted : exists s, lex DUTCDateOnly s = true /\ validate_value (plain TAG_1 n_UTCDATEONLY) s = Raise EFIXMessageError.
Proof. exact date_refuted. Qed.
Print Assumptions C19_date_refuted.

Theorem C19_monthyear_refuted : exists s, lex DMonthYear s = true /\ validate_value (plain TAG_1 n_MONTHYEAR) s = Raise EFIXMessageError.
Proof. exact monthyear_refuted. Qed.
Print Assumptions C19_monthyear_refuted.

Theorem C19_timeonly_refuted :
  (exists s, lex DUTCTimeOnly s = true /\ validate_value (plain TAG_1 n_UTCTIMEONLY) s = Raise EFIXMessageError)
  /\ (exists s, lex DUTCTimeOnly s = false /\ validate_value (plain TAG_1 n_UTCTIMEONLY) s = Accept false).
Proof. exact timeonly_refuted. Qed.
Print Assumptions C19_timeonly_refuted.

Theorem C19_timestamp_refuted :
  (exists s, lex DUTCTimestamp s = true /\ validate_value (plain TAG_1 n_UTCTIMESTAMP) s = Raise EFIXMessageError)
  /\ (exists s, lex DUTCTimestamp s = false /\ validate_value (plain TAG_1 n_UTCTIMESTAMP) s = Accept false)
  /\ (exists s, lex DUTCTimestamp s = true /\ year0 s = true
                /\ validate_value (plain TAG_1 n_UTCTIMESTAMP) s = Raise EFIXMessageError).
Proof. exact timestamp_refuted. Qed.
Print Assumptions C19_timestamp_refuted.

(* ---------------------------------------------------------------- enumerated fields, error class *)

Theorem C19_enum : forall f s, f_values f <> [] ->
  (validate_value f s = Accept false <-> s <> [] /\ In s (f_values f)).
Proof. exact validate_enum. Qed.
Print Assumptions C19_enum.

(* every rejection, for every field (enumerated, plain, unsupported type) and every string incl. the empty one,
   is the library's message error *)
Theorem C19_error_class : forall f s e, validate_value f s = Raise e -> e = EFIXMessageError.
Proof. exact validate_error_class. Qed.
Print Assumptions C19_error_class.

(* ---------------------------------------------------------------- the two dictionaries, regenerated on every run *)

Theorem C19_dictionary_types_covered : forall n, In n all_types -> exists d, datatype_of_name n = Some d.
Proof. exact dictionary_types_covered. Qed.
Print Assumptions C19_dictionary_types_covered.

Theorem C19_dictionary_field_types : forall x, In x all_fields -> In (snd (fst x)) all_types.
Proof. exact dictionary_field_types. Qed.
Print Assumptions C19_dictionary_field_types.

Theorem C19_dictionary_enumerators_accepted : forall x v,
  In x all_fields -> In v (snd x) -> v <> [] /\ validate_value (mk x) v = Accept false.
Proof. exact dictionary_enumerators_accepted. Qed.
Print Assumptions C19_dictionary_enumerators_accepted.

Theorem C19_dictionary_tag16_is_seqnum : forall x,
  In x all_fields -> fst (fst x) = TAG_16 -> snd (fst x) = n_SEQNUM /\ snd x = [].
Proof. exact dictionary_tag16_is_seqnum. Qed.
Print Assumptions C19_dictionary_tag16_is_seqnum.

Example C19_dictionary_nonempty : (length fields_fix44 >= 100)%nat /\ (length fields_tt >= 100)%nat.
Proof. exact dictionary_sizes. Qed.
Print Assumptions C19_dictionary_nonempty.

(* non-vacuity of the hypotheses of C19_lexical_partial and C19_endseqno *)
Example C19_nonvacuous :
  let s := [50;48;50;52;48;50;50;57;45;50;51;58;53;57;58;53;57;46;57;57;57] in    (* 20240229-23:59:59.999 *)
  datatype_of_name n_UTCTIMESTAMP = Some DUTCTimestamp /\ TAG_1 <> TAG_16 /\ kf DUTCTimestamp s = false
  /\ lex DUTCTimestamp s = true /\ validate_value (plain TAG_1 n_UTCTIMESTAMP) s = Accept false
  /\ validate_value (plain TAG_16 n_SEQNUM) [48] = Accept false
  /\ validate_value (plain TAG_16 n_SEQNUM) [55] = Accept false
  /\ validate_value (plain TAG_16 n_SEQNUM) [45; 49] = Raise EFIXMessageError
  /\ validate_value (plain TAG_1 n_SEQNUM) [48] = Raise EFIXMessageError.
Proof. exact nonvacuous. Qed.
Print Assumptions C19_nonvacuous.
