"""Shared by C13 and C08: operation language of the journal model, implementation driver,
generators.  An operation is a list in the Sx syntax of coq/theories/Fix/JournalRun.v:

  [0, target, sender]        create_or_load      -> [key, target, sender, next_out, next_in]
  [1, h, dir, msg]           persist_msg         -> 0 | 1 DuplicateSeqNoError | 2 FIXMessageError
  [2, h, [o]?, [i]?]         set_seq_num         -> [err, next_out, next_in] of the session object
  [3, h, dir, lo, hi]        recover_messages    -> [msg, ...]
  [4, h, dir, n]             recover_msg         -> [msg] | []
  [5]                        sessions            -> [[key, target, sender, next_out, next_in], ...]
  [6, [hs]?, [dir]?]         get_all_msgs        -> [[seq, msg, dir, sid], ...]
  [7, msg]                   find_seq_no         -> [n] | []
  [8]                        close + reopen the file with a new Journaler
h is the index of the session handle (k-th successful create_or_load)."""
import os
import shutil
import tempfile

from vlib.core import sx

INT64 = 2 ** 63 - 1


def tmpdir():
    base = "/dev/shm" if os.path.isdir("/dev/shm") else None
    return tempfile.mkdtemp(prefix="afj_", dir=base)


def sx_op(op):
    k = op[0]
    if k == 0:
        return "[0,%s,%s]" % (sx(op[1]), sx(op[2]))
    if k == 1:
        return "[1,%d,%d,%s]" % (op[1], op[2], sx(op[3]))
    if k == 2:
        o = "[]" if op[2] is None else "[%d]" % op[2]
        i = "[]" if op[3] is None else "[%d]" % op[3]
        return "[2,%d,%s,%s]" % (op[1], o, i)
    if k == 3:
        return "[3,%d,%d,%d,%d]" % tuple(op[1:5])
    if k == 4:
        return "[4,%d,%d,%d]" % tuple(op[1:4])
    if k == 5:
        return "[5]"
    if k == 6:
        hs = "[]" if op[1] is None else "[%s]" % sx(list(op[1]))
        d = "[]" if op[2] is None else "[%d]" % op[2]
        return "[6,%s,%s]" % (hs, d)
    if k == 7:
        return "[7,%s]" % sx(op[1])
    if k == 8:
        return "[8]"
    raise ValueError(op)


def sx_ops(ops):
    return "[" + ",".join(sx_op(o) for o in ops) + "]"


def enc_text(s):
    return [ord(c) for c in s]


def err_code(e):
    from asyncfix.errors import DuplicateSeqNoError, FIXMessageError

    if isinstance(e, DuplicateSeqNoError):
        return 1
    if isinstance(e, FIXMessageError):
        return 2
    if isinstance(e, AssertionError):
        return 3
    if isinstance(e, StopIteration):
        return 4
    if isinstance(e, OverflowError):
        return 5
    return [99, type(e).__name__]


class Impl:
    """Drives a real Journaler over a real SQLite file."""

    def __init__(self, path):
        from asyncfix.journaler import Journaler

        self.path = path
        self.J = Journaler
        self.j = Journaler(path)
        self.hs = []

    def close(self):
        try:
            self.j.cursor.close()
            self.j.conn.close()
        except Exception:
            pass
        # neutralise __del__ on the dead object
        self.j.cursor = _Dummy()
        self.j.conn = _Dummy()

    def sess_row(self, s):
        return [s.key, enc_text(s.target_comp_id), enc_text(s.sender_comp_id), s.next_num_out, s.next_num_in]

    def step(self, op):
        from asyncfix.message import MessageDirection

        k = op[0]
        try:
            if k == 0:
                s = self.j.create_or_load(op[1], op[2])
                self.hs.append(s)
                return self.sess_row(s)
            if k == 1:
                try:
                    self.j.persist_msg(op[3], self.hs[op[1]], MessageDirection(op[2]))
                    return 0
                except Exception as e:
                    return err_code(e)
            if k == 2:
                s = self.hs[op[1]]
                err = 0
                try:
                    self.j.set_seq_num(s, next_num_out=op[2], next_num_in=op[3])
                except Exception as e:
                    err = err_code(e)
                return [err, s.next_num_out, s.next_num_in]
            if k == 3:
                r = self.j.recover_messages(self.hs[op[1]], MessageDirection(op[2]), op[3], op[4])
                return [list(m) for m in r]
            if k == 4:
                r = self.j.recover_msg(self.hs[op[1]], MessageDirection(op[2]), op[3])
                return [] if r is None else [list(r)]
            if k == 5:
                d = self.j.sessions()
                rows = [self.sess_row(s) for s in d.values()]
                for (t, sd), s in d.items():
                    assert (t, sd) == (s.target_comp_id, s.sender_comp_id)
                return sorted(rows, key=lambda r: r[0])
            if k == 6:
                ss = None if op[1] is None else [self.hs[h] for h in op[1]]
                dr = None if op[2] is None else MessageDirection(op[2])
                return [[r[0], list(r[1]), r[2], r[3]] for r in self.j.get_all_msgs(ss, dr)]
            if k == 7:
                try:
                    return [self.J.find_seq_no(op[1])]
                except Exception as e:
                    c = err_code(e)
                    return [] if c == 2 else [c]
            if k == 8:
                self.close()
                self.j = self.J(self.path)
                return 0
        except Exception as e:  # unexpected exception class: visible in the projection
            return [98, type(e).__name__, str(e)[:80]]
        raise ValueError(op)


class _Dummy:
    def close(self):
        pass


def run_impl(ops, path=None):
    d = None
    if path is None:
        d = tmpdir()
        path = os.path.join(d, "j.db")
    im = Impl(path)
    try:
        return [im.step(o) for o in ops]
    finally:
        im.close()
        if d:
            shutil.rmtree(d, ignore_errors=True)


# ------------------------------------------------------------------------------- generators

COMP = ["A", "B", "AB", "", "a", "Té", "x y"]
PAIRS = [("A", "B"), ("B", "A"), ("A", "A"), ("AB", ""), ("", "AB"), ("a", "A"), ("Té", "x y")]


def gen_msg(rng, seq=None, malformed=False):
    if malformed:
        kind = rng.randrange(8)
        if kind == 0:
            return b"8=FIX.4.4\x0135=D\x0110=000\x01"                 # no 34
        if kind == 1:
            return b"8=FIX.4.4\x0134=abc\x0110=000\x01"
        if kind == 2:
            return b"8=FIX.4.4\x0134=\x0110=000\x01"
        if kind == 3:
            return b"8=FIX.4.4\x0134=12"                             # no terminating SOH
        if kind == 4:
            return b"34=5\x01"                                       # no leading SOH
        if kind == 5:
            return b"\x0134=1__2\x01"
        if kind == 6:
            return bytes(rng.randrange(256) for _ in range(rng.randrange(0, 12)))
        return b"\x0134=5 5\x01"
    if seq is None:
        seq = rng.choice([1, 2, 3, 4, 5, 6, 7, 10, 2 ** 62, 2 ** 62 + 1, 0, -3, 100])
    spell = rng.randrange(10)
    if spell == 0:
        txt = " %d" % seq
    elif spell == 1 and seq >= 0:
        txt = "+%d" % seq
    elif spell == 2 and seq >= 0:
        txt = "00%d" % seq
    elif spell == 3 and seq >= 10:
        s = str(seq)
        txt = s[0] + "_" + s[1:]
    elif spell == 4:
        txt = "%d\t" % seq
    else:
        txt = str(seq)
    pay = bytes(rng.randrange(256) for _ in range(rng.randrange(0, 10)))
    pay = pay.replace(b"\x0134=", b"\x0135=")
    head = rng.choice([b"8=FIX.4.4\x019=10\x0135=D", b"8=FIX.4.4\x019=5\x0135=0\x0149=A\x0156=B", b""])
    return head + b"\x0134=" + txt.encode() + b"\x01" + pay


def gen_ops(rng, n, with_reopen=True):
    ops, nh = [], 0
    small = [1, 2, 3, 4, 5, 6, 7]
    for _ in range(n):
        r = rng.random()
        if nh == 0 or r < 0.12:
            t, s = rng.choice(PAIRS)
            ops.append([0, t, s])
            nh += 1
        elif r < 0.45:
            ops.append([1, rng.randrange(nh), rng.randrange(2),
                        gen_msg(rng, malformed=rng.random() < 0.06) if rng.random() < 0.5
                        else gen_msg(rng, seq=rng.choice(small))])
        elif r < 0.58:
            def v():
                x = rng.random()
                if x < 0.3:
                    return None
                if x < 0.9:
                    return rng.choice(small + [8, 2 ** 62])
                return rng.choice([0, -1])
            ops.append([2, rng.randrange(nh), v(), v()])
        elif r < 0.74:
            lo, hi = rng.choice([(0, INT64), (1, 3), (3, 1), (2, 2), (5, 100), (-5, 2), (2 ** 62, INT64), (4, INT64)])
            ops.append([3, rng.randrange(nh), rng.randrange(2), lo, hi])
        elif r < 0.80:
            ops.append([4, rng.randrange(nh), rng.randrange(2), rng.choice(small + [2 ** 62, 0])])
        elif r < 0.87:
            ops.append([5])
        elif r < 0.93:
            hs = None if rng.random() < 0.4 else [rng.randrange(nh) for _ in range(rng.randrange(0, 3))]
            dr = None if rng.random() < 0.5 else rng.randrange(2)
            ops.append([6, hs, dr])
        elif r < 0.96 or not with_reopen:
            ops.append([7, gen_msg(rng, malformed=rng.random() < 0.4)])
        else:
            ops.append([8])
    return ops
