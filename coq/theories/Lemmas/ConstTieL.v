(* Ties between literals that the models copy from function bodies and the values regenerated from the
   source by translator/gen_const.py (GenConst).  Set equality as mutual inclusion, decided in the kernel. *)
From Coq Require Import NArith List Bool.
From AF Require Import Base.Sx Py.Str Fix.Codec Fix.Resend.
From AFGen Require Import GenConst.
Import ListNotations.

Definition same_set (a b : list str) : bool :=
  forallb (fun x => existsb (str_eqb x) b) a && forallb (fun x => existsb (str_eqb x) a) b.

(* Codec.encode: the header tags skipped when the body is rendered *)
Lemma encode_skip_set_is_code : same_set Codec.skip_tags encode_skip_values = true.
Proof. vm_compute. reflexivity. Qed.

(* _process_resend: message types that are gap-filled, never retransmitted *)
Lemma noreply_set_is_code : same_set Resend.noreply_msgs noreply_values = true.
Proof. vm_compute. reflexivity. Qed.
