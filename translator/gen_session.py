"""GenTimer: the constants of the heartbeat watchdog (C12).

* by reflection: the ConnectionState numbers the watchdog compares with;
* by Python `ast`, searched by name inside `heartbeat_timer_task` (at any nesting depth): the three
  thresholds `tm - self._message_last_time > self._heartbeat_period - 1`,
  `tm - self._message_last_time > self._heartbeat_period * 2`,
  `tm - self._test_req_id > self._heartbeat_period * 2 and tm - self._message_last_time > self._heartbeat_period * 2`
  and the two sleep periods.

A threshold is emitted as a pair (mul, add_ms) meaning  mul * hb seconds + add_ms milliseconds.
Fail-soft (DESIGN.md 3.1): a shape that is not recognised is recorded in MISSES, the committed
default is kept for that constant, and the C12 correspondence (which crosses every threshold
from both sides) is what ties the value to the code."""
import ast
import os

from vlib import core

NAME = "GenTimer"
SOURCES = ["asyncfix/connection.py"]
MISSES = []

DEFAULTS = {
    "probe": (1, -1000),     # hb - 1
    "dead": (2, 0),          # hb * 2   (message-last-time test)
    "treq": (2, 0),          # hb * 2   (TestRequest test)
    "treq_silence": (2, 0),  # hb * 2   (TestRequest test: and nothing valid received for that long)
    "idle_ms": 1000,
    "tick_ms": 1000,
}


def _is_hb(node):
    return isinstance(node, ast.Attribute) and "heartbeat_period" in node.attr or (
        isinstance(node, ast.Name) and "heartbeat_period" in node.id)


def _num(node):
    if isinstance(node, ast.Constant) and isinstance(node.value, (int, float)) and not isinstance(node.value, bool):
        return node.value
    if isinstance(node, ast.UnaryOp) and isinstance(node.op, ast.USub):
        v = _num(node.operand)
        return None if v is None else -v
    return None


def _ms(x):
    v = x * 1000
    if v != int(v):
        raise ValueError("not a whole number of milliseconds: %r" % (x,))
    return int(v)


def linear(node):
    """hb | hb - c | hb + c | hb * c | c * hb   ->  (mul, add_ms)"""
    if _is_hb(node):
        return (1, 0)
    if isinstance(node, ast.BinOp):
        l, r = node.left, node.right
        if isinstance(node.op, (ast.Sub, ast.Add)) and _is_hb(l) and _num(r) is not None:
            c = _num(r)
            return (1, _ms(-c if isinstance(node.op, ast.Sub) else c))
        if isinstance(node.op, ast.Mult):
            if _is_hb(l) and _num(r) is not None and _num(r) == int(_num(r)):
                return (int(_num(r)), 0)
            if _is_hb(r) and _num(l) is not None and _num(l) == int(_num(l)):
                return (int(_num(l)), 0)
    raise ValueError("unrecognised threshold expression: " + ast.dump(node)[:200])


def _mentions(node, name):
    return any((isinstance(n, ast.Attribute) and n.attr == name) or (isinstance(n, ast.Name) and n.id == name)
               for n in ast.walk(node))


def extract(src):
    out = dict(DEFAULTS)
    misses = []
    tree = ast.parse(src)
    fn = None
    for n in ast.walk(tree):
        if isinstance(n, (ast.AsyncFunctionDef, ast.FunctionDef)) and n.name == "heartbeat_timer_task":
            fn = n
    if fn is None:
        return out, ["heartbeat_timer_task"]
    cmps = [n for n in ast.walk(fn) if isinstance(n, ast.Compare) and len(n.ops) == 1
            and isinstance(n.ops[0], ast.Gt) and any(_is_hb(x) for x in ast.walk(n.comparators[0]))]
    cmps.sort(key=lambda n: (n.lineno, n.col_offset))
    mlt = [c for c in cmps if _mentions(c.left, "_message_last_time")]
    trq = [c for c in cmps if _mentions(c.left, "_test_req_id")]

    def take(key, nodes, idx):
        try:
            out[key] = linear(nodes[idx].comparators[0])
        except Exception:
            misses.append("watchdog_threshold_" + key)

    if len(mlt) in (2, 3):
        take("probe", mlt, 0)
        take("dead", mlt, 1)
        if len(mlt) == 3:
            take("treq_silence", mlt, 2)
        else:
            misses.append("watchdog_threshold_treq_silence")
    else:
        misses += ["watchdog_threshold_probe", "watchdog_threshold_dead", "watchdog_threshold_treq_silence"]
    if len(trq) == 1:
        take("treq", trq, 0)
    else:
        misses.append("watchdog_threshold_treq")
    sleeps = [n for n in ast.walk(fn) if isinstance(n, ast.Call) and (
        (isinstance(n.func, ast.Attribute) and n.func.attr == "sleep") or
        (isinstance(n.func, ast.Name) and n.func.id == "sleep")) and n.args and _num(n.args[0]) is not None]
    sleeps.sort(key=lambda n: (n.lineno, n.col_offset))
    try:
        if len(sleeps) != 2:
            raise ValueError
        out["idle_ms"] = _ms(_num(sleeps[0].args[0]))
        out["tick_ms"] = _ms(_num(sleeps[1].args[0]))
    except Exception:
        misses.append("watchdog_sleep")
    return out, misses


def generate():
    from asyncfix.connection import ConnectionState

    with open(os.path.join(core.REPO, SOURCES[0])) as f:
        src = f.read()
    vals, misses = extract(src)
    MISSES[:] = misses
    t = "From Coq Require Import ZArith List.\nImport ListNotations.\nOpen Scope Z_scope.\n\n"
    t += "(* ConnectionState numbers (reflection) *)\n"
    for name in ("ACTIVE", "DISCONNECTED_BROKEN_CONN", "NETWORK_CONN_ESTABLISHED", "LOGON_INITIAL_SENT", "RESENDREQ_AWAITING"):
        t += "Definition ST_%s : Z := %d.\n" % (name, int(getattr(ConnectionState, name)))
    t += "\n(* thresholds of heartbeat_timer_task as (mul, add_ms): mul * hb s + add_ms ms  (ast%s) *)\n" % (
        "" if not misses else "; MISSED, defaults kept: " + ", ".join(misses))
    for key in ("probe", "dead", "treq", "treq_silence"):
        t += "Definition thr_%s : Z * Z := (%d, %d).\n" % (key, vals[key][0], vals[key][1])
    t += "Definition idle_ms : Z := %d.\nDefinition tick_ms : Z := %d.\n" % (vals["idle_ms"], vals["tick_ms"])
    t += "Definition translator_misses : nat := %d.\n" % len(misses)
    return t
