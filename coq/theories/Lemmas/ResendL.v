(* Proofs about the resend model Fix/Resend.v (C06). *)
From Coq Require Import ZArith NArith List Bool Lia ZifyBool.
From AF Require Import Base.Sx Py.Str Fix.Resend.
From AFGen Require Import GenEnums.
Import ListNotations.
Open Scope Z_scope.

(* ------------------------------------------------------------------ specification vocabulary *)

(* the application message r is retransmitted: not session level, and the application agrees *)
Definition replayable (f : row -> bool) (r : row) : bool := negb (is_sess_type (r_type r)) && f r.

(* an original send: no PossDupFlag / OrigSendingTime in the body (not the copy left by an earlier resend) *)
Definition clean (r : row) : bool :=
  negb (has_tag T_PossDupFlag (r_body r)) && negb (has_tag T_OrigSendingTime (r_body r)).

(* a frame as the encoder writes it: the four tags it skips never occur in a body *)
Definition codec_row (r : row) : bool := forallb (fun fd => negb (header_skipped (fst fd))) (r_body r).

(* number n must be gap-filled: no journaled message with that number is retransmitted *)
Definition skipped (J : list row) (f : row -> bool) (n : Z) : Prop :=
  forall r, In r J -> r_seq r = n -> replayable f r = false.

Definition is_copy_of (r fr : row) : Prop :=
  r_seq fr = r_seq r /\ r_type fr = r_type r
  /\ r_body fr = r_body r ++ [(T_PossDupFlag, V_Y); (T_OrigSendingTime, r_time r)].

Definition is_gap_fill (fr : row) (a h : Z) : Prop :=
  r_seq fr = a /\ r_type fr = MT_SEQUENCERESET
  /\ r_body fr = [(T_GapFillFlag, V_Y); (T_NewSeqNo, z_to_dec h)].

(* chain J f lim a c W: the frames W cover exactly the numbers [a, c), in order: a retransmission
   (number kept, PossDupFlag=Y, OrigSendingTime = original SendingTime, body otherwise identical)
   for every number whose journaled message is replayable, one GapFill(seq = first, NewSeqNo = next)
   per maximal run of other numbers (a run ends at lim or right before a replayable number). *)
Inductive chain (J : list row) (f : row -> bool) (lim : Z) : Z -> Z -> list row -> Prop :=
| chain_nil : forall a, chain J f lim a a []
| chain_replay : forall a c r fr rest,
    In r J -> r_seq r = a -> replayable f r = true -> is_copy_of r fr ->
    chain J f lim (a + 1) c rest -> chain J f lim a c (fr :: rest)
| chain_gap : forall a h c fr rest,
    a < h -> (forall n, a <= n < h -> skipped J f n) -> (h = lim \/ ~ skipped J f h) ->
    is_gap_fill fr a h -> chain J f lim h c rest -> chain J f lim a c (fr :: rest).

(* what the replay loop needs of the recovered rows: ascending from p, and every row that is
   retransmitted is an original send whose predecessor number is not missing *)
Fixpoint rows_ok (f : row -> bool) (p : Z) (rs : list row) : Prop :=
  match rs with
  | [] => True
  | r :: rest =>
      p <= r_seq r /\ (replayable f r = true -> r_seq r = p /\ clean r = true) /\ rows_ok f (r_seq r + 1) rest
  end.

(* ------------------------------------------------------------------ strings, tags *)

Lemma str_eqb_eq a b : str_eqb a b = true <-> a = b.
Proof.
  revert b; induction a as [|x a IH]; destruct b as [|y b]; cbn; try (split; congruence).
  rewrite andb_true_iff, N.eqb_eq. fold (str_eqb a b). rewrite IH. split; [intros []|intros [=]]; subst; auto.
Qed.

Lemma str_eqb_refl a : str_eqb a a = true.
Proof. apply str_eqb_eq; reflexivity. Qed.

Lemma has_tag_app t a b : has_tag t (a ++ b) = has_tag t a || has_tag t b.
Proof. unfold has_tag. apply existsb_app. Qed.

Lemma get_tag_app_notin t a b : has_tag t a = false -> get_tag t (a ++ b) = get_tag t b.
Proof.
  unfold has_tag, get_tag. induction a as [|x a IH]; cbn; auto.
  intros H. apply orb_false_iff in H as [H1 H2]. rewrite H1. auto.
Qed.

Lemma filter_all {A} (p : A -> bool) l : forallb p l = true -> filter p l = l.
Proof.
  induction l as [|x l IH]; cbn; auto. intros H. apply andb_true_iff in H as [H1 H2].
  rewrite H1, IH; auto.
Qed.

Lemma sess_false_types t : is_sess_type t = false ->
  str_eqb t MT_TESTREQUEST = false /\ str_eqb t MT_SEQUENCERESET = false.
Proof.
  unfold is_sess_type, mem_str, noreply_msgs. cbn [existsb]. intros H.
  repeat (apply orb_false_iff in H as [? H]). auto.
Qed.

(* ------------------------------------------------------------------ sending inside the handler *)

Definition sending_ok (s : st) : Prop := cstate s = ST_HANDLING \/ cstate s = ST_AWAITING.

Lemma gates_ok m s : sending_ok s -> send_gates m s = Ok s.
Proof.
  unfold send_gates. intros [H|H]; rewrite H; cbn; rewrite ?andb_false_r; reflexivity.
Qed.

(* the state after a frame fr was written and journaled *)
Definition sent (fr : row) (s : st) : st :=
  mkSt (cstate s) (initiator s) (testreq_pending s) (nout s) (r_seq fr) (clock s + 1)
       (rows s ++ [fr]) (wire s ++ [fr]) (calls s) (states s).

Definition gap_frame (a h k : Z) : row :=
  mkRow a MT_SEQUENCERESET (time_str k) [(T_GapFillFlag, V_Y); (T_NewSeqNo, z_to_dec h)].

Lemma send_gap_fill a h s :
  sending_ok s -> has_key a (rows s) = false ->
  send_msg (gap_fill_msg a h) s = Ok (sent (gap_frame a h (clock s + 1)) s).
Proof.
  intros Hs Hk. unfold send_msg. rewrite gates_ok by assumption.
  cbn. unfold persist. cbn. unfold has_key in Hk. rewrite Hk. reflexivity.
Qed.

Definition copy_frame (r : row) (k : Z) : row :=
  mkRow (r_seq r) (r_type r) (time_str k) (r_body r ++ [(T_PossDupFlag, V_Y); (T_OrigSendingTime, r_time r)]).

Lemma mk_replay_clean r : clean r = true ->
  mk_replay r = Some (mkMsg (r_type r) (Some (r_seq r))
                            (r_body r ++ [(T_PossDupFlag, V_Y); (T_OrigSendingTime, r_time r)])).
Proof.
  unfold clean, mk_replay. intros H. apply andb_true_iff in H as [H1 H2].
  apply negb_true_iff in H1, H2. rewrite H1, has_tag_app, H2. reflexivity.
Qed.

Lemma send_replay r s :
  sending_ok s -> is_sess_type (r_type r) = false -> clean r = true -> codec_row r = true ->
  has_key (r_seq r) (rows s) = false ->
  send_msg (mkMsg (r_type r) (Some (r_seq r))
                  (r_body r ++ [(T_PossDupFlag, V_Y); (T_OrigSendingTime, r_time r)])) s
  = Ok (sent (copy_frame r (clock s + 1)) s).
Proof.
  intros Hs Ht Hc Hcr Hk. unfold send_msg. rewrite gates_ok by assumption.
  destruct (sess_false_types _ Ht) as [Ht1 Ht4]. cbn [m_type m_seq m_fields].
  rewrite Ht1. cbn [andb]. unfold select_seq. cbn [m_type m_seq m_fields]. rewrite Ht4.
  unfold clean in Hc. apply andb_true_iff in Hc as [Hc1 Hc2]. apply negb_true_iff in Hc1, Hc2.
  rewrite (get_tag_app_notin _ _ _ Hc1).
  change (get_tag T_PossDupFlag [(T_PossDupFlag, V_Y); (T_OrigSendingTime, r_time r)]) with (Some V_Y).
  change (str_eqb V_Y V_Y) with true. cbv iota beta.
  rewrite filter_app. unfold codec_row in Hcr. rewrite filter_all by exact Hcr.
  change (filter (fun f0 : field => negb (header_skipped (fst f0)))
                 [(T_PossDupFlag, V_Y); (T_OrigSendingTime, r_time r)])
    with [(T_PossDupFlag, V_Y); (T_OrigSendingTime, r_time r)].
  unfold persist. Show. cbn [r_seq rows]. unfold has_key in *. rewrite Hk. reflexivity.
Qed.
