(* Sx front end of the scheduling model (C14).

   request   [[st, role, treq, [pre-history msgs], [numbers of journal rows deleted after the pre-history]], [task..], [choice..]]
     msg    = [ty, id, [own]?, pd, gapfill]
     instr  = [0,msg] send | [1,msg] send-rest | [2] send_test_req | [3,s,ua] _state_set hook | [4] hook
            | [5,r] role | [6,b,e,[declined..]] resend | [8,e] raise | [9] finally of the resend try
     task   = [abort, [instr..]]
   The pre-history is sent by one application task running alone from a fresh session (numbers
   from 1) in state ACTIVE; then state / TestReqID are set and the tasks are scheduled.
   reply     [wire, [[outs, [exc]?, wait]..], rows, sout, nout, st, role, treq, fifo, valid]
     frame  = [seq, ty, pd, id, gapfill]   wire oldest first, outs oldest first, wait 0 start 1 hook 2 drain 3 done *)
From Coq Require Import ZArith NArith List Bool.
From AF Require Import Base.Sx Fix.Sched.
Import ListNotations.
Open Scope Z_scope.

Definition err_code (e : err) : Z :=
  match e with EConn => 4 | EDupSeq => 5 | EEncoding => 6 | EAssert => 3 | EDupTag => 10 end.
Definition err_of (z : Z) : err :=
  if z =? 4 then EConn else if z =? 5 then EDupSeq else if z =? 6 then EEncoding else if z =? 3 then EAssert else EDupTag.

Definition sx_outcome (o : outcome) : sx := match o with OOk => SI 0 | OExc e => SI (err_code e) end.
Definition sx_frame (f : frame) : sx := SL [SI (f_seq f); SI (f_ty f); sx_of_bool (f_pd f); SI (f_id f); sx_of_bool (f_gf f)].
Definition sx_wait (w : wait) : sx :=
  SI (match w with WStart => 0 | WHook => 1 | WDrain _ _ => 2 | WDone => 3 end).
Definition sx_task (t : task) : sx :=
  SL [sx_of_list sx_outcome (rev (t_out t)); sx_of_opt (fun e => SI (err_code e)) (t_exc t); sx_wait (t_wait t)].
Definition sx_row (r : Z * frame) : sx := SL [SI (fst r); sx_frame (snd r)].

Definition get_msg (s : sx) : option msg :=
  match s with
  | SL [SI ty; SI id; own; pd; gf] =>
      match get_opt get_z own, get_bool pd, get_bool gf with
      | Some own, Some pd, Some gf => Some (mkMsg ty id own pd gf)
      | _, _, _ => None
      end
  | _ => None
  end.

Definition get_instr (s : sx) : option instr :=
  match s with
  | SL [SI 0; m] => option_map ISend (get_msg m)
  | SL [SI 1; m] => option_map ISendRest (get_msg m)
  | SL [SI 2] => Some ITestReq
  | SL [SI 3; SI s; ua] => option_map (IStateHook s) (get_bool ua)
  | SL [SI 4] => Some IHook
  | SL [SI 5; SI r] => Some (ISetRole r)
  | SL [SI 6; SI b; SI e; d] => option_map (IResend b e) (get_list get_z d)
  | SL [SI 8; SI e] => Some (IRaise (err_of e))
  | SL [SI 9] => Some IFinally
  | _ => None
  end.

Definition get_task (s : sx) : option task :=
  match s with
  | SL [ab; code] =>
      match get_bool ab, get_list get_instr code with
      | Some ab, Some code => Some (mkT code WStart [] None ab)
      | _, _ => None
      end
  | _ => None
  end.

Definition get_nat (s : sx) : option nat := option_map N.to_nat (get_N s).

(* one task running alone to completion *)
Fixpoint run_alone (fuel : nat) (c : config) : config :=
  match fuel with
  | O => c
  | S f => if all_done c then c else run_alone f (sched_step c 0%nat)
  end.

Definition fresh (rl : Z) : world := mkW 1 0 [] [] S_ACTIVE rl false 0.

Definition drop_rows (holes : list Z) (w : world) : world :=
  mkW (nout w) (sout w) (filter (fun r => negb (mem_z (fst r) holes)) (rows w)) (rwire w) (st w) (role w) (treq w) (tick w).

Definition init_world (s rl : Z) (tq : bool) (pre : list msg) (holes : list Z) : world :=
  let c := run_alone (2 * length pre + 2) (mkC (fresh rl) [sender_task pre]) in
  drop_rows holes (set_treq tq (set_st s (c_w c))).

Definition observe (c0 : config) (sched : list nat) : sx :=
  let c := run_sched c0 sched in
  let w := c_w c in
  SL [sx_of_list sx_frame (wire_of w); sx_of_list sx_task (c_ts c); sx_of_list sx_row (rows w);
      SI (sout w); SI (nout w); SI (st w); SI (role w); sx_of_bool (treq w);
      sx_of_bool (fifo_sched c0 sched); sx_of_bool (valid_sched c0 sched)].

Definition run (req : sx) : sx :=
  match req with
  | SL [SL [SI s; SI rl; tq; pre; holes]; ts; sched] =>
      match get_bool tq, get_list get_msg pre, get_list get_z holes, get_list get_task ts, get_list get_nat sched with
      | Some tq, Some pre, Some holes, Some ts, Some sched => observe (mkC (init_world s rl tq pre holes) ts) sched
      | _, _, _, _, _ => err_sx 1
      end
  | _ => err_sx 2
  end.

Definition entry (line : str) : str := run_line run line.
