(* C09 - restarting an endpoint is transparent to the session.
   Theorems only (proofs in AF.Lemmas.RestartL), about the counter-ledger model Fix/Restart.v:
     world  = live next_num_in / next_num_out, connection state class, the journal of the session (stored counters, inbound keys,
              outbound rows; committed / current tables) given as the replay of the logged SQL statements, the frames written;
     run w h             the world after the operations h (connect, inbound frame, send_msg, disconnect, graceful restart);
     restart w           a NEW connection object over the committed journal of w (Journaler.create_or_load);
     crash_at k w        the same after a process death right after the k-th effect (transport write / drain / SQL statement /
                         commit) of the current incarnation: uncommitted statements are lost;
     Stored_eq w         stored inbound + 1 = next_num_in and stored outbound + 1 = next_num_out;
     Inv w               Stored_eq, journal clean (committed = current), every journaled number below its live counter, counters
                         positive, RESENDREQ_AWAITING only with a positive watermark;
     class_free h        no operation of h is in a known-finding class:
        KF_D11  inbound SequenceReset that is finalized and whose NewSeqNo is not its own MsgSeqNum + 1,
        KF_D20  application-sent SequenceReset without GapFillFlag and without PossDupFlag (journaled under its own number).
   The model describes the code WITH the repair of D12 (fixes/D12-resend-keeps-journal.patch): servicing a ResendRequest
   writes neither journal nor counters, PossDup copies and gap fills are not journaled; the former class KF_D12 is gone
   (C09_resend_keeps_journal); and WITH the round-3 repairs: an in-sequence peer Logout is counted and journaled (former
   class D22: C09_peer_logout_counted, C09_accepted_counted), a ResendRequest that cannot be served does not leave the
   state in RESENDREQ_HANDLING; and WITH the round-8 repairs: send_msg journals before it writes to the transport (former
   class D14: C09_no_number_reuse holds for every crash point of a send), non-Logon traffic during the Logon exchange drops
   the connection / is refused. *)
From Coq Require Import ZArith List Bool.
From AF Require Import Fix.Restart Lemmas.RestartL.
Import ListNotations.
Open Scope Z_scope.

(* at every quiescent point of every history that avoids the known classes (any number of graceful restarts inside),
   the stored counters are the live counters - 1 *)
Theorem C09_stored_eq_partial : forall r h1 h2,
  class_free (h1 ++ h2) = true -> Stored_eq (run (fresh r) h1).
Proof. exact stored_eq_partial. Qed.
Print Assumptions C09_stored_eq_partial.

(* ... and the whole ledger invariant holds *)
Theorem C09_ledger_invariant_partial : forall r h, class_free h = true -> Inv (run (fresh r) h).
Proof. exact invariant_partial. Qed.
Print Assumptions C09_ledger_invariant_partial.

(* one operation outside the classes preserves the invariant from ANY world that satisfies it *)
Theorem C09_step_preserves : forall w o, Inv w -> KF_D11 o = false -> KF_D20 o = false ->
  Inv (run_op w o) /\ (o <> ORestart -> Step w (run_op w o)).
Proof. exact op_step. Qed.
Print Assumptions C09_step_preserves.

(* D11: a gap fill spanning several numbers leaves the stored inbound counter at the frame's own number; the restarted
   endpoint expects 3 where the old object expected 6, and asks the peer to resend although nothing was lost *)
Theorem C09_gapfill_lag_refuted :
  exists r h o, class_free h = true /\ KF_D11 o = true /\
    let w := run (fresh r) (h ++ [o]) in
    ~ Stored_eq w /\ nin w = 6 /\ sin (jt w) = 2 /\ nin (restart w) = 3
    /\ has_resend (writes (log (run (restart w) (logon_ops r 6)))) = true.
Proof. exact gapfill_lag_refuted. Qed.
Print Assumptions C09_gapfill_lag_refuted.

(* former D12: servicing a ResendRequest - whatever its range, whatever the journal holds, from ANY world, whether it
   completes or raises - executes no SQL statement, leaves the journal and both live counters as they were, and puts
   nothing original on the wire *)
Theorem C09_resend_keeps_journal : forall f w r w', process_resend f w = (r, w') ->
  db w' = db w /\ nin w' = nin w /\ nout w' = nout w
  /\ exists l, log w' = log w ++ l /\ nstmts l = O /\ (forall g, In g (writes l) -> original g = false).
Proof. exact resend_keeps_journal. Qed.
Print Assumptions C09_resend_keeps_journal.

(* the former D12 witness: a second ResendRequest over an already replayed range is answered like the first, the journal
   keeps the three original rows, next_num_out stays 4 *)
Example C09_resend_twice :
  class_free h_resend2 = true /\
  let w := run (fresh Acceptor) h_resend2 in
  Stored_eq w /\ nout w = 4 /\ sout (jt w) = 3 /\ nin w = 4 /\ st w = Active
  /\ rout (jt w) = [logon_frame 1; app_frame 2 1; app_frame 3 2]
  /\ skipn 3 (writes (log w)) = [mkF TApp 3 true 2 0; mkF TApp 2 true 1 0; mkF TApp 3 true 2 0].
Proof. exact resend_twice_example. Qed.
Print Assumptions C09_resend_twice.

(* D20: an application-sent SequenceReset without GapFillFlag is journaled under its own number without consuming it *)
Theorem C09_app_seqreset_refuted :
  exists r h o, class_free h = true /\ KF_D20 o = true /\
    let w := run (fresh r) (h ++ [o]) in
    ~ Stored_eq w /\ nout w = 2 /\ sout (jt w) = 2 /\ nout (restart w) = 3.
Proof. exact app_seqreset_refuted. Qed.
Print Assumptions C09_app_seqreset_refuted.

(* a world rebuilt by create_or_load from the journal of a quiescent world has the same live counters ... *)
Theorem C09_restart_counters : forall w, clean w -> Stored_eq w ->
  nin (restart w) = nin w /\ nout (restart w) = nout w.
Proof. exact restart_counters. Qed.
Print Assumptions C09_restart_counters.

(* ... and after every class-free history the next Logon exchange with a peer whose Logon is numbered next_num_in ends
   ACTIVE, the only frame written is our Logon under the old object's next_num_out: no ResendRequest *)
Theorem C09_restart_resumes : forall r h, class_free h = true ->
  let w := run (fresh r) h in
  let w' := restart w in
  nin w' = nin w /\ nout w' = nout w
  /\ let w2 := run w' (logon_ops (ctor w) (nin w)) in
     st w2 = Active /\ writes (log w2) = [mkF TLogon (nout w) false 0 0]
     /\ nin w2 = nin w + 1 /\ nout w2 = nout w + 1 /\ Inv w2.
Proof. exact restart_resumes_history. Qed.
Print Assumptions C09_restart_resumes.

(* former D14 (repaired: send_msg journals BEFORE it writes to the transport).  An original send that completed, and a
   death right after ANY of its effects (INSERT, counter UPDATE, COMMIT, transport write, drain; k = number of effects
   of the incarnation executed): the restarted endpoint satisfies the invariant, its next_num_out is the old one or the
   old one + 1 - the latter whenever the frame reached the transport - and in every class-free continuation (further
   restarts included) every original frame it hands to the transport carries a number ABOVE every original number the
   transport ever saw *)
Theorem C09_no_number_reuse : forall r h m w1 k,
  class_free h = true -> own_number m = false ->
  let w := run (fresh r) h in
  send_msg m w = (inl tt, w1) ->
  (length (log w) <= k <= length (log w1))%nat ->
  let w2 := crash_at k w1 in
  let f := out_frame m (nout w) in
  log w1 = log w ++ send_effects f
  /\ Inv w2 /\ nin w2 = nin w
  /\ (nout w2 = nout w \/ nout w2 = nout w + 1)
  /\ (In f (allwire w2) -> nout w2 = nout w + 1)
  /\ forall h', class_free h' = true ->
       forall g f', In g (allwire w2) -> original g = true ->
                    In f' (skipn (length (allwire w2)) (allwire (run w2 h'))) -> original f' = true ->
                    f_seq g < f_seq f'.
Proof. exact no_number_reuse. Qed.
Print Assumptions C09_no_number_reuse.

(* the former D14 witness, all six crash points of the send of an application message: next_num_out restored and what
   the transport saw after the Logon *)
Example C09_send_crash_points :
  length (log (run (fresh Acceptor) acc_logon)) = 8%nat /\ length (log w_send9) = 13%nat
  /\ map (fun k => (nout (crash_at k w_send9), skipn 1 (allwire (crash_at k w_send9)))) [8; 9; 10; 11; 12; 13]%nat
     = [(2, []); (2, []); (2, []); (3, []); (3, [app_frame 2 9]); (3, [app_frame 2 9])].
Proof. exact send_crash_points_example. Qed.
Print Assumptions C09_send_crash_points.

(* death after the journal commit and before the transport write: the journaled, unsent message is recovered by the
   peer's ResendRequest as a PossDup copy (legitimate: the message really was lost) *)
Example C09_journaled_unwritten_recovered :
  let w2 := run (crash_at 11 w_send9) [OConnect; OIn (logon_frame 2); OIn (mkF TResend 3 false 2 0)] in
  st w2 = Active /\ nin w2 = 4 /\ nout w2 = 4
  /\ writes (log w2) = [logon_frame 3; mkF TApp 2 true 9 0; mkF TSeqReset 3 false 4 1].
Proof. exact journaled_unwritten_recovered. Qed.
Print Assumptions C09_journaled_unwritten_recovered.

(* a send whose transport RAISES - in write() (d = false: nothing reaches the wire) or in drain() after write() took the
   bytes (d = true) - with the exception going to the caller and the object living on: nothing is undone, the journal row
   stays and the number is spent; whatever follows (traffic, restarts) never uses again a number the transport saw *)
Theorem C09_transport_fault_keeps_number : forall r h d m w',
  class_free h = true -> own_number m = false ->
  let w := run (fresh r) h in
  send_fault d m w = (inr XIO, w') ->
  let f := out_frame m (nout w) in
  Inv w' /\ nout w' = nout w + 1 /\ sout (jt w') = nout w /\ In f (rout (jt w'))
  /\ writes (log w') = writes (log w) ++ (if d then [f] else [])
  /\ nout (restart w') = nout w + 1
  /\ forall h', class_free h' = true ->
       forall g f', In g (allwire w') -> original g = true ->
                    In f' (skipn (length (allwire w')) (allwire (run w' h'))) -> original f' = true ->
                    f_seq g < f_seq f'.
Proof. exact transport_fault_keeps_number. Qed.
Print Assumptions C09_transport_fault_keeps_number.

(* Logon, order A (2), order B (3) leaves before drain() raises, restart: next_num_out 4, the new Logon is numbered 4 *)
Example C09_drain_fault_then_restart :
  class_free h_drain_fault = true /\
  let w := run (fresh Initiator) h_drain_fault in
  nout w = 4 /\ sout (jt w) = 3 /\ writes (log w) = [logon_frame 1; app_frame 2 1; app_frame 3 2]
  /\ nout (restart w) = 4
  /\ writes (log (run (restart w) [OConnect; OSend (logon_frame 0)])) = [logon_frame 4].
Proof. exact drain_fault_example. Qed.
Print Assumptions C09_drain_fault_then_restart.

(* former D22 (repaired: an in-sequence Logout of the peer is counted and journaled before the session is torn down):
   the peer sent 1 (Logon) and 2 (Logout); next_num_in is 3, stored 2; after the restart the peer's Logon numbered 3 is
   accepted: ACTIVE, no ResendRequest *)
Example C09_peer_logout_counted :
  class_free h_d22 = true /\ inbound_seqs h_d22 = [1; 2] /\
  let w := run (fresh Acceptor) h_d22 in
  Stored_eq w /\ nin w = 3 /\ sin (jt w) = 2 /\ rin (jt w) = [1; 2] /\ st w = Disc /\ nin (restart w) = 3
  /\ let w2 := run (restart w) (logon_ops Acceptor 3) in
     has_resend (writes (log w2)) = false /\ st w2 = Active.
Proof. exact peer_logout_counted_example. Qed.
Print Assumptions C09_peer_logout_counted.

(* once the Logon exchange has completed (RESENDREQ_HANDLING, RECV_SEQNUM_TOO_HIGH, RESENDREQ_AWAITING, ACTIVE) every in-sequence
   application message, Heartbeat, TestRequest and Logout is counted and journaled under its own number; from ANY world
   satisfying the invariant *)
Theorem C09_accepted_counted : forall f w, Inv w -> counted_type (f_type f) = true -> f_seq f = nin w ->
  established (st w) = true ->
  let w' := run_op w (OIn f) in
  nin w' = nin w + 1 /\ sin (jt w') = nin w /\ Inv w'.
Proof. exact accepted_counted. Qed.
Print Assumptions C09_accepted_counted.

(* before that, nothing but Logon / Logout is acceptable: the connection is dropped, nothing counted, nothing delivered *)
Example C09_logon_exchange_gate :
  let w := run (fresh Initiator) [OConnect; OSend (logon_frame 0); OIn (app_frame 1 5)] in
  st w = Disc /\ nin w = 1 /\ sin (jt w) = 0 /\ dlv w = [] /\ writes (log w) = [logon_frame 1].
Proof. exact logon_exchange_gate_example. Qed.
Print Assumptions C09_logon_exchange_gate.

(* ... and the Logout also ends the session *)
Theorem C09_peer_logout_counted_general : forall f w, Inv w -> f_type f = TLogout -> f_seq f = nin w ->
  is_disc (st w) = false -> cstate_eqb (st w) NCE = false ->
  let w' := run_op w (OIn f) in
  nin w' = nin w + 1 /\ sin (jt w') = nin w /\ Inv w' /\ is_disc (st w') = true.
Proof. exact logout_counted. Qed.
Print Assumptions C09_peer_logout_counted_general.

(* a duplicate inbound row (gap fill onto its own number, then that number): the live counter advances, the journal does
   not, DuplicateSeqNoError escapes _process_message *)
Example C09_duplicate_inbound_row :
  let w := run (fresh Acceptor) (acc_logon ++ [OIn (mkF TSeqReset 2 false 2 1)]) in
  nin w = 2 /\ sin (jt w) = 2 /\ has_in (jt w) 2 = true /\
  let (r, w') := step (OIn (app_frame 2 1)) w in
  r = inr XDup /\ nin w' = 3 /\ sin (jt w') = 2 /\ rin (jt w') = rin (jt w).
Proof. exact duplicate_inbound_row_example. Qed.
Print Assumptions C09_duplicate_inbound_row.

(* non-vacuity: a class-free history with a gap, our ResendRequest, replay, gap fills, a TestRequest answered, a peer
   ResendRequest serviced completely, a restart, the next Logon exchange and a send *)
Example C09_nonvacuous :
  class_free h_nonvac = true
  /\ let w := run (fresh Acceptor) h_nonvac in
     nin w = 10 /\ nout w = 7 /\ sin (jt w) = 9 /\ sout (jt w) = 6 /\ st w = Active /\ dlv w = [].
Proof. exact nonvacuous. Qed.
Print Assumptions C09_nonvacuous.
