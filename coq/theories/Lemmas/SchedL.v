(* Proofs about the scheduling model Fix/Sched.v (C14).

   Part 1: list / journal facts.
   Part 2: what one run-to-next-suspension of a task with SAFE code does (safe = any mix of
           send_msg of new messages, send_test_req, _state_set hooks, plain hooks, role
           assignment, and the ResendRequest service with the replay code it unfolds into).
   Part 3: the invariant Inv (every schedule) and InvF (schedules obeying FIFO drain wake-up),
           preserved by sched_step, lifted over run_sched by induction on the schedule.
   Part 4: the statements exported by Props/C14.v.
   Part 5: examples (vm_compute): non-vacuity, the schedules that broke the property before the
           repair of D12, and the LIFO wake-up witness. *)
From Coq Require Import ZArith List Bool Lia.
From AF Require Import Fix.Sched.
Import ListNotations.
Open Scope Z_scope.

(* ================================================================== 1. lists, journal *)

Lemma nth_upd_eq {A} : forall (l : list A) i x y, nth_error l i = Some y -> nth_error (upd i x l) i = Some x.
Proof.
  induction l as [|a l IH]; intros [|i] x y H; simpl in *; try discriminate; auto.
  eapply IH; eauto.
Qed.

Lemma nth_upd_neq {A} : forall (l : list A) i j x, j <> i -> nth_error (upd i x l) j = nth_error l j.
Proof.
  induction l as [|a l IH]; intros [|i] [|j] x H; simpl in *; auto; try congruence.
Qed.

Lemma row_at_insert : forall l n f k, row_at n l = None ->
  row_at k (insert_row n f l) = if k =? n then Some f else row_at k l.
Proof.
  induction l as [|[a g] l IH]; intros n f k H; simpl in *.
  - rewrite (Z.eqb_sym n k). reflexivity.
  - destruct (a =? n) eqn:Ean; [discriminate|].
    destruct (n <? a) eqn:Elt; simpl.
    + rewrite (Z.eqb_sym n k). destruct (k =? n) eqn:Ekn; auto.
    + rewrite IH by assumption.
      destruct (a =? k) eqn:Eak; auto.
      destruct (k =? n) eqn:Ekn; auto.
      apply Z.eqb_eq in Eak, Ekn. apply Z.eqb_neq in Ean. lia.
Qed.

Fixpoint consec (l : list frame) (hi : Z) : Prop :=
  match l with
  | [] => True
  | f :: l' => f_seq f = hi - 1 /\ consec l' (hi - 1)
  end.

Lemma consec_in : forall l hi f, consec l hi -> In f l -> hi - Z.of_nat (length l) <= f_seq f < hi.
Proof.
  induction l as [|a l IH]; intros hi f Hc Hin; simpl in *; [contradiction|].
  destruct Hc as [Ha Hc]. destruct Hin as [->|Hin].
  - lia.
  - specialize (IH _ _ Hc Hin). lia.
Qed.

Lemma consec_inj : forall l hi f g, consec l hi -> In f l -> In g l -> f_seq f = f_seq g -> f = g.
Proof.
  induction l as [|a l IH]; intros hi f g Hc Hf Hg He; simpl in *; [contradiction|].
  destruct Hc as [Ha Hc].
  destruct Hf as [->|Hf]; destruct Hg as [->|Hg]; auto.
  - pose proof (consec_in _ _ _ Hc Hg). lia.
  - pose proof (consec_in _ _ _ Hc Hf). lia.
  - eapply IH; eauto.
Qed.

Fixpoint zseq (a : Z) (n : nat) : list Z :=
  match n with O => [] | S k => a :: zseq (a + 1) k end.

Lemma zseq_snoc : forall n a, zseq a (S n) = zseq a n ++ [a + Z.of_nat n].
Proof.
  induction n as [|n IH]; intros a.
  - simpl. f_equal. lia.
  - change (zseq a (S (S n))) with (a :: zseq (a + 1) (S n)). rewrite IH.
    simpl. do 2 f_equal. f_equal. lia.
Qed.

Lemma consec_zseq : forall l hi, consec l hi ->
  map f_seq (rev l) = zseq (hi - Z.of_nat (length l)) (length l).
Proof.
  induction l as [|a l IH]; intros hi Hc.
  - reflexivity.
  - destruct Hc as [Ha Hc]. cbn [rev]. rewrite map_app, (IH _ Hc).
    cbn [length map]. rewrite zseq_snoc. f_equal.
    + f_equal. lia.
    + f_equal. lia.
Qed.


Lemma in_insert : forall l n f k g, In (k, g) (insert_row n f l) <-> (k, g) = (n, f) \/ In (k, g) l.
Proof.
  induction l as [|[a h] l IH]; intros n f k g; simpl.
  - intuition congruence.
  - destruct (n <? a); simpl.
    + intuition congruence.
    + rewrite IH. intuition congruence.
Qed.

Lemma filter_rev {A} : forall (p : A -> bool) l, filter p (rev l) = rev (filter p l).
Proof.
  induction l as [|a l IH]; simpl; auto.
  rewrite filter_app, IH. simpl. destruct (p a); simpl; auto. rewrite app_nil_r. auto.
Qed.

(* ================================================================== 2. one segment of safe code *)

Definition is_new (m : msg) : bool := negb (m_ty m =? T_SEQRESET) && negb (m_pd m).
Definition is_newf (f : frame) : bool := negb (f_ty f =? T_SEQRESET) && negb (f_pd f).
Definition newf (l : list frame) : list frame := filter is_newf l.

(* a legitimate retransmission frame, given the journal and the live counter: the PossDup copy of a
   journaled message under that message's number, or a gap fill b -> n over numbers already used *)
Definition retx_ok (rws : list (Z * frame)) (hi : Z) (g : frame) : Prop :=
  (exists k f, In (k, f) rws /\ g = mkF (f_seq f) (f_ty f) true (f_id f) false)
  \/ (exists b n, g = mkF b T_SEQRESET false n true /\ b < n <= hi).

Definition retx_msg (rws : list (Z * frame)) (hi : Z) (m : msg) : Prop :=
  (exists k f, In (k, f) rws /\ m = replay_msg f)
  \/ (exists b n, m = gapfill_msg b n /\ b < n <= hi).

Definition instr_ok (rws : list (Z * frame)) (hi : Z) (i : instr) : Prop :=
  match i with
  | ISend m | ISendRest m => is_new m = true \/ retx_msg rws hi m
  | IRaise e => e <> EDupSeq
  | _ => True
  end.

(* code that is safe in world w *)
Definition cok (w : world) (c : list instr) : Prop := Forall (instr_ok (rows w) (nout w)) c.

(* journal entries are keyed by their own number and lie below the live counter *)
Definition ent_ok (w : world) : Prop := forall k f, In (k, f) (rows w) -> f_seq f = k /\ k < nout w.

Definition wle (w w' : world) : Prop := nout w <= nout w' /\ incl (rows w) (rows w').

Lemma wle_refl : forall w, wle w w.
Proof. intros; split; [lia|apply incl_refl]. Qed.

Lemma wle_trans : forall a b c, wle a b -> wle b c -> wle a c.
Proof. intros a b c [? ?] [? ?]; split; [lia|eapply incl_tran; eauto]. Qed.

Lemma retx_ok_mono : forall r r' hi hi' g, incl r r' -> hi <= hi' -> retx_ok r hi g -> retx_ok r' hi' g.
Proof.
  intros r r' hi hi' g Hi Hh [(k&f&?&?)|(b&n&?&?)]; [left|right].
  - exists k, f; auto.
  - exists b, n; split; auto; lia.
Qed.

Lemma instr_ok_mono : forall r r' hi hi' i, incl r r' -> hi <= hi' -> instr_ok r hi i -> instr_ok r' hi' i.
Proof.
  intros r r' hi hi' i Hi Hh H. destruct i; simpl in *; auto;
    (destruct H as [|[(k&f&?&?)|(b&n&?&?)]]; [left; auto|right; left; exists k, f; auto|
      right; right; exists b, n; split; auto; lia]).
Qed.

Lemma cok_mono : forall w w' c, wle w w' -> cok w c -> cok w' c.
Proof.
  intros w w' c [Hn Hr] H. unfold cok in *. eapply Forall_impl; [|exact H].
  intros i Hi. eapply instr_ok_mono; eauto.
Qed.

Definition clean (out : list outcome) : Prop := ~ In (OExc EDupSeq) out.

Definition same_seq (w w' : world) : Prop :=
  nout w' = nout w /\ sout w' = sout w /\ rows w' = rows w /\ rwire w' = rwire w /\ tick w' = tick w.

Lemma same_seq_refl : forall w, same_seq w w.
Proof. intros; repeat split. Qed.

Lemma same_seq_trans : forall a b c, same_seq a b -> same_seq b c -> same_seq a c.
Proof. unfold same_seq; intros a b c (?&?&?&?&?) (?&?&?&?&?); repeat split; congruence. Qed.

Lemma same_seq_wle : forall w w', same_seq w w' -> wle w w'.
Proof. intros w w' (Hn&_&Hr&_). split; [lia|rewrite Hr; apply incl_refl]. Qed.

Lemma same_seq_cok : forall w w' c, same_seq w w' -> cok w c -> cok w' c.
Proof. intros. eapply cok_mono; eauto using same_seq_wle. Qed.

Lemma same_seq_ent : forall w w', same_seq w w' -> ent_ok w -> ent_ok w'.
Proof. intros w w' (Hn&_&Hr&_) H k f. rewrite Hr, Hn. apply H. Qed.

Lemma ent_none : forall w k, ent_ok w -> nout w <= k -> row_at k (rows w) = None.
Proof.
  intros w k He Hk. destruct (row_at k (rows w)) as [f|] eqn:E; auto.
  assert (Hin : In (k, f) (rows w)).
  { clear -E. induction (rows w) as [|[a g] l IH]; simpl in *; [discriminate|].
    destruct (a =? k) eqn:Ea; [apply Z.eqb_eq in Ea; inversion E; subst; auto|auto]. }
  destruct (He _ _ Hin). lia.
Qed.

(* what the segment did to the sequence state: nothing, exactly one new frame numbered nout - journaled
   under nout, stored counter nout, live counter nout + 1, all in the same segment -, or exactly one
   retransmission frame (no counter, no journal change) *)
Inductive exec_post (w : world) (t' : task) (w' : world) : Prop :=
| EP_quiet : same_seq w w' -> (t_wait t' = WHook \/ t_wait t' = WDone) -> exec_post w t' w'
| EP_sent : forall f, t_wait t' = WDrain f (tick w) -> f_seq f = nout w -> is_newf f = true ->
    nout w' = nout w + 1 -> rwire w' = f :: rwire w -> tick w' = tick w + 1 -> sout w' = nout w ->
    rows w' = insert_row (nout w) f (rows w) ->
    exec_post w t' w'
| EP_retx : forall g, t_wait t' = WDrain g (tick w) -> nojournal g = true -> is_newf g = false ->
    retx_ok (rows w) (nout w) g ->
    nout w' = nout w -> rwire w' = g :: rwire w -> tick w' = tick w + 1 -> sout w' = sout w -> rows w' = rows w ->
    exec_post w t' w'.

Lemma exec_post_same : forall w0 w t' w', same_seq w0 w -> exec_post w t' w' -> exec_post w0 t' w'.
Proof.
  intros w0 w t' w' Hs [Hq Hw|f Hw H1 H2 H4 H5 H6 H7 H8|g Hw H1 H2 H3 H4 H5 H6 H7 H8].
  - apply EP_quiet; auto. eapply same_seq_trans; eauto.
  - destruct Hs as (?&?&?&?&?). eapply EP_sent with (f := f); congruence.
  - destruct Hs as (Hn&?&Hr&?&?). eapply EP_retx with (g := g); congruence.
Qed.

Lemma exec_post_wle : forall w t' w', exec_post w t' w' -> wle w w'.
Proof.
  intros w t' w' [Hq _|f _ _ _ Hn _ _ _ Hr|g _ _ _ _ Hn _ _ _ Hr].
  - apply same_seq_wle; auto.
  - split; [lia|rewrite Hr; intros [k g] H; apply in_insert; auto].
  - split; [lia|rewrite Hr; apply incl_refl].
Qed.

Definition good (abort : bool) (w : world) (r : res) : Prop :=
  cok (snd r) (t_code (fst r)) /\ clean (t_out (fst r)) /\ t_exc (fst r) <> Some EDupSeq /\
  t_abort (fst r) = abort /\ exec_post w (fst r) (snd r).

(* a continuation that is called, synchronously, in a world that differs from w in state/role/TestReqID only *)
Definition kgood (abort : bool) (w : world) (k : list outcome -> world -> res) : Prop :=
  forall out w1, same_seq w w1 -> clean out -> good abort w1 (k out w1).

Lemma good_same : forall abort w0 w r, same_seq w0 w -> good abort w r -> good abort w0 r.
Proof.
  intros abort w0 w r Hs (?&?&?&?&Hp). repeat split; auto. eapply exec_post_same; eauto.
Qed.

Lemma kgood_same : forall abort w w1 k, same_seq w w1 -> kgood abort w k -> kgood abort w1 k.
Proof. intros abort w w1 k Hs Hk out w2 Hs2 Hc. apply Hk; auto. eapply same_seq_trans; eauto. Qed.

Lemma clean_cons : forall e out, e <> EDupSeq -> clean out -> clean (OExc e :: out).
Proof. unfold clean; intros e out He Hc [H|H]; [inversion H; congruence|auto]. Qed.

Lemma clean_ok : forall out, clean out -> clean (OOk :: out).
Proof. unfold clean; intros out Hc [H|H]; [discriminate|auto]. Qed.

Lemma good_raise : forall abort e b out w after k, e <> EDupSeq -> clean out -> kgood abort w k ->
  good abort w (raise_ abort e b out w after k).
Proof.
  intros abort e b out w after k He Hc Hk. unfold raise_. destruct abort.
  - destruct (existsb is_finally after && (st w =? S_HANDLING)).
    + repeat split; simpl; try discriminate.
      * constructor; [exact He|constructor].
      * destruct b; auto using clean_cons.
      * apply EP_quiet; [repeat split|auto].
    + repeat split; simpl.
      * constructor.
      * destruct b; auto using clean_cons.
      * congruence.
      * apply EP_quiet; [apply same_seq_refl|auto].
  - apply Hk; [apply same_seq_refl|]. apply clean_cons; auto.
Qed.

Lemma good_send_tail : forall abort m rest out w k, ent_ok w ->
  (is_new m = true \/ retx_msg (rows w) (nout w) m) -> cok w rest -> clean out -> kgood abort w k ->
  good abort w (send_tail abort m rest out w k).
Proof.
  intros abort m rest out w k He Hm Hs Hc Hk. unfold send_tail.
  destruct ((m_ty m =? T_TESTREQ) && (negb (treq w) || negb (m_id m =? 0))).
  { apply good_raise; auto; discriminate. }
  destruct Hm as [Hn|[(kk&f&Hin&->)|(b&n&->&Hbn)]].
  - unfold is_new in Hn. apply andb_true_iff in Hn. destruct Hn as [Hty Hpd].
    apply negb_true_iff in Hty, Hpd. unfold number. rewrite Hty, Hpd.
    unfold nojournal, persist. cbn [f_pd f_ty f_gf f_seq rows]. rewrite ?Hty, ?Hpd. cbn [orb andb].
    rewrite (ent_none w (nout w) He (Z.le_refl _)).
    repeat split; simpl; auto; try discriminate.
    + eapply cok_mono; [|exact Hs]. split; simpl; [lia|]. intros [k0 g] H. apply in_insert. auto.
    + eapply EP_sent; simpl; try reflexivity. unfold is_newf. simpl. rewrite Hty. reflexivity.
  - assert (Hnum : number (replay_msg f) w = inr (f_seq f, w)).
    { unfold number, replay_msg. simpl. destruct (f_ty f =? T_SEQRESET); reflexivity. }
    rewrite Hnum. cbn [replay_msg m_ty m_pd m_id m_gf]. unfold nojournal. cbn [f_pd orb].
    repeat split; simpl; auto; try discriminate.
    eapply EP_retx; simpl; try reflexivity.
    + unfold is_newf. simpl. apply andb_false_r.
    + left. exists kk, f. auto.
  - assert (Hnum : number (gapfill_msg b n) w = inr (b, w)) by reflexivity.
    rewrite Hnum. change (nojournal (mkF b (m_ty (gapfill_msg b n)) (m_pd (gapfill_msg b n)) (m_id (gapfill_msg b n)) (m_gf (gapfill_msg b n)))) with true.
    repeat split; simpl; auto; try discriminate.
    eapply EP_retx; simpl; try reflexivity.
    right. exists b, n. auto.
Qed.

Lemma good_send_head : forall abort m rest out w k, ent_ok w ->
  (is_new m = true \/ retx_msg (rows w) (nout w) m) -> cok w rest -> clean out -> kgood abort w k ->
  good abort w (send_head abort m rest out w k).
Proof.
  intros abort m rest out w k He Hm Hs Hc Hk. unfold send_head. destruct (gate m w) as [e| |] eqn:Eg.
  - assert (e = EConn) as ->.
    { unfold gate in Eg. repeat match type of Eg with (if ?c then _ else _) = _ => destruct c end; congruence. }
    apply good_raise; auto; discriminate.
  - repeat split; simpl; auto; try discriminate.
    + constructor; [exact Hm|exact Hs].
    + apply EP_quiet; [repeat split|auto].
  - apply good_send_tail; auto.
Qed.

Lemma execf_safe : forall abort code tail k out w, ent_ok w -> cok w code -> cok w tail -> clean out -> kgood abort w k ->
  good abort w (execf abort code tail k out w).
Proof.
  intros abort code. induction code as [|i rest IH]; intros tail k out w He Hcode Htail Hc Hk.
  - simpl. apply Hk; auto using same_seq_refl.
  - inversion Hcode as [|? ? Hi Hrest]; subst.
    assert (Hafter : cok w (rest ++ tail)) by (apply Forall_app; auto).
    assert (Hk' : kgood abort w (execf abort rest tail k)).
    { intros out1 w1 Hs1 Hc1. apply IH; eauto using same_seq_cok, same_seq_ent, kgood_same. }
    destruct i; cbn [execf]; simpl in Hi.
    + apply good_send_head; auto.
    + assert (Hs : same_seq w (set_role R_INITIATOR w)) by (repeat split).
      apply good_same with (w := set_role R_INITIATOR w); auto.
      apply good_send_tail; eauto using same_seq_cok, same_seq_ent, kgood_same.
    + destruct (treq w).
      * apply good_raise; auto; discriminate.
      * assert (Hs : same_seq w (set_treq true w)) by (repeat split).
        apply good_same with (w := set_treq true w); auto.
        apply good_send_head; eauto using same_seq_cok, same_seq_ent, kgood_same.
    + destruct (unless_awaiting && (st w =? S_AWAITING)).
      * apply Hk'; auto using same_seq_refl.
      * repeat split; simpl; auto; try discriminate.
        apply EP_quiet; [repeat split|auto].
    + repeat split; simpl; auto; try discriminate.
      apply EP_quiet; [apply same_seq_refl|auto].
    + apply good_same with (w := set_role r w); [repeat split|].
      apply Hk'; [repeat split|auto].
    + apply Hk'; auto using same_seq_refl.
    + apply good_raise; auto.
    + destruct (st w =? S_HANDLING).
      * repeat split; simpl; auto; try discriminate.
        apply EP_quiet; [repeat split|auto].
      * apply Hk'; auto using same_seq_refl.
Qed.

Lemma replay_code_ok : forall rws hi rs d gfb gfe saved e',
  (forall k f, In (k, f) rs -> In (k, f) rws /\ f_seq f = k /\ k < hi) -> saved <= hi -> (gfe <= hi \/ rs = []) ->
  Forall (instr_ok rws hi) (replay_code rs d gfb gfe saved e').
Proof.
  intros rws hi rs. induction rs as [|[k f] rs IH]; intros d gfb gfe saved e' Hrs Hsv Hg; cbn [replay_code].
  - cbv zeta. destruct (saved <? gfe); [repeat constructor; discriminate|].
    apply Forall_app. split; [|repeat constructor].
    destruct (gfb <? Z.min saved (e' + 1)) eqn:E; [|constructor]. apply Z.ltb_lt in E.
    constructor; [|constructor]. simpl. right; right. exists gfb, (Z.min saved (e' + 1)). split; auto; lia.
  - destruct (Hrs k f (or_introl eq_refl)) as (Hin & Hseq & Hlt).
    assert (Hrs' : forall k0 f0, In (k0, f0) rs -> In (k0, f0) rws /\ f_seq f0 = k0 /\ k0 < hi)
      by (intros; apply Hrs; right; auto).
    assert (Hge : gfe <= hi) by (destruct Hg as [|Hg]; [auto|discriminate]).
    cbv zeta. destruct (is_sess (f_ty f)).
    + apply IH; auto. left; lia.
    + constructor; [exact I|]. destruct (mem_z (f_seq f) d).
      * apply IH; auto. left; lia.
      * assert (Hge' : (if gfb <? f_seq f then f_seq f else gfe) <= hi) by (destruct (gfb <? f_seq f); lia).
        apply Forall_app. split.
        { destruct (gfb <? (if gfb <? f_seq f then f_seq f else gfe)) eqn:E; [|constructor]. apply Z.ltb_lt in E.
          constructor; [|constructor]. simpl. right; right.
          exists gfb, (if gfb <? f_seq f then f_seq f else gfe). split; auto; lia. }
        apply Forall_app. split.
        { constructor; [|constructor]. simpl. right; left. exists k, f. auto. }
        apply IH; auto.
Qed.

Lemma resend_code_ok : forall b e d w, ent_ok w -> cok w (resend_code b e d w).
Proof.
  intros b0 e d w He. unfold cok, resend_code. cbv zeta. generalize (Z.max b0 1). intros b. apply replay_code_ok.
  - intros k f Hin. unfold recover in Hin. apply filter_In in Hin. destruct Hin as [Hin _].
    destruct (He _ _ Hin). auto.
  - lia.
  - destruct (Z_le_gt_dec b (nout w)) as [|Hgt]; [left; auto|right].
    unfold recover. destruct (filter _ (rows w)) as [|[k f] l] eqn:E; auto.
    assert (Hin : In (k, f) (filter (fun r => (b <=? fst r) && (fst r <=? (if (e =? 0) || (MAXSIZE <? e) then MAXSIZE else e))) (rows w)))
      by (rewrite E; left; auto).
    apply filter_In in Hin. destruct Hin as [Hin Hc]. destruct (He _ _ Hin) as [_ Hlt].
    apply andb_true_iff in Hc. destruct Hc as [Hc _]. apply Z.leb_le in Hc. simpl in Hc. lia.
Qed.

Lemma exec_safe : forall abort code out w, ent_ok w -> cok w code -> clean out ->
  good abort w (exec abort code out w).
Proof.
  intros abort code. induction code as [|i rest IH]; intros out w He Hcode Hc.
  - simpl. unfold finish. repeat split; simpl; auto; try discriminate; try apply Forall_nil.
    apply EP_quiet; [apply same_seq_refl|auto].
  - inversion Hcode as [|? ? Hi Hrest]; subst.
    assert (Hk : kgood abort w (exec abort rest)).
    { intros out1 w1 Hs1 Hc1. apply IH; eauto using same_seq_cok, same_seq_ent. }
    destruct i; cbn [exec];
      try (apply execf_safe; auto; constructor; [exact Hi|constructor]).
    apply execf_safe; auto. apply resend_code_ok; auto.
Qed.

Definition task_ok (w : world) (t : task) : Prop :=
  cok w (t_code t) /\ clean (t_out t) /\ t_exc t <> Some EDupSeq.

Lemma task_ok_mono : forall w w' t, wle w w' -> task_ok w t -> task_ok w' t.
Proof. intros w w' t Hw (?&?&?). repeat split; auto. eapply cok_mono; eauto. Qed.

Lemma resume_any : forall t w, t_wait t <> WDone -> ent_ok w -> task_ok w t ->
  exists t' w', resume t w = (t', w') /\ task_ok w' t' /\ exec_post w t' w'.
Proof.
  intros t w Hw He (Hs & Hc & _).
  assert (Hgen : forall out, clean out -> exists t' w', exec (t_abort t) (t_code t) out w = (t', w') /\
                                                     task_ok w' t' /\ exec_post w t' w').
  { intros out Hco. destruct (exec_safe (t_abort t) (t_code t) out w He Hs Hco) as (?&?&?&?&?).
    destruct (exec (t_abort t) (t_code t) out w) as [t' w'] eqn:E. simpl in *.
    exists t', w'. split; [|split; [repeat split|]]; auto. }
  unfold resume. destruct (t_wait t) eqn:E; try congruence; auto using clean_ok.
Qed.

(* ================================================================== 3. invariant *)

(* With the journal write inside the atomic segment of send_msg nothing is ever "pending": the invariant
   speaks about the world only and holds after every scheduler step of every schedule. *)
Record Inv (n0 : Z) (rows0 : list (Z * frame)) (w : world) : Prop := mkInv {
  i_consec : consec (newf (rwire w)) (nout w);
  i_len : nout w = n0 + Z.of_nat (length (newf (rwire w)));
  i_retx : Forall (fun g => is_newf g = true \/ retx_ok (rows w) (nout w) g) (rwire w);
  i_ent : ent_ok w;
  i_low : forall k, k < n0 -> row_at k (rows w) = row_at k rows0;
  i_rows : forall k f, n0 <= k -> row_at k (rows w) = Some f -> In f (newf (rwire w)) /\ f_seq f = k;
  i_cover : forall f, In f (newf (rwire w)) -> row_at (f_seq f) (rows w) = Some f;
  i_sout : sout w = nout w - 1
}.

Lemma inv_range : forall n0 r0 w f, Inv n0 r0 w -> In f (newf (rwire w)) -> n0 <= f_seq f < nout w.
Proof.
  intros n0 r0 w f HI Hin. pose proof (consec_in _ _ _ (i_consec _ _ _ HI) Hin).
  pose proof (i_len _ _ _ HI). lia.
Qed.

Lemma inv_ext : forall n0 r0 w w', Inv n0 r0 w -> same_seq w w' -> Inv n0 r0 w'.
Proof.
  intros n0 r0 w w' HI Hs. pose proof Hs as (Hn&Hso&Hr&Hw&Ht). destruct HI.
  constructor; rewrite ?Hn, ?Hso, ?Hr, ?Hw, ?Ht; auto.
  eapply same_seq_ent; eauto.
Qed.

Lemma inv_sent : forall n0 r0 w w' f, Inv n0 r0 w ->
  f_seq f = nout w -> is_newf f = true ->
  nout w' = nout w + 1 -> rwire w' = f :: rwire w -> sout w' = nout w -> rows w' = insert_row (nout w) f (rows w) ->
  Inv n0 r0 w'.
Proof.
  intros n0 r0 w w' f HI Hseq Hnew Hn Hw Hso Hr.
  pose proof (i_len _ _ _ HI) as Hlen.
  assert (Hfree : row_at (nout w) (rows w) = None) by (apply ent_none; [apply (i_ent _ _ _ HI)|lia]).
  assert (Hnf : newf (rwire w') = f :: newf (rwire w)) by (rewrite Hw; unfold newf; simpl; rewrite Hnew; auto).
  assert (Hincl : incl (rows w) (insert_row (nout w) f (rows w))) by (intros [k g] H; apply in_insert; auto).
  constructor; rewrite ?Hnf, ?Hn, ?Hso, ?Hr.
  - simpl. split; [lia|]. replace (nout w + 1 - 1) with (nout w) by lia. apply (i_consec _ _ _ HI).
  - simpl length. rewrite Nat2Z.inj_succ. lia.
  - rewrite Hw. constructor; auto.
    eapply Forall_impl; [|apply (i_retx _ _ _ HI)]. intros g [|Hg]; auto. right.
    eapply retx_ok_mono; [exact Hincl| |exact Hg]. lia.
  - intros k g Hg. rewrite Hr in Hg. rewrite Hn. apply in_insert in Hg. destruct Hg as [Hg|Hg].
    + inversion Hg; subst. split; auto; lia.
    + destruct (i_ent _ _ _ HI k g Hg). split; auto; lia.
  - intros k Hk. rewrite row_at_insert by assumption.
    destruct (k =? nout w) eqn:E; [apply Z.eqb_eq in E; lia|]. apply (i_low _ _ _ HI); auto.
  - intros k g Hk Hg. rewrite row_at_insert in Hg by assumption.
    destruct (k =? nout w) eqn:E.
    + apply Z.eqb_eq in E. inversion Hg; subst. split; [left; auto|lia].
    + destruct (i_rows _ _ _ HI k g Hk Hg). split; auto. right; auto.
  - intros g [<-|Hg]; rewrite row_at_insert by assumption.
    + rewrite Hseq, Z.eqb_refl. reflexivity.
    + pose proof (inv_range _ _ _ _ HI Hg).
      destruct (f_seq g =? nout w) eqn:E; [apply Z.eqb_eq in E; lia|]. apply (i_cover _ _ _ HI); auto.
  - lia.
Qed.

Lemma inv_retx : forall n0 r0 w w' g, Inv n0 r0 w ->
  is_newf g = false -> retx_ok (rows w) (nout w) g ->
  nout w' = nout w -> rwire w' = g :: rwire w -> sout w' = sout w -> rows w' = rows w ->
  Inv n0 r0 w'.
Proof.
  intros n0 r0 w w' g HI Hnew Hg Hn Hw Hso Hr.
  assert (Hnf : newf (rwire w') = newf (rwire w)) by (rewrite Hw; unfold newf; simpl; rewrite Hnew; auto).
  destruct HI.
  constructor; rewrite ?Hnf, ?Hn, ?Hso, ?Hr; auto.
  - rewrite Hw. constructor; auto.
  - intros k f Hf. rewrite Hr in Hf. rewrite Hn. auto.
Qed.

Lemma inv_after_exec : forall n0 r0 w w' t', Inv n0 r0 w -> exec_post w t' w' -> Inv n0 r0 w'.
Proof.
  intros n0 r0 w w' t' HI [Hs Hw|f Hw H1 H2 H4 H5 H6 H7 H8|g Hw H1 H2 H3 H4 H5 H6 H7 H8].
  - eapply inv_ext; eauto.
  - eapply inv_sent; eauto.
  - eapply inv_retx; eauto.
Qed.

(* ---------------------------------------------------------------- configurations *)

Definition CInv (n0 : Z) (r0 : list (Z * frame)) (c : config) : Prop :=
  Inv n0 r0 (c_w c) /\ (forall j t, nth_error (c_ts c) j = Some t -> task_ok (c_w c) t).

Lemma tasks_ok_upd : forall w w' ts i t', wle w w' ->
  (forall j t, nth_error ts j = Some t -> task_ok w t) -> task_ok w' t' ->
  forall j t, nth_error (upd i t' ts) j = Some t -> task_ok w' t.
Proof.
  intros w w' ts i t' Hle Hall Ht' j t Hj. destruct (Nat.eq_dec j i) as [->|Hn].
  - destruct (nth_error ts i) as [t0|] eqn:E.
    + rewrite (nth_upd_eq _ _ _ _ E) in Hj. inversion Hj; subst; auto.
    + assert (nth_error (upd i t' ts) i = None).
      { clear -E. revert i E. induction ts as [|a ts IH]; intros [|i] E; simpl in *; auto; discriminate. }
      congruence.
  - rewrite nth_upd_neq in Hj by assumption. eapply task_ok_mono; eauto.
Qed.

Lemma sched_step_done : forall c i t, nth_error (c_ts c) i = Some t -> t_wait t = WDone -> sched_step c i = c.
Proof.
  intros [w ts] i t Hi Hw. unfold sched_step. simpl in *. rewrite Hi. unfold resume. rewrite Hw.
  f_equal. clear -Hi. revert i Hi. induction ts as [|a ts IH]; intros [|i] Hi; simpl in *; try discriminate.
  - inversion Hi; auto.
  - f_equal; auto.
Qed.

Lemma wait_done_dec : forall t, {t_wait t = WDone} + {t_wait t <> WDone}.
Proof. intros t. destruct (t_wait t); [right|right|right|left]; congruence. Qed.

(* one scheduler step, any choice *)
Lemma step_inv : forall n0 r0 c i, CInv n0 r0 c -> CInv n0 r0 (sched_step c i).
Proof.
  intros n0 r0 c i HC. destruct (nth_error (c_ts c) i) as [t|] eqn:Hi.
  2:{ unfold sched_step. rewrite Hi. auto. }
  destruct (wait_done_dec t) as [Hd|Hnd].
  - rewrite (sched_step_done _ _ _ Hi Hd). exact HC.
  - destruct HC as [HI Hall].
    destruct (resume_any t (c_w c) Hnd (i_ent _ _ _ HI) (Hall _ _ Hi)) as (t'&w'&Hr&Hok&Hp).
    unfold sched_step. rewrite Hi, Hr. split; simpl.
    + eapply inv_after_exec; eauto.
    + eapply tasks_ok_upd; eauto using exec_post_wle.
Qed.

Lemma run_inv : forall n0 r0 sched c, CInv n0 r0 c -> CInv n0 r0 (run_sched c sched).
Proof.
  intros n0 r0 sched. induction sched as [|i s IH]; intros c HC; simpl; auto.
  apply IH. apply step_inv; auto.
Qed.

(* ================================================================== 4. exported statements *)

(* the world the scenario starts from: nothing on the (observed) wire yet, journal rows keyed by their
   own number and below the live counter, stored counter = live counter - 1 (a quiescent session) *)
Definition init_ok (w : world) : Prop :=
  rwire w = [] /\ ent_ok w /\ sout w = nout w - 1.

(* what a task may consist of: everything the library runs on the outbound path *)
Definition base_instr (i : instr) : bool :=
  match i with
  | ISend m | ISendRest m => is_new m
  | ITestReq | IStateHook _ _ | IHook | ISetRole _ | IResend _ _ _ | IFinally => true
  | IRaise _ => false
  end.

Definition fresh_task (t : task) : Prop :=
  t_wait t = WStart /\ forallb base_instr (t_code t) = true /\ t_out t = [] /\ t_exc t = None.

Definition no_dup_error (ts : list task) : Prop :=
  forall j t, nth_error ts j = Some t -> ~ In (OExc EDupSeq) (t_out t) /\ t_exc t <> Some EDupSeq.

(* the full property on the configuration c reached from world w0 by ANY schedule prefix;
   new = the new messages on the wire *)
Definition safe_outcome (w0 : world) (c : config) : Prop :=
  let w := c_w c in
  let new := newf (wire_of w) in
  map f_seq new = zseq (nout w0) (length new)
  /\ nout w = nout w0 + Z.of_nat (length new)
  /\ Forall (fun g => is_newf g = true \/ retx_ok (rows w) (nout w) g) (wire_of w)
  /\ no_dup_error (c_ts c)
  /\ (forall f, In f new -> row_at (f_seq f) (rows w) = Some f)
  /\ (forall k f, nout w0 <= k -> row_at k (rows w) = Some f -> In f new /\ f_seq f = k)
  /\ (forall k, k < nout w0 -> row_at k (rows w) = row_at k (rows w0))
  /\ sout w = nout w - 1.

Lemma base_cok : forall w c, forallb base_instr c = true -> cok w c.
Proof.
  intros w c H. unfold cok. apply Forall_forall. intros i Hi. rewrite forallb_forall in H. specialize (H _ Hi).
  destruct i; simpl in *; auto; discriminate.
Qed.

Lemma init_cinv : forall w0 ts, init_ok w0 -> Forall fresh_task ts -> CInv (nout w0) (rows w0) (mkC w0 ts).
Proof.
  intros w0 ts (Hw & He & Hs) Hts.
  split; simpl.
  - constructor; rewrite ?Hw; simpl; auto; try contradiction.
    + lia.
    + intros k f Hk Hf. rewrite (ent_none _ _ He Hk) in Hf. discriminate.
  - intros j t Hj. rewrite Forall_forall in Hts. destruct (Hts _ (nth_error_In _ _ Hj)) as (_&Hc&Ho&Hx).
    repeat split; [apply base_cok; auto|rewrite Ho; intros []|rewrite Hx; discriminate].
Qed.

Theorem safe_tasks_safe : forall (w0 : world) (ts : list task) (sched : list nat),
  init_ok w0 -> Forall fresh_task ts ->
  safe_outcome w0 (run_sched (mkC w0 ts) sched).
Proof.
  intros w0 ts sched Hw Hts.
  pose proof (run_inv _ _ sched _ (init_cinv _ _ Hw Hts)) as [HI Hok].
  set (c := run_sched (mkC w0 ts) sched) in *.
  unfold safe_outcome. unfold wire_of, newf. rewrite filter_rev. fold (newf (rwire (c_w c))).
  pose proof (i_len _ _ _ HI) as Hlen.
  repeat split.
  - rewrite (consec_zseq _ _ (i_consec _ _ _ HI)), rev_length. f_equal. lia.
  - rewrite rev_length. lia.
  - apply Forall_rev. apply (i_retx _ _ _ HI).
  - destruct (Hok _ _ H) as (_&Hc&_). exact Hc.
  - destruct (Hok _ _ H) as (_&_&He). exact He.
  - intros f Hf. apply in_rev in Hf. apply (i_cover _ _ _ HI); auto.
  - rewrite <- in_rev. destruct (i_rows _ _ _ HI k f H H0); auto.
  - destruct (i_rows _ _ _ HI k f H H0); auto.
  - apply (i_low _ _ _ HI).
  - apply (i_sout _ _ _ HI).
Qed.

Lemma sender_fresh : forall ms, forallb is_new ms = true -> fresh_task (sender_task ms).
Proof.
  intros ms H. repeat split; simpl; auto. rewrite forallb_forall in *.
  intros i Hi. apply in_map_iff in Hi. destruct Hi as (m&<-&Hm). simpl. auto.
Qed.

Lemma senders_fresh : forall mss, Forall (fun ms => forallb is_new ms = true) mss ->
  Forall fresh_task (map sender_task mss).
Proof.
  intros mss Hm. apply Forall_forall. intros t Ht. apply in_map_iff in Ht. destruct Ht as (ms&<-&Hin).
  rewrite Forall_forall in Hm. apply sender_fresh; auto.
Qed.

Theorem senders_safe : forall (w0 : world) (mss : list (list msg)) (sched : list nat),
  init_ok w0 -> Forall (fun ms => forallb is_new ms = true) mss ->
  safe_outcome w0 (run_sched (mkC w0 (map sender_task mss)) sched).
Proof. intros w0 mss sched Hw Hm. apply safe_tasks_safe; auto using senders_fresh. Qed.

(* the reader inside the acceptor's Logon handling (3 hooks, 1 send) plus the heartbeat probe plus
   any number of application senders; whatever the connection state is when a task is resumed *)
Theorem logon_window_safe : forall (w0 : world) (mss : list (list msg)) (sched : list nat),
  init_ok w0 -> Forall (fun ms => forallb is_new ms = true) mss ->
  safe_outcome w0 (run_sched (mkC w0 (reader_logon :: heartbeat_task :: map sender_task mss)) sched).
Proof.
  intros w0 mss sched Hw Hm. apply safe_tasks_safe; auto.
  constructor; [repeat split; reflexivity|]. constructor; [repeat split; reflexivity|].
  auto using senders_fresh.
Qed.

(* the other handlers of the reader task that send: TestRequest reply, gap ResendRequest, on_message *)
Theorem reader_replies_safe : forall (w0 : world) (r : task) (mss : list (list msg)) (sched : list nat),
  init_ok w0 -> In r [reader_testreq; reader_gap; reader_app] ->
  Forall (fun ms => forallb is_new ms = true) mss ->
  safe_outcome w0 (run_sched (mkC w0 (r :: heartbeat_task :: map sender_task mss)) sched).
Proof.
  intros w0 r mss sched Hw Hr Hm. apply safe_tasks_safe; auto.
  constructor.
  { simpl in Hr. destruct Hr as [<-|[<-|[<-|[]]]]; repeat split; reflexivity. }
  constructor; [repeat split; reflexivity|]. auto using senders_fresh.
Qed.

(* the reader servicing ANY ResendRequest (any BeginSeqNo / EndSeqNo, any should_replay answers) while the
   heartbeat probe and any number of application tasks send *)
Theorem resend_window_safe : forall (w0 : world) (b e : Z) (d : list Z) (mss : list (list msg)) (sched : list nat),
  init_ok w0 -> Forall (fun ms => forallb is_new ms = true) mss ->
  safe_outcome w0 (run_sched (mkC w0 (reader_resend b e d :: heartbeat_task :: map sender_task mss)) sched).
Proof.
  intros w0 b e d mss sched Hw Hm. apply safe_tasks_safe; auto.
  constructor; [repeat split; reflexivity|]. constructor; [repeat split; reflexivity|].
  auto using senders_fresh.
Qed.

(* ================================================================== 5. examples *)

Definition app (i : Z) : msg := mkMsg 68 i None false false.
Definition active0 : world := mkW 1 0 [] [] S_ACTIVE R_INITIATOR false 0.

Lemma active0_ok : init_ok active0.
Proof. repeat split; simpl; auto; contradiction. Qed.

(* non-vacuity: two senders x two messages in state ACTIVE, a FIFO schedule; all four go out 1..4,
   all journaled, counter 4 *)
Definition ex_cfg : config := mkC active0 [sender_task [app 1; app 2]; sender_task [app 3; app 4]].
Definition ex_sched : list nat := [0; 1; 0; 1; 0; 1]%nat.

Lemma ex_nonvacuous :
  init_ok active0 /\ fifo_sched ex_cfg ex_sched = true /\ all_done (run_sched ex_cfg ex_sched) = true
  /\ map f_seq (wire_of (c_w (run_sched ex_cfg ex_sched))) = [1; 2; 3; 4]
  /\ map f_id (wire_of (c_w (run_sched ex_cfg ex_sched))) = [1; 3; 2; 4]
  /\ sout (c_w (run_sched ex_cfg ex_sched)) = 4
  /\ map fst (rows (c_w (run_sched ex_cfg ex_sched))) = [1; 2; 3; 4].
Proof. split; [apply active0_ok|]. vm_compute. repeat split; reflexivity. Qed.

(* the world after pre-history ms was sent by one task alone from a fresh session *)
Fixpoint run_alone (fuel : nat) (c : config) : config :=
  match fuel with O => c | S f => if all_done c then c else run_alone f (sched_step c 0%nat) end.
Definition after (pre : list msg) : world :=
  let w := c_w (run_alone (2 * length pre + 2) (mkC active0 [sender_task pre])) in
  mkW (nout w) (sout w) (rows w) [] (st w) (role w) (treq w) (tick w).

(* (number, PossDupFlag, id) of each frame, wire order *)
Definition wire_view (w : world) : list (Z * bool * Z) := map (fun f => (f_seq f, f_pd f, f_id f)) (wire_of w).

(* The three schedules that broke the property before the repair of D12 (next_num_out rewound during the
   replay): an application send that STARTS inside the ResendRequest service now gets the next free number. *)
Definition rw_cfg : config := mkC (after [app 1; app 2; app 3]) [reader_resend 1 0 []; sender_task [app 9]].
Definition rw_sched : list nat := [0; 0; 1; 0; 1; 0; 0; 0; 0; 0; 0]%nat.

Lemma resend_window_example :
  let c := run_sched rw_cfg rw_sched in
  init_ok (c_w rw_cfg) /\ fifo_sched rw_cfg rw_sched = true /\ valid_sched rw_cfg rw_sched = true /\ all_done c = true
  /\ wire_view (c_w c) = [(4, false, 9); (1, true, 1); (2, true, 2); (3, true, 3)]
  /\ map fst (rows (c_w c)) = [1; 2; 3; 4] /\ sout (c_w c) = 4 /\ nout (c_w c) = 5 /\ st (c_w c) = S_ACTIVE.
Proof.
  cbv zeta. split.
  - split; [reflexivity|]. split; [|reflexivity].
    intros k f H. vm_compute in H. destruct H as [H|[H|[H|[]]]]; inversion H; subst; simpl; split; auto; lia.
  - vm_compute. repeat split; reflexivity.
Qed.

Definition rw_sched2 : list nat := [0; 0; 0; 0; 1; 1; 0; 0; 0; 0; 0]%nat.

Lemma resend_window_caller_example :
  let c := run_sched rw_cfg rw_sched2 in
  fifo_sched rw_cfg rw_sched2 = true /\ valid_sched rw_cfg rw_sched2 = true /\ all_done c = true
  /\ wire_view (c_w c) = [(1, true, 1); (4, false, 9); (2, true, 2); (3, true, 3)]
  /\ (exists t, nth_error (c_ts c) 1 = Some t /\ t_out t = [OOk])
  /\ map fst (rows (c_w c)) = [1; 2; 3; 4] /\ sout (c_w c) = 4 /\ nout (c_w c) = 5.
Proof.
  cbv zeta. repeat split; try (vm_compute; reflexivity).
  eexists. split; vm_compute; reflexivity.
Qed.

(* the heartbeat probe already suspended in drain (numbered 3, not journaled yet) when the ResendRequest
   arrives: messages 1, 2 are retransmitted, 3 is covered by the tail gap fill 3 -> 4, the probe is journaled
   under 3, nothing is reused *)
Definition hb_cfg : config := mkC (after [app 1; app 2]) [reader_resend 1 0 []; heartbeat_task].
Definition hb_sched : list nat := [1; 0; 0; 0; 1; 0; 0; 0; 0; 0]%nat.

Lemma heartbeat_inflight_example :
  let c := run_sched hb_cfg hb_sched in
  fifo_sched hb_cfg hb_sched = true /\ valid_sched hb_cfg hb_sched = true /\ all_done c = true
  /\ map (fun f => (f_seq f, f_ty f, f_pd f)) (wire_of (c_w c))
     = [(3, T_TESTREQ, false); (1, 68, true); (2, 68, true); (3, T_SEQRESET, false)]
  /\ map t_out (c_ts c) = [[OOk; OOk; OOk]; [OOk]] /\ map t_exc (c_ts c) = [None; None]
  /\ map fst (rows (c_w c)) = [1; 2; 3] /\ sout (c_w c) = 3 /\ nout (c_w c) = 4 /\ st (c_w c) = S_ACTIVE.
Proof. vm_compute. repeat split; reflexivity. Qed.

(* the wake-up order of drain waiters no longer matters (before R8a the journal write came after drain and this
   LIFO schedule left the stored counter at 1): stored counter = highest number sent under LIFO wake-up too *)
Definition lifo_cfg : config := mkC active0 [sender_task [app 1]; sender_task [app 2]].
Definition lifo_sched : list nat := [0; 1; 1; 0]%nat.

Lemma lifo_counter_example :
  let c := run_sched lifo_cfg lifo_sched in
  fifo_sched lifo_cfg lifo_sched = false /\ valid_sched lifo_cfg lifo_sched = true /\ all_done c = true
  /\ map f_seq (wire_of (c_w c)) = [1; 2] /\ map fst (rows (c_w c)) = [1; 2] /\ sout (c_w c) = 2 /\ nout (c_w c) = 3.
Proof. vm_compute. repeat split; reflexivity. Qed.

(* a request that cannot be served (BeginSeqNo beyond the last sent number): the assertion aborts the handler,
   the finally clause around _process_resend puts the state back to ACTIVE (one more on_state_change hook),
   the concurrent send is unaffected *)
Definition un_cfg : config := mkC (after [app 1; app 2]) [reader_resend 7 0 []; sender_task [app 9]].
Definition un_sched : list nat := [0; 0; 1; 0; 1]%nat.

Lemma resend_unservable_example :
  let c := run_sched un_cfg un_sched in
  fifo_sched un_cfg un_sched = true /\ valid_sched un_cfg un_sched = true /\ all_done c = true
  /\ map t_exc (c_ts c) = [Some EAssert; None] /\ wire_view (c_w c) = [(3, false, 9)]
  /\ st (c_w c) = S_ACTIVE /\ sout (c_w c) = 3 /\ nout (c_w c) = 4.
Proof. vm_compute. repeat split; reflexivity. Qed.
