(* C10: totality, consumed length, acceptance and progress of the decoder model (Fix/Codec.v),
   for arbitrary input. *)
From Coq Require Import ZArith NArith List Bool Lia.
From AF Require Import Base.Sx Py.Str Fix.Codec Fix.Framing Lemmas.StrA.
From AFGen Require Import GenGroups.
Import ListNotations.
Open Scope N_scope.

(* ------------------------------------------------------------------ the pieces decode looks at *)

(* offset of the next marker after the first one (or the end): where the frame text is cut *)
Definition dec_next (msg : str) : nat :=
  match find_sub MARK (skipn 5 msg) with
  | Some k => (k + 5)%nat
  | None => length msg
  end.

(* the slice of raw that decode treats as the frame, given the marker offset i *)
Definition dec_encoded (i : nat) (raw : str) : str :=
  firstn (dec_next (skipn i raw)) (skipn i raw).

Definition strip_last_empty (fs : list str) : list str :=
  match rev fs with
  | [] :: r => rev r
  | _ => fs
  end.

(* its SOH-separated fields (a trailing empty piece dropped) *)
Definition dec_fields (i : nat) (raw : str) : list str :=
  strip_last_empty (split_on 1 (dec_encoded i raw)).

(* the checksum decode expects: over everything before the SOH that precedes the last field *)
Definition dec_ck (fs : list str) : N := (sum_codes (join SOHs (removelast fs)) + 1) mod 256.

Definition frame_fields (raw : str) : list str :=
  match find_sub MARK raw with
  | Some i => dec_fields i raw
  | None => []
  end.

Lemma decode_eq G bs raw :
  decode G bs raw true =
  match find_sub MARK raw with
  | None => Ok (None, zlen raw, None)
  | Some i =>
      match dec_fields i raw with
      | f0 :: f1 :: _ :: _ =>
          match split1 61 f0 with
          | (_, None) => Exc EValue
          | (_, Some v0) =>
              if negb (str_eqb v0 bs) then Ok (None, zlen raw, None)
              else
                match split1 61 f1 with
                | (_, None) => Ok (None, zlen raw, None)
                | (tag1, Some v1) =>
                    if negb (str_eqb tag1 T9) then Ok (None, zlen raw, None)
                    else
                      match py_int v1 with
                      | None => Exc EValue
                      | Some bl =>
                          let msg_length := (zlen f0 + zlen f1 + 9 + bl)%Z in
                          if (zlen raw <? msg_length)%Z then Ok (None, Z.of_nat i, None)
                          else
                            match fields_loop G (dec_ck (dec_fields i raw)) (mkD [] [] UNKNOWN false)
                                              (dec_fields i raw) with
                            | FExc e => Exc e
                            | FReturnBad => Ok (None, zlen raw, None)
                            | FCont st =>
                                if d_ck st
                                then Ok (Some (mkMsg (d_type st) (d_root st)),
                                         (Z.of_nat i + msg_length)%Z, Some (dec_encoded i raw))
                                else Ok (None, (Z.of_nat i + msg_length)%Z, None)
                            end
                      end
                end
          end
      | _ => Ok (None, Z.of_nat i, None)
      end
  end.
Proof. reflexivity. Qed.

(* ------------------------------------------------------------------ (a) which exceptions *)

Definition silent_kind (e : exc) : Prop := e = EValue \/ e = EFIXMessage \/ e = EAttribute.

Lemma ct_add_group_exc t it c e : ct_add_group t it c = Exc e -> e = EAttribute.
Proof. unfold ct_add_group. destruct (ct_get t c) as [[| |]|]; intros H; inversion H; reflexivity. Qed.

Lemma add_pending_exc p c e : add_pending p c = Exc e -> e = EAttribute.
Proof. destruct p as [[t it]|]; cbn; [apply ct_add_group_exc|discriminate]. Qed.

Lemma pop_while_exc tag stack : forall p root e, pop_while tag stack p root = Exc e -> e = EAttribute.
Proof.
  induction stack as [|c rest IH]; intros p root e; cbn [pop_while].
  - destruct (add_pending p root) eqn:E; cbn [bind]; [discriminate|].
    intros H. inversion H. subst. eapply add_pending_exc; eauto.
  - destruct (add_pending p (c_tags c)) eqn:E; cbn [bind].
    + destruct (mem_str tag _); [discriminate|]. apply IH.
    + intros H. inversion H. subst. eapply add_pending_exc; eauto.
Qed.

Lemma ct_set_exc t v c e : ct_set t v c = Exc e ->
  (e = EFIXMessage /\ py_int t = None) \/ (e = EDuplicatedTag /\ ct_mem t c = true).
Proof.
  unfold ct_set. destruct (py_int t); [|intros H; inversion H; auto].
  destruct (ct_mem t c); intros H; inversion H; auto.
Qed.

Lemma ct_set_fresh_exc t v c e : ct_mem t c = false -> ct_set t v c = Exc e -> e = EFIXMessage.
Proof. intros Hm H. apply ct_set_exc in H. destruct H as [[-> _]|[_ H]]; [reflexivity|congruence]. Qed.

Ltac dmatch H :=
  match type of H with
  | context [match ?x with _ => _ end] => destruct x eqn:?
  | context [if ?x then _ else _] => destruct x eqn:?
  end.

Lemma field_step_exc G ck st m e : field_step G ck st m = FExc e -> silent_kind e.
Proof.
  unfold field_step, silent_kind, bind. intros H.
  repeat (dmatch H; try discriminate);
    inversion H; subst; auto;
    repeat match goal with
    | E : context [match ?x with _ => _ end] |- _ => destruct x eqn:?; try discriminate
    end;
    repeat match goal with
    | E : ct_add_group _ _ _ = Exc _ |- _ => apply ct_add_group_exc in E; subst
    | E : pop_while _ _ _ _ = Exc _ |- _ => apply pop_while_exc in E; subst
    | E : ct_set _ _ [] = Exc _ |- _ => apply ct_set_fresh_exc in E; [subst|reflexivity]
    | E : ct_set _ _ _ = Exc _, M : ct_mem _ _ = false |- _ => apply (ct_set_fresh_exc _ _ _ _ M) in E; subst
    | E : Exc _ = Exc _ |- _ => inversion E; subst; clear E
    end; auto.
Qed.

Lemma fields_loop_exc G ck fs : forall st e, fields_loop G ck st fs = FExc e -> silent_kind e.
Proof.
  induction fs as [|m fs IH]; intros st e; cbn [fields_loop]; [discriminate|].
  destruct (field_step G ck st m) as [st'| |e'] eqn:E; [apply IH|discriminate|].
  intros H. inversion H. subst. eapply field_step_exc; eauto.
Qed.

Lemma decode_exc_kinds G bs raw e : decode G bs raw true = Exc e -> silent_kind e.
Proof.
  rewrite decode_eq. intros H. cbv zeta in H.
  repeat (dmatch H; try discriminate); inversion H; subst;
    try (left; reflexivity); eapply fields_loop_exc; eauto.
Qed.

(* ------------------------------------------------------------------ (c) the checksum flag *)

Lemma field_step_ck G ck st m st' : field_step G ck st m = FCont st' ->
  exists tag val, split1 61 m = (tag, Some val) /\
    if str_eqb tag T10
    then exists z, py_int val = Some z /\ d_ck st' = Z.eqb (Z.of_N ck) z
    else d_ck st' = d_ck st.
Proof.
  unfold field_step. destruct (split1 61 m) as [tag [val|]] eqn:S; [|discriminate].
  intros H. exists tag, val. split; [reflexivity|].
  match type of H with
  | match ?r1 with _ => _ end = _ => destruct r1 as [st1|e1] eqn:R1; [|discriminate]
  end.
  assert (Hck : d_ck st' = d_ck st1).
  { clear R1. unfold bind in H.
    repeat (dmatch H; try discriminate); inversion H; reflexivity. }
  rewrite Hck. clear H Hck.
  destruct (str_eqb tag T10).
  - destruct (py_int val) as [z|]; [|discriminate]. inversion R1. exists z. auto.
  - destruct (str_eqb tag T35); inversion R1; reflexivity.
Qed.

Lemma fields_loop_ck G ck fs : forall st st',
  fields_loop G ck st fs = FCont st' -> d_ck st' = true ->
  d_ck st = true \/ exists v, In (field T10 v) fs /\ py_int v = Some (Z.of_N ck).
Proof.
  induction fs as [|m fs IH]; intros st st'; cbn [fields_loop].
  - intros H. inversion H. auto.
  - destruct (field_step G ck st m) as [st1| |] eqn:E; try discriminate.
    intros H Hck. destruct (IH _ _ H Hck) as [H1|(v & Hin & Hv)].
    + destruct (field_step_ck _ _ _ _ _ E) as (tag & val & S & Hc).
      destruct (str_eqb tag T10) eqn:Et.
      * destruct Hc as (z & Hz & Hd). right. exists val. split.
        -- left. apply streqb_eq in Et. subst tag. apply split1_some in S. rewrite S. reflexivity.
        -- rewrite Hz. f_equal. rewrite Hd in H1. apply Z.eqb_eq in H1. auto.
      * left. congruence.
    + right. exists v. split; [now right|exact Hv].
Qed.

(* ------------------------------------------------------------------ inversion of a normal return *)

Definition st0 : dst := mkD [] [] UNKNOWN false.

Lemma decode_ok_inv G bs raw m n r : decode G bs raw true = Ok (m, n, r) ->
  (m = None /\ r = None /\ n = zlen raw) \/
  exists i, find_sub MARK raw = Some i /\
    ((m = None /\ r = None /\ n = Z.of_nat i) \/
     exists f0 f1 f2 rest t0 v1 bl,
       dec_fields i raw = f0 :: f1 :: f2 :: rest
       /\ split1 61 f0 = (t0, Some bs) /\ split1 61 f1 = (T9, Some v1) /\ py_int v1 = Some bl
       /\ (zlen f0 + zlen f1 + 9 + bl <= zlen raw)%Z
       /\ n = (Z.of_nat i + (zlen f0 + zlen f1 + 9 + bl))%Z
       /\ ((m = None /\ r = None) \/
           exists st, fields_loop G (dec_ck (dec_fields i raw)) st0 (dec_fields i raw) = FCont st
                      /\ d_ck st = true /\ m = Some (mkMsg (d_type st) (d_root st))
                      /\ r = Some (dec_encoded i raw))).
Proof.
  rewrite decode_eq. intros H. cbv zeta in H.
  destruct (find_sub MARK raw) as [i|] eqn:Ei; [|inversion H; auto].
  destruct (dec_fields i raw) as [|f0 [|f1 [|f2 rest]]] eqn:Ef;
    [inversion H; right; exists i; split; [reflexivity|left; auto] ..|].
  destruct (split1 61 f0) as [t0 [v0|]] eqn:S0; [|discriminate].
  destruct (str_eqb v0 bs) eqn:Eb; cbn [negb] in H; [|inversion H; auto].
  apply streqb_eq in Eb. subst v0.
  destruct (split1 61 f1) as [t1 [v1|]] eqn:S1; [|inversion H; auto].
  destruct (str_eqb t1 T9) eqn:E9; cbn [negb] in H; [|inversion H; auto].
  apply streqb_eq in E9. subst t1.
  destruct (py_int v1) as [bl|] eqn:Ebl; [|discriminate].
  destruct (zlen raw <? zlen f0 + zlen f1 + 9 + bl)%Z eqn:El.
  { inversion H. right. exists i. split; [reflexivity|left; auto]. }
  apply Z.ltb_ge in El.
  destruct (fields_loop G _ _ _) as [st| |e] eqn:Efl; [|inversion H; auto|discriminate].
  right. exists i. split; [reflexivity|]. right.
  exists f0, f1, f2, rest, t0, v1, bl.
  destruct (d_ck st) eqn:Eck; inversion H; subst; repeat (split; [solve [auto]|]).
  - right. exists st. rewrite Ef. auto.
  - left. auto.
Qed.

(* ------------------------------------------------------------------ (b) consumed length *)

(* the BodyLength value decode reads (second field of the frame text), when it parses *)
Definition frame_blen (raw : str) : option Z :=
  match frame_fields raw with
  | _ :: f1 :: _ => match split1 61 f1 with (_, Some v) => py_int v | (_, None) => None end
  | _ => None
  end.

Definition marker_offset (raw : str) : Z :=
  match find_sub MARK raw with Some i => Z.of_nat i | None => 0%Z end.

Lemma decode_consumed_shape G bs raw m n r : decode G bs raw true = Ok (m, n, r) ->
  n = zlen raw \/
  exists i, find_sub MARK raw = Some i /\
    (n = Z.of_nat i \/
     exists f0 f1 rest bl,
       frame_fields raw = f0 :: f1 :: rest /\ frame_blen raw = Some bl
       /\ n = (Z.of_nat i + (zlen f0 + zlen f1 + 9 + bl))%Z
       /\ (zlen f0 + zlen f1 + 9 + bl <= zlen raw)%Z).
Proof.
  intros H. apply decode_ok_inv in H.
  destruct H as [(_ & _ & Hn)|(i & Ei & [(_ & _ & Hn)|H])]; [auto|right; exists i; auto|].
  destruct H as (f0 & f1 & f2 & rest & t0 & v1 & bl & Ef & S0 & S1 & Ebl & Hle & Hn & _).
  right. exists i. split; [exact Ei|]. right. exists f0, f1, (f2 :: rest), bl.
  unfold frame_blen, frame_fields. rewrite Ei, Ef, S1. auto.
Qed.

Lemma marker_offset_bounds raw : (0 <= marker_offset raw <= zlen raw)%Z.
Proof.
  unfold marker_offset, zlen. destruct (find_sub MARK raw) as [i|] eqn:E; [|lia].
  apply find_sub_spec in E. destruct E as [E _]. lia.
Qed.

(* the consumed length is never negative when the BodyLength that was read is not *)
Lemma decode_consumed_nonneg G bs raw m n r : decode G bs raw true = Ok (m, n, r) ->
  (forall bl, frame_blen raw = Some bl -> (0 <= bl)%Z) -> (0 <= n)%Z.
Proof.
  intros H Hbl. apply decode_consumed_shape in H. unfold zlen in *.
  destruct H as [->|(i & Ei & [->|H])]; [lia|lia|].
  destruct H as (f0 & f1 & rest & bl & _ & Eb & -> & _). specialize (Hbl _ Eb). lia.
Qed.

(* ... and exceeds the buffer by at most the length of the junk before the marker *)
Lemma decode_consumed_upper G bs raw m n r : decode G bs raw true = Ok (m, n, r) ->
  (n <= zlen raw + marker_offset raw)%Z.
Proof.
  intros H. apply decode_consumed_shape in H. pose proof (marker_offset_bounds raw) as B.
  unfold marker_offset in *.
  destruct H as [->|(i & Ei & [->|H])]; [lia|rewrite Ei in *; lia|].
  destruct H as (f0 & f1 & rest & bl & _ & _ & -> & Hle). rewrite Ei. lia.
Qed.

Lemma decode_consumed_upper0 G bs raw m n r : decode G bs raw true = Ok (m, n, r) ->
  find_sub MARK raw = Some 0%nat -> (n <= zlen raw)%Z.
Proof.
  intros H E. apply decode_consumed_upper in H. unfold marker_offset in H. rewrite E in H. lia.
Qed.

(* a returned message always comes with a positive length when BodyLength is not negative *)
Lemma decode_msg_positive G bs raw m n r : decode G bs raw true = Ok (Some m, n, r) ->
  (forall bl, frame_blen raw = Some bl -> (0 <= bl)%Z) -> (0 < n)%Z.
Proof.
  intros H Hbl. pose proof (decode_ok_inv _ _ _ _ _ _ H) as I.
  destruct I as [(? & _)|(i & Ei & [(? & _)|I])]; try discriminate.
  destruct I as (f0 & f1 & f2 & rest & t0 & v1 & bl & Ef & S0 & S1 & Ebl & Hle & Hn & _).
  assert (Eb : frame_blen raw = Some bl) by (unfold frame_blen, frame_fields; now rewrite Ei, Ef, S1).
  specialize (Hbl _ Eb). unfold zlen in *. lia.
Qed.

(* ------------------------------------------------------------------ (c) what acceptance means *)

Lemma join_snoc_empty sep l : l <> [] -> join sep (l ++ [[]]) = join sep l ++ sep.
Proof.
  induction l as [|p l IH]; [congruence|]. intros _.
  destruct l as [|p' l].
  - cbn. now rewrite app_nil_r.
  - change ((p :: p' :: l) ++ [[]]) with (p :: ((p' :: l) ++ [[]])).
    rewrite join_cons by (destruct l; discriminate).
    rewrite IH by discriminate. change (join sep (p :: p' :: l)) with (p ++ sep ++ join sep (p' :: l)).
    rewrite <- !app_assoc. reflexivity.
Qed.

(* the frame text is its fields joined by SOH, with or without a final SOH *)
Lemma dec_fields_text i raw :
  dec_encoded i raw = join SOHs (dec_fields i raw)
  \/ (dec_fields i raw <> [] /\ dec_encoded i raw = join SOHs (dec_fields i raw) ++ SOHs).
Proof.
  unfold dec_fields, strip_last_empty. set (e := dec_encoded i raw).
  pose proof (join_split_on 1 e) as J. fold SOHs in J.
  destruct (rev (split_on 1 e)) as [|[|c p] r] eqn:R; auto.
  assert (E : split_on 1 e = rev r ++ [[]]).
  { rewrite <- (rev_involutive (split_on 1 e)), R. reflexivity. }
  destruct (rev r) as [|q qs] eqn:Q.
  - left. rewrite E in J. cbn in J. cbn. auto.
  - right. split; [discriminate|]. rewrite E in J. rewrite join_snoc_empty in J by discriminate. auto.
Qed.

Lemma decode_accept_sound G bs raw m n r : decode G bs raw true = Ok (Some m, n, r) ->
  exists i, find_sub MARK raw = Some i /\ r = Some (dec_encoded i raw) /\
    let fs := dec_fields i raw in
    let X := join SOHs (removelast fs) in
    (3 <= length fs)%nat
    (* the accepted text is X, SOH, the last field, and possibly a final SOH *)
    /\ (exists tail, (tail = [] \/ tail = SOHs) /\ dec_encoded i raw = X ++ SOHs ++ last fs [] ++ tail)
    (* BeginString is the expected one and the second field is a BodyLength that parses *)
    /\ (exists t0 v1 bl, nth 0 fs [] = field t0 bs /\ nth 1 fs [] = field T9 v1 /\ py_int v1 = Some bl)
    (* some field "10=v" carries the sum of X and one SOH, modulo 256 *)
    /\ exists v, In (field T10 v) fs /\ py_int v = Some (Z.of_N ((sum_codes X + 1) mod 256)).
Proof.
  intros H. apply decode_ok_inv in H.
  destruct H as [(? & _)|(i & Ei & [(? & _)|I])]; try discriminate.
  destruct I as (f0 & f1 & f2 & rest & t0 & v1 & bl & Ef & S0 & S1 & Ebl & Hle & Hn & [(? & _)|I]);
    [discriminate|].
  destruct I as (st & Efl & Eck & Em & Er).
  exists i. split; [exact Ei|]. split; [exact Er|]. cbv zeta.
  split; [rewrite Ef; cbn [length]; lia|]. split.
  { assert (L : (2 <= length (dec_fields i raw))%nat) by (rewrite Ef; cbn [length]; lia).
    destruct (dec_fields_text i raw) as [E|[_ E]]; rewrite E, (join_removelast _ _ L).
    - exists []. split; [auto|]. now rewrite app_nil_r.
    - exists SOHs. split; [auto|]. now rewrite <- !app_assoc. }
  split.
  { exists t0, v1, bl. rewrite Ef. cbn [nth]. apply split1_some in S0, S1. rewrite S0, S1. auto. }
  destruct (fields_loop_ck _ _ _ _ _ Efl Eck) as [F|(v & Hin & Hv)]; [discriminate|].
  exists v. split; [exact Hin|exact Hv].
Qed.

(* ------------------------------------------------------------------ (d) progress of the reader *)

Lemma decode_msg_nonempty G bs raw m n r : decode G bs raw true = Ok (Some m, n, r) -> raw <> [].
Proof.
  intros H. apply decode_ok_inv in H.
  destruct H as [(? & _)|(i & Ei & _)]; [discriminate|].
  apply find_sub_spec in Ei. destruct Ei as [Ei _]. cbn [MARK length] in Ei.
  destruct raw; [cbn in Ei; lia|discriminate].
Qed.

(* every message the decoder returns for any suffix of the buffer comes with a positive length *)
Definition suffix_progress (G : group_table) (bs buf : str) : Prop :=
  forall k m n r, decode G bs (skipn k buf) true = Ok (Some m, n, r) -> (0 < n)%Z.

Lemma suffix_progress_skipn G bs buf j : suffix_progress G bs buf -> suffix_progress G bs (skipn j buf).
Proof. intros H k m n r. rewrite skipn_skipn'. apply H. Qed.

Definition status {A B} (x : A * B * N) : N := snd x.
Definition residual {A B} (x : str * A * B) : str := fst (fst x).
Definition delivered {A B} (x : A * list (message * str) * B) : list (message * str) := snd (fst x).

Lemma reader_loop_terminates G bs : forall fuel buf acc,
  (length buf < fuel)%nat -> suffix_progress G bs buf -> status (reader_loop G bs fuel buf acc) <> 2.
Proof.
  induction fuel as [|f IH]; intros buf acc Hlen Hp; [lia|].
  cbn [reader_loop].
  destruct (decode G bs buf true) as [[[m n] r]|e] eqn:D; [|cbn; discriminate].
  destruct m as [m|]; [|destruct r; cbn; discriminate].
  assert (Hn : (0 < n)%Z) by (apply (Hp 0%nat m n r); exact D).
  assert (Hne : buf <> []) by (eapply decode_msg_nonempty; eauto).
  assert (Hlt : (length (skipn (Z.to_nat n) buf) < f)%nat).
  { rewrite skipn_length. destruct buf; [congruence|]. cbn [length] in *. lia. }
  replace (0 <? n)%Z with true by (symmetry; apply Z.ltb_lt; exact Hn).
  destruct r; apply IH; auto using suffix_progress_skipn.
Qed.

Lemma reader_step_terminates G bs buf chunk :
  suffix_progress G bs (buf ++ chunk) -> status (reader_step G bs buf chunk) <> 2.
Proof. intros H. unfold reader_step. apply reader_loop_terminates; [lia|exact H]. Qed.

(* each delivering iteration strictly shortens the buffer *)
Lemma reader_iteration_shrinks G bs buf m n r :
  decode G bs buf true = Ok (Some m, n, r) -> (0 < n)%Z ->
  (length (skipn (Z.to_nat n) buf) < length buf)%nat.
Proof.
  intros D Hn. pose proof (decode_msg_nonempty _ _ _ _ _ _ D) as Hne.
  rewrite skipn_length. destruct buf; [congruence|]. cbn [length]. lia.
Qed.

(* sufficient for progress: no suffix of the buffer carries a negative BodyLength *)
Lemma nonneg_blen_progress G bs buf :
  (forall k bl, frame_blen (skipn k buf) = Some bl -> (0 <= bl)%Z) -> suffix_progress G bs buf.
Proof. intros H k m n r D. eapply decode_msg_positive; eauto. Qed.

(* ------------------------------------------------------------------ (a) when decode does not raise *)

Definition is_some {A} (o : option A) : bool := match o with Some _ => true | None => false end.

Definition field_tag (f : str) : option str :=
  match split1 61 f with (t, Some _) => Some t | (_, None) => None end.

(* every tag is text that int() accepts *)
Definition tags_int (fs : list str) : bool :=
  forallb (fun f => match split1 61 f with (t, Some _) => is_some (py_int t) | (_, None) => true end) fs.
(* the value of every field with tag "10" is text that int() accepts *)
Definition cks_int (fs : list str) : bool :=
  forallb (fun f => match split1 61 f with
                    | (t, Some v) => negb (str_eqb t T10) || is_some (py_int v)
                    | (_, None) => true
                    end) fs.
(* if the second field is a BodyLength, its value is text that int() accepts *)
Definition blen_int (fs : list str) : bool :=
  match fs with
  | _ :: f1 :: _ => match split1 61 f1 with
                    | (t, Some v) => negb (str_eqb t T9) || is_some (py_int v)
                    | (_, None) => true
                    end
  | _ => true
  end.

(* The group bookkeeping of the field loop on tags only: which plain tags have been stored at the
   root, and the member lists of the open group contexts.  tstep = None is the situation
   "a plain tag that is already stored at the root arrives after all open groups were closed". *)
Record tstate := mkT { t_root : list str; t_stack : list (list str) }.

Fixpoint tpop (tag : str) (stack : list (list str)) : list (list str) :=
  match stack with
  | [] => []
  | ms :: rest => if mem_str tag ms then stack else tpop tag rest
  end.

Definition tstep (G : group_table) (ts : tstate) (tag : str) : option tstate :=
  match lookup_group G tag with
  | Some ms => Some (mkT (t_root ts) (ms :: tpop tag (t_stack ts)))
  | None =>
      match t_stack ts with
      | [] => Some (mkT (tag :: t_root ts) [])
      | _ => match tpop tag (t_stack ts) with
             | [] => if mem_str tag (t_root ts) then None else Some (mkT (tag :: t_root ts) [])
             | s => Some (mkT (t_root ts) s)
             end
      end
  end.

Fixpoint trun (G : group_table) (ts : tstate) (tags : list (option str)) : bool :=
  match tags with
  | [] => true
  | None :: _ => true               (* a field without "=": the loop returns here *)
  | Some t :: rest =>
      match tstep G ts t with
      | Some ts' => trun G ts' rest
      | None => false
      end
  end.

Definition no_dup_after_group (G : group_table) (fs : list str) : bool :=
  trun G (mkT [] []) (map field_tag fs).

(* --- containers *)

Lemma str_eqb_sym a b : str_eqb a b = str_eqb b a.
Proof.
  destruct (str_eqb a b) eqn:E.
  - apply streqb_eq in E. subst. symmetry. apply streqb_refl.
  - symmetry. apply streqb_neq. apply streqb_neq in E. congruence.
Qed.

Lemma ct_get_put q t v c : ct_get q (ct_put t v c) = if str_eqb t q then Some v else ct_get q c.
Proof.
  induction c as [|[k w] c IH]; cbn [ct_put ct_get]; [reflexivity|].
  destruct (str_eqb k t) eqn:E; cbn [ct_get].
  - apply streqb_eq in E. subst k. destruct (str_eqb t q); reflexivity.
  - rewrite IH. destruct (str_eqb k q) eqn:E2; [|reflexivity].
    apply streqb_eq in E2. subst k. now rewrite (str_eqb_sym t q), E.
Qed.

Lemma ct_mem_put q t v c : ct_mem q (ct_put t v c) = str_eqb t q || ct_mem q c.
Proof. unfold ct_mem. rewrite ct_get_put. destruct (str_eqb t q); reflexivity. Qed.

Section Sim.
Variable G : group_table.

Definition is_group (t : str) : Prop := lookup_group G t <> None.

Definition grp_ok (c : container) : Prop :=
  forall k v, is_group k -> ct_get k c = Some v -> exists items, v = VGrp items.

Lemma grp_ok_nil : grp_ok [].
Proof. intros k v _ H. discriminate. Qed.

Lemma grp_ok_put_grp t its c : grp_ok c -> grp_ok (ct_put t (VGrp its) c).
Proof.
  intros H k v Hk. rewrite ct_get_put. destruct (str_eqb t k); [|now apply H].
  intros E. inversion E. eauto.
Qed.

Lemma grp_ok_put_plain t v c : lookup_group G t = None -> grp_ok c -> grp_ok (ct_put t v c).
Proof.
  intros Ht H k w Hk. rewrite ct_get_put. destruct (str_eqb t k) eqn:E; [|now apply H].
  apply streqb_eq in E. subst k. contradiction.
Qed.

Lemma plain_mem_put_grp q t v c : lookup_group G q = None -> is_group t ->
  ct_mem q (ct_put t v c) = ct_mem q c.
Proof.
  intros Hq Ht. rewrite ct_mem_put. destruct (str_eqb t q) eqn:E; [|reflexivity].
  apply streqb_eq in E. subst q. contradiction.
Qed.

Lemma ct_add_group_ok t item c : grp_ok c -> is_group t ->
  exists c', ct_add_group t item c = Ok c' /\ grp_ok c'
             /\ forall q, lookup_group G q = None -> ct_mem q c' = ct_mem q c.
Proof.
  intros Hc Ht. unfold ct_add_group. destruct (ct_get t c) as [v|] eqn:E.
  - destruct (Hc t v Ht E) as [items ->]. eexists. split; [reflexivity|]. split.
    + now apply grp_ok_put_grp.
    + intros q Hq. now apply plain_mem_put_grp.
  - eexists. split; [reflexivity|]. split.
    + now apply grp_ok_put_grp.
    + intros q Hq. now apply plain_mem_put_grp.
Qed.

Definition pending_ok (p : option (str * container)) : Prop :=
  match p with Some (t, _) => is_group t | None => True end.

Lemma add_pending_ok p c : grp_ok c -> pending_ok p ->
  exists c', add_pending p c = Ok c' /\ grp_ok c'
             /\ forall q, lookup_group G q = None -> ct_mem q c' = ct_mem q c.
Proof.
  intros Hc Hp. destruct p as [[t item]|]; cbn [add_pending].
  - now apply ct_add_group_ok.
  - exists c. auto.
Qed.

Definition ctx_ok (c : ctx) : Prop := is_group (c_tag c) /\ grp_ok (c_tags c).

Lemma pop_while_ok tag : forall stack p root,
  Forall ctx_ok stack -> grp_ok root -> pending_ok p ->
  exists stack' root', pop_while tag stack p root = Ok (stack', root')
    /\ map c_members stack' = tpop tag (map c_members stack)
    /\ Forall ctx_ok stack' /\ grp_ok root'
    /\ forall q, lookup_group G q = None -> ct_mem q root' = ct_mem q root.
Proof.
  induction stack as [|c rest IH]; intros p root Hs Hr Hp; cbn [pop_while].
  - destruct (add_pending_ok p root Hr Hp) as (r' & E & Hr' & Hm). rewrite E. cbn [bind].
    exists [], r'. auto.
  - inversion Hs as [|? ? [Hct Hcg] Hrest]. subst.
    destruct (add_pending_ok p (c_tags c) Hcg Hp) as (tg & E & Htg & _). rewrite E. cbn [bind].
    cbn [c_members c_tag c_tags map tpop].
    destruct (mem_str tag (c_members c)) eqn:M.
    + eexists _, root. split; [reflexivity|]. split; [reflexivity|].
      split; [constructor; [split; assumption|assumption]|]. auto.
    + apply IH; auto.
Qed.

(* the decoder state and the tag-only state describe the same bookkeeping *)
Definition sim (st : dst) (ts : tstate) : Prop :=
  map c_members (d_stack st) = t_stack ts
  /\ (forall q, lookup_group G q = None -> ct_mem q (d_root st) = mem_str q (t_root ts))
  /\ grp_ok (d_root st) /\ Forall ctx_ok (d_stack st).

Lemma mem_str_cons q t l : mem_str q (t :: l) = str_eqb q t || mem_str q l.
Proof. reflexivity. Qed.

Lemma ct_set_ok t v c : py_int t <> None -> ct_mem t c = false -> ct_set t v c = Ok (ct_put t (VStr v) c).
Proof. intros Hi Hm. unfold ct_set. destruct (py_int t); [|congruence]. now rewrite Hm. Qed.

Lemma field_step_sim ck st ts m tag val ts' :
  sim st ts -> split1 61 m = (tag, Some val) ->
  py_int tag <> None -> (tag = T10 -> py_int val <> None) ->
  tstep G ts tag = Some ts' ->
  exists st', field_step G ck st m = FCont st' /\ sim st' ts'.
Proof.
  intros (Hst & Hroot & Hgr & Hctx) S Htag Hck T.
  unfold field_step. rewrite S.
  (* the checksum / type bookkeeping leaves root and stack alone *)
  match goal with
  | |- exists st', match ?r1 with _ => _ end = _ /\ _ =>
      assert (R1 : exists st1, r1 = Ok st1 /\ d_root st1 = d_root st /\ d_stack st1 = d_stack st)
  end.
  { destruct (str_eqb tag T10) eqn:E10.
    - apply streqb_eq in E10. destruct (py_int val) as [z|]; [|exfalso; now apply Hck].
      eexists. split; [reflexivity|]. auto.
    - destruct (str_eqb tag T35); eexists; (split; [reflexivity|]); auto. }
  destruct R1 as (st1 & -> & E1 & E2). rewrite E1, E2. clear E1 E2.
  unfold tstep in T.
  destruct (lookup_group G tag) as [members|] eqn:LG.
  - (* start of a group *)
    inversion T. subst ts'. clear T.
    assert (Hg : is_group tag) by (unfold is_group; congruence).
    destruct (d_stack st) as [|c0 rest0] eqn:Est.
    + eexists. split; [reflexivity|]. unfold sim. cbn [d_root d_stack t_root t_stack map c_members].
      rewrite <- Hst. cbn [map tpop]. repeat split; auto.
      constructor; [|constructor]. split; [exact Hg|apply grp_ok_nil].
    + destruct (pop_while_ok tag (c0 :: rest0) None (d_root st) Hctx Hgr I)
        as (stack' & root' & E & Hm & Hc' & Hr' & Hmem).
      rewrite E. eexists. split; [reflexivity|].
      unfold sim. cbn [d_root d_stack t_root t_stack map c_members].
      rewrite Hm, <- Hst. repeat split; auto.
      * intros q Hq. rewrite Hmem by exact Hq. now apply Hroot.
      * constructor; [|exact Hc']. split; [exact Hg|apply grp_ok_nil].
  - destruct (d_stack st) as [|c0 rest0] eqn:Est.
    + (* plain tag at the root *)
      rewrite <- Hst in T. cbn [map] in T. inversion T. subst ts'. clear T.
      destruct (ct_mem tag (d_root st)) eqn:M.
      * destruct (py_int tag); [|congruence]. eexists. split; [reflexivity|].
        unfold sim. cbn [d_root d_stack t_root t_stack map]. repeat split; auto.
        -- intros q Hq. rewrite ct_mem_put, mem_str_cons, Hroot by exact Hq.
           now rewrite (str_eqb_sym tag q).
        -- now apply grp_ok_put_plain.
      * rewrite ct_set_ok by assumption. eexists. split; [reflexivity|].
        unfold sim. cbn [d_root d_stack t_root t_stack map]. repeat split; auto.
        -- intros q Hq. rewrite ct_mem_put, mem_str_cons, Hroot by exact Hq.
           now rewrite (str_eqb_sym tag q).
        -- now apply grp_ok_put_plain.
    + (* plain tag while groups are open *)
      destruct (pop_while_ok tag (c0 :: rest0) None (d_root st) Hctx Hgr I)
        as (stack' & root' & E & Hm & Hc' & Hr' & Hmem).
      rewrite E. rewrite <- Hst in T. cbn [map] in T.
      change (c_members c0 :: map c_members rest0) with (map c_members (c0 :: rest0)) in T.
      rewrite <- Hm in T.
      destruct stack' as [|c rest].
      * cbn [map] in T.
        assert (Mr : ct_mem tag root' = mem_str tag (t_root ts))
          by (rewrite Hmem by exact LG; now apply Hroot).
        destruct (mem_str tag (t_root ts)) eqn:Mt; [discriminate|]. inversion T. subst ts'. clear T.
        rewrite Mr. rewrite ct_set_ok by assumption. eexists. split; [reflexivity|].
        unfold sim. cbn [d_root d_stack t_root t_stack map]. repeat split; auto.
        -- intros q Hq. rewrite ct_mem_put, mem_str_cons, Hmem, Hroot by exact Hq.
           now rewrite (str_eqb_sym tag q).
        -- now apply grp_ok_put_plain.
      * cbn [map] in T. inversion T. subst ts'. clear T.
        inversion Hc' as [|? ? [Hct Hcg] Hrest]. subst.
        destruct (ct_mem tag (c_tags c)) eqn:Mc.
        -- (* close the item, start the next one *)
           rewrite (ct_set_ok tag val []) by (auto; reflexivity).
           destruct rest as [|p rest'].
           ++ destruct (ct_add_group_ok (c_tag c) (c_tags c) root' Hr' Hct) as (r2 & E2 & Hr2 & Hm2).
              rewrite E2. cbn [bind]. eexists. split; [reflexivity|].
              unfold sim. cbn [d_root d_stack t_root t_stack map c_members]. repeat split; auto.
              ** intros q Hq. rewrite Hm2, Hmem by exact Hq. now apply Hroot.
              ** constructor; [|constructor]. split; [exact Hct|].
                 cbn [c_tags]. apply grp_ok_put_plain; [exact LG|apply grp_ok_nil].
           ++ inversion Hrest as [|? ? [Hpt Hpg] Hrest']. subst.
              destruct (ct_add_group_ok (c_tag c) (c_tags c) (c_tags p) Hpg Hct) as (tg & E2 & Htg & _).
              rewrite E2. cbn [bind]. eexists. split; [reflexivity|].
              unfold sim. cbn [d_root d_stack t_root t_stack map c_members]. repeat split; auto.
              ** intros q Hq. rewrite Hmem by exact Hq. now apply Hroot.
              ** constructor; [|constructor; [|exact Hrest']].
                 --- split; [exact Hct|]. cbn [c_tags]. apply grp_ok_put_plain; [exact LG|apply grp_ok_nil].
                 --- split; [exact Hpt|exact Htg].
        -- rewrite ct_set_ok by assumption. eexists. split; [reflexivity|].
           unfold sim. cbn [d_root d_stack t_root t_stack map c_members]. repeat split; auto.
           ++ intros q Hq. rewrite Hmem by exact Hq. now apply Hroot.
           ++ constructor; [|exact Hrest]. split; [exact Hct|].
              cbn [c_tags]. now apply grp_ok_put_plain.
Qed.

End Sim.

Lemma sim_init G : sim G st0 (mkT [] []).
Proof.
  unfold sim, st0. cbn. repeat split; auto. apply grp_ok_nil.
Qed.

Lemma fields_loop_no_exc G ck fs : forall st ts,
  sim G st ts -> tags_int fs = true -> cks_int fs = true ->
  trun G ts (map field_tag fs) = true ->
  forall e, fields_loop G ck st fs <> FExc e.
Proof.
  induction fs as [|m fs IH]; intros st ts Hs Ht Hc Hr e; cbn [fields_loop]; [discriminate|].
  cbn [tags_int cks_int forallb map trun] in *.
  apply andb_true_iff in Ht, Hc. destruct Ht as [Ht Hts]. destruct Hc as [Hc Hcs].
  unfold field_tag in Hr.
  destruct (split1 61 m) as [tag [val|]] eqn:S.
  - destruct (tstep G ts tag) as [ts'|] eqn:T; [|discriminate].
    destruct (field_step_sim G ck st ts m tag val ts' Hs S) as (st' & E & Hs'); auto.
    + destruct (py_int tag); [discriminate|discriminate].
    + intros ->. rewrite streqb_refl in Hc. cbn in Hc. destruct (py_int val); discriminate.
    + rewrite E. eapply IH; eauto.
  - unfold field_step. rewrite S. discriminate.
Qed.

(* the first field of the frame text starts with "8=" (it starts with the marker) *)
Lemma strip_last_empty_head (x : str) (ps : list str) : x <> [] -> exists ps', strip_last_empty (x :: ps) = x :: ps'.
Proof.
  intros Hx. unfold strip_last_empty. destruct (rev (x :: ps)) as [|[|c p] r] eqn:R; eauto.
  cbn [rev] in R. destruct (rev ps) as [|a l]; cbn [app] in R.
  - inversion R; congruence.
  - injection R as Ea Er. rewrite <- Er, rev_unit. eauto.
Qed.

Lemma dec_next_ge5 r : (5 <= dec_next (MARK ++ r))%nat.
Proof.
  unfold dec_next. destruct (find_sub MARK _); [lia|]. rewrite app_length. cbn. lia.
Qed.

Lemma first_field_has_eq i raw f0 rest :
  find_sub MARK raw = Some i -> dec_fields i raw = f0 :: rest ->
  exists v, split1 61 f0 = ([56], Some v).
Proof.
  intros Ei Ef. apply find_sub_spec in Ei. destruct Ei as [_ [r Er]].
  unfold dec_fields, dec_encoded in Ef. rewrite Er in Ef.
  pose proof (dec_next_ge5 r) as Hk. destruct (dec_next (MARK ++ r)) as [|[|k]]; [lia|lia|].
  cbn [MARK app firstn] in Ef.
  set (t := firstn k _) in Ef.
  assert (Es : exists p ps, split_on 1 (56 :: 61 :: t) = (56 :: 61 :: p) :: ps).
  { cbn [split_on N.eqb Pos.eqb]. destruct (split_on 1 t) as [|p ps] eqn:Et.
    - exfalso. eapply split_on_nonempty; eauto.
    - eauto. }
  destruct Es as (p & ps & Es). rewrite Es in Ef.
  destruct (strip_last_empty_head (56 :: 61 :: p) ps) as [ps' E]; [discriminate|].
  pose proof (eq_trans (eq_sym E) Ef) as Ef2. inversion Ef2. subst. exists p. reflexivity.
Qed.

Lemma decode_no_raise G bs raw :
  tags_int (frame_fields raw) = true -> blen_int (frame_fields raw) = true ->
  cks_int (frame_fields raw) = true -> no_dup_after_group G (frame_fields raw) = true ->
  exists m n r, decode G bs raw true = Ok (m, n, r).
Proof.
  unfold frame_fields, no_dup_after_group. intros Ht Hb Hc Hd. rewrite decode_eq.
  destruct (find_sub MARK raw) as [i|] eqn:Ei; [|eauto].
  destruct (dec_fields i raw) as [|f0 [|f1 [|f2 rest]]] eqn:Ef; eauto.
  destruct (first_field_has_eq _ _ _ _ Ei Ef) as [v0 S0]. rewrite S0.
  destruct (negb (str_eqb v0 bs)); eauto.
  destruct (split1 61 f1) as [t1 [v1|]] eqn:S1; eauto.
  destruct (negb (str_eqb t1 T9)) eqn:E9; eauto.
  cbn [blen_int] in Hb. rewrite S1 in Hb. rewrite E9 in Hb. cbn [orb] in Hb.
  destruct (py_int v1) as [bl|]; [|discriminate]. cbv zeta.
  destruct (_ <? _)%Z; eauto.
  pose proof (fields_loop_no_exc G (dec_ck (f0 :: f1 :: f2 :: rest)) _ _ _ (sim_init G) Ht Hc Hd) as Hne.
  fold st0. destruct (fields_loop G _ st0 _) as [st| |e] eqn:Efl; eauto.
  - destruct (d_ck st); eauto.
  - exfalso. eapply Hne; eauto.
Qed.

(* ------------------------------------------------------------------ single-byte substitution in a value *)

(* the value of the last field with tag "10" *)
Fixpoint last_cks (fs : list str) : option str :=
  match fs with
  | [] => None
  | f :: r =>
      match last_cks r with
      | Some v => Some v
      | None => match split1 61 f with
                | (t, Some v) => if str_eqb t T10 then Some v else None
                | (_, None) => None
                end
      end
  end.

Lemma fields_loop_last_ck G ck fs : forall st st',
  fields_loop G ck st fs = FCont st' ->
  match last_cks fs with
  | Some v => exists z, py_int v = Some z /\ d_ck st' = Z.eqb (Z.of_N ck) z
  | None => d_ck st' = d_ck st
  end.
Proof.
  induction fs as [|f fs IH]; intros st st'; cbn [fields_loop last_cks].
  - intros H. inversion H. reflexivity.
  - destruct (field_step G ck st f) as [st1| |] eqn:E; try discriminate.
    intros H. specialize (IH _ _ H). destruct (last_cks fs) as [v|]; [exact IH|].
    destruct (field_step_ck _ _ _ _ _ E) as (tag & val & S & Hc). rewrite S.
    destruct (str_eqb tag T10).
    + destruct Hc as (z & Hz & Hd). exists z. split; [exact Hz|congruence].
    + congruence.
Qed.

Lemma split1_field t v : ~ In 61 t -> split1 61 (field t v) = (t, Some v).
Proof.
  unfold field. induction t as [|c t IH]; intros H; [reflexivity|].
  cbn [app split1]. destruct (N.eqb c 61) eqn:E.
  - apply N.eqb_eq in E. subst c. exfalso. apply H. now left.
  - rewrite IH; [reflexivity|]. intros F. apply H. now right.
Qed.

Lemma last_cks_replace t v v' pre post : ~ In 61 t -> t <> T10 ->
  last_cks (pre ++ field t v :: post) = last_cks (pre ++ field t v' :: post).
Proof.
  intros H61 H10. apply streqb_neq in H10.
  induction pre as [|p pre IH]; cbn [app last_cks].
  - rewrite !split1_field by exact H61. now rewrite H10.
  - now rewrite IH.
Qed.

Lemma join_sum_replace sep pre post :
  exists K, forall f : str, sum_codes (join sep (pre ++ f :: post)) = K + sum_codes f.
Proof.
  induction pre as [|p pre [K IH]].
  - destruct post as [|q post].
    + exists 0. intros f. reflexivity.
    + exists (sum_codes sep + sum_codes (join sep (q :: post))). intros f.
      cbn [app]. rewrite join_cons by discriminate. rewrite !sum_codes_app. lia.
  - exists (sum_codes p + sum_codes sep + K). intros f.
    cbn [app]. rewrite join_cons by (destruct pre; discriminate).
    rewrite !sum_codes_app, IH. lia.
Qed.

Lemma mod256_cancel K x y : x < 256 -> y < 256 -> (K + x) mod 256 = (K + y) mod 256 -> x = y.
Proof.
  intros Hx Hy H.
  pose proof (N.div_mod (K + x) 256 ltac:(lia)) as D1.
  pose proof (N.div_mod (K + y) 256 ltac:(lia)) as D2.
  pose proof (N.mod_lt (K + x) 256 ltac:(lia)) as L1.
  rewrite H in D1.
  remember ((K + x) / 256) as q1. remember ((K + y) / 256) as q2. remember ((K + y) mod 256) as r.
  lia.
Qed.

Lemma dec_ck_replace pre t a x y c post :
  post <> [] -> x < 256 -> y < 256 -> x <> y ->
  dec_ck (pre ++ field t (a ++ x :: c) :: post) <> dec_ck (pre ++ field t (a ++ y :: c) :: post).
Proof.
  intros Hp Hx Hy Hxy. unfold dec_ck.
  assert (R : forall f : str, removelast (pre ++ f :: post) = pre ++ f :: removelast post).
  { intros f. rewrite removelast_app by discriminate. f_equal.
    destruct post; [congruence|reflexivity]. }
  rewrite !R. destruct (join_sum_replace SOHs pre (removelast post)) as [K HK].
  rewrite !HK. unfold field. rewrite !sum_codes_app, !sum_codes_cons, !sum_codes_app, !sum_codes_cons.
  intros E. apply Hxy.
  apply (mod256_cancel (K + sum_codes t + 61 + sum_codes a + sum_codes c + 1)); [exact Hx|exact Hy|].
  etransitivity; [|etransitivity; [exact E|]]; f_equal; lia.
Qed.

(* If a frame is returned as a message, then the text in which one byte inside the value of one
   field (not a CheckSum field, not the last field) is replaced - the field structure otherwise
   unchanged, i.e. no SOH or marker introduced or destroyed - is not returned as a message. *)
Lemma decode_subst_detected G bs raw raw' pre t a x y c post :
  frame_fields raw = pre ++ field t (a ++ x :: c) :: post ->
  frame_fields raw' = pre ++ field t (a ++ y :: c) :: post ->
  post <> [] -> t <> T10 -> ~ In 61 t -> x <> y -> x < 256 -> y < 256 ->
  (exists m n r, decode G bs raw true = Ok (Some m, n, r)) ->
  forall m' n' r', decode G bs raw' true <> Ok (Some m', n', r').
Proof.
  intros F F' Hp H10 H61 Hxy Hx Hy (m & n & r & D) m' n' r' D'.
  assert (A : forall raw0 m0 n0 r0, decode G bs raw0 true = Ok (Some m0, n0, r0) ->
              exists v z, last_cks (frame_fields raw0) = Some v /\ py_int v = Some z
                          /\ Z.of_N (dec_ck (frame_fields raw0)) = z).
  { intros raw0 m0 n0 r0 D0. apply decode_ok_inv in D0.
    destruct D0 as [(? & _)|(i & Ei & [(? & _)|I])]; try discriminate.
    destruct I as (f0 & f1 & f2 & rest & t0 & v1 & bl & Ef & _ & _ & _ & _ & _ & [(? & _)|I]);
      [discriminate|].
    destruct I as (st & Efl & Eck & _). unfold frame_fields. rewrite Ei.
    pose proof (fields_loop_last_ck _ _ _ _ _ Efl) as L.
    destruct (last_cks (dec_fields i raw0)) as [v|].
    - destruct L as (z & Hz & Hd). exists v, z. repeat split; auto.
      rewrite Eck in Hd. symmetry in Hd. now apply Z.eqb_eq in Hd.
    - cbn in L. congruence. }
  destruct (A _ _ _ _ D) as (v & z & L & Hz & Hc).
  destruct (A _ _ _ _ D') as (v' & z' & L' & Hz' & Hc').
  rewrite F in L, Hc. rewrite F' in L', Hc'.
  rewrite (last_cks_replace t _ (a ++ y :: c) pre post H61 H10) in L.
  rewrite L in L'. inversion L'. subst v'. rewrite Hz in Hz'. inversion Hz'. subst z'.
  apply (dec_ck_replace pre t a x y c post Hp Hx Hy Hxy). lia.
Qed.

(* ------------------------------------------------------------------ witnesses (| stands for SOH) *)

(* 8=FIX.4.4|9=abc|35=0|10=000| *)
Definition w_blen : str := [56; 61; 70; 73; 88; 46; 52; 46; 52; 1; 57; 61; 97; 98; 99; 1; 51; 53; 61; 48; 1; 49; 48; 61; 48; 48; 48; 1].
(* 8=FIX.4.4|9=5|35=0|10=abc| *)
Definition w_cks : str := [56; 61; 70; 73; 88; 46; 52; 46; 52; 1; 57; 61; 53; 1; 51; 53; 61; 48; 1; 49; 48; 61; 97; 98; 99; 1].
(* 8=FIX.4.4|9=5|35=0|abc=1|10=000| *)
Definition w_tag : str := [56; 61; 70; 73; 88; 46; 52; 46; 52; 1; 57; 61; 53; 1; 51; 53; 61; 48; 1; 97; 98; 99; 61; 49; 1; 49; 48; 61; 48; 48; 48; 1].
(* 8=FIX.4.4|9=5|35=J|70=a|78=1|79=A|70=b|10=000| *)
Definition w_dup : str := [56; 61; 70; 73; 88; 46; 52; 46; 52; 1; 57; 61; 53; 1; 51; 53; 61; 74; 1; 55; 48; 61; 97; 1; 55; 56; 61; 49; 1; 55; 57; 61; 65; 1; 55; 48; 61; 98; 1; 49; 48; 61; 48; 48; 48; 1].
(* 8=FIX.4.4|9=-1000|35=0|10=092|   (checksum correct) *)
Definition w_neg : str := [56; 61; 70; 73; 88; 46; 52; 46; 52; 1; 57; 61; 45; 49; 48; 48; 48; 1; 51; 53; 61; 48; 1; 49; 48; 61; 48; 57; 50; 1].
(* 8=FIX.4.4|9=-1000|35=0|10=000|   (checksum wrong) *)
Definition w_negbad : str := [56; 61; 70; 73; 88; 46; 52; 46; 52; 1; 57; 61; 45; 49; 48; 48; 48; 1; 51; 53; 61; 48; 1; 49; 48; 61; 48; 48; 48; 1].
(* 8=FIX.4.4|9=5|35=0|10=163|   (a correct Heartbeat-like frame) *)
Definition w_good : str := [56; 61; 70; 73; 88; 46; 52; 46; 52; 1; 57; 61; 53; 1; 51; 53; 61; 48; 1; 49; 48; 61; 49; 54; 51; 1].
(* xxxxxxxxxx8=FIX.4.4|9=15|35=0|10=212| *)
Definition w_over : str := [120; 120; 120; 120; 120; 120; 120; 120; 120; 120; 56; 61; 70; 73; 88; 46; 52; 46; 52; 1; 57; 61; 49; 53; 1; 51; 53; 61; 48; 1; 49; 48; 61; 50; 49; 50; 1].
(* 8=FIX.4.4|9=2|35=0|58=hello|10=095|   (true body length 14) *)
Definition w_wrongbl : str := [56; 61; 70; 73; 88; 46; 52; 46; 52; 1; 57; 61; 50; 1; 51; 53; 61; 48; 1; 53; 56; 61; 104; 101; 108; 108; 111; 1; 49; 48; 61; 48; 57; 53; 1].
(* 8=FIX.4.4|9=12|35=0|58=299|10=032|   (correct) *)
Definition w_lz : str := [56; 61; 70; 73; 88; 46; 52; 46; 52; 1; 57; 61; 49; 50; 1; 51; 53; 61; 48; 1; 53; 56; 61; 50; 57; 57; 1; 49; 48; 61; 48; 51; 50; 1].
(* 8=FIX.4.4|9=12|35=0|58=299|10= 32| *)
Definition w_lenient : str := [56; 61; 70; 73; 88; 46; 52; 46; 52; 1; 57; 61; 49; 50; 1; 51; 53; 61; 48; 1; 53; 56; 61; 50; 57; 57; 1; 49; 48; 61; 32; 51; 50; 1].
(* 8=FIX.4.4|9=12|35=0|58=299|10=+32| *)
Definition w_lenient_plus : str := [56; 61; 70; 73; 88; 46; 52; 46; 52; 1; 57; 61; 49; 50; 1; 51; 53; 61; 48; 1; 53; 56; 61; 50; 57; 57; 1; 49; 48; 61; 43; 51; 50; 1].
(* 8=FIX.4.4|9=5|35=0|58=7|10=190|1=evil| *)
Definition w_trailing : str := [56; 61; 70; 73; 88; 46; 52; 46; 52; 1; 57; 61; 53; 1; 51; 53; 61; 48; 1; 53; 56; 61; 55; 1; 49; 48; 61; 49; 57; 48; 1; 49; 61; 101; 118; 105; 108; 1].
(* the 130-byte AllocationInstruction of C02_nonvacuous (NoAllocs / NoNestedPartyIDs / NoNestedPartySubIDs) *)
Definition w_nested : str := [56; 61; 70; 73; 88; 46; 52; 46; 52; 1; 57; 61; 49; 48; 55; 1; 51; 53; 61; 74; 1; 52; 57; 61; 83; 1; 53; 54; 61; 84; 1; 51; 52; 61; 53; 1; 53; 50; 61; 50; 48; 50; 51; 48; 57; 49; 57; 45; 48; 55; 58; 49; 51; 58; 50; 54; 46; 56; 48; 56; 1; 55; 48; 61; 97; 49; 1; 55; 56; 61; 50; 1; 55; 57; 61; 65; 1; 56; 48; 61; 49; 1; 53; 51; 57; 61; 49; 1; 53; 50; 52; 61; 80; 1; 56; 48; 52; 61; 49; 1; 53; 52; 53; 61; 115; 1; 56; 48; 53; 61; 49; 1; 55; 57; 61; 66; 233; 1; 56; 48; 61; 50; 1; 49; 48; 61; 48; 48; 50; 1].

Definition TBL : group_table := GenGroups.table.      (* regenerated from FIXProtocol44.repeating_groups *)
Definition BS : str := GenGroups.beginstring.         (* "FIX.4.4" *)

Definition dec (raw : str) : result dres := decode TBL BS raw true.
Definition dec_summary (raw : str) : option (bool * Z * bool) :=
  match dec raw with
  | Ok (m, n, r) => Some (is_some m, n, is_some r)
  | Exc _ => None
  end.

(* D7: "decode(silent=True) never raises" is false, for each of the three kinds; each witness
   violates exactly one hypothesis of decode_no_raise *)
Lemma raise_witnesses :
  dec w_blen = Exc EValue /\ dec w_cks = Exc EValue /\ dec w_tag = Exc EFIXMessage /\ dec w_dup = Exc EAttribute.
Proof. repeat split; vm_compute; reflexivity. Qed.

Lemma raise_witnesses_hyps :
  (tags_int (frame_fields w_blen), blen_int (frame_fields w_blen), cks_int (frame_fields w_blen),
   no_dup_after_group TBL (frame_fields w_blen)) = (true, false, true, true)
  /\ (tags_int (frame_fields w_cks), blen_int (frame_fields w_cks), cks_int (frame_fields w_cks),
      no_dup_after_group TBL (frame_fields w_cks)) = (true, true, false, true)
  /\ (tags_int (frame_fields w_tag), blen_int (frame_fields w_tag), cks_int (frame_fields w_tag),
      no_dup_after_group TBL (frame_fields w_tag)) = (false, true, true, true)
  /\ (tags_int (frame_fields w_dup), blen_int (frame_fields w_dup), cks_int (frame_fields w_dup),
      no_dup_after_group TBL (frame_fields w_dup)) = (true, true, true, false).
Proof. repeat split; vm_compute; reflexivity. Qed.

Lemma no_raise_refuted : exists raw e, decode TBL BS raw true = Exc e.
Proof. exists w_blen, EValue. vm_compute. reflexivity. Qed.

(* non-vacuity of decode_no_raise: a three-level nested group frame meets every hypothesis and is
   returned as a message *)
Lemma no_raise_nonvacuous :
  tags_int (frame_fields w_nested) = true /\ blen_int (frame_fields w_nested) = true
  /\ cks_int (frame_fields w_nested) = true /\ no_dup_after_group TBL (frame_fields w_nested) = true
  /\ dec_summary w_nested = Some (true, 130%Z, true).
Proof. repeat split; vm_compute; reflexivity. Qed.

(* D8: consumed length outside [0, len] *)
Lemma consumed_negative_refuted :
  exists raw m n r, decode TBL BS raw true = Ok (m, n, r) /\ (n < 0)%Z.
Proof.
  exists w_neg. destruct (decode TBL BS w_neg true) as [[[m n] r]|] eqn:E; [|vm_compute in E; discriminate].
  exists m, n, r. split; [reflexivity|]. vm_compute in E. inversion E. reflexivity.
Qed.

Lemma consumed_negative_values :
  dec_summary w_neg = Some (true, (-975)%Z, true) /\ dec_summary w_negbad = Some (false, (-975)%Z, false).
Proof. split; vm_compute; reflexivity. Qed.

Lemma consumed_overlong_refuted :
  exists raw m n r, decode TBL BS raw true = Ok (m, n, r) /\ (zlen raw < n)%Z.
Proof.
  exists w_over. destruct (decode TBL BS w_over true) as [[[m n] r]|] eqn:E; [|vm_compute in E; discriminate].
  exists m, n, r. split; [reflexivity|]. vm_compute in E. inversion E. reflexivity.
Qed.

Lemma consumed_overlong_values : dec_summary w_over = Some (true, 47%Z, true) /\ zlen w_over = 37%Z.
Proof. split; vm_compute; reflexivity. Qed.

(* D8: BodyLength is never compared with the body: a frame the reference grammar rejects only
   because of its BodyLength (2 instead of 14) is returned as a message, and consumed = 23 of 35 *)
Lemma bodylength_unchecked_refuted :
  exists raw m n, decode TBL BS raw true = Ok (Some m, n, Some raw)
    /\ frame_blen raw = Some 2%Z /\ well_framedb raw = false /\ (n < zlen raw)%Z.
Proof.
  exists w_wrongbl.
  destruct (decode TBL BS w_wrongbl true) as [[[[m|] n] [r|]]|] eqn:E; try (vm_compute in E; discriminate).
  exists m, n. vm_compute in E. inversion E. subst. repeat split; vm_compute; reflexivity.
Qed.

(* D8: int() leniency in the CheckSum value: "10= 32" and "10=+32" pass for "10=032" *)
Lemma checksum_lenient_refuted :
  exists raw m n, decode TBL BS raw true = Ok (Some m, n, Some raw) /\ well_framedb raw = false
    /\ exists raw', well_framedb raw' = true /\ length raw' = length raw
         /\ decode TBL BS raw' true = Ok (Some (mkMsg (msg_type m)
               (ct_put T10 (VStr [48; 51; 50]) (msg_tags m))), n, Some raw').
Proof.
  exists w_lenient.
  destruct (decode TBL BS w_lenient true) as [[[[m|] n] [r|]]|] eqn:E; try (vm_compute in E; discriminate).
  exists m, n. vm_compute in E. inversion E. subst. split; [reflexivity|]. split; [vm_compute; reflexivity|].
  exists w_lz. repeat split; vm_compute; reflexivity.
Qed.

Lemma checksum_lenient_values :
  dec_summary w_lenient = Some (true, 34%Z, true) /\ dec_summary w_lenient_plus = Some (true, 34%Z, true)
  /\ dec_summary w_lz = Some (true, 34%Z, true).
Proof. repeat split; vm_compute; reflexivity. Qed.

(* the CheckSum field need not be the last one: a field placed after it is not covered by the
   checksum and is returned as part of the message *)
Lemma trailing_field_unchecked_refuted :
  exists raw m n, decode TBL BS raw true = Ok (Some m, n, Some raw)
    /\ ct_get [49] (msg_tags m) = Some (VStr [101; 118; 105; 108])      (* 1=evil *)
    /\ last (frame_fields raw) [] = field [49] [101; 118; 105; 108]
    /\ well_framedb raw = false.
Proof.
  exists w_trailing.
  destruct (decode TBL BS w_trailing true) as [[[[m|] n] [r|]]|] eqn:E; try (vm_compute in E; discriminate).
  exists m, n. vm_compute in E. inversion E. subst. repeat split; vm_compute; reflexivity.
Qed.

(* D8 / D7: a frame after which nothing is ever delivered again *)
Definition run2 (first : str) := reader_run TBL BS [] [first ++ w_good; w_good].

(* control: two good frames in two reads are both delivered and the buffer is empty *)
Lemma reader_control :
  residual (reader_run TBL BS [] [w_good; w_good]) = []
  /\ length (delivered (reader_run TBL BS [] [w_good; w_good])) = 2%nat
  /\ snd (reader_run TBL BS [] [w_good; w_good]) = [0; 0].
Proof. repeat split; vm_compute; reflexivity. Qed.

(* negative BodyLength, wrong checksum: the reader waits for ever, the buffer only grows *)
Lemma stall_negative_refuted :
  run2 w_negbad = (w_negbad ++ w_good ++ w_good, [], [0; 0]).
Proof. vm_compute. reflexivity. Qed.

(* a raising frame: every read ends in the exception handler, the buffer only grows *)
Lemma stall_raising_refuted :
  run2 w_blen = (w_blen ++ w_good ++ w_good, [], [1; 1]).
Proof. vm_compute. reflexivity. Qed.

(* negative BodyLength, correct checksum: the inner loop never ends (the same message is handed
   to the session again and again; status 2 = fuel exhausted) *)
Lemma spin_negative_refuted :
  status (reader_step TBL BS [] (w_neg ++ w_good)) = 2
  /\ residual (reader_step TBL BS [] (w_neg ++ w_good)) = w_neg ++ w_good
  /\ length (delivered (reader_step TBL BS [] (w_neg ++ w_good))) = S (length (w_neg ++ w_good)).
Proof. repeat split; vm_compute; reflexivity. Qed.

Lemma stall_refuted :
  exists first, delivered (run2 first) = [] /\ residual (run2 first) = first ++ w_good ++ w_good
    /\ length (delivered (reader_run TBL BS [] [w_good; w_good])) = 2%nat.
Proof. exists w_negbad. repeat split; vm_compute; reflexivity. Qed.

Lemma reader_nontermination_refuted :
  exists buf chunk, status (reader_step TBL BS buf chunk) = 2.
Proof. exists [], (w_neg ++ w_good). vm_compute. reflexivity. Qed.

Lemma decode_consumed_bounds G bs raw m n r : decode G bs raw true = Ok (m, n, r) ->
  ((forall bl, frame_blen raw = Some bl -> (0 <= bl)%Z) -> (0 <= n)%Z)
  /\ (n <= zlen raw + marker_offset raw)%Z
  /\ (marker_offset raw = 0%Z -> (n <= zlen raw)%Z).
Proof.
  intros H. split; [|split].
  - eapply decode_consumed_nonneg; eauto.
  - eapply decode_consumed_upper; eauto.
  - intros E. apply decode_consumed_upper in H. lia.
Qed.

(* non-vacuity of decode_subst_detected: 58=299 -> 58=298 in w_lz *)
Definition w_lz_subst : str :=
  [56; 61; 70; 73; 88; 46; 52; 46; 52; 1; 57; 61; 49; 50; 1; 51; 53; 61; 48; 1; 53; 56; 61; 50; 57; 56; 1; 49; 48; 61; 48; 51; 50; 1].

Lemma subst_example :
  let pre := [field T8 BS; field T9 [49; 50]; field T35 [48]] in
  let post := [field T10 [48; 51; 50]] in
  frame_fields w_lz = pre ++ field [53; 56] ([50; 57] ++ 57 :: []) :: post
  /\ frame_fields w_lz_subst = pre ++ field [53; 56] ([50; 57] ++ 56 :: []) :: post
  /\ dec_summary w_lz = Some (true, 34%Z, true)
  /\ dec_summary w_lz_subst = Some (false, 34%Z, false).
Proof. repeat split; vm_compute; reflexivity. Qed.

(* D8: a frame with a wrong BeginString (likewise: BodyLength not second, a field without "=")
   makes decode report the WHOLE buffer as consumed: a good frame received in the same read is
   discarded with it.  w_badbs = 8=FIX.4.2|9=5|35=0|10=161| *)
Definition w_badbs : str :=
  [56; 61; 70; 73; 88; 46; 52; 46; 50; 1; 57; 61; 53; 1; 51; 53; 61; 48; 1; 49; 48; 61; 49; 54; 49; 1].

Lemma drop_buffer_refuted :
  dec_summary (w_badbs ++ w_good) = Some (false, zlen (w_badbs ++ w_good), false)
  /\ reader_run TBL BS [] [w_badbs ++ w_good] = ([], [], [0])
  /\ length (delivered (reader_run TBL BS [] [w_badbs; w_good])) = 1%nat.
Proof. repeat split; vm_compute; reflexivity. Qed.

(* D8: a fragment that starts with the marker, has fewer than three fields and is followed by
   another marker is never consumed (consumed = 0 for ever).  w_frag = 8=FIX.4 *)
Definition w_frag : str := [56; 61; 70; 73; 88; 46; 52].

Lemma stall_fragment_refuted :
  dec_summary (w_frag ++ w_good) = Some (false, 0%Z, false)
  /\ run2 w_frag = (w_frag ++ w_good ++ w_good, [], [0; 0]).
Proof. split; vm_compute; reflexivity. Qed.
