(* C01 - encode/decode round trip preserves every well-formed message.
   Theorems only (proofs in AF.Lemmas.RoundTripL, string lemmas in AF.Lemmas.StrB).
   Model: Fix/Codec.v (encode, decode: validated against asyncfix/codec.py); predicates: Fix/WfMsg.v.

   wf_table G   - no framing tag (8 9 35 10 34 52 49 56) opens a group; 10 and 35 are members of no group.
   wf_msg G m   - MsgType SOH-free; every body tag (= tag of m other than 34/52/49/56, which the encoder
                  writes itself) is SOH-free, '='-free, accepted by int(), not 8/9/35/10; tags of one
                  container are pairwise distinct; a plain value sits under a tag that opens no group and
                  is SOH-free; a group sits under a tag of G, has >= 1 item, every item is non-empty and
                  uses member tags of that group only (recursively); the first tag of every item after
                  the first is a plain tag that occurs in the previous item; a tag that follows a group
                  (in its item, at root, or as the head of the next item) is not a member of any group
                  still open there (the group itself, the last group of its last item, ...).
   no_marker f  - negation of known finding D5: the text "8=FIX." occurs in the frame at offset 0 only.
   small_frame  - the frame is shorter than 10^4300 bytes (int() refuses longer BodyLength texts).
   decoded_of   - root container [8; 9; 35; 49; 56; 34; 52] ++ body of m (same order, values, nesting,
                  item count, item order) ++ [10].                                                      *)
From Coq Require Import ZArith NArith List Bool String.
From AF Require Import Base.Sx Py.Str Fix.Codec Fix.WfMsg Lemmas.RoundTripL.
From AFGen Require Import GenGroups.
Import ListNotations.
Open Scope Z_scope.

(* Stage 3, the full statement: arbitrarily nested groups, every sequence-number mode *)
Theorem C01_roundtrip : forall G bs m sess time raw frame sess',
  wf_table G = true -> wf_bs bs = true -> wf_session sess = true -> soh_free time = true ->
  wf_msg G m = true -> no_marker frame = true -> small_frame frame ->
  encode bs m sess time raw = Ok (frame, sess') ->
  exists seq,
    select_seq m sess raw = Ok (seq, sess')
    /\ (forall silent, decode G bs frame silent = Ok (Some (decoded_of bs m sess seq time), zlen frame, Some frame))
    /\ ((allocates m raw = true /\ seq = z_to_dec (next_out sess)
         /\ sess' = mkSession (sender sess) (target sess) (next_out sess + 1))
        \/ (allocates m raw = false /\ sess' = sess
            /\ exists z, seq_of_msg (msg_tags m) = Ok z /\ seq = z_to_dec z)).
Proof. exact roundtrip. Qed.
Print Assumptions C01_roundtrip.

(* Stage 1: flat bodies *)
Theorem C01_roundtrip_flat : forall G bs m sess time raw frame sess',
  wf_table G = true -> wf_bs bs = true -> wf_session sess = true -> soh_free time = true ->
  wf_msg G m = true -> flat_msg m = true -> no_marker frame = true -> small_frame frame ->
  encode bs m sess time raw = Ok (frame, sess') ->
  exists seq,
    select_seq m sess raw = Ok (seq, sess')
    /\ (forall silent, decode G bs frame silent = Ok (Some (decoded_of bs m sess seq time), zlen frame, Some frame))
    /\ seq_clause m sess raw seq sess'.
Proof. exact roundtrip_flat. Qed.
Print Assumptions C01_roundtrip_flat.

(* Stage 2: one level of groups *)
Theorem C01_roundtrip_depth1 : forall G bs m sess time raw frame sess',
  wf_table G = true -> wf_bs bs = true -> wf_session sess = true -> soh_free time = true ->
  wf_msg G m = true -> depth1_msg m = true -> no_marker frame = true -> small_frame frame ->
  encode bs m sess time raw = Ok (frame, sess') ->
  exists seq,
    select_seq m sess raw = Ok (seq, sess')
    /\ (forall silent, decode G bs frame silent = Ok (Some (decoded_of bs m sess seq time), zlen frame, Some frame))
    /\ seq_clause m sess raw seq sess'.
Proof. exact roundtrip_depth1. Qed.
Print Assumptions C01_roundtrip_depth1.

(* the D5 hypothesis is exactly a predicate on the rendered fields: the marker occurs past offset 0 of
   the frame iff some field after the first contains "8=FIX." (a value containing it, or a tag ending
   in 8 with a value starting "FIX."), or the BeginString field contains it again *)
Theorem C01_marker_class : forall bs m sess time raw frame sess' seq,
  wf_bs bs = true -> encode bs m sess time raw = Ok (frame, sess') -> select_seq m sess raw = Ok (seq, sess') ->
  no_marker frame = no_marker_fields_b bs m sess seq time.
Proof. exact no_marker_frame_fields. Qed.
Print Assumptions C01_marker_class.

(* the regenerated FIX 4.4 table satisfies the table hypothesis (all 29 groups, none excluded) *)
Theorem C01_fix44_table_wf : wf_table GenGroups.table = true.
Proof. exact fix44_table_wf. Qed.
Print Assumptions C01_fix44_table_wf.

(* non-vacuity: a three-level NoAllocs / NoNestedPartyIDs / NoNestedPartySubIDs message meets every
   hypothesis, and its concrete round trip *)
Theorem C01_nonvacuous :
  wf_table GenGroups.table = true /\ wf_bs beginstring = true /\ wf_session ex_sess = true
  /\ soh_free ex_time = true /\ wf_msg GenGroups.table ex_nested = true
  /\ flat_msg ex_nested = false /\ depth1_msg ex_nested = false
  /\ no_marker (ex_frame ex_nested) = true /\ small_frame (ex_frame ex_nested)
  /\ encode beginstring ex_nested ex_sess ex_time false
     = Ok (ex_frame ex_nested, mkSession (sender ex_sess) (target ex_sess) 18)
  /\ decode GenGroups.table beginstring (ex_frame ex_nested) true
     = Ok (Some (decoded_of beginstring ex_nested ex_sess (z_to_dec 17) ex_time),
           zlen (ex_frame ex_nested), Some (ex_frame ex_nested)).
Proof. exact nonvacuous. Qed.
Print Assumptions C01_nonvacuous.

(* D5: without no_marker the statement is false: 58=FIX.x (tag ending in 8, value starting "FIX.") and
   58="see 8=FIX.4.4 spec" are well-formed, yet the decoder returns no message for their frame (the part before the inner
   marker is dropped as a fragment, the rest is not a frame): the reader delivers nothing *)
Theorem C01_marker_refuted : forall m, m = ex_marker_tag \/ m = ex_marker_value ->
  wf_msg GenGroups.table m = true /\ flat_msg m = true /\ small_frame (ex_frame m)
  /\ no_marker (ex_frame m) = false
  /\ (exists sess', encode beginstring m ex_sess ex_time false = Ok (ex_frame m, sess'))
  /\ (exists n, decode GenGroups.table beginstring (ex_frame m) true = Ok (None, n, None))
  /\ snd (fst (reader_run GenGroups.table beginstring [] [ex_frame m])) = [].
Proof. exact marker_refuted. Qed.
Print Assumptions C01_marker_refuted.

(* the structural hypotheses are forced as well (candidates for known-finding classes): messages whose
   groups use member tags only, yet are outside wf_msg, and decode to a different structure:
   a root-level Commission (12) after NoAllocs is absorbed into the last item; items that do not start
   with a tag of the previous item merge; items that start with a nested group merge *)
Theorem C01_structure_refuted :
  (wf_msg GenGroups.table ex_follower = false /\ no_marker (ex_frame ex_follower) = true
   /\ decoded_tag ex_follower "78" = Some (VGrp [[plain "79" "acc"; plain "80" "100"; plain "12" "5.0"]])
   /\ decoded_tag ex_follower "12" = None)
  /\ (wf_msg GenGroups.table ex_item_head = false /\ no_marker (ex_frame ex_item_head) = true
      /\ decoded_tag ex_item_head "78" = Some (VGrp [[plain "79" "a"; plain "80" "b"]]))
  /\ (wf_msg GenGroups.table ex_item_group_head = false /\ no_marker (ex_frame ex_item_group_head) = true
      /\ decoded_tag ex_item_group_head "78"
         = Some (VGrp [[grp "539" [[plain "524" "p"]; [plain "524" "q"]]]])).
Proof. exact structure_refuted. Qed.
Print Assumptions C01_structure_refuted.

(* the header tags the model's encoder skips are the ones the code's literal names (regenerated by gen_const.py) *)
From AF Require Import Lemmas.ConstTieL.
From AFGen Require Import GenConst.
Theorem C01_skip_set_is_code : same_set Codec.skip_tags encode_skip_values = true.
Proof. exact encode_skip_set_is_code. Qed.
Print Assumptions C01_skip_set_is_code.
