"""C03 - stream reassembly is independent of how the byte stream is chunked.

The REAL socket_read_task (real asyncio.StreamReader, one feed per read) is run on streams of
valid encoder frames under exhaustive 1- and 2-cut partitions (small streams), random multi-cut
partitions and 1-byte reads, with optional marker-free garbage between frames, and compared with
the extracted model's reader_run.  Oracle: the messages handed to _process_message are exactly
the frames of the stream, in order, whatever the chunking."""
import json
import logging

from harness import codec_common as cc

META = {
    "level": "proof",
    "tables": ["GenGroups", "GenEnums"],
    "files": ["asyncfix/connection.py", "asyncfix/codec.py"],
    "rule": "streams of 1-4 valid frames (session and application types, 60 B - 2 kB) x all 1-cut partitions and sampled 2-cut partitions of small streams, "
            "random multi-cut partitions, 1-byte reads, optional marker-free garbage (incl. proper prefixes of the marker and field look-alikes) before, between and after frames, plus - on every run whatever the seed - small streams with junk in front of every frame under every single cut; non-trivial = at least one cut strictly inside a frame; "
            "distinct by (stream, cut offsets)",
    "trusted_base": ["asyncio.StreamReader.read(4096) returns what was fed since the last read (reads <= 4096 bytes)"],
    "assumptions": ["TCP is an in-order byte pipe split into arbitrary reads"],
}


def frame_offsets(pieces):
    """pieces: list of (kind, bytes) with kind 'F' frame / 'G' garbage -> list of (start, end, kind)"""
    out, o = [], 0
    for k, b in pieces:
        out.append((o, o + len(b), k))
        o += len(b)
    return out


def classify(pieces, cuts):
    """No known-finding class is left for C03: the three classes of the ledger (a read ending inside the marker, marker-free
    bytes after a frame, junk in front of a frame counted in the completeness test) were repaired in Codec.decode."""
    return None


def gen_stream(rng, small, junk=0.15):
    n = rng.randrange(1, 3 if small else 5)
    pieces = []
    for i in range(n):
        if rng.random() < junk:
            g = gen_garbage(rng)
            if g:
                pieces.append(("G", g))
        m = cc.gen_wf_message(rng, max_groups=0 if small else 2)
        if small:
            m = [m[0], m[1][:2]]
        f = cc.encode_frame(rng, m)
        if f:
            pieces.append(("F", f))
    if not any(k == "F" for k, _ in pieces):
        pieces.append(("F", cc.encode_frame(rng, [cc.cp("0"), []])))
    if rng.random() < 0.08:
        g = gen_garbage(rng)            # marker-free bytes after the last frame
        if g:
            pieces.append(("G", g))
    return pieces


def gen_garbage(rng):
    """marker-free bytes; may contain (and end with) proper prefixes of the marker and look-alikes of fields"""
    parts = []
    for _ in range(rng.randrange(1, 4)):
        r = rng.random()
        if r < 0.5:
            parts.append(bytes(rng.choice(b"\x00\x01 =|xyz9AFIX.") for _ in range(rng.randrange(1, 9))))
        elif r < 0.8:
            parts.append(b"8=FIX."[: rng.randrange(1, 6)])
        else:
            parts.append(rng.choice([b"\x0110=123\x01", b"9=5\x01", b"10=", b"\x01"]))
    g = b"".join(parts)
    return g if b"8=FIX." not in g else b""


def residual_ok(pieces, residual):
    """what may stay in the buffer: nothing, or - after trailing garbage - a proper prefix of the marker that ends the stream"""
    if not residual:
        return True
    return pieces[-1][0] == "G" and 0 < len(residual) < 6 and b"8=FIX.".startswith(residual) and pieces[-1][1].endswith(residual)


def check(ctx, pieces, cuts, model_res=None, register=True):
    stream = b"".join(b for _, b in pieces)
    chunks = cc.split_cuts(stream, cuts)
    impl = cc.impl_reader(chunks)
    frames = [b for k, b in pieces if k == "F"]
    case = {"pieces": [[k, b.hex()] for k, b in pieces], "cuts": sorted(cuts)}
    if register:
        inside = any(any(a < c < b for c in cuts) for (a, b, k) in frame_offsets(pieces) if k == "F")
        ctx.case((stream, tuple(sorted(cuts))), inside,
                 sample={"stream": stream.decode("latin-1"), "cuts": sorted(cuts)} if (len(ctx.samples) < 3 and inside) else None)
        ctx.count("chunks=%d" % min(len(chunks), 6))
        ctx.traces += 1
    got = [bytes(r) for _, r in impl[1]]
    if got != frames or not residual_ok(pieces, bytes(impl[0])):
        ctx.fail(case, "delivered %d of %d frames (residual buffer %d bytes)" % (len(got), len(frames), len(impl[0])),
                 classify(pieces, cuts))
    if model_res is not None and impl != model_res:
        ctx.disagree(case, [len(impl[0]), len(impl[1]), impl[2]], [len(model_res[0]), len(model_res[1]), model_res[2]], "reader-deliveries")
    return chunks


def read_size():
    """The argument of `reader.read(n)` in socket_read_task, read from the current source (literal, or a module / class
    constant by name); 4096 when it cannot be found (then the bursts are still cut at 4096, 2048 and 8192)."""
    import ast
    import os
    from vlib import core
    try:
        tree = ast.parse(open(os.path.join(core.REPO, "asyncfix/connection.py")).read())
        consts = {}
        for n in ast.walk(tree):
            if isinstance(n, ast.Assign) and isinstance(n.value, ast.Constant) and isinstance(n.value.value, int):
                for t in n.targets:
                    if isinstance(t, ast.Name):
                        consts[t.id] = n.value.value
        for fn in ast.walk(tree):
            if isinstance(fn, ast.AsyncFunctionDef) and fn.name == "socket_read_task":
                for c in ast.walk(fn):
                    if isinstance(c, ast.Call) and isinstance(c.func, ast.Attribute) and c.func.attr == "read" and c.args:
                        a = c.args[0]
                        if isinstance(a, ast.Constant) and isinstance(a.value, int):
                            return a.value, True
                        name = a.id if isinstance(a, ast.Name) else a.attr if isinstance(a, ast.Attribute) else None
                        if name in consts:
                            return consts[name], True
    except Exception:  # noqa: BLE001
        pass
    return 4096, False


READ, READ_FOUND = 4096, False      # set by plan(): socket_read_task reads at most this many bytes at a time


def gen_burst(rng, exact):
    """A burst of frames longer than one read.  exact: padded (through one Text value) to a whole number of reads, so
    that the LAST read is a full one as well - nothing follows it, the frames it completes must still be delivered."""
    def build(extra):
        pieces = []
        for i in range(n):
            body = [[cc.cp("11"), [0, cc.cp("ORD%d" % i)]], [cc.cp("58"), [0, cc.cp("t" * (lens[i] + (extra if i == n - 1 else 0)))]]]
            pieces.append(("F", cc.encode_frame(rng, [cc.cp("D"), body], seq=i + 1)))
        return pieces
    n = rng.randrange(8, 40)
    lens = [rng.randrange(1, 400) for _ in range(n)]
    pieces = build(0)
    if exact:
        L = sum(len(b) for _, b in pieces)
        for extra in range((-L) % READ, (-L) % READ + READ + 8):
            cand = build(extra)
            if sum(len(b) for _, b in cand) % READ == 0:
                return cand
    return pieces


def check_raising(ctx, pieces, cuts, raising, model_res=None):
    """Oracle only: the dispatcher (_process_message) raises for the deliveries numbered in `raising`; every frame must
    still be handed over exactly once and in order (added after seeded change C10-a: the buffer was advanced only after
    the dispatcher returned, so a frame whose dispatch raised was never consumed)."""
    stream = b"".join(b for _, b in pieces)
    chunks = cc.split_cuts(stream, cuts)
    try:
        impl = cc.impl_reader(chunks, raising=raising)
    except Exception as e:  # noqa: BLE001 - a reader that never parks again is an observation
        ctx.fail({"pieces": [[k, b.hex()] for k, b in pieces], "cuts": sorted(cuts), "dispatcher_raises_at": sorted(raising)},
                 "reader did not come to rest: %s" % type(e).__name__, None)
        return
    frames = [b for k, b in pieces if k == "F"]
    got = [bytes(r) for _, r in impl[1]]
    ctx.case((stream, tuple(sorted(cuts)), tuple(sorted(raising))), True)
    ctx.count("dispatcher-raises")
    ctx.traces += 1
    if got != frames or not residual_ok(pieces, bytes(impl[0])):
        ctx.fail({"pieces": [[k, b.hex()] for k, b in pieces], "cuts": sorted(cuts), "dispatcher_raises_at": sorted(raising)},
                 "dispatcher raised at deliveries %s: delivered %d of %d frames (residual buffer %d bytes)"
                 % (sorted(raising), len(got), len(frames), len(impl[0])), None)
    if model_res is not None and impl != model_res:
        ctx.disagree({"pieces": [[k, b.hex()] for k, b in pieces], "cuts": sorted(cuts), "dispatcher_raises_at": sorted(raising)},
                     [len(impl[0]), len(impl[1]), impl[2]], [len(model_res[0]), len(model_res[1]), model_res[2]],
                     "reader-with-raising-dispatcher")


def plan(ctx):
    rng = ctx.rng
    jobs = []
    n_small = ctx.scale(14, 120)
    for _ in range(n_small):
        pieces = gen_stream(rng, True)
        L = sum(len(b) for _, b in pieces)
        for c in range(1, L):
            jobs.append((pieces, [c]))
        for _ in range(ctx.scale(60, 1500)):
            jobs.append((pieces, rng.sample(range(1, L), 2)))
    # every run, whatever the seed: small streams with junk in front of EVERY frame, every single cut
    # (added after seeded change C03-8, which reverted the junk-aware completeness test and was missed with seed 0)
    for _ in range(ctx.scale(5, 40)):
        pieces = gen_stream(rng, True, junk=1.0)
        L = sum(len(b) for _, b in pieces)
        for c in range(1, L):
            jobs.append((pieces, [c]))
    for _ in range(ctx.scale(250, 6000)):
        pieces = gen_stream(rng, False)
        L = sum(len(b) for _, b in pieces)
        k = rng.choice([0, 1, 2, 3, 5, 8, 13])
        jobs.append((pieces, rng.sample(range(1, L), min(k, L - 1))))
    for _ in range(ctx.scale(6, 60)):
        pieces = gen_stream(rng, True)
        L = sum(len(b) for _, b in pieces)
        jobs.append((pieces, list(range(1, L))))          # 1-byte reads
    # bursts longer than one read, cut where read(4096) cuts them: full reads, the last one full too (exact) or not,
    # and the same with one boundary moved by a byte (added after seeded change C03-b: a decoder call skipped after a full read)
    global READ, READ_FOUND
    READ, READ_FOUND = read_size()
    ctx.extra["read_size"] = {"bytes": READ, "from_source": READ_FOUND}
    sizes = [READ] if READ_FOUND else [4096, 2048, 8192]
    for i in range(ctx.scale(8, 60)):
        READ = sizes[i % len(sizes)]
        pieces = gen_burst(rng, exact=(i % 2 == 0))
        L = sum(len(b) for _, b in pieces)
        full = list(range(READ, L, READ))
        jobs.append((pieces, full))
        if full:
            j = rng.randrange(len(full))
            jobs.append((pieces, [c + (rng.choice([-1, 1]) if k == j else 0) for k, c in enumerate(full)]))
    return jobs


def run(ctx):
    logging.disable(logging.CRITICAL)
    jobs = corpus() + plan(ctx)
    model_out = [None] * len(jobs)
    if ctx.model:
        reqs = [cc.req_reader(cc.split_cuts(b"".join(b for _, b in p), c)) for p, c in jobs]
        model_out = ctx.model.batch(reqs)
    for (p, c), mo in zip(jobs, model_out):
        check(ctx, p, c, mo)
    rng = ctx.rng
    rjobs = []
    for _ in range(ctx.scale(40, 400)):
        pieces = gen_stream(rng, False, junk=0.1)
        nf = sum(1 for k, _ in pieces if k == "F")
        L = sum(len(b) for _, b in pieces)
        # ONE failing dispatch, and one more frame arriving in a read of its own afterwards: the reader goes back to
        # read() after the logged exception, so what was buffered behind the failing frame is decoded with the next read
        raising = {rng.randrange(1, nf + 1)}
        cuts = rng.sample(range(1, L), min(rng.choice([0, 0, 1, 2, 5]), L - 1)) + [L]
        pieces = pieces + [("F", cc.encode_frame(rng, [cc.cp("0"), []]))]
        rjobs.append((pieces, cuts, raising))
    # model of the same (Fix/ReaderHooks.v: reader_run_h; C03_raising_dispatcher_loses_nothing)
    mres = [None] * len(rjobs)
    if ctx.model:
        mres = ctx.model.batch([cc.req_reader_raising(cc.split_cuts(b"".join(b for _, b in p), c), r) for p, c, r in rjobs])
    for (p, c, r), mo in zip(rjobs, mres):
        check_raising(ctx, p, c, r, mo)


def corpus():
    import glob
    import os
    out = []
    for f in sorted(glob.glob(os.path.join(os.path.dirname(__file__), "..", "corpus", "C03", "*.json"))):
        c = json.load(open(f))
        out.append(([(k, bytes.fromhex(h)) for k, h in c["pieces"]], c["cuts"]))
    return out


def search(ctx, cases):
    import random
    logging.disable(logging.CRITICAL)
    rng = random.Random(ctx.seed + 5)
    for c in cases:
        if "pieces" in c:
            check(ctx, [(k, bytes.fromhex(h)) for k, h in c["pieces"]], c["cuts"], register=False)
    for _ in range(ctx.scale(1500, 20000)):
        pieces = [(k, b) for k, b in gen_stream(rng, rng.random() < 0.5) if k == "F"]
        L = sum(len(b) for _, b in pieces)
        cuts = rng.sample(range(1, L), min(rng.randrange(0, 6), L - 1))
        check(ctx, pieces, cuts, register=False)
        if ctx.failures:
            return


def replay(path):  # noqa: C901
    logging.disable(logging.CRITICAL)
    rec = json.load(open(path))
    c = rec.get("input")
    if not c or "pieces" not in c:
        print("replay: no concrete stream; broken:", rec.get("broken"))
        return 1
    pieces = [(k, bytes.fromhex(h)) for k, h in c["pieces"]]
    stream = b"".join(b for _, b in pieces)
    impl = cc.impl_reader(cc.split_cuts(stream, c["cuts"]), raising=set(c.get("dispatcher_raises_at", ())))
    frames = [b for k, b in pieces if k == "F"]
    got = [bytes(r) for _, r in impl[1]]
    print("stream of %d frames, cuts %s -> delivered %d, residual %d bytes" % (len(frames), c["cuts"], len(got), len(impl[0])))
    return 0 if (got == frames and residual_ok(pieces, bytes(impl[0]))) else 1
