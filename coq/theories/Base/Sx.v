(* Sx: the one data format exchanged between the extracted models and the Python harness.
   A value is an integer or a list of values.  Text syntax (read and written by the
   functions below, so the OCaml driver only moves bytes):
       value ::= int | '[' value (',' value)* ']' | '[' ']' | '#' hexdigits
   '#4142' abbreviates [65,66] (a byte string).  Output never uses '#'. *)
From Coq Require Import ZArith NArith List Bool.
Import ListNotations.
Open Scope N_scope.

Inductive sx := SI (z : Z) | SL (l : list sx).

Definition str := list N.

(* ---------- decimal printing (also the model of Python's str(int) for ints) ---------- *)

Definition digit_char (d : N) : N := 48 + d.

Fixpoint n_to_dec_fuel (fuel : nat) (n : N) (acc : str) : str :=
  match fuel with
  | O => acc
  | S f =>
      let (q, r) := N.div_eucl n 10 in
      let acc' := digit_char r :: acc in
      if N.eqb q 0 then acc' else n_to_dec_fuel f q acc'
  end.

Definition n_to_dec (n : N) : str := n_to_dec_fuel (S (N.size_nat n)) n [].

Definition z_to_dec (z : Z) : str :=
  match z with
  | Z0 => [48]
  | Zpos p => n_to_dec (Npos p)
  | Zneg p => 45 :: n_to_dec (Npos p)
  end.

(* ---------- printer ---------- *)

Fixpoint print_sx (s : sx) : str :=
  match s with
  | SI z => z_to_dec z
  | SL l =>
      let fix go (l : list sx) : str :=
        match l with
        | [] => []
        | [x] => print_sx x
        | x :: xs => print_sx x ++ 44 :: go xs
        end in
      91 :: go l ++ [93]
  end.

(* ---------- parser ---------- *)

Inductive tok := TNone | TNum (neg : bool) (n : N) | TNeg | THex (acc : list sx) (half : option N).

Record pst := mkP { cur : list sx; stack : list (list sx); tk : tok; bad : bool }.

Definition flush (p : pst) : pst :=
  match tk p with
  | TNone => p
  | TNum neg n =>
      let z := if neg then Z.opp (Z.of_N n) else Z.of_N n in
      mkP (SI z :: cur p) (stack p) TNone (bad p)
  | TNeg => mkP (cur p) (stack p) TNone true
  | THex acc None => mkP (SL (rev acc) :: cur p) (stack p) TNone (bad p)
  | THex _ (Some _) => mkP (cur p) (stack p) TNone true
  end.

Definition hexval (c : N) : option N :=
  if (48 <=? c) && (c <=? 57) then Some (c - 48)
  else if (97 <=? c) && (c <=? 102) then Some (c - 87)
  else if (65 <=? c) && (c <=? 70) then Some (c - 55)
  else None.

Definition pstep (p : pst) (c : N) : pst :=
  match tk p, hexval c with
  | THex acc None, Some h => mkP (cur p) (stack p) (THex acc (Some h)) (bad p)
  | THex acc (Some h1), Some h => mkP (cur p) (stack p) (THex (SI (Z.of_N (16 * h1 + h)) :: acc) None) (bad p)
  | _, _ =>
    if (48 <=? c) && (c <=? 57) then
      match tk p with
      | TNone => mkP (cur p) (stack p) (TNum false (c - 48)) (bad p)
      | TNeg => mkP (cur p) (stack p) (TNum true (c - 48)) (bad p)
      | TNum neg n => mkP (cur p) (stack p) (TNum neg (10 * n + (c - 48))) (bad p)
      | THex _ _ => mkP (cur p) (stack p) (tk p) true
      end
    else if c =? 45 then
      match tk p with
      | TNone => mkP (cur p) (stack p) TNeg (bad p)
      | _ => mkP (cur p) (stack p) (tk p) true
      end
    else if c =? 35 then
      match tk p with
      | TNone => mkP (cur p) (stack p) (THex [] None) (bad p)
      | _ => mkP (cur p) (stack p) (tk p) true
      end
    else if c =? 91 then
      let p := flush p in mkP [] (cur p :: stack p) TNone (bad p)
    else if c =? 93 then
      let p := flush p in
      match stack p with
      | [] => mkP (cur p) [] TNone true
      | top :: rest => mkP (SL (rev (cur p)) :: top) rest TNone (bad p)
      end
    else (* separators: comma, space, anything else *)
      flush p
  end.

Definition parse_sx (s : str) : option sx :=
  let p := flush (fold_left pstep s (mkP [] [] TNone false)) in
  if bad p then None else
  match stack p, cur p with
  | [], [x] => Some x
  | _, _ => None
  end.

(* ---------- helpers for marshalling ---------- *)

Definition sx_of_str (s : str) : sx := SL (map (fun c => SI (Z.of_N c)) s).
Definition sx_of_bool (b : bool) : sx := SI (if b then 1 else 0)%Z.
Definition sx_of_N (n : N) : sx := SI (Z.of_N n).
Definition sx_of_nat (n : nat) : sx := SI (Z.of_nat n).
Definition sx_of_opt {A} (f : A -> sx) (o : option A) : sx :=
  match o with None => SL [] | Some a => SL [f a] end.
Definition sx_of_list {A} (f : A -> sx) (l : list A) : sx := SL (map f l).

Definition get_z (s : sx) : option Z := match s with SI z => Some z | _ => None end.
Definition get_N (s : sx) : option N :=
  match s with SI z => if (z <? 0)%Z then None else Some (Z.to_N z) | _ => None end.
Definition get_bool (s : sx) : option bool :=
  match s with SI z => Some (negb (z =? 0)%Z) | _ => None end.
Definition get_l (s : sx) : option (list sx) := match s with SL l => Some l | _ => None end.

Fixpoint opt_all {A} (l : list (option A)) : option (list A) :=
  match l with
  | [] => Some []
  | None :: _ => None
  | Some a :: r => match opt_all r with Some r' => Some (a :: r') | None => None end
  end.

Definition get_list {A} (f : sx -> option A) (s : sx) : option (list A) :=
  match s with SL l => opt_all (map f l) | _ => None end.
Definition get_str (s : sx) : option str := get_list get_N s.
Definition get_opt {A} (f : sx -> option A) (s : sx) : option (option A) :=
  match s with
  | SL [] => Some None
  | SL [x] => match f x with Some a => Some (Some a) | None => None end
  | _ => None
  end.

(* Every extracted model exposes  run : sx -> sx ; the driver calls run_line. *)
Definition err_sx (code : Z) : sx := SL [SI (-1)%Z; SI code].

Definition run_line (run : sx -> sx) (line : str) : str :=
  match parse_sx line with
  | Some s => print_sx (run s)
  | None => print_sx (err_sx 0)
  end.
