(* Extraction of the order / exchange models (C17).  ExtrOcamlBasic only; Z/N/positive/nat stay Coq
   datatypes.  The path is relative to coq/, where make and coqc are run. *)
From Coq Require Extraction.
From Coq Require Import ExtrOcamlBasic.
From AF Require Import Fix.OrderRun.
Extraction Language OCaml.
Extraction "../ocaml/build/C17/model.ml" entry.
