(* Reference grammar of one FIX frame, written from the FIX 4.x specification as a
   length-prefixed parser.  It shares nothing with Codec.decode (no marker search, no SOH
   split, no int()): it walks the bytes once, left to right.

     frame   ::= "8=" begin SOH "9=" digits SOH body "10=" d d d SOH
     begin   ::= one or more bytes other than SOH
     digits  ::= one or more ASCII digits, read as the decimal number n
     body    ::= exactly n bytes, starting with "35=" and a byte other than SOH (a non-empty
                 MsgType), ending with SOH
     d d d   ::= three ASCII digits whose value is the sum of all bytes before "10=" modulo 256
   every element of the frame is a byte (< 256), and nothing follows the final SOH.

   SOH inside the body does not disturb the grammar: the body is delimited by its length.
   No proofs here (Lemmas/FramingL.v). *)
From Coq Require Import NArith List Bool.
From AF Require Import Base.Sx Py.Utf8.
Import ListNotations.
Open Scope N_scope.

Definition is_byte (c : N) : bool := c <? 256.
Definition ascii_digit (c : N) : bool := (48 <=? c) && (c <=? 57).

(* value of a digit string, most significant digit first *)
Fixpoint dec_value_from (acc : N) (ds : str) : N :=
  match ds with
  | [] => acc
  | d :: ds' => dec_value_from (10 * acc + (d - 48)) ds'
  end.
Definition dec_value (ds : str) : N := dec_value_from 0 ds.

(* expect the literal p at the head of s; what follows it *)
Fixpoint expect (p s : str) : option str :=
  match p, s with
  | [], _ => Some s
  | x :: p', y :: s' => if N.eqb x y then expect p' s' else None
  | _ :: _, [] => None
  end.

(* bytes up to (not including) the first SOH, and what follows that SOH *)
Fixpoint take_field (s : str) : option (str * str) :=
  match s with
  | [] => None
  | c :: s' =>
      if N.eqb c 1 then Some ([], s')
      else match take_field s' with
           | Some (v, r) => Some (c :: v, r)
           | None => None
           end
  end.

Fixpoint byte_sum (s : str) : N :=
  match s with
  | [] => 0
  | c :: s' => c + byte_sum s'
  end.

Definition nonempty (s : str) : bool := match s with [] => false | _ => true end.

Fixpoint ends_with_soh (s : str) : bool :=
  match s with
  | [] => false
  | [c] => N.eqb c 1
  | _ :: s' => ends_with_soh s'
  end.

Definition L8 : str := [56; 61].          (* "8="  *)
Definition L9 : str := [57; 61].          (* "9="  *)
Definition L35 : str := [51; 53; 61].     (* "35=" *)

Definition body_ok (body : str) : bool :=
  match expect L35 body with
  | Some (c :: _) => negb (N.eqb c 1) && ends_with_soh body
  | _ => false
  end.

(* "10=" d1 d2 d3 SOH and nothing else; the three digits must spell cks *)
Definition trailer_ok (cks : N) (t : str) : bool :=
  match t with
  | [c1; c0; ce; d1; d2; d3; soh] =>
      N.eqb c1 49 && N.eqb c0 48 && N.eqb ce 61 && N.eqb soh 1
      && ascii_digit d1 && ascii_digit d2 && ascii_digit d3
      && N.eqb (100 * (d1 - 48) + 10 * (d2 - 48) + (d3 - 48)) cks
  | _ => false
  end.

Definition well_framedb (s : str) : bool :=
  forallb is_byte s &&
  match expect L8 s with
  | None => false
  | Some s1 =>
      match take_field s1 with
      | None => false
      | Some (bsv, s2) =>
          nonempty bsv &&
          match expect L9 s2 with
          | None => false
          | Some s3 =>
              match take_field s3 with
              | None => false
              | Some (ds, s4) =>
                  nonempty ds && forallb ascii_digit ds &&
                  let n := dec_value ds in
                  (n <=? N.of_nat (length s4)) &&
                  let body := firstn (N.to_nat n) s4 in
                  let trailer := skipn (N.to_nat n) s4 in
                  body_ok body &&
                  (* everything before "10=": the two header fields with their SOHs, and the body *)
                  let before := L8 ++ bsv ++ [1] ++ L9 ++ ds ++ [1] ++ body in
                  trailer_ok (byte_sum before mod 256) trailer
              end
          end
      end
  end.

(* Field structure, as a FIX parser that splits on SOH needs it: the frame is a sequence of
   pieces  tag "=" value SOH  where the tag (the text before the first "=") is not empty and
   neither tag nor value contains SOH; nothing is left over after the last SOH. *)
Inductive fpos := AtStart | InTag | InValue.

Fixpoint fields_scan (st : fpos) (s : str) : bool :=
  match s with
  | [] => match st with AtStart => true | _ => false end
  | c :: s' =>
      match st with
      | AtStart => if N.eqb c 1 || N.eqb c 61 then false else fields_scan InTag s'
      | InTag => if N.eqb c 1 then false else if N.eqb c 61 then fields_scan InValue s' else fields_scan InTag s'
      | InValue => if N.eqb c 1 then fields_scan AtStart s' else fields_scan InValue s'
      end
  end.

(* frame-level grammar and field structure together *)
Definition well_framed_fieldsb (s : str) : bool := well_framedb s && fields_scan AtStart s.

(* What AsyncFIXConnection.send_msg hands to the transport for the text the encoder returned:
   frame.encode("latin-1"); None = UnicodeEncodeError raised before anything is written. *)
Definition wire (frame : str) : option str := latin1 frame.

(* The same grammar as a proposition (FramingL.well_framedb_iff relates the two). *)
Definition well_framed (s : str) : Prop :=
  exists bsv ds body d1 d2 d3,
    s = L8 ++ bsv ++ [1] ++ L9 ++ ds ++ [1] ++ body ++ [49; 48; 61; d1; d2; d3; 1]
    /\ Forall (fun c => c < 256) s
    /\ bsv <> [] /\ ~ In 1 bsv
    /\ ds <> [] /\ Forall (fun c => 48 <= c <= 57) ds
    /\ dec_value ds = N.of_nat (length body)
    /\ (exists c rest, body = L35 ++ c :: rest /\ c <> 1) /\ (exists b0, body = b0 ++ [1])
    /\ 48 <= d1 <= 57 /\ 48 <= d2 <= 57 /\ 48 <= d3 <= 57
    /\ 100 * (d1 - 48) + 10 * (d2 - 48) + (d3 - 48)
       = byte_sum (L8 ++ bsv ++ [1] ++ L9 ++ ds ++ [1] ++ body) mod 256.
