(* C06 - a ResendRequest is answered completely, in order and without side effects.
   Theorems only (proofs in AF.Lemmas.ResendL) about the model Fix/Resend.v of how the dispatcher
   serves a ResendRequest: serve_resend = the call site in _process_message (try / finally that
   restores ACTIVE when the handler leaves RESENDREQ_HANDLING) around _process_resend and what it
   calls, with the repairs D12 (the journal is neither rewound nor rewritten, BeginSeqNo below 1 is
   read as 1), R3c (state restored after an abort), R5a (numbers missing in the journal before a
   retransmitted message are gap-filled) and R5b (the trailing gap fill stops at EndSeqNo).

   The property for one request (bs, es = texts of tags 7 and 16, None = tag absent) with replay
   filter f in state s is the predicate  resend_correct f s bs es  (Lemmas/ResendL.v):
     the frames written are  chain (rows s) f hi lo hi  over the requested range [lo, hi) of
     already-sent numbers (a retransmission with the number kept, PossDupFlag=Y, OrigSendingTime =
     the original SendingTime and the body otherwise identical for every journaled application
     message the filter accepts; one GapFill(seq = first, NewSeqNo = next) per maximal run of other
     numbers - session-level, declined, missing; hence no session-level message retransmitted);
     nothing is written for a request that cannot be read, whose EndSeqNo is below its BeginSeqNo, or
     that asks for nothing that was sent; the WHOLE outbound journal, next_num_out (live and stored)
     and the connection state are what they were.
   FULL STATEMENT (what C06 asks):   forall f s bs es, resend_correct f s bs es.
   The "no side effects" half holds unconditionally (C06_no_side_effects); the reply half holds
   outside two narrow classes; one refutation per class. *)
From Coq Require Import ZArith NArith List Bool.
From AF Require Import Base.Sx Py.Str Fix.Resend Lemmas.ResendL.
From AFGen Require Import GenEnums.
Import ListNotations.
Open Scope Z_scope.

(* UNCONDITIONAL (every state, journal, request - readable or not -, filter): serving a
   ResendRequest never changes the outbound journal, next_num_out or the stored counter; the
   exception that reaches the dispatcher is never DuplicateSeqNoError / FIXConnectionError /
   EncodingError; the state afterwards is ACTIVE (RESENDREQ_AWAITING if it was) whether or not the
   handler aborted; every frame written carries a MsgSeqNum of at least 1. *)
Theorem C06_no_side_effects : forall f s bs es,
  let (s', x) := serve_resend f bs es s in
  rows s' = rows s /\ nout s' = nout s /\ sout s' = sout s
  /\ allowed_exc x
  /\ cstate s' = (if cstate s =? ST_AWAITING then ST_AWAITING else ST_ACTIVE)
  /\ exists W, wire s' = wire s ++ W /\ Forall (fun fr => 1 <= r_seq fr) W.
Proof. exact serve_general. Qed.
Print Assumptions C06_no_side_effects.

(* in the two states in which a request is served: the state afterwards is the state before, always *)
Theorem C06_state_restored : forall f s bs es,
  (cstate s = ST_ACTIVE \/ cstate s = ST_AWAITING) -> cstate (fst (serve_resend f bs es s)) = cstate s.
Proof. exact serve_state_restored. Qed.
Print Assumptions C06_state_restored.

(* The reply, unbounded in the journal: every journal with unique keys below the counter
   (journal_ok: C05/C13 invariants) - with holes anywhere -, every replay filter, both start states
   and EVERY request - unreadable, any BeginSeqNo (below 1, beyond the last sent number, beyond 64
   bits), any EndSeqNo (0, bounded, below BeginSeqNo) - outside the two classes: the property holds
   in full.  (in_class k bs es = k applied to the request as the handler reads it,
   (max(1, int(tag 7)), int(tag 16)); false for an unreadable one.) *)
Theorem C06_reply_chain_partial : forall f s bs es,
  (cstate s = ST_ACTIVE \/ cstate s = ST_AWAITING) ->
  journal_ok s -> NoDup (map r_seq (rows s)) ->
  in_class (k_end_beyond_64 s) bs es = false ->               (* not: EndSeqNo > 2^63-1 while something sent is asked for *)
  in_class (k_row_carries_possdup_tags f s) bs es = false ->  (* no replayed row in range was journaled with tag 43/122 *)
  resend_correct f s bs es.
Proof. exact resend_partial_total. Qed.
Print Assumptions C06_reply_chain_partial.

(* an unreadable request (tag absent / not a number): nothing sent, everything as before *)
Theorem C06_unreadable_request_ok : forall f s bs es,
  (cstate s = ST_ACTIVE \/ cstate s = ST_AWAITING) -> parse_req bs es = None -> resend_correct f s bs es.
Proof. exact unreadable_correct. Qed.
Print Assumptions C06_unreadable_request_ok.

(* the state left behind satisfies the same hypotheses: any further request is answered correctly *)
Theorem C06_repeated_requests : forall f s bs es f2 bs2 es2,
  (cstate s = ST_ACTIVE \/ cstate s = ST_AWAITING) ->
  journal_ok s -> NoDup (map r_seq (rows s)) ->
  let s1 := fst (serve_resend f bs es s) in
  in_class (k_end_beyond_64 s) bs2 es2 = false ->
  in_class (k_row_carries_possdup_tags f2 s) bs2 es2 = false ->
  resend_correct f2 s1 bs2 es2.
Proof. exact serve_repeatable. Qed.
Print Assumptions C06_repeated_requests.

(* pristine journals (original sends numbered 1..n, a suffix may be missing): ANY BeginSeqNo and ANY
   EndSeqNo up to 2^63-1 *)
Theorem C06_reply_chain_pristine : forall f s bs es b e,
  py_int bs = Some b -> py_int es = Some e -> e <= INT64_MAX ->
  (cstate s = ST_ACTIVE \/ cstate s = ST_AWAITING) -> pristine s ->
  resend_correct f s (Some bs) (Some es).
Proof. exact pristine_total. Qed.
Print Assumptions C06_reply_chain_pristine.

(* a request with BeginSeqNo <= 0 is served exactly like BeginSeqNo = 1 *)
Theorem C06_begin_nonpositive_as_one : forall f s bs es b,
  py_int bs = Some b -> b < 1 ->
  serve_resend f (Some bs) es s = serve_resend f (dec 1) es s
  /\ requested_range s (Some bs) es = requested_range s (dec 1) es
  /\ (resend_correct f s (Some bs) es <-> resend_correct f s (dec 1) es).
Proof. exact begin_nonpositive_as_one. Qed.
Print Assumptions C06_begin_nonpositive_as_one.

(* what a chain is made of: every frame is the copy of a replayable journaled message or a gap fill *)
Theorem C06_no_session_retransmit : forall J f lim a c W, chain J f lim a c W -> forall fr, In fr W ->
  (exists r, In r J /\ replayable f r = true /\ is_copy_of r fr) \/ (exists x h, is_gap_fill fr x h).
Proof. exact chain_frames. Qed.
Print Assumptions C06_no_session_retransmit.

(* the row hypothesis of journal_ok / pristine is an invariant of journals written by send_msg,
   and replies to a ResendRequest never reach the journal *)
Theorem C06_sent_rows_wellformed : forall m s s',
  send_msg m s = Ok s' ->
  rows s' = rows s \/ exists fr, rows s' = rows s ++ [fr] /\ codec_row fr = true.
Proof. exact send_msg_frame_codec_row. Qed.
Print Assumptions C06_sent_rows_wellformed.

(* ---- concrete positive instances (replayed on the implementation by harness/c06.py) *)

Theorem C06_second_request_ok :
  pristine w_first /\ resend_correct w_all w_first (dec 2) (dec 0)
  /\ rows w_second = rows w_first /\ nout w_second = 4
  /\ resend_correct w_all w_second (dec 2) (dec 0)
  /\ map r_seq (wire (fst (serve_resend w_all (dec 2) (dec 0) w_second))) = [2; 3; 2; 3].
Proof. exact second_request_ok. Qed.
Print Assumptions C06_second_request_ok.

(* BeginSeqNo beyond next_num_out, BeginSeqNo = "x", tag 7 absent: the handler aborts (AssertionError,
   ValueError, TagNotFoundError), nothing is written or changed, the state goes HANDLING -> ACTIVE.
   For these requests that IS the property ("... also when the request is invalid"). *)
Theorem C06_unanswerable_requests_ok :
  resend_correct w_all w_small (dec 5) (dec 0)
  /\ resend_correct w_all w_small (Some [120%N]) (dec 0)
  /\ resend_correct w_all w_small None (dec 0)
  /\ serve_resend w_all (dec 5) (dec 0) w_small
     = (mkSt ST_ACTIVE false false 3 2 2 (rows w_small) [] [] [ST_HANDLING; ST_ACTIVE], Some EAssertion)
  /\ serve_resend w_all (Some [120%N]) (dec 0) w_small
     = (mkSt ST_ACTIVE false false 3 2 2 (rows w_small) [] [] [ST_HANDLING; ST_ACTIVE], Some EValue).
Proof. exact unanswerable_requests_ok. Qed.
Print Assumptions C06_unanswerable_requests_ok.

Theorem C06_begin_nonpositive_example :
  resend_correct w_all w_small (dec 0) (dec 0) /\ resend_correct w_all w_small (dec (-3)) (dec 0)
  /\ (let (s', x) := serve_resend w_all (dec (-3)) (dec 0) w_small in
      x = None /\ map r_seq (wire s') = [1; 2] /\ map r_type (wire s') = [MT_SEQUENCERESET; [68%N]]
      /\ cstate s' = ST_ACTIVE /\ nout s' = 3).
Proof. exact begin_nonpositive_example. Qed.
Print Assumptions C06_begin_nonpositive_example.

(* bounded EndSeqNo (was C06-bounded-end): the reply stops at EndSeqNo *)
Theorem C06_bounded_end_ok :
  resend_correct w_all w_bounded (dec 2) (dec 2) /\ resend_correct w_all w_bounded2 (dec 2) (dec 3)
  /\ map r_seq (wire (fst (serve_resend w_all (dec 2) (dec 2) w_bounded))) = [2]
  /\ (let s' := fst (serve_resend w_all (dec 2) (dec 3) w_bounded2) in
      map r_seq (wire s') = [2; 3] /\ map (fun r => get_tag T_NewSeqNo (r_body r)) (wire s') = [None; Some [52%N]]).
Proof. exact bounded_end_ok. Qed.
Print Assumptions C06_bounded_end_ok.

(* a hole between two application rows is gap-filled (was C06-hole-before-replayed, D21):
   rows {1,2,4,5} -> D2, GapFill(3 -> 4), D4, D5 *)
Theorem C06_hole_ok :
  resend_correct w_all w_hole (dec 2) (dec 0)
  /\ (let s' := fst (serve_resend w_all (dec 2) (dec 0) w_hole) in
      map r_seq (wire s') = [2; 3; 4; 5]
      /\ map (fun r => get_tag T_NewSeqNo (r_body r)) (wire s') = [None; Some [52%N]; None; None]).
Proof. exact hole_ok. Qed.
Print Assumptions C06_hole_ok.

(* holes, a session row, a declined row and bounded EndSeqNo together: rows {1 Logon, 2, 5, 6 HB,
   9 (declined), 10}, next 13: Resend(2,10) -> D2, GF(3->5), D5, GF(6->10), D10;
   Resend(3,8) -> GF(3->5), D5, GF(6->9) *)
Theorem C06_holes_and_bounded_end_ok :
  resend_correct w_filter9 w_gappy (dec 2) (dec 10) /\ resend_correct w_filter9 w_gappy (dec 3) (dec 8)
  /\ (let s' := fst (serve_resend w_filter9 (dec 2) (dec 10) w_gappy) in
      map r_seq (wire s') = [2; 3; 5; 6; 10]
      /\ map (fun r => get_tag T_NewSeqNo (r_body r)) (wire s') = [None; Some [53%N]; None; Some [49; 48]%N; None])
  /\ (let s' := fst (serve_resend w_filter9 (dec 3) (dec 8) w_gappy) in
      map r_seq (wire s') = [3; 5; 6]
      /\ map (fun r => get_tag T_NewSeqNo (r_body r)) (wire s') = [Some [53%N]; None; Some [57%N]]).
Proof. exact holes_and_bounded_end_ok. Qed.
Print Assumptions C06_holes_and_bounded_end_ok.

(* ---- refutations of the full statement, one per remaining known-finding class (each witness is
   replayed on the implementation; classes_of = the two predicates in the order of the partial theorem) *)

(* EndSeqNo = 2^63 with BeginSeqNo = 2 of 2 sent: OverflowError, no answer to a valid request *)
Theorem C06_end_beyond_64_refuted :
  pristine w_small
  /\ classes_of w_all w_small (dec 2) (dec two63) = (true, false)
  /\ ~ resend_correct w_all w_small (dec 2) (dec two63)
  /\ (let (s', x) := serve_resend w_all (dec 2) (dec two63) w_small in
      x = Some EOverflow /\ wire s' = [] /\ cstate s' = ST_ACTIVE).
Proof. exact end_beyond_64_refuted. Qed.
Print Assumptions C06_end_beyond_64_refuted.

(* an application message journaled with tag 43 (PossDupFlag=N) in its body is never retransmitted *)
Theorem C06_possdup_tag_refuted :
  journal_ok w_tagged /\ NoDup (map r_seq (rows w_tagged))
  /\ classes_of w_all w_tagged (dec 2) (dec 0) = (false, true)
  /\ ~ resend_correct w_all w_tagged (dec 2) (dec 0)
  /\ (let (s', x) := serve_resend w_all (dec 2) (dec 0) w_tagged in
      x = Some EDuplicatedTag /\ wire s' = [] /\ cstate s' = ST_ACTIVE).
Proof. exact possdup_tag_refuted. Qed.
Print Assumptions C06_possdup_tag_refuted.

(* non-vacuity: a journal with application, session, SequenceReset and declined rows and a missing
   suffix, in RESENDREQ_AWAITING, meets every hypothesis of C06_reply_chain_partial *)
Example C06_nonvacuous :
  journal_ok w_rich /\ NoDup (map r_seq (rows w_rich)) /\ cstate w_rich = ST_AWAITING
  /\ classes_of w_filter w_rich (dec 2) (dec 0) = (false, false)
  /\ (let s' := fst (serve_resend w_filter (dec 2) (dec 0) w_rich) in
      map r_seq (wire s') = [2; 3; 5; 6] /\ map r_type (wire s') = [[68%N]; MT_SEQUENCERESET; [68%N]; MT_SEQUENCERESET]
      /\ map (fun r => get_tag T_NewSeqNo (r_body r)) (wire s') = [None; Some [53%N]; None; Some [57%N]]
      /\ rows s' = rows w_rich /\ nout s' = 9 /\ cstate s' = ST_AWAITING).
Proof. exact nonvacuous. Qed.
Print Assumptions C06_nonvacuous.

(* the model's noreply_msgs is the code's literal (regenerated by gen_const.py) *)
From AF Require Import Lemmas.ConstTieL.
From AFGen Require Import GenConst.
Theorem C06_noreply_set_is_code : same_set Resend.noreply_msgs noreply_values = true.
Proof. exact noreply_set_is_code. Qed.
Print Assumptions C06_noreply_set_is_code.
