(* Generic line driver for an extracted model: every byte of the input line becomes a Coq N,
   Model.entry (parser, model, printer: all extracted Coq) maps it to output bytes. *)
let rec pos_of_int n =
  if n = 1 then Model.XH
  else if n land 1 = 0 then Model.XO (pos_of_int (n lsr 1))
  else Model.XI (pos_of_int (n lsr 1))
let n_of_int n = if n = 0 then Model.N0 else Model.Npos (pos_of_int n)
let rec int_of_pos = function
  | Model.XH -> 1
  | Model.XO p -> 2 * int_of_pos p
  | Model.XI p -> 2 * int_of_pos p + 1
let int_of_n = function Model.N0 -> 0 | Model.Npos p -> int_of_pos p
let () =
  let b = Buffer.create 4096 in
  try
    while true do
      let line = Stdlib.input_line Stdlib.stdin in
      let l = List.init (String.length line) (fun i -> n_of_int (Char.code line.[i])) in
      let out = Model.entry l in
      Buffer.clear b;
      List.iter (fun c -> Buffer.add_char b (Char.chr (int_of_n c land 255))) out;
      Stdlib.print_string (Buffer.contents b);
      Stdlib.print_char '\n';
      Stdlib.flush Stdlib.stdout
    done
  with End_of_file -> ()
