(* Composition used by C20's dictionary theorems: the messages of the tester model (Fix/Tester.v) handed to
   C15's model of FIXSchema.validate (Fix/SchemaModel.v) on the REGENERATED FIX 4.4 dictionary
   (AFGen.GenSchema.FIX44.schema) with C19's model of SchemaField.validate_value (Fix/ValidateValue.v) as the
   value check.  Definitions only; proofs in Lemmas/TesterSchemaL.v.  Nothing of C15 / C19 is edited.

   * [vv_field]: C15's field record carries tag / name / type code / has-enum; C19's carries tag / type name /
     enumerated values.  The bridge looks the tag up in C19's regenerated table AFGen.GenLex.fields_fix44 (same
     dictionary file); TesterSchemaL.tables_agree checks that both tables give every field the same type name
     and the same has-enum flag.
   * [value_check44]: validate_value's exception class mapped into SchemaModel's (Accept, with or without the
     'unsupported datatype' warning, is success).
   * [render]: a tester message (tag number, VS text | VQ number) as a FIXMessage of SchemaModel: tag text is
     str(tag), a number is rendered by the printer argument.
   * the exact binary-fraction printer [print_q] and [flat] are in Fix/TesterPrint.v (no generated tables there, so
     the extracted runner does not depend on them). *)
From Coq Require Import ZArith NArith List Bool.
From AF Require Import Base.Sx Py.Str Fix.OrderStatus Fix.Tester.
From AF Require Export Fix.TesterPrint.
From AF Require Fix.SchemaModel Fix.ValidateValue.
From AFGen Require GenSchema GenLex.
Import ListNotations.
Open Scope N_scope.

Module SM := AF.Fix.SchemaModel.
Module VV := AF.Fix.ValidateValue.

Definition vv_field (f : SM.field) : VV.field :=
  match find (fun e => str_eqb (fst (fst e)) (SM.f_tag f)) GenLex.fields_fix44 with
  | Some (t, ty, vals) => VV.mkField t ty vals
  | None => VV.mkField (SM.f_tag f) [] []
  end.

Definition value_check44 (f : SM.field) (s : str) : option SM.exc :=
  match VV.validate_value (vv_field f) s with
  | VV.Accept _ => None
  | VV.Raise VV.EFIXMessageError => Some SM.EFIXMessage
  | VV.Raise VV.EAssertionError => Some SM.EAssertion
  | VV.Raise VV.EValueError => Some (SM.EOther 0)
  end.

Definition validate44 (m : SM.message) : SM.res := SM.validate value_check44 GenSchema.FIX44.schema m.

Definition lift (es : list (str * str)) : SM.container := map (fun e => (fst e, SM.VStr (snd e))) es.
Definition render (pr : Z -> str) (mt : str) (m : msg) : SM.message := SM.mkMsg mt (lift (flat pr m)).

(* a message without numbers needs no printer *)
Definition no_numbers (z : Z) : str := [].

(* ---------------------------------------------------------------- structural plan of a flat message *)

(* which dictionary field checks the value of tag t in a message of kind M (None: the tag is refused, is the
   CheckSum, or is a repeating group) *)
Definition plan_tag (Sc : SM.schema) (M : list SM.member) (t : str) : option SM.field :=
  if str_eqb t SM.TAG10 then None
  else match SM.member_for Sc M t with
       | Some (SM.MField f _) => Some f
       | _ => None
       end.

Fixpoint plan_tags (Sc : SM.schema) (M : list SM.member) (ks : list str) : option (list SM.field) :=
  match ks with
  | [] => Some []
  | k :: r =>
      match plan_tag Sc M k, plan_tags Sc M r with
      | Some f, Some fs => Some (f :: fs)
      | _, _ => None
      end
  end.

Fixpoint req_keys (ms : list SM.member) (ks : list str) : bool :=
  match ms with
  | [] => true
  | m :: r => if negb (existsb (fun k => str_eqb k (SM.mtag m)) ks) && SM.mreq m then false else req_keys r ks
  end.

(* the fields that check the values of a header-less message with plain values under the keys ks, when the
   message kind exists, its required members are among the keys and every key is allowed *)
Definition plan (Sc : SM.schema) (mt : str) (ks : list str) : option (list SM.field) :=
  match SM.find_message Sc mt with
  | None => None
  | Some M =>
      if req_keys M ks && negb (existsb (fun k => str_eqb k SM.TAG8) ks) then plan_tags Sc M ks else None
  end.

(* ---------------------------------------------------------------- value domains *)

(* a valid String value for the library: non-empty, no SOH, no '=' *)
Definition valid_string (s : str) : bool :=
  match s with [] => false | _ => true end && negb (existsb (N.eqb 1) s) && negb (existsb (N.eqb 61) s).

(* CPython's int() digit limit (PEP 651 default): numbers below 10^4300 *)
Definition INT_LIMIT : N := 10 ^ 4300.

(* the OrdStatus values of the FIX 4.4 dictionary = FOrdStatus members without the internal CREATED *)
Definition fix_status (st : N) : bool := mem st all_statuses && negb (st =? CREATED).
(* FExecType members *)
Definition exec_types : list N := [48; 51; 52; 53; 54; 55; 56; 57; 65; 66; 67; 68; 69; 70; 71; 72; 73].
(* FOrdSide members *)
Definition sides : list N := [49; 50; 51; 52; 53; 54; 55; 56; 57; 65; 66; 67; 68; 69; 70; 71].
