(* C04 - inbound application messages are delivered in order, once, never past a gap.
   Theorems only (proofs in AF.Lemmas.SessionL / SessionC04L) about the model Fix/Session.v of
   asyncfix/connection.py:_process_message and the handlers it calls.

   `run c w h` executes the history h (inbound messages, and also send attempts / timer calls) from
   ANY world w - no reachability assumption is needed for what holds, the statements are about every
   start state - and returns one record per step (world before, operation, result).
   `delivered s` = the MsgSeqNum values the step handed to on_message; `resends evs` = the
   ResendRequest frames among the written frames.

   Known-finding classes (the `_partial` theorems exclude exactly these steps, `_refuted` exhibit them):
     (D10 - re-delivery of a frame numbered below the expected number while RESENDREQ_AWAITING - is repaired
      in the code: C04_deliver_exactly_expected / C04_no_redelivery now hold without exception)
     D11_step  a SequenceReset passing the integrity check whose own number is not the expected one,
               or whose NewSeqNo is below the expected number
     D24       (single_resend) a Logon arriving while RESENDREQ_AWAITING (see C04_logon_dup_resend_refuted) *)
From Coq Require Import ZArith NArith List Bool Sorting.Sorted.
From AF Require Import Base.Sx Py.Str Fix.Session Fix.SessionHooks Lemmas.SessionL Lemmas.SessionC04L Lemmas.SessionC11L Lemmas.SessionC05L Lemmas.SessionHooksL.
Import ListNotations.
Open Scope Z_scope.

(* the state / role numbers, message type values and tag numbers of the model are those of the code
   (GenEnums is regenerated from /repo on every run; a renumbering breaks this) *)
Example C04_enums_tied : enums_ok = true.
Proof. exact enums_tied. Qed.
Print Assumptions C04_enums_tied.

(* every history, every start state: a delivery carries exactly the expected number of its moment, is the
   only delivery of its step, and the expected number afterwards is that number + 1 *)
Theorem C04_deliver_exactly_expected : forall c h w,
  Forall (fun s => delivered s = [] \/
                   (delivered s = [nin (s_before s)] /\ nin (s_after s) = nin (s_before s) + 1)) (run c w h).
Proof. exact run_deliver_exact. Qed.
Print Assumptions C04_deliver_exactly_expected.

(* ... in particular nothing is handed to the application with a number above the expected one (never past a gap) *)
Theorem C04_deliver_at_most_expected : forall c h w,
  Forall (fun s => forall n, In n (delivered s) -> n <= nin (s_before s)) (run c w h).
Proof. exact run_deliver_le. Qed.
Print Assumptions C04_deliver_at_most_expected.

(* ... and an inbound message numbered below the expected number is never handed to the application, in any
   state (in RESENDREQ_AWAITING the integrity check lets it through; it is then dropped by the dispatcher) *)
Theorem C04_no_redelivery : forall c h w,
  Forall (fun s => forall m now n, s_op s = OIn m now -> get_int T34 m = inl n -> n < nin (s_before s) ->
                                   apps (s_events s) = []) (run c w h).
Proof. exact run_no_redelivery. Qed.
Print Assumptions C04_no_redelivery.

(* outside class D11: the delivered numbers of the whole history are strictly increasing (nothing twice),
   each delivery carries exactly the expected number of its moment, is the only delivery of its step,
   and the expected number afterwards is that number + 1 *)
Theorem C04_inorder_partial : forall c h w,
  Forall (fun s => ~ D11_step c s) (run c w h) ->
  Forall (fun n => nin w <= n) (flat_map delivered (run c w h))
  /\ StronglySorted Z.lt (flat_map delivered (run c w h))
  /\ Forall (fun s => forall n, In n (delivered s) ->
                      n = nin (s_before s) /\ nin (s_after s) = n + 1 /\ delivered s = [n]) (run c w h).
Proof. exact run_inorder. Qed.
Print Assumptions C04_inorder_partial.

(* one inbound message makes the receiver write at most one ResendRequest; it asks from the expected
   number (BeginSeqNo = next_num_in, EndSeqNo = 0) and is written only when no resend is awaited
   [or the message is a Logon: D24]; while a resend is awaited nothing further is requested and the
   state stays RESENDREQ_AWAITING until the connection drops or _finalize_message closes the gap
   (ACTIVE with the watermark reset) *)
Theorem C04_single_resend : forall c h w, Forall resend_ok (run c w h).
Proof. exact run_resend_ok. Qed.
Print Assumptions C04_single_resend.

(* "exactly one": a message without pre-handler (application, TestRequest, Heartbeat, ResendRequest) numbered
   above the expected number, on a connection whose Logon exchange is complete (state above LOGON_INITIAL_RECV:
   since R8b such a message drops a connection still in the exchange) and not yet awaiting a resend, makes the receiver write
   exactly one ResendRequest(BeginSeqNo = next_num_in, EndSeqNo = 0), deliver nothing, keep next_num_in and wait
   in RESENDREQ_AWAITING (or drop) - provided the outbound side is intact (Out_inv of C05: no D20 damage,
   else the journal write of the request raises and the state is not advanced) and the send gate is open.
   [SequenceReset: D11; acceptor Logon: D26; Logout: the session ends] *)
Theorem C04_gap_is_requested_partial : forall c m now w n,
  Out_inv w -> in_i64 (nout w) = true -> validate_integrity c m w = VOk -> get_int T34 m = inl n ->
  nin w < n -> st w <> ST_AWAITING -> ST_LOGON_RECV < st w -> gate_refuses (rr_msg w) w = false -> plain_kind m ->
  exists rr, resends (re (process_message c m now w)) = [rr]
             /\ get T7 (mtags rr) = Some (z_to_dec (nin w)) /\ get T16 (mtags rr) = Some S_0
             /\ apps (re (process_message c m now w)) = []
             /\ nin (rw (process_message c m now w)) = nin w
             /\ (st (rw (process_message c m now w)) = ST_AWAITING \/ dead (rw (process_message c m now w))).
Proof. exact gap_is_requested. Qed.
Print Assumptions C04_gap_is_requested_partial.

(* the expected number moves only: by one, on an accepted message that carries it (since the repair of D22 this
   includes the peer's Logout, counted in the pre-handler before the session is torn down); or, on a
   SequenceReset passing the integrity check, to that frame's own number or to its NewSeqNo *)
Theorem C04_counter_moves : forall c h w, Forall (counter_moves c) (run c w h).
Proof. exact run_counter_moves. Qed.
Print Assumptions C04_counter_moves.

(* outside class D11 it never moves backwards, and a SequenceReset moves it to NewSeqNo only *)
Theorem C04_counter_forward_partial : forall c h w,
  Forall (fun s => ~ D11_step c s) (run c w h) ->
  Forall (fun s => nin (s_after s) = nin (s_before s)
                   \/ nin (s_after s) = nin (s_before s) + 1
                   \/ exists m now b, s_op s = OIn m now /\ mkind m = KSeqReset
                                      /\ get_int T36 m = inl b /\ nin (s_before s) <= b /\ nin (s_after s) = b)
         (run c w h).
Proof. exact run_counter_forward. Qed.
Print Assumptions C04_counter_forward_partial.

(* the former D10 witness: Logon(1), 2, 4 (gap), 2 again -> 2 is delivered once; the connection still awaits 3 *)
Example C04_dup_not_redelivered :
  flat_map delivered (run cfg0 w_acceptor h_dup) = [2]
  /\ st (final cfg0 w_acceptor h_dup) = ST_AWAITING /\ nin (final cfg0 w_acceptor h_dup) = 3.
Proof. exact dup_not_redelivered. Qed.
Print Assumptions C04_dup_not_redelivered.

(* D11: a gap fill numbered above the expected number moves the expected number past the missing
   messages; no ResendRequest is ever written for them *)
Theorem C04_high_gapfill_refuted :
  exists c w h s m now n,
    In s (run c w h) /\ s_op s = OIn m now /\ get_int T34 m = inl n /\ nin (s_before s) < n
    /\ nin (s_before s) < nin (s_after s) /\ resends (trace (run c w h)) = []
    /\ flat_map delivered (run c w h) = [].
Proof. exact high_gapfill_refuted. Qed.
Print Assumptions C04_high_gapfill_refuted.

(* D11: a SequenceReset with NewSeqNo below the expected number is honoured *)
Theorem C04_backward_reset_refuted :
  exists c w h, ~ StronglySorted Z.lt (flat_map delivered (run c w h))
                /\ exists s, In s (run c w h) /\ nin (s_after s) < nin (s_before s).
Proof. exact backward_reset_refuted. Qed.
Print Assumptions C04_backward_reset_refuted.

(* D24 (new): a second ResendRequest for the same gap, written from RESENDREQ_AWAITING *)
Theorem C04_logon_dup_resend_refuted :
  exists c w h rr1 rr2,
    resends (trace (run c w h)) = [rr1; rr2]
    /\ get T7 (mtags rr1) = get T7 (mtags rr2)
    /\ exists s, In s (run c w h) /\ st (s_before s) = ST_AWAITING /\ resends (s_events s) = [rr2].
Proof. exact logon_dup_resend_refuted. Qed.
Print Assumptions C04_logon_dup_resend_refuted.

(* non-vacuity: Logon, 2, 5 (gap, one ResendRequest), 3, 4, GapFill 5->7, 7 is inside the scope of the
   partial theorems, delivers 2 3 4 7 and ends ACTIVE *)
Example C04_nonvacuous :
  Forall (fun s => ~ D11_step cfg0 s) (run cfg0 w_acceptor h_good)
  /\ flat_map delivered (run cfg0 w_acceptor h_good) = [2; 3; 4; 7]
  /\ length (resends (trace (run cfg0 w_acceptor h_good))) = 1%nat
  /\ st (final cfg0 w_acceptor h_good) = ST_ACTIVE.
Proof. exact good_history_in_scope. Qed.
Print Assumptions C04_nonvacuous.

(* D26 (new): a Logon numbered above the expected number, received by an acceptor in session, is dropped
   without any effect: no ResendRequest for the gap it reveals *)
Theorem C04_acceptor_relogon_refuted :
  exists c w h s m now n,
    In s (run c w h) /\ s_op s = OIn m now /\ get_int T34 m = inl n
    /\ st (s_before s) = ST_ACTIVE /\ nin (s_before s) < n /\ validate_integrity c m (s_before s) = VOk
    /\ s_events s = [] /\ s_after s = s_before s.
Proof. exact acceptor_relogon_refuted. Qed.
Print Assumptions C04_acceptor_relogon_refuted.

(* the peer's Logout in sequence is counted and journaled (D22 repaired), never delivered; one above a gap is not *)
Example C04_logout_counted :
  let w := final cfg0 w_acceptor [i_logon 1; i_app 2; i_logout 3] in
  nin w = 4 /\ j_in (jr w) = [1; 2; 3] /\ j_sin (jr w) = 3 /\ st w = ST_DISC_WCONN
  /\ flat_map delivered (run cfg0 w_acceptor [i_logon 1; i_app 2; i_logout 3]) = [2].
Proof. exact logout_counted_example. Qed.
Print Assumptions C04_logout_counted.

Example C04_logout_gap_not_counted :
  let w := final cfg0 w_acceptor [i_logon 1; i_logout 5] in
  nin w = 2 /\ j_in (jr w) = [1] /\ st w = ST_DISC_WCONN.
Proof. exact logout_gap_not_counted. Qed.
Print Assumptions C04_logout_gap_not_counted.

(* --- application callbacks that RAISE (Fix/SessionHooks.v: `hr m = Some x` - on_message(m) records m and raises x).
   "whatever the peer sends" must not depend on the application's callback succeeding: the exception is swallowed by
   `except Exception`, and `_finalize_message` runs in the `finally:` clause.  For EVERY hook behaviour, every history
   and every start state the raising variant computes exactly what `run` computes (results, worlds, events) ... *)
Theorem C04_raising_callback_is_invisible : forall hr c h w, run_h hr c w h = run c w h.
Proof. exact run_h_eq. Qed.
Print Assumptions C04_raising_callback_is_invisible.

(* ... so a message whose callback failed is still counted: it is the only delivery of its step and the expected
   number afterwards is its number + 1 (it can never be handed over a second time) *)
Theorem C04_deliver_exactly_expected_raising : forall hr c h w,
  Forall (fun s => delivered s = [] \/
                   (delivered s = [nin (s_before s)] /\ nin (s_after s) = nin (s_before s) + 1)) (run_h hr c w h).
Proof. exact run_h_deliver_exact. Qed.
Print Assumptions C04_deliver_exactly_expected_raising.

Theorem C04_inorder_raising_partial : forall hr c h w,
  Forall (fun s => ~ D11_step c s) (run_h hr c w h) ->
  Forall (fun n => nin w <= n) (flat_map delivered (run_h hr c w h))
  /\ StronglySorted Z.lt (flat_map delivered (run_h hr c w h))
  /\ Forall (fun s => forall n, In n (delivered s) ->
                      n = nin (s_before s) /\ nin (s_after s) = n + 1 /\ delivered s = [n]) (run_h hr c w h).
Proof. exact run_h_inorder. Qed.
Print Assumptions C04_inorder_raising_partial.

(* non-vacuity: Logon(1), 2, 3, 4 with a callback that fails EVERY time: three failed callbacks, each message handed
   over once, counted and journaled, no ResendRequest, the session stays ACTIVE *)
Example C04_failing_callbacks_counted :
  let r := run_h always_fails cfg0 w_acceptor h_fail in
  flat_map delivered r = [2; 3; 4]
  /\ length (failed_callbacks always_fails (trace r)) = 3%nat
  /\ resends (trace r) = []
  /\ nin (final cfg0 w_acceptor h_fail) = 5
  /\ j_in (jr (final cfg0 w_acceptor h_fail)) = [1; 2; 3; 4]
  /\ st (final cfg0 w_acceptor h_fail) = ST_ACTIVE.
Proof. exact failing_callbacks_example. Qed.
Print Assumptions C04_failing_callbacks_counted.
