(* Extraction of the journal model (C13, C08).  ExtrOcamlBasic only; Z/N/positive/nat stay Coq datatypes.
   The path is relative to coq/, where make and coqc are run. *)
From Coq Require Extraction.
From Coq Require Import ExtrOcamlBasic.
From AF Require Import Fix.JournalRun.
Extraction Language OCaml.
Extraction "../ocaml/build/C13/model.ml" entry.
