(* Sx front end of the schema-validation model (C15).

   request  [dict, msg_type, entries, verdicts]
     dict      0 = tests/FIX44.xml, 1 = tests/TT-FIX44.xml (the regenerated AFGen.GenSchema dumps)
     msg_type  text
     entries   [entry, ...]   entry = [tag, 0, text]  |  [tag, 1, [item, ...]]   item = [entry, ...]
     verdicts  [[tag, text, code], ...]  what the REAL SchemaField.validate_value did for the field
               with that tag on that text: 0 returned, 1 FIXMessageError, 2 AssertionError,
               n >= 3 another exception class (numbered by the harness)
   answer    0 validate returned | 1 FIXMessageError | 2 AssertionError | n other class
             | [-1, k] malformed request.
   request  [2, schema, msg_type, entries, verdicts] carries the schema itself (see parse_schema);
   answer    [wf_schema of it (0/1), outcome as above].
   A (tag, text) pair the harness did not supply counts as exception class 99, so that a value
   check the model performs and the harness did not foresee shows up as a disagreement. *)
From Coq Require Import ZArith NArith List Bool.
From AF Require Import Base.Sx Py.Str Fix.SchemaModel Fix.SchemaParse.
From AFGen Require Import GenSchema.
Import ListNotations.
Open Scope Z_scope.

Fixpoint parse_entry (fuel : nat) (s : sx) : option (str * value) :=
  match fuel with
  | O => None
  | S fuel' =>
      match s with
      | SL [t; SI k; body] =>
          match get_str t with
          | None => None
          | Some tag =>
              if k =? 0 then option_map (fun v => (tag, VStr v)) (get_str body)
              else
                match body with
                | SL items =>
                    option_map (fun its => (tag, VGrp its))
                      (opt_all (map (fun it => match it with
                                               | SL es => opt_all (map (parse_entry fuel') es)
                                               | _ => None
                                               end) items))
                | _ => None
                end
          end
      | _ => None
      end
  end.

Definition parse_entries (s : sx) : option container :=
  match s with
  | SL es => opt_all (map (parse_entry 64) es)
  | _ => None
  end.

Definition exc_of_code (n : N) : option exc :=
  if N.eqb n 0 then None else if N.eqb n 1 then Some EFIXMessage
  else if N.eqb n 2 then Some EAssertion else Some (EOther n).

Definition parse_verdict (s : sx) : option (str * str * N) :=
  match s with
  | SL [t; v; c] =>
      match get_str t, get_str v, get_N c with
      | Some t', Some v', Some c' => Some (t', v', c')
      | _, _, _ => None
      end
  | _ => None
  end.

Definition check_from (tbl : list (str * str * N)) (f : field) (s : str) : option exc :=
  match find (fun r => str_eqb (fst (fst r)) (f_tag f) && str_eqb (snd (fst r)) s) tbl with
  | Some r => exc_of_code (snd r)
  | None => Some (EOther 99)
  end.

Definition sx_res (r : res) : sx :=
  match r with
  | Ok => SI 0
  | Exc EFIXMessage => SI 1
  | Exc EAssertion => SI 2
  | Exc (EOther n) => SI (Z.of_N n)
  end.

Definition dict (d : Z) : option schema :=
  if d =? 0 then Some FIX44.schema else if d =? 1 then Some TT.schema else None.

(* ---- a schema given in the request (synthetic dictionaries parsed by the real FIXSchema) ----
   schema  [fields, header, messages]
     fields    [[tag, name code, type code, has enum], ...]
     member    [0, tag, required]  |  [1, tag, required, [member, ...]]   (field looked up by tag)
     messages  [[msg_type, [member, ...]], ...] *)
Definition parse_field (s : sx) : option field :=
  match s with
  | SL [t; n; y; e] =>
      match get_str t, get_N n, get_N y, get_bool e with
      | Some t', Some n', Some y', Some e' => Some (mkField t' n' y' e')
      | _, _, _, _ => None
      end
  | _ => None
  end.

Definition field_by_tag (flds : list field) (t : sx) : option field :=
  match get_str t with
  | Some tag => find (fun f => str_eqb (f_tag f) tag) flds
  | None => None
  end.

Fixpoint parse_member (fuel : nat) (flds : list field) (s : sx) : option member :=
  match fuel with
  | O => None
  | S fuel' =>
      match s with
      | SL [SI k; t; r] =>
          if k =? 0 then
            match field_by_tag flds t, get_bool r with
            | Some f, Some r' => Some (MField f r')
            | _, _ => None
            end
          else None
      | SL [SI k; t; r; SL ms] =>
          if k =? 1 then
            match field_by_tag flds t, get_bool r, opt_all (map (parse_member fuel' flds) ms) with
            | Some f, Some r', Some ms' => Some (MGroup f r' ms')
            | _, _, _ => None
            end
          else None
      | _ => None
      end
  end.

Definition parse_schema (s : sx) : option schema :=
  match s with
  | SL [fs; SL hs; SL msgs] =>
      match get_list parse_field fs with
      | None => None
      | Some flds =>
          match opt_all (map (parse_member 64 flds) hs),
                opt_all (map (fun m => match m with
                                       | SL [mt; SL ms] =>
                                           match get_str mt, opt_all (map (parse_member 64 flds) ms) with
                                           | Some mt', Some ms' => Some (mt', ms')
                                           | _, _ => None
                                           end
                                       | _ => None
                                       end) msgs) with
          | Some hs', Some msgs' => Some (mkSchema flds hs' msgs')
          | _, _ => None
          end
      end
  | _ => None
  end.

(* ---- the parse model (Fix/SchemaParse.v) ----
   request [3, dict, [i0, i1, ...]]  parse the compiled-in raw declarations of dictionary `dict` with
           its <components> children taken in the order i0, i1, ... (indices into the XML order);
           answer [0, b] (b = 1 iff the result equals the compiled-in dump of the real parser's
           objects) or [1, error code]
   request [4, raw]  raw = [fields, groupable, header, comps, msgs] as xml.etree gives them:
           child = [0, name code, required] | [1, component code] | [2, name code, required, [child..]]
           comps = [[component code, [child..]], ...]   msgs = [[name code, msg_type, [child..]], ...]
           answer [0, schema] (format of parse_schema) or [1, error code]
   error codes: 1 AssertionError, 2 RuntimeError, 3 KeyError, 4 ValueError, 5 header is None,
                6 outside the model (a group added next to a same-named member) *)
Fixpoint parse_rchild (fuel : nat) (s : sx) : option rchild :=
  match fuel with
  | O => None
  | S fuel' =>
      match s with
      | SL [SI k; n; r] =>
          if k =? 0 then
            match get_N n, get_bool r with
            | Some n', Some r' => Some (RField n' r')
            | _, _ => None
            end
          else None
      | SL [SI k; c] => if k =? 1 then option_map RComp (get_N c) else None
      | SL [SI k; n; r; SL ch] =>
          if k =? 2 then
            match get_N n, get_bool r, opt_all (map (parse_rchild fuel') ch) with
            | Some n', Some r', Some ch' => Some (RGroup n' r' ch')
            | _, _, _ => None
            end
          else None
      | _ => None
      end
  end.

Definition parse_rchildren (s : sx) : option (list rchild) :=
  match s with SL ch => opt_all (map (parse_rchild 64) ch) | _ => None end.

Definition parse_raw (s : sx) : option raw :=
  match s with
  | SL [fs; gs; hs; SL cs; SL ms] =>
      match get_list parse_field fs, get_list get_N gs, parse_rchildren hs,
            opt_all (map (fun c => match c with
                                   | SL [n; ch] =>
                                       match get_N n, parse_rchildren ch with
                                       | Some n', Some ch' => Some (n', ch')
                                       | _, _ => None
                                       end
                                   | _ => None
                                   end) cs),
            opt_all (map (fun m => match m with
                                   | SL [n; mt; ch] =>
                                       match get_N n, get_str mt, parse_rchildren ch with
                                       | Some n', Some mt', Some ch' => Some (n', mt', ch')
                                       | _, _, _ => None
                                       end
                                   | _ => None
                                   end) ms) with
      | Some fs', Some gs', Some hs', Some cs', Some ms' => Some (mkRaw fs' gs' hs' cs' ms')
      | _, _, _, _, _ => None
      end
  | _ => None
  end.

Definition perr_code (e : perr) : Z :=
  match e with
  | PAssertion => 1 | PRuntime => 2 | PKeyError => 3 | PValueError => 4 | PHeaderNone => 5
  | PUnsupported => 6
  end.

Fixpoint sx_member (m : member) : sx :=
  match m with
  | MField f r => SL [SI 0; sx_of_str (f_tag f); sx_of_bool r]
  | MGroup f r ms => SL [SI 1; sx_of_str (f_tag f); sx_of_bool r; SL (map sx_member ms)]
  end.

Definition sx_schema_out (s : schema) : sx :=
  SL [SL (map (fun f => SL [sx_of_str (f_tag f); sx_of_N (f_name f); sx_of_N (f_type f); sx_of_bool (f_enum f)])
              (s_fields s));
      SL (map sx_member (s_header s));
      SL (map (fun p => SL [sx_of_str (fst p); SL (map sx_member (snd p))]) (s_messages s))].

Definition dict_raw (d : Z) : option (raw * schema) :=
  if d =? 0 then Some (FIX44.decls, FIX44.schema)
  else if d =? 1 then Some (TT.decls, TT.schema) else None.

Definition run (s : sx) : sx :=
  match s with
  | SL [SI 3; SI d; perm] =>
      match dict_raw d, get_list get_N perm with
      | Some (r, want), Some p =>
          let comps := map (fun i => nth (N.to_nat i) (r_comps r) (0%N, [])) p in
          match parse_with r comps with
          | inl e => SL [SI 1; SI (perr_code e)]
          | inr got => SL [SI 0; sx_of_bool (schema_eqb got want)]
          end
      | None, _ => err_sx 1
      | _, None => err_sx 2
      end
  | SL [SI 4; rw] =>
      match parse_raw rw with
      | None => err_sx 1
      | Some r =>
          match parse r with
          | inl e => SL [SI 1; SI (perr_code e)]
          | inr got => SL [SI 0; sx_schema_out got]
          end
      end
  | SL [SI 2; sch; mt; es; vs] =>
      (* answer [wf_schema, outcome] for a schema carried by the request *)
      match parse_schema sch, get_str mt, parse_entries es, get_list parse_verdict vs with
      | Some Sc, Some mt', Some es', Some tbl =>
          SL [sx_of_bool (wf_schema Sc); sx_res (validate (check_from tbl) Sc (mkMsg mt' es'))]
      | None, _, _, _ => err_sx 1
      | _, None, _, _ => err_sx 2
      | _, _, None, _ => err_sx 3
      | _, _, _, None => err_sx 4
      end
  | SL [SI d; mt; es; vs] =>
      match dict d, get_str mt, parse_entries es, get_list parse_verdict vs with
      | Some Sc, Some mt', Some es', Some tbl => sx_res (validate (check_from tbl) Sc (mkMsg mt' es'))
      | None, _, _, _ => err_sx 1
      | _, None, _, _ => err_sx 2
      | _, _, None, _ => err_sx 3
      | _, _, _, None => err_sx 4
      end
  | _ => err_sx 5
  end.

Definition entry (line : str) : str := run_line run line.
