(* Model of the heartbeat watchdog of asyncfix/connection.py (C12).  No proofs here.

   Follows, line by line and including their quirks:
     heartbeat_timer_task (one loop iteration = tick), send_test_req, the TESTREQUEST gate of
     send_msg, disconnect, _process_testrequest, _process_heartbeat and the
     _message_last_time update of _finalize_message.

   Time is Z milliseconds since the Unix epoch (time.time() * 1000); int(time.time()) is
   now / 1000 (floor).  The heartbeat interval hb is in seconds, as in the constructor.
   The thresholds, the sleep period and the ConnectionState numbers come from the regenerated
   AFGen.GenTimer. *)
From Coq Require Import ZArith NArith List Bool.
From AF Require Import Base.Sx Py.Str.
From AFGen Require Import GenTimer.
Import ListNotations.
Open Scope Z_scope.

(* the watchdog-relevant fields of a connection object *)
Record st := mkSt {
  s_state : Z;            (* _connection_state (IntEnum number) *)
  s_hb : Z;               (* _heartbeat_period, seconds *)
  s_mlt : Z;              (* _message_last_time in ms; 0 = the falsy 0.0 *)
  s_id : option Z;        (* _test_req_id *)
  s_conn : bool           (* _socket_writer and _socket_reader are set *)
}.

Inductive kind := KHeartbeat | KTestRequest | KLogout.

Inductive out :=
| OWire (k : kind) (rid : option str)   (* frame handed to the transport; rid = its tag 112 *)
| ODisconnect                           (* socket closed, state set, on_disconnect called *)
| OSpin                                 (* the timer loop raises before its sleep: it spins *)
| ORaise                                (* exception raised to the calling application code *)
| OUnmodelled.                          (* combination outside this model (non-ACTIVE traffic) *)

(* valid, in-sequence inbound messages, by what the watchdog distinguishes *)
Inductive msg :=
| MHeartbeat (rid : option str)
| MTestRequest (rid : option str)
| MApp.

Inductive ev :=
| Tick (t : Z)                    (* one iteration of heartbeat_timer_task with time.time() = t *)
| Recv (t : Z) (m : msg)          (* _process_message of a valid in-sequence message at t *)
| AppProbe (t : Z)                (* application calls send_test_req() at t *)
| AppRaw (t : Z) (rid : str).     (* application calls send_msg(TestRequest(112 = rid)) at t *)

Definition ev_time (e : ev) : Z :=
  match e with Tick t => t | Recv t _ => t | AppProbe t => t | AppRaw t _ => t end.

Definition thr (c : Z * Z) (hb : Z) : Z := fst c * hb * 1000 + snd c.

(* Python truthiness of _test_req_id: None and 0 are falsy *)
Definition truthy (i : option Z) : bool :=
  match i with Some z => negb (z =? 0) | None => false end.

Definition set_mlt (s : st) (m : Z) : st := mkSt (s_state s) (s_hb s) m (s_id s) (s_conn s).
Definition set_id (s : st) (i : option Z) : st := mkSt (s_state s) (s_hb s) (s_mlt s) i (s_conn s).

(* disconnect(DISCONNECTED_BROKEN_CONN, logout_message): only when the state is above BROKEN_CONN *)
Definition disconnect (s : st) (logout : bool) : st * list out :=
  if ST_DISCONNECTED_BROKEN_CONN <? s_state s then
    (mkSt ST_DISCONNECTED_BROKEN_CONN (s_hb s) 0 None false,
     (if logout then [OWire KLogout None] else []) ++ [ODisconnect])
  else (s, []).

Definition testreq_frame (n : Z) : out := OWire KTestRequest (Some (z_to_dec n)).

(* one iteration of the `while True` body of heartbeat_timer_task *)
Definition tick (now : Z) (s : st) : st * list out :=
  if negb (s_conn s) then (s, [])                 (* not connected: sleep, continue *)
  else
    (* if state == ACTIVE: if tm - last > hb - 1: (if not id: send_test_req()); last = tm *)
    let r1 :=
      if (s_state s =? ST_ACTIVE) && (thr thr_probe (s_hb s) <? now - s_mlt s) then
        if truthy (s_id s) then Some (set_mlt s now, [])
        else match s_id s with
             | Some _ => None                     (* id 0: `is not None` -> FIXConnectionError *)
             | None =>
                 let n := now / 1000 in           (* int(time.time()) *)
                 Some (set_mlt (set_id s (Some n)) now, [testreq_frame n])
             end
      else Some (s, []) in
    match r1 with
    | None => (s, [OSpin])
    | Some (s1, o1) =>
        (* if last and tm - last > hb * 2: disconnect *)
        let '(s2, o2) :=
          if negb (s_mlt s1 =? 0) && (thr thr_dead (s_hb s1) <? now - s_mlt s1)
          then disconnect s1 false else (s1, []) in
        (* if id and tm - id > hb * 2: disconnect *)
        let '(s3, o3) :=
          match s_id s2 with
          | Some n =>
              if negb (n =? 0) && (thr thr_treq (s_hb s2) <? now - n * 1000)
              then disconnect s2 false else (s2, [])
          | None => (s2, [])
          end in
        (s3, o1 ++ o2 ++ o3)
    end.

(* int(hbt_msg.get(112, "0")) with `except: 0` *)
Definition parse_id (v : str) : Z := match py_int v with Some z => z | None => 0 end.

(* a valid in-sequence message arrives at `now` (socket_read_task -> _process_message) *)
Definition recv (now : Z) (m : msg) (s : st) : st * list out :=
  if negb (s_conn s) || (s_state s <=? ST_DISCONNECTED_BROKEN_CONN) then (s, [])   (* nothing is read *)
  else if negb (s_state s =? ST_ACTIVE) then (s, [OUnmodelled])
  else
    let '(s1, o) :=
      match m with
      | MTestRequest rid =>
          (s, [OWire KHeartbeat (Some (match rid with Some v => v | None => [48%N] end))])
      | MHeartbeat rid =>
          match s_id s, rid with
          | Some n, Some v =>
              if n =? parse_id v then (set_id s None, [])
              else disconnect s true
          | _, _ => (s, [])
          end
      | MApp => (s, [])
      end in
    (set_mlt s1 now, o).          (* finally: _finalize_message (also after the disconnect) *)

(* send_test_req() called by application code *)
Definition app_probe (now : Z) (s : st) : st * list out :=
  match s_id s with
  | Some _ => (s, [ORaise])                        (* "Another test request already pending" *)
  | None =>
      let n := now / 1000 in
      let s' := set_id s (Some n) in               (* the id is set before send_msg may raise *)
      if negb (s_conn s) || (s_state s <? ST_NETWORK_CONN_ESTABLISHED) then (s', [ORaise])
      else if s_state s =? ST_ACTIVE then (s', [testreq_frame n])
      else (s', [OUnmodelled])
  end.

(* send_msg(FIXMessage(TESTREQUEST, {112: rid})) called by application code *)
Definition app_raw (now : Z) (rid : str) (s : st) : st * list out :=
  if negb (s_conn s) || (s_state s <? ST_NETWORK_CONN_ESTABLISHED) then (s, [ORaise])
  else if s_state s =? ST_ACTIVE then
    match s_id s with
    | None => (s, [ORaise])                        (* the TESTREQUEST gate *)
    | Some _ => (s, [OWire KTestRequest (Some rid)])
    end
  else (s, [OUnmodelled]).

Definition step (s : st) (e : ev) : st * list out :=
  match e with
  | Tick t => tick t s
  | Recv t m => recv t m s
  | AppProbe t => app_probe t s
  | AppRaw t rid => app_raw t rid s
  end.

Record row := mkRow { r_ev : ev; r_out : list out; r_st : st }.

(* the run of a scenario: per event, what was emitted and the state afterwards *)
Fixpoint trace (s : st) (evs : list ev) : list row :=
  match evs with
  | [] => []
  | e :: r => let '(s', o) := step s e in mkRow e o s' :: trace s' r
  end.

Definition final (s : st) (evs : list ev) : st := fold_left (fun s e => fst (step s e)) evs s.
