(* String lemmas for the codec round trip (C01) and the reader (C03):
   str_eqb, prefixb / find_sub, split_on / join, split1, sum_codes, decimal printing vs int(). *)
From Coq Require Import ZArith NArith List Bool Lia.
From AF Require Import Base.Sx Py.Str.
Import ListNotations.
Open Scope N_scope.

(* ------------------------------------------------------------------ str_eqb *)

Lemma str_eqb_eq : forall a b, str_eqb a b = true <-> a = b.
Proof.
  induction a as [|x a IH]; destruct b as [|y b]; cbn; split; intro H; try congruence; try discriminate.
  - apply andb_true_iff in H as [H1 H2]. apply N.eqb_eq in H1. apply IH in H2. congruence.
  - inversion H; subst. apply andb_true_iff; split; [apply N.eqb_refl | apply IH; reflexivity].
Qed.

Lemma str_eqb_refl : forall a, str_eqb a a = true.
Proof. intro a. apply str_eqb_eq. reflexivity. Qed.

Lemma str_eqb_neq : forall a b, str_eqb a b = false <-> a <> b.
Proof.
  intros a b. split; intro H.
  - intro E. apply str_eqb_eq in E. congruence.
  - destruct (str_eqb a b) eqn:E; [apply str_eqb_eq in E; contradiction | reflexivity].
Qed.

Lemma str_eqb_sym : forall a b, str_eqb a b = str_eqb b a.
Proof.
  intros a b. destruct (str_eqb a b) eqn:E.
  - apply str_eqb_eq in E. subst. symmetry. apply str_eqb_refl.
  - symmetry. apply str_eqb_neq. apply str_eqb_neq in E. congruence.
Qed.

(* ------------------------------------------------------------------ character-free strings *)

Definition cfree (c : N) (s : str) : Prop := ~ In c s.

Lemma cfree_app : forall c a b, cfree c (a ++ b) <-> cfree c a /\ cfree c b.
Proof. unfold cfree. intros. rewrite in_app_iff. tauto. Qed.

Lemma cfree_cons : forall c x s, cfree c (x :: s) <-> x <> c /\ cfree c s.
Proof. unfold cfree. intros. cbn. split; intro H; [split; intro; apply H; auto | intros [E|E]; [apply (proj1 H); auto | apply (proj2 H); auto]]. Qed.

Definition cfreeb (c : N) (s : str) : bool := forallb (fun x => negb (x =? c)) s.

Lemma cfreeb_spec : forall c s, cfreeb c s = true <-> cfree c s.
Proof.
  unfold cfreeb, cfree. intros c s. rewrite forallb_forall. split.
  - intros H I. apply H in I. rewrite N.eqb_refl in I. discriminate.
  - intros H x I. destruct (x =? c) eqn:E; [apply N.eqb_eq in E; subst; contradiction | reflexivity].
Qed.

(* ------------------------------------------------------------------ prefixb / find_sub *)

Lemma prefixb_app : forall p s, prefixb p (p ++ s) = true.
Proof. induction p; cbn; intros; [reflexivity | rewrite N.eqb_refl, IHp; reflexivity]. Qed.

Lemma prefixb_app_r : forall p a b, prefixb p a = true -> prefixb p (a ++ b) = true.
Proof.
  induction p as [|x p IH]; intros a b H; [reflexivity|].
  destruct a as [|y a]; cbn in *; [discriminate|].
  apply andb_true_iff in H as [H1 H2]. rewrite H1, (IH _ _ H2). reflexivity.
Qed.

Lemma prefixb_spec : forall p s, prefixb p s = true <-> exists r, s = p ++ r.
Proof.
  induction p as [|x p IH]; intros s; cbn.
  - split; [exists s; reflexivity | reflexivity].
  - destruct s as [|y s].
    + split; [discriminate | intros [r Hr]; discriminate].
    + rewrite andb_true_iff, N.eqb_eq, IH. split.
      * intros [E [r Hr]]. subst. exists r. reflexivity.
      * intros [r Hr]. inversion Hr; subst. split; [reflexivity | exists r; reflexivity].
Qed.

(* a pattern without the character c does not match across an occurrence of c *)
Lemma prefixb_sep : forall c p a b, cfree c p -> prefixb p a = false -> prefixb p (a ++ c :: b) = false.
Proof.
  induction p as [|x p IH]; intros a b Hc H; [discriminate|].
  apply cfree_cons in Hc as [Hx Hp].
  destruct a as [|y a]; cbn in *.
  - destruct (x =? c) eqn:E; [apply N.eqb_eq in E; contradiction | reflexivity].
  - destruct (x =? y); cbn in *; [apply IH; assumption | reflexivity].
Qed.

Lemma find_sub_from_shift : forall p s i, find_sub_from p s i = option_map (fun k => (k + i)%nat) (find_sub_from p s 0).
Proof.
  intros p s. induction s as [|x s IH]; intros i; cbn.
  - destruct (prefixb p []); reflexivity.
  - destruct (prefixb p (x :: s)); [reflexivity|].
    rewrite (IH (S i)), (IH 1%nat). destruct (find_sub_from p s 0); cbn; [f_equal; lia | reflexivity].
Qed.

Lemma find_sub_cons : forall p x s,
  find_sub p (x :: s) = if prefixb p (x :: s) then Some 0%nat else option_map S (find_sub p s).
Proof.
  intros. unfold find_sub. cbn [find_sub_from]. destruct (prefixb p (x :: s)); [reflexivity|].
  rewrite find_sub_from_shift. destruct (find_sub_from p s 0); cbn; [f_equal; lia | reflexivity].
Qed.

Lemma find_sub_nil : forall p, find_sub p [] = if prefixb p [] then Some 0%nat else None.
Proof. intros. unfold find_sub. cbn. destruct (prefixb p []); reflexivity. Qed.

Lemma find_sub_head : forall p s, prefixb p s = true -> find_sub p s = Some 0%nat.
Proof. intros p s H. destruct s; [rewrite find_sub_nil | rewrite find_sub_cons]; rewrite H; reflexivity. Qed.

(* no occurrence in a ++ b => no occurrence in a *)
Lemma find_sub_none_prefix : forall p a b, find_sub p (a ++ b) = None -> find_sub p a = None.
Proof.
  intros p a. induction a as [|x a IH]; intros b H.
  - rewrite find_sub_nil. destruct (prefixb p []) eqn:E; [|reflexivity].
    rewrite (find_sub_head p ([] ++ b)) in H; [discriminate | apply prefixb_app_r; assumption].
  - cbn [app] in H. rewrite find_sub_cons in *.
    destruct (prefixb p (x :: a)) eqn:E.
    + pose proof (prefixb_app_r p (x :: a) b E) as E'. cbn [app] in E'. rewrite E' in H. discriminate.
    + destruct (prefixb p (x :: a ++ b)); [discriminate|].
      destruct (find_sub p (a ++ b)) eqn:F; [discriminate|]. rewrite (IH b F). reflexivity.
Qed.

Lemma find_sub_none_suffix : forall p a b, find_sub p (a ++ b) = None -> find_sub p b = None.
Proof.
  intros p a. induction a as [|x a IH]; intros b H; [assumption|].
  cbn [app] in H. rewrite find_sub_cons in H.
  destruct (prefixb p (x :: a ++ b)); [discriminate|].
  destruct (find_sub p (a ++ b)) eqn:F; [discriminate|]. apply IH. assumption.
Qed.

(* occurrences do not straddle a separator the pattern does not contain *)
Lemma find_sub_sep : forall c p a b, cfree c p -> p <> [] -> find_sub p a = None ->
  find_sub p (a ++ c :: b) = option_map (fun k => (length a + 1 + k)%nat) (find_sub p b).
Proof.
  intros c p a b Hc Hp. induction a as [|x a IH]; intros H.
  - cbn [app length]. rewrite find_sub_cons.
    destruct p as [|y p]; [contradiction|].
    apply cfree_cons in Hc as [Hy _]. cbn [prefixb].
    destruct (y =? c) eqn:E; [apply N.eqb_eq in E; contradiction|]. cbn.
    destruct (find_sub (y :: p) b); reflexivity.
  - cbn [app]. rewrite find_sub_cons in *.
    destruct (prefixb p (x :: a)) eqn:E; [discriminate|].
    change (x :: a ++ c :: b) with ((x :: a) ++ c :: b).
    rewrite (prefixb_sep c p (x :: a) b Hc E).
    destruct (find_sub p a) eqn:F; [discriminate|].
    rewrite (IH eq_refl). cbn [length]. destruct (find_sub p b); cbn; [f_equal; lia | reflexivity].
Qed.

Lemma find_sub_none_sep : forall c p a b, cfree c p -> p <> [] -> find_sub p a = None -> find_sub p b = None ->
  find_sub p (a ++ c :: b) = None.
Proof. intros c p a b Hc Hp Ha Hb. rewrite (find_sub_sep c p a b Hc Hp Ha), Hb. reflexivity. Qed.

(* ------------------------------------------------------------------ split_on / join *)

Lemma split_on_nonempty : forall c s, split_on c s <> [].
Proof.
  intros c s. destruct s as [|x s]; cbn; [discriminate|].
  destruct (x =? c); [discriminate|]. destruct (split_on c s); discriminate.
Qed.

Lemma split_on_free : forall c s, cfree c s -> split_on c s = [s].
Proof.
  intros c s. induction s as [|x s IH]; intros H; [reflexivity|].
  apply cfree_cons in H as [Hx Hs]. cbn.
  destruct (x =? c) eqn:E; [apply N.eqb_eq in E; contradiction|]. rewrite (IH Hs). reflexivity.
Qed.

Lemma split_on_app_sep : forall c f s, cfree c f -> split_on c (f ++ c :: s) = f :: split_on c s.
Proof.
  intros c f s. induction f as [|x f IH]; intros H; cbn.
  - rewrite N.eqb_refl. reflexivity.
  - apply cfree_cons in H as [Hx Hf].
    destruct (x =? c) eqn:E; [apply N.eqb_eq in E; contradiction|]. rewrite (IH Hf). reflexivity.
Qed.

(* the text of a list of fields, each followed by the separator *)
Definition flat (fs : list str) : str := concat (map (fun f => f ++ [1]) fs).

Lemma flat_cons : forall f fs, flat (f :: fs) = f ++ 1 :: flat fs.
Proof. intros. unfold flat. cbn. rewrite <- app_assoc. reflexivity. Qed.

Lemma flat_app : forall a b, flat (a ++ b) = flat a ++ flat b.
Proof. intros. unfold flat. rewrite map_app, concat_app. reflexivity. Qed.

Lemma join_flat : forall fs, fs <> [] -> join [1] fs ++ [1] = flat fs.
Proof.
  induction fs as [|f fs IH]; intros H; [contradiction|].
  rewrite flat_cons. destruct fs as [|g fs].
  - cbn. reflexivity.
  - change (join [1] (f :: g :: fs)) with (f ++ [1] ++ join [1] (g :: fs)).
    rewrite <- IH by discriminate. rewrite <- !app_assoc. reflexivity.
Qed.

Lemma join_app : forall a b, a <> [] -> b <> [] -> join [1] (a ++ b) = join [1] a ++ [1] ++ join [1] b.
Proof.
  induction a as [|f a IH]; intros b Ha Hb; [contradiction|].
  destruct a as [|g a].
  - cbn [app]. destruct b; [contradiction|]. reflexivity.
  - change ((f :: g :: a) ++ b) with (f :: (g :: a) ++ b).
    change (join [1] (f :: (g :: a) ++ b)) with (f ++ [1] ++ join [1] ((g :: a) ++ b)).
    rewrite IH by (discriminate || assumption).
    change (join [1] (f :: g :: a)) with (f ++ [1] ++ join [1] (g :: a)).
    rewrite <- !app_assoc. reflexivity.
Qed.

Lemma split_on_flat : forall fs, Forall (cfree 1) fs -> split_on 1 (flat fs) = fs ++ [[]].
Proof.
  induction fs as [|f fs IH]; intros H; [reflexivity|].
  inversion H; subst. rewrite flat_cons, split_on_app_sep by assumption. rewrite IH by assumption. reflexivity.
Qed.

Lemma flat_length_pos : forall f fs, (0 < length (flat (f :: fs)))%nat.
Proof. intros. rewrite flat_cons, app_length. cbn. lia. Qed.

(* ------------------------------------------------------------------ split1 *)

Lemma split1_field : forall c t v, cfree c t -> split1 c (t ++ c :: v) = (t, Some v).
Proof.
  intros c t v. induction t as [|x t IH]; intros H; cbn.
  - rewrite N.eqb_refl. reflexivity.
  - apply cfree_cons in H as [Hx Ht].
    destruct (x =? c) eqn:E; [apply N.eqb_eq in E; contradiction|]. rewrite (IH Ht). reflexivity.
Qed.

(* ------------------------------------------------------------------ sum_codes *)

Lemma fold_add_acc : forall s a, fold_left N.add s a = a + fold_left N.add s 0.
Proof.
  induction s as [|x s IH]; intros a; cbn; [lia|].
  rewrite (IH (a + x)), (IH x). lia.
Qed.

Lemma sum_codes_app : forall a b, sum_codes (a ++ b) = sum_codes a + sum_codes b.
Proof. intros. unfold sum_codes. rewrite fold_left_app. apply fold_add_acc. Qed.

Lemma sum_codes_soh : sum_codes [1] = 1.
Proof. reflexivity. Qed.

(* ------------------------------------------------------------------ decimal text vs int() *)
From Coq Require Import ZifyBool.

Definition dstep (a c : N) : N := 10 * a + (c - 48).
Definition dval (s : str) (a : N) : N := fold_left dstep s a.

Lemma size_nat_gt : forall n, n < 2 ^ N.of_nat (N.size_nat n).
Proof.
  destruct n as [|p]; [cbn; lia|]. cbn [N.size_nat].
  induction p as [p IH|p IH|]; cbn [Pos.size_nat].
  - rewrite Nat2N.inj_succ, N.pow_succ_r'. lia.
  - rewrite Nat2N.inj_succ, N.pow_succ_r'. lia.
  - cbn. lia.
Qed.

Lemma pow10_pos : forall k, 0 < 10 ^ k.
Proof. intro k. apply N.neq_0_lt_0. apply N.pow_nonzero. discriminate. Qed.

Lemma n_to_dec_fuel_S : forall f n acc, n_to_dec_fuel (S f) n acc =
  let (q, r) := N.div_eucl n 10 in
  if q =? 0 then digit_char r :: acc else n_to_dec_fuel f q (digit_char r :: acc).
Proof. reflexivity. Qed.

Lemma n_to_dec_fuel_spec : forall f n acc, n < 2 ^ N.of_nat f ->
  exists D, n_to_dec_fuel (S f) n acc = D ++ acc /\ D <> [] /\ Forall (fun c => is_digit c = true) D
    /\ (forall a, dval D a = a * 10 ^ N.of_nat (length D) + n)
    /\ n < 10 ^ N.of_nat (length D)
    /\ (10 ^ N.of_nat (length D - 1) <= n \/ length D = 1%nat).
Proof.
  induction f as [|f IH]; intros n acc Hn.
  - assert (n = 0) by (cbn in Hn; lia). subst. cbn. exists [48]. split; [|split; [|split; [|split; [|split]]]].
    + reflexivity.
    + discriminate.
    + repeat constructor.
    + intro a. cbn. unfold dstep. lia.
    + cbn. lia.
    + right. reflexivity.
  - rewrite n_to_dec_fuel_S.
    pose proof (N.div_eucl_spec n 10) as Hd. pose proof (N.mod_lt n 10 ltac:(discriminate)) as Hr.
    unfold N.modulo in Hr. destruct (N.div_eucl n 10) as [q r]. cbn [snd] in Hr.
    destruct (q =? 0) eqn:Eq.
    + apply N.eqb_eq in Eq. subst q. exists [digit_char r]. split; [|split; [|split; [|split; [|split]]]].
      * reflexivity.
      * discriminate.
      * constructor; [unfold digit_char, is_digit; lia | constructor].
      * intro a. unfold dval. cbn [fold_left length]. unfold dstep, digit_char.
        change (N.of_nat 1) with 1. rewrite N.pow_1_r. lia.
      * cbn [length]. change (N.of_nat 1) with 1. rewrite N.pow_1_r. lia.
      * right. reflexivity.
    + apply N.eqb_neq in Eq.
      assert (Hq : q < 2 ^ N.of_nat f).
      { rewrite Nat2N.inj_succ, N.pow_succ_r' in Hn. lia. }
      destruct (IH q (digit_char r :: acc) Hq) as [D [HD [Hne [Hdig [Hval [Hlt Hge]]]]]].
      exists (D ++ [digit_char r]). rewrite HD, <- app_assoc. cbn [app].
      assert (Hlen : length (D ++ [digit_char r]) = S (length D)) by (rewrite app_length; cbn; lia).
      assert (Hp : 10 ^ N.of_nat (S (length D)) = 10 * 10 ^ N.of_nat (length D)) by (rewrite Nat2N.inj_succ, N.pow_succ_r'; reflexivity).
      split; [|split; [|split; [|split; [|split]]]].
      * reflexivity.
      * destruct D; discriminate.
      * apply Forall_app. split; [assumption|]. constructor; [unfold digit_char, is_digit; lia | constructor].
      * intro a. unfold dval. rewrite fold_left_app. fold (dval D a). rewrite Hval, Hlen, Hp. cbn [fold_left]. unfold dstep, digit_char.
        generalize (10 ^ N.of_nat (length D)). intro P. nia.
      * rewrite Hlen, Hp. lia.
      * left. rewrite Hlen. replace (S (length D) - 1)%nat with (length D) by lia.
        destruct Hge as [Hge|Hge].
        -- destruct (length D) as [|k] eqn:EL; [destruct D; [contradiction | discriminate]|].
           replace (S k - 1)%nat with k in Hge by lia.
           rewrite Nat2N.inj_succ, N.pow_succ_r'. lia.
        -- rewrite Hge. cbn. lia.
Qed.

Lemma n_to_dec_spec : forall n,
  n_to_dec n <> [] /\ Forall (fun c => is_digit c = true) (n_to_dec n)
  /\ dval (n_to_dec n) 0 = n
  /\ (10 ^ N.of_nat (length (n_to_dec n) - 1) <= n \/ length (n_to_dec n) = 1%nat).
Proof.
  intro n. unfold n_to_dec.
  destruct (n_to_dec_fuel_spec (N.size_nat n) n [] (size_nat_gt n)) as [D [HD [Hne [Hdig [Hval [_ Hge]]]]]].
  rewrite HD, app_nil_r. repeat split; try assumption. rewrite Hval. lia.
Qed.

Lemma n_to_dec_digits : forall n, Forall (fun c => is_digit c = true) (n_to_dec n).
Proof. intro n. apply (n_to_dec_spec n). Qed.

Lemma digits_us_digits : forall s a, Forall (fun c => is_digit c = true) s -> digits_us s a false = Some (dval s a).
Proof.
  induction s as [|c s IH]; intros a H; [reflexivity|].
  inversion H; subst. cbn [digits_us]. rewrite H2. rewrite IH by assumption. reflexivity.
Qed.

Lemma lstrip_digits : forall s, Forall (fun c => is_digit c = true) s -> lstrip ws_str s = s.
Proof.
  intros s H. destruct s as [|c s]; [reflexivity|]. inversion H; subst. cbn.
  assert (E : ws_str c = false) by (unfold is_digit, ws_str in *; lia). rewrite E. reflexivity.
Qed.

Lemma filter_digits : forall s, Forall (fun c => is_digit c = true) s -> filter is_digit s = s.
Proof.
  induction s as [|c s IH]; intros H; [reflexivity|]. inversion H; subst. cbn. rewrite H2, IH by assumption. reflexivity.
Qed.

Lemma sign_match_digit : forall (d : N) (r : str), is_digit d = true ->
  match d :: r with
  | 45 :: r0 => (true, r0)
  | 43 :: r0 => (false, r0)
  | _ => (false, d :: r)
  end = (false, d :: r).
Proof.
  intros d r H. unfold is_digit in H.
  assert (E : d = 48 \/ d = 49 \/ d = 50 \/ d = 51 \/ d = 52 \/ d = 53 \/ d = 54 \/ d = 55 \/ d = 56 \/ d = 57) by lia.
  repeat (destruct E as [E|E]; [subst; reflexivity|]). subst. reflexivity.
Qed.

(* int() of a digit string of at most 4300 digits *)
Lemma py_int_digits : forall s, s <> [] -> Forall (fun c => is_digit c = true) s -> (length s <= 4300)%nat ->
  py_int s = Some (Z.of_N (dval s 0)).
Proof.
  intros s Hne Hd Hl. unfold py_int, py_int_gen, strip.
  rewrite (lstrip_digits s Hd).
  rewrite (lstrip_digits (rev s)) by (apply Forall_rev; assumption).
  rewrite rev_involutive.
  destruct s as [|d r]; [contradiction|]. inversion Hd; subst.
  rewrite sign_match_digit by assumption.
  rewrite filter_digits by assumption.
  assert (E : (4300 <? N.of_nat (length (d :: r))) = false) by lia. rewrite E, H1.
  rewrite digits_us_digits by assumption. reflexivity.
Qed.

Lemma py_int_n_to_dec : forall n, n < 10 ^ 4300 -> py_int (n_to_dec n) = Some (Z.of_N n).
Proof.
  intros n Hn. destruct (n_to_dec_spec n) as [Hne [Hd [Hv Hge]]].
  rewrite py_int_digits; try assumption.
  - rewrite Hv. reflexivity.
  - destruct Hge as [Hge|Hge]; [|lia].
    destruct (Nat.le_gt_cases (length (n_to_dec n)) 4300) as [L|L]; [assumption|exfalso].
    assert (10 ^ 4300 <= 10 ^ N.of_nat (length (n_to_dec n) - 1)) by (apply N.pow_le_mono_r; [discriminate | lia]).
    lia.
Qed.

Lemma digits_cfree : forall c s, Forall (fun x => is_digit x = true) s -> is_digit c = false -> cfree c s.
Proof.
  intros c s H Hc I. rewrite Forall_forall in H. apply H in I. congruence.
Qed.

Lemma n_to_dec_cfree : forall c n, is_digit c = false -> cfree c (n_to_dec n).
Proof. intros c n H. apply digits_cfree; [apply n_to_dec_digits | assumption]. Qed.

Lemma z_to_dec_soh_free : forall z, cfree 1 (z_to_dec z).
Proof.
  destruct z; cbn [z_to_dec].
  - intros [E|[]]. discriminate.
  - apply n_to_dec_cfree. reflexivity.
  - apply cfree_cons. split; [discriminate | apply n_to_dec_cfree; reflexivity].
Qed.

(* ---------- "%0.3i" of a checksum ---------- *)

Definition below256 (P : N -> bool) : bool := forallb P (map N.of_nat (seq 0 256)).

Lemma below256_spec : forall P, below256 P = true -> forall c, c < 256 -> P c = true.
Proof.
  unfold below256. intros P H c Hc. rewrite forallb_forall in H. apply H.
  apply in_map_iff. exists (N.to_nat c). split; [apply N2Nat.id | apply in_seq; lia].
Qed.

Lemma fmt03_facts : forall c, c < 256 ->
  py_int (fmt03 c) = Some (Z.of_N c) /\ length (fmt03 c) = 3%nat /\ cfree 1 (fmt03 c).
Proof.
  intros c Hc.
  assert (H : below256 (fun c => match py_int (fmt03 c) with Some z => Z.eqb z (Z.of_N c) | None => false end
                                 && Nat.eqb (length (fmt03 c)) 3 && cfreeb 1 (fmt03 c)) = true) by (vm_compute; reflexivity).
  pose proof (below256_spec _ H c Hc) as Hb. cbv beta in Hb.
  apply andb_true_iff in Hb as [Hb H3]. apply andb_true_iff in Hb as [H1 H2].
  split; [|split].
  - destruct (py_int (fmt03 c)); [|discriminate]. apply Z.eqb_eq in H1. congruence.
  - apply Nat.eqb_eq. assumption.
  - apply cfreeb_spec. assumption.
Qed.

Lemma checksum_lt : forall s, (sum_codes s) mod 256 < 256.
Proof. intro s. apply N.mod_lt. discriminate. Qed.

(* ------------------------------------------------------------------ more on find_sub (round 9) *)

Lemma prefixb_len : forall p s, prefixb p s = true -> (length p <= length s)%nat.
Proof. intros p s H. apply prefixb_spec in H as [r E]. subst. rewrite app_length. lia. Qed.

Lemma prefixb_app_short : forall p a b, prefixb p (a ++ b) = true -> (length p <= length a)%nat -> prefixb p a = true.
Proof.
  induction p as [|x p IH]; intros a b H L; [reflexivity|].
  destruct a as [|y a]; cbn in *; [lia|].
  apply andb_true_iff in H as [H1 H2]. rewrite H1. cbn. apply (IH a b H2). lia.
Qed.

Lemma find_sub_some_len : forall p a k, find_sub p a = Some k -> (length p <= length a)%nat.
Proof.
  intros p a. induction a as [|x a IH]; intros k H.
  - rewrite find_sub_nil in H. destruct (prefixb p []) eqn:E; [|discriminate]. apply (prefixb_len _ _ E).
  - rewrite find_sub_cons in H. destruct (prefixb p (x :: a)) eqn:E; [apply (prefixb_len _ _ E)|].
    destruct (find_sub p a) as [k'|] eqn:F; [|discriminate]. specialize (IH k' eq_refl). cbn [length]. lia.
Qed.

(* the first occurrence is stable under extension on the right *)
Lemma find_sub_some_ext : forall p a b k, find_sub p a = Some k -> find_sub p (a ++ b) = Some k.
Proof.
  intros p a. induction a as [|x a IH]; intros b k H.
  - rewrite find_sub_nil in H. destruct (prefixb p []) eqn:E; [|discriminate]. injection H as H. subst k.
    apply find_sub_head. apply prefixb_app_r. assumption.
  - cbn [app]. rewrite find_sub_cons in *. destruct (prefixb p (x :: a)) eqn:E.
    + pose proof (prefixb_app_r p (x :: a) b E) as E'. cbn [app] in E'. rewrite E'. assumption.
    + destruct (find_sub p a) as [k'|] eqn:F; [|discriminate].
      destruct (prefixb p (x :: a ++ b)) eqn:E2.
      * exfalso. pose proof (find_sub_some_len p a k' F) as L.
        change (x :: a ++ b) with ((x :: a) ++ b) in E2.
        rewrite (prefixb_app_short p (x :: a) b E2) in E; [discriminate | cbn [length]; lia].
      * rewrite (IH b k' eq_refl). assumption.
Qed.

(* a pattern c :: q in text that is c-free up to the first c *)
Lemma find_sub_first_char : forall c q f T, cfree c f ->
  find_sub (c :: q) (f ++ c :: T) =
  if prefixb q T then Some (length f) else option_map (fun k => (length f + 1 + k)%nat) (find_sub (c :: q) T).
Proof.
  intros c q f T. induction f as [|x f IH]; intro H.
  - cbn [app length]. rewrite find_sub_cons. cbn [prefixb]. rewrite N.eqb_refl. cbn [andb].
    destruct (prefixb q T); [reflexivity|]. destruct (find_sub (c :: q) T); reflexivity.
  - apply cfree_cons in H as [Hx Hf]. cbn [app length]. rewrite find_sub_cons. cbn [prefixb].
    destruct (c =? x) eqn:E; [apply N.eqb_eq in E; subst; contradiction|]. cbn [andb].
    rewrite (IH Hf). destruct (prefixb q T); [reflexivity|]. destruct (find_sub (c :: q) T); reflexivity.
Qed.

Lemma find_sub_single : forall c f T, cfree c f -> find_sub [c] (f ++ c :: T) = Some (length f).
Proof. intros c f T H. rewrite (find_sub_first_char c [] f T H). reflexivity. Qed.

Lemma find_sub_single_none : forall c f, cfree c f -> find_sub [c] f = None.
Proof.
  intros c f. induction f as [|x f IH]; intro H; [reflexivity|].
  apply cfree_cons in H as [Hx Hf]. rewrite find_sub_cons. cbn [prefixb].
  destruct (c =? x) eqn:E; [apply N.eqb_eq in E; subst; contradiction|]. cbn [andb]. rewrite (IH Hf). reflexivity.
Qed.

(* a pattern whose first character does not recur in it cannot overlap itself *)
Lemma prefixb_no_border_aux : forall x q s w, ~ In x q -> prefixb q s = false -> prefixb q (s ++ x :: w) = false.
Proof.
  intros x q. induction q as [|y q IH]; intros s w Hx H; [discriminate|].
  destruct s as [|c s]; cbn [app prefixb] in *.
  - destruct (y =? x) eqn:E; [apply N.eqb_eq in E; subst; exfalso; apply Hx; left; reflexivity | reflexivity].
  - destruct (y =? c); cbn [andb] in *; [|reflexivity]. apply IH; [intro I; apply Hx; right; exact I | exact H].
Qed.

Lemma prefixb_no_border : forall x p' c J w, ~ In x p' ->
  prefixb (x :: p') (c :: J) = false -> prefixb (x :: p') (c :: J ++ x :: w) = false.
Proof.
  intros x p' c J w Hx H. cbn [prefixb] in *. destruct (x =? c); cbn [andb] in *; [|reflexivity].
  apply prefixb_no_border_aux; assumption.
Qed.

(* junk without an occurrence, followed by text that starts with the pattern's first character:
   no occurrence starts inside the junk *)
Lemma find_sub_junk_gen : forall x p' J w, ~ In x p' -> find_sub (x :: p') J = None ->
  find_sub (x :: p') (J ++ x :: w) = option_map (fun k => (length J + k)%nat) (find_sub (x :: p') (x :: w)).
Proof.
  intros x p' J w Hx. induction J as [|c J IH]; intro HJ.
  - cbn [app length]. destruct (find_sub (x :: p') (x :: w)); reflexivity.
  - cbn [app length]. rewrite find_sub_cons in HJ.
    destruct (prefixb (x :: p') (c :: J)) eqn:E; [discriminate|].
    destruct (find_sub (x :: p') J) eqn:F; [discriminate|].
    rewrite find_sub_cons, (prefixb_no_border x p' c J w Hx E), (IH eq_refl).
    destruct (find_sub (x :: p') (x :: w)); reflexivity.
Qed.
