(* Executable model of asyncfix/message.py: FIXContainer, FIXMessage, _FIXRepeatingGroupContainer.
   A container is an insertion-ordered list of (key string, value); a value is a string, a
   repeating group (list of containers) or a class object stored by `set(tag, SomeClass)`.
   Every function follows the Python method of the same name line by line, including what is
   wrong with it (all five items of DESIGN.md ledger D18 are repaired - fixes/C18-*.patch and
   fixes/R11-container-equality-is-structural.patch - and the model describes the repaired code).
   No proofs here (Lemmas/ContainerL.v).

   Mutating methods return (container afterwards, outcome) so that "a refused call changes
   nothing" is a statement about the function and not a convention of the caller. *)
From Coq Require Import ZArith NArith List Bool.
From AF Require Import Base.Sx Py.Str.
From AFGen Require Import GenEnums.
Import ListNotations.
Open Scope N_scope.

(* ---------------------------------------------------------------- exceptions, results *)

Inductive exc :=
| EFIXMessage | EDuplicatedTag | ETagNotFound | ERepeatingTag | EUnmappedGrp   (* asyncfix.errors *)
| EKeyError | EAttributeError | EIndexError | EValueError | ETypeError.         (* builtins *)

Inductive res (A : Type) := Ok (a : A) | Exc (e : exc).
Arguments Ok {A} a.
Arguments Exc {A} e.

(* ---------------------------------------------------------------- data *)

(* what `get` / `__str__` distinguish about a class object stored as a value *)
Inductive clskind := KTagNotFound | KRepeating | KOtherExc | KNonExc.

Inductive value :=
| VStr (s : str)
| VGrp (g : list container)
| VCls (k : clskind) (text : str)          (* text = str(cls), used by __str__ for non-exceptions *)
with container := C (mt : option str) (items : list (str * value)).
(* mt = Some (format(msg_type)) for a FIXMessage, None for a plain FIXContainer *)

Definition mt (c : container) : option str := match c with C m _ => m end.
Definition items (c : container) : list (str * value) := match c with C _ l => l end.
Definition with_items (c : container) (l : list (str * value)) : container := C (mt c) l.
Definition empty : container := C None [].

(* ---------------------------------------------------------------- tags *)

(* the spellings a caller may use for a tag: int, str, FTag member (by name), any other object
   (s = str(obj); int(obj) raises TypeError, e.g. None) *)
Inductive tag := TInt (z : Z) | TStr (s : str) | TFTag (name : str) | TObj (s : str).

Definition ftag_value (name : str) : str :=
  match find (fun nv => str_eqb (fst nv) name) ftag with
  | Some nv => snd nv
  | None => []
  end.

(* str(tag) *)
Definition tag_str (t : tag) : str :=
  match t with
  | TInt z => z_to_dec z
  | TStr s => s
  | TFTag name => ftag_value name
  | TObj s => s
  end.

(* int(str(tag)) does not raise ValueError *)
Definition key_ok (k : str) : bool := match py_int k with Some _ => true | None => false end.
Definition tag_ok (t : tag) : bool := key_ok (tag_str t).

(* FTag(s) succeeds: s is the value of a member *)
Definition in_ftag (s : str) : bool := existsb (fun nv => str_eqb (snd nv) s) ftag.

(* ---------------------------------------------------------------- OrderedDict primitives *)

Section Assoc.
  Context {V : Type}.
  Fixpoint lookup (k : str) (l : list (str * V)) : option V :=
    match l with
    | [] => None
    | (k', v) :: l' => if str_eqb k' k then Some v else lookup k l'
    end.
  Definition has (k : str) (l : list (str * V)) : bool :=
    match lookup k l with Some _ => true | None => false end.
  (* d[k] = v : an existing key keeps its place, a new key goes to the end *)
  Fixpoint assign (k : str) (v : V) (l : list (str * V)) : list (str * V) :=
    match l with
    | [] => [(k, v)]
    | (k', v') :: l' => if str_eqb k' k then (k', v) :: l' else (k', v') :: assign k v l'
    end.
  (* del d[k] *)
  Fixpoint remove (k : str) (l : list (str * V)) : list (str * V) :=
    match l with
    | [] => []
    | (k', v') :: l' => if str_eqb k' k then l' else (k', v') :: remove k l'
    end.
End Assoc.

Definition mem (k : str) (l : list str) : bool := existsb (str_eqb k) l.

(* ---------------------------------------------------------------- __str__ / __repr__ *)

Definition ERR : str := [35; 101; 114; 114; 35].                       (* "#err#" *)
Definition MSGTYPE_EQ : str := [109; 115; 103; 95; 116; 121; 112; 101; 61].   (* "msg_type=" *)

Definition mt_prefix (m : option str) : str :=
  match m with Some s => MSGTYPE_EQ ++ s ++ [124] | None => [] end.

Definition cls_text (k : clskind) (text : str) : str :=
  match k with KNonExc => text | _ => ERR end.

(* FIXContainer.__str__ : "|".join("%s=%s" % (tag, value)) ; a group prints as
   str(len) + "=>" + str(list), and str(list) uses repr() of the items, which for a FIXMessage
   item carries the "msg_type=..|" prefix *)
Fixpoint render (c : container) : str :=
  match c with
  | C _ l => join [124] (map (fun tv => fst tv ++ 61 :: render_v (snd tv)) l)
  end
with render_v (v : value) : str :=
  match v with
  | VStr s => s
  | VGrp g =>
      n_to_dec (N.of_nat (length g)) ++ [61; 62; 91]
      ++ join [44; 32] (map (fun c => mt_prefix (mt c) ++ render c) g) ++ [93]
  | VCls k text => cls_text k text
  end.

Definition repr (c : container) : str := mt_prefix (mt c) ++ render c.

(* ---------------------------------------------------------------- set / get / del / in *)

Inductive setval := SVal (s : str)                 (* s = str(value), computed by the caller *)
                  | SCls (k : clskind) (text : str).   (* value is a class object *)

Definition c_set (t : tag) (v : setval) (replace : bool) (c : container) : container * res unit :=
  if negb (tag_ok t) then (c, Exc EFIXMessage)
  else
    let k := tag_str t in
    match v with
    | SCls kd text => (with_items c (assign k (VCls kd text) (items c)), Ok tt)
    | SVal s =>
        if negb replace && has k (items c) then (c, Exc EDuplicatedTag)
        else (with_items c (assign k (VStr s) (items c)), Ok tt)
    end.

Inductive dflt := DRaise | DNone | DStr (s : str).
Inductive rval := RvNone | RvStr (s : str) | RvCls (k : clskind) (text : str).

Definition c_get (t : tag) (d : dflt) (c : container) : res rval :=
  match lookup (tag_str t) (items c) with
  | None =>
      match d with
      | DRaise => Exc ETagNotFound
      | DNone => Ok RvNone
      | DStr s => Ok (RvStr s)
      end
  | Some (VStr s) => Ok (RvStr s)
  | Some (VCls KTagNotFound _) => Exc ETagNotFound
  | Some (VCls KRepeating _) => Exc ERepeatingTag
  | Some (VCls k text) => Ok (RvCls k text)
  | Some (VGrp _) => Exc EFIXMessage
  end.

Definition c_del (t : tag) (c : container) : container * res unit :=
  let k := tag_str t in
  if has k (items c) then (with_items c (remove k (items c)), Ok tt) else (c, Exc EKeyError).

Definition c_contains (t : tag) (c : container) : bool := has (tag_str t) (items c).

(* None - missing, Some true - group, Some false - anything else *)
Definition c_is_group (t : tag) (c : container) : option bool :=
  match lookup (tag_str t) (items c) with
  | None => None
  | Some (VGrp _) => Some true
  | Some _ => Some false
  end.

(* ---------------------------------------------------------------- groups *)

Definition insert_at {A} (n : nat) (x : A) (l : list A) : list A := firstn n l ++ x :: skipn n l.

(* _FIXRepeatingGroupContainer.add_group: -1 appends, anything else is list.insert *)
Definition py_insert {A} (idx : Z) (x : A) (l : list A) : list A :=
  let len := Z.of_nat (length l) in
  if (idx =? -1)%Z then l ++ [x]
  else if (0 <=? idx)%Z then insert_at (Z.to_nat (Z.min idx len)) x l
  else insert_at (Z.to_nat (Z.max 0 (len + idx))) x l.

(* the tag is checked like in set (_int_tag); then `item`, the outcome of turning the argument into
   a FIXContainer (dict -> FIXContainer(dict), which may raise; not a container ->
   FIXMessageError); only then the tag is looked up *)
Definition c_add_group (t : tag) (item : res container) (idx : Z) (c : container)
  : container * res unit :=
  if negb (tag_ok t) then (c, Exc EFIXMessage)
  else
    let k := tag_str t in
    match item with
    | Exc e => (c, Exc e)
    | Ok it =>
        match lookup k (items c) with
        | Some (VGrp g) => (with_items c (assign k (VGrp (py_insert idx it g)) (items c)), Ok tt)
        | Some _ => (c, Exc EFIXMessage)               (* exists and is not a repeating group *)
        | None => (with_items c (assign k (VGrp (py_insert idx it [])) (items c)), Ok tt)
        end
    end.

(* tag check, then the duplicate check, then the items are converted one by one *)
Definition c_set_group (t : tag) (g : res (list container)) (c : container) : container * res unit :=
  if negb (tag_ok t) then (c, Exc EFIXMessage)
  else
    let k := tag_str t in
    if has k (items c) then (c, Exc EDuplicatedTag)
    else match g with
         | Exc e => (c, Exc e)
         | Ok g => (with_items c (assign k (VGrp g) (items c)), Ok tt)
         end.

Definition c_get_group_list (t : tag) (c : container) : res (list container) :=
  match c_is_group (TStr (tag_str t)) c with
  | None => Exc ETagNotFound
  | Some false => Exc EUnmappedGrp
  | Some true =>
      match lookup (tag_str t) (items c) with
      | Some (VGrp g) => Ok g
      | _ => Exc EKeyError       (* unreachable *)
      end
  end.

Definition rval_is (r : rval) (s : str) : bool :=
  match r with RvStr s' => str_eqb s' s | _ => false end.

Fixpoint find_group (gt : tag) (gv : str) (g : list container) : res container :=
  match g with
  | [] => Exc ETagNotFound
  | x :: g' =>
      if c_contains gt x then
        match c_get gt DRaise x with
        | Exc e => Exc e
        | Ok r => if rval_is r gv then Ok x else find_group gt gv g'
        end
      else find_group gt gv g'
  end.

Definition c_get_group_by_tag (t gt : tag) (gv : str) (c : container) : res container :=
  match c_get_group_list t c with
  | Exc e => Exc e
  | Ok g => find_group gt gv g
  end.

Definition nth_res (n : nat) (g : list container) : res container :=
  match nth_error g n with Some x => Ok x | None => Exc EIndexError end.

Definition c_get_group_by_index (t : tag) (idx : Z) (c : container) : res container :=
  match c_get_group_list t c with
  | Exc e => Exc e
  | Ok g =>
      let len := Z.of_nat (length g) in
      if (len <=? idx)%Z || (idx <? - len)%Z then Exc ETagNotFound
      else if (0 <=? idx)%Z then nth_res (Z.to_nat idx) g
      else nth_res (Z.to_nat (len + idx)) g
  end.

(* ---------------------------------------------------------------- items reached through the accessors *)

(* The accessors hand out the stored item objects themselves, so a method called on
   c.get_group_by_index(t, i) / c.get_group_by_tag(t, gt, gv) / c.get_group_list(t)[n] changes c.
   A path of such accessor calls is modelled as a functional update of the item at that position. *)
Inductive pstep :=
| SIdx (t : tag) (idx : Z)             (* .get_group_by_index(t, idx) *)
| STag (t gt : tag) (gv : str)         (* .get_group_by_tag(t, gt, gv) *)
| SList (t : tag) (n : Z).             (* .get_group_list(t)[n] *)

Fixpoint set_nth {A} (n : nat) (x : A) (l : list A) : list A :=
  match n, l with
  | O, _ :: l' => x :: l'
  | S n', y :: l' => y :: set_nth n' x l'
  | _, [] => []
  end.

Definition py_pos (idx : Z) (len : nat) : nat :=
  if (0 <=? idx)%Z then Z.to_nat idx else Z.to_nat (Z.of_nat len + idx).

(* position of the item get_group_by_index returns *)
Definition idx_pos (idx : Z) (len : nat) : res nat :=
  if (Z.of_nat len <=? idx)%Z || (idx <? - Z.of_nat len)%Z then Exc ETagNotFound else Ok (py_pos idx len).

(* position of list[n] *)
Definition list_pos (n : Z) (len : nat) : res nat :=
  if (Z.of_nat len <=? n)%Z || (n <? - Z.of_nat len)%Z then Exc EIndexError else Ok (py_pos n len).

(* position of the item get_group_by_tag returns *)
Fixpoint find_group_pos (gt : tag) (gv : str) (g : list container) : res nat :=
  match g with
  | [] => Exc ETagNotFound
  | x :: g' =>
      let rest := match find_group_pos gt gv g' with Ok n => Ok (S n) | Exc e => Exc e end in
      if c_contains gt x then
        match c_get gt DRaise x with
        | Exc e => Exc e
        | Ok r => if rval_is r gv then Ok O else rest
        end
      else rest
  end.

Definition step_tag (s : pstep) : tag :=
  match s with SIdx t _ | STag t _ _ | SList t _ => t end.

(* key, group, position and item one accessor call reaches *)
Definition locate (s : pstep) (c : container) : res (str * list container * nat * container) :=
  match c_get_group_list (step_tag s) c with
  | Exc e => Exc e
  | Ok g =>
      match (match s with
             | SIdx _ idx => idx_pos idx (length g)
             | STag _ gt gv => find_group_pos gt gv g
             | SList _ n => list_pos n (length g)
             end) with
      | Exc e => Exc e
      | Ok n =>
          match nth_error g n with
          | Some x => Ok (tag_str (step_tag s), g, n, x)
          | None => Exc EIndexError
          end
      end
  end.

(* call f on the item at the end of the path; c afterwards and f's result, or the error of the
   accessor that failed (nothing changed then) *)
Fixpoint at_path {R : Type} (path : list pstep) (f : container -> container * R) (c : container)
  : container * res R :=
  match path with
  | [] => let (c', r) := f c in (c', Ok r)
  | s :: path' =>
      match locate s c with
      | Exc e => (c, Exc e)
      | Ok (k, g, n, x) =>
          let (x', r) := at_path path' f x in
          (with_items c (assign k (VGrp (set_nth n x' g)) (items c)), r)
      end
  end.

(* ---------------------------------------------------------------- FIXContainer(dict) *)

(* the argument language: a dict literal whose values are plain values or lists whose items are
   dicts, containers taken from the caller's variables, or something else *)
Inductive ditem :=
| IDict (d : list (tag * dval))
| IVar (j : nat)
| IBad
with dval :=
| DVal (v : setval)
| DList (l : list ditem).

Inductive dentry := EVal (v : setval) | EGrp (g : res (list container)).

Section Monadic.
  Context {A B : Type} (f : A -> res B).
  Fixpoint mapM (l : list A) : res (list B) :=
    match l with
    | [] => Ok []
    | x :: l' =>
        match f x with
        | Exc e => Exc e
        | Ok y => match mapM l' with Exc e => Exc e | Ok ys => Ok (y :: ys) end
        end
    end.
End Monadic.

(* one `for t, v in tags.items()` step of __init__ on the object under construction *)
Definition init_step (c : container) (t : tag) (e : dentry) : res container :=
  let (c', r) := match e with
                 | EVal v => c_set t v false c
                 | EGrp g => c_set_group t g c
                 end in
  match r with Ok _ => Ok c' | Exc e => Exc e end.

Section Build.
  Context (conv : dval -> dentry).
  Fixpoint build_from (d : list (tag * dval)) (c : container) : res container :=
    match d with
    | [] => Ok c
    | td :: d' =>
        match init_step c (fst td) (conv (snd td)) with
        | Exc e => Exc e
        | Ok c' => build_from d' c'
        end
    end.
End Build.

Section Conv.
  Context (pool : list container).
  Fixpoint conv_item (i : ditem) : res container :=
    match i with
    | IDict d => build_from conv_dval d empty
    | IVar j => Ok (nth j pool empty)
    | IBad => Exc EFIXMessage
    end
  with conv_dval (dv : dval) : dentry :=
    match dv with
    | DVal v => EVal v
    | DList l => EGrp (mapM conv_item l)
    end.

  (* FIXContainer(d) / FIXMessage(msg_type, d) *)
  Definition c_new (m : option str) (d : list (tag * dval)) : res container :=
    build_from conv_dval d (C m []).
End Conv.

(* ---------------------------------------------------------------- query *)

(* try: t = FTag(str(t))  except: t = str(int(t)) ; the lookup key is str() of the result *)
Definition query_key (t : tag) : res str :=
  let s := tag_str t in
  if in_ftag s then Ok s
  else match t with
       | TObj _ => Exc ETypeError
       | TInt z => Ok (z_to_dec z)
       | _ => match py_int s with Some z => Ok (z_to_dec z) | None => Exc EValueError end
       end.

Fixpoint query_loop (ts : list tag) (c : container) (acc : list (str * rval)) : res (list (str * rval)) :=
  match ts with
  | [] => Ok acc
  | t :: ts' =>
      match query_key t with
      | Exc e => Exc e
      | Ok k =>
          match c_get (TStr k) DNone c with
          | Exc e => Exc e
          | Ok r => query_loop ts' c (assign k r acc)
          end
      end
  end.

Definition c_query (ts : list tag) (c : container) : res (list (str * rval)) :=
  let ts := match ts with [] => map (fun kv => TStr (fst kv)) (items c) | _ => ts end in
  query_loop ts c [].

(* ---------------------------------------------------------------- equality *)

(* FIXContainer._content(): tags and values in order; a repeating group is the list of its items'
   contents (the item's type and msg_type play no part); every Exception subclass stored as a value
   is the same marker; any other class object is itself (identified here by str(cls)) *)
Inductive cont :=
| KStr (s : str)
| KGrp (g : list (list (str * cont)))
| KErr
| KCls (text : str).

Fixpoint content (c : container) : list (str * cont) :=
  match c with
  | C _ l => map (fun kv => (fst kv, content_v (snd kv))) l
  end
with content_v (v : value) : cont :=
  match v with
  | VStr s => KStr s
  | VGrp g => KGrp (map content g)
  | VCls KNonExc text => KCls text
  | VCls _ _ => KErr
  end.

(* Python's == on that structure: lists element by element, tuples component by component,
   a str never equals a list or a class *)
Section ListEq.
  Context {A : Type} (eqb : A -> A -> bool).
  Fixpoint list_eqb (l1 l2 : list A) : bool :=
    match l1, l2 with
    | [], [] => true
    | x :: l1', y :: l2' => eqb x y && list_eqb l1' l2'
    | _, _ => false
    end.
End ListEq.

Fixpoint cont_eqb (a b : cont) : bool :=
  match a, b with
  | KStr s, KStr t => str_eqb s t
  | KGrp g, KGrp h =>
      list_eqb (list_eqb (fun p q => str_eqb (fst p) (fst q) && cont_eqb (snd p) (snd q))) g h
  | KErr, KErr => true
  | KCls s, KCls t => str_eqb s t
  | _, _ => false
  end.

Definition pair_eqb (p q : str * cont) : bool := str_eqb (fst p) (fst q) && cont_eqb (snd p) (snd q).

(* __eq__(FIXContainer): self._content() == other._content()   (fixes/R11) *)
Definition c_eq (a b : container) : bool := list_eqb pair_eqb (content a) (content b).

(* the literal set {FTag.BeginString, FTag.BodyLength, FTag.CheckSum, FTag.MsgType} *)
Definition ignore_tags : list str :=
  map ftag_value
      [[66; 101; 103; 105; 110; 83; 116; 114; 105; 110; 103];      (* BeginString *)
       [66; 111; 100; 121; 76; 101; 110; 103; 116; 104];           (* BodyLength *)
       [67; 104; 101; 99; 107; 83; 117; 109];                      (* CheckSum *)
       [77; 115; 103; 84; 121; 112; 101]].                         (* MsgType *)

Definition core_keys (ks : list str) : list str := filter (fun k => negb (mem k ignore_tags)) ks.
Definition set_eqb (a b : list str) : bool :=
  forallb (fun k => mem k b) a && forallb (fun k => mem k a) b.

Fixpoint eq_dict_loop (other : list (tag * str)) (c : container) : res bool :=
  match other with
  | [] => Ok true
  | (t, v) :: o' =>
      if mem (tag_str t) ignore_tags then eq_dict_loop o' c       (* framing tags are skipped *)
      else
        match c_is_group t c with
        | Some true => Exc EFIXMessage
        | _ =>
            match c_get t DRaise c with
            | Exc e => Exc e
            | Ok r => if rval_is r v then eq_dict_loop o' c else Ok false
            end
        end
  end.

(* other = [(key, str(value))] in dict order *)
Definition c_eq_dict (other : list (tag * str)) (c : container) : res bool :=
  if set_eqb (core_keys (map (fun tv => tag_str (fst tv)) other)) (core_keys (map fst (items c)))
  then eq_dict_loop other c
  else Ok false.
