(* Reasoning framework for the session model (Fix/Session.v) and the handler-level lemmas shared
   by C04, C11 and C05:
   - pres f c     : computation c leaves the world projection f unchanged (whatever its outcome);
   - allev P c    : every event c emits satisfies P;
   both compositional under bind, so a handler's footprint is obtained by a syntax-directed tactic. *)
From Coq Require Import ZArith NArith List Bool Lia ZifyBool.
From AF Require Import Base.Sx Py.Str Fix.Session.
Import ListNotations.
Open Scope Z_scope.

(* ------------------------------------------------------------------ strings *)

Lemma str_eqb_eq a b : str_eqb a b = true <-> a = b.
Proof.
  revert b. induction a as [|x a IH]; destruct b as [|y b]; cbn; split; try congruence; auto.
  - rewrite andb_true_iff, N.eqb_eq. intros [-> H]. apply IH in H. now subst.
  - intros H. inversion H. subst. rewrite andb_true_iff, N.eqb_eq. split; auto. now apply IH.
Qed.

Lemma str_eqb_refl a : str_eqb a a = true.
Proof. now apply str_eqb_eq. Qed.

Lemma str_eqb_neq a b : str_eqb a b = false <-> a <> b.
Proof. rewrite <- str_eqb_eq. destruct (str_eqb a b); split; congruence. Qed.

(* ------------------------------------------------------------------ event projections *)

Fixpoint apps (l : list event) : list msg :=
  match l with [] => [] | App m :: l' => m :: apps l' | _ :: l' => apps l' end.
Fixpoint wires (l : list event) : list msg :=
  match l with [] => [] | Wire m :: l' => m :: wires l' | _ :: l' => wires l' end.
Fixpoint discs (l : list event) : list unit :=
  match l with [] => [] | OnDisconnect :: l' => tt :: discs l' | _ :: l' => discs l' end.
Fixpoint logons (l : list event) : list bool :=
  match l with [] => [] | OnLogon b :: l' => b :: logons l' | _ :: l' => logons l' end.
Fixpoint states (l : list event) : list Z :=
  match l with [] => [] | State s :: l' => s :: states l' | _ :: l' => states l' end.

Definition is_resend (m : msg) : bool := match mkind m with KResend => true | _ => false end.
Definition resends (l : list event) : list msg := filter is_resend (wires l).

Lemma apps_app a b : apps (a ++ b) = apps a ++ apps b.
Proof. induction a as [|[] a IH]; cbn; congruence. Qed.
Lemma wires_app a b : wires (a ++ b) = wires a ++ wires b.
Proof. induction a as [|[] a IH]; cbn; congruence. Qed.
Lemma discs_app a b : discs (a ++ b) = discs a ++ discs b.
Proof. induction a as [|[] a IH]; cbn; congruence. Qed.
Lemma logons_app a b : logons (a ++ b) = logons a ++ logons b.
Proof. induction a as [|[] a IH]; cbn; congruence. Qed.
Lemma states_app a b : states (a ++ b) = states a ++ states b.
Proof. induction a as [|[] a IH]; cbn; congruence. Qed.
Lemma resends_app a b : resends (a ++ b) = resends a ++ resends b.
Proof. unfold resends. now rewrite wires_app, filter_app. Qed.

Definition not_app (e : event) : Prop := match e with App _ => False | _ => True end.
Definition not_wire (e : event) : Prop := match e with Wire _ => False | _ => True end.
Definition not_disc (e : event) : Prop := match e with OnDisconnect => False | _ => True end.
Definition not_logon (e : event) : Prop := match e with OnLogon _ => False | _ => True end.
Definition not_state (e : event) : Prop := match e with State _ => False | _ => True end.
Definition not_resend (e : event) : Prop := match e with Wire m => is_resend m = false | _ => True end.

Lemma apps_nil l : Forall not_app l -> apps l = [].
Proof. induction 1 as [|[] l H _ IH]; cbn in *; auto; contradiction. Qed.
Lemma wires_nil l : Forall not_wire l -> wires l = [].
Proof. induction 1 as [|[] l H _ IH]; cbn in *; auto; contradiction. Qed.
Lemma discs_nil l : Forall not_disc l -> discs l = [].
Proof. induction 1 as [|[] l H _ IH]; cbn in *; auto; contradiction. Qed.
Lemma logons_nil l : Forall not_logon l -> logons l = [].
Proof. induction 1 as [|[] l H _ IH]; cbn in *; auto; contradiction. Qed.
Lemma states_nil l : Forall not_state l -> states l = [].
Proof. induction 1 as [|[] l H _ IH]; cbn in *; auto; contradiction. Qed.
Lemma resends_nil l : Forall not_resend l -> resends l = [].
Proof.
  unfold resends. induction 1 as [|[] l H _ IH]; cbn in *; auto. now rewrite H.
Qed.

(* ------------------------------------------------------------------ monad laws in projection form *)

Lemma bind_unfold {A B} (c : M A) (k : A -> M B) w :
  bind c k w =
  match rv (c w) with
  | inl a => mkR (rv (k a (rw (c w)))) (rw (k a (rw (c w)))) (re (c w) ++ re (k a (rw (c w))))
  | inr x => mkR (inr x) (rw (c w)) (re (c w))
  end.
Proof. reflexivity. Qed.

Ltac stlia :=
  unfold ST_DISC_WCONN, ST_DISC_BROKEN, ST_NCE, ST_LOGON_SENT, ST_LOGON_RECV, ST_HANDLING, ST_TOO_HIGH,
    ST_AWAITING, ST_ACTIVE, ROLE_INITIATOR, ROLE_ACCEPTOR in *; lia.

Ltac msimp :=
  repeat first [rewrite bind_unfold | progress cbn [ret raise emit getw modw lift try_ rv rw re app snd fst]].

(* ------------------------------------------------------------------ pres: preserved projections *)

Definition pres {X A} (f : world -> X) (c : M A) : Prop := forall w, f (rw (c w)) = f w.

Lemma pres_ret {X A} (f : world -> X) (a : A) : pres f (ret a).
Proof. intro; reflexivity. Qed.
Lemma pres_raise {X A} (f : world -> X) x : pres f (@raise A x).
Proof. intro; reflexivity. Qed.
Lemma pres_getw {X} (f : world -> X) : pres f getw.
Proof. intro; reflexivity. Qed.
Lemma pres_emit {X} (f : world -> X) e : pres f (emit e).
Proof. intro; reflexivity. Qed.
Lemma pres_lift {X A} (f : world -> X) (v : A + exn) : pres f (lift v).
Proof. destruct v; intro; reflexivity. Qed.
Lemma pres_modw {X} (f : world -> X) g : (forall w, f (g w) = f w) -> pres f (modw g).
Proof. intros H w. apply H. Qed.
Lemma pres_bind {X A B} (f : world -> X) (c : M A) (k : A -> M B) :
  pres f c -> (forall a, pres f (k a)) -> pres f (bind c k).
Proof.
  intros Hc Hk w. rewrite bind_unfold. destruct (rv (c w)); cbn; [rewrite Hk|]; apply Hc.
Qed.
Lemma pres_finally {X A} (f : world -> X) (c : M A) (g : M unit) : pres f c -> pres f g -> pres f (finally_ c g).
Proof. intros Hc Hg w. unfold finally_. destruct (rv (g (rw (c w)))); cbn [rw]; rewrite Hg; apply Hc. Qed.
Lemma pres_try {X A} (f : world -> X) (c : M A) : pres f c -> pres f (try_ c).
Proof. intros H w. unfold try_. destruct (rv (c w)); cbn; apply H. Qed.

(* ------------------------------------------------------------------ allev: emitted events *)

Definition allev {A} (P : event -> Prop) (c : M A) : Prop := forall w, Forall P (re (c w)).

Lemma allev_ret {A} P (a : A) : allev P (ret a).
Proof. intro; constructor. Qed.
Lemma allev_raise {A} P x : allev P (@raise A x).
Proof. intro; constructor. Qed.
Lemma allev_getw P : allev P getw.
Proof. intro; constructor. Qed.
Lemma allev_modw P g : allev P (modw g).
Proof. intro; constructor. Qed.
Lemma allev_emit (P : event -> Prop) e : P e -> allev P (emit e).
Proof. intros H w. cbn. auto. Qed.
Lemma allev_lift {A} P (v : A + exn) : allev P (lift v).
Proof. destruct v; intro; constructor. Qed.
Lemma allev_bind {A B} P (c : M A) (k : A -> M B) :
  allev P c -> (forall a, allev P (k a)) -> allev P (bind c k).
Proof.
  intros Hc Hk w. rewrite bind_unfold. destruct (rv (c w)); cbn; [apply Forall_app; split|]; auto.
  apply Hk.
Qed.
Lemma allev_finally {A} P (c : M A) (g : M unit) : allev P c -> allev P g -> allev P (finally_ c g).
Proof.
  intros Hc Hg w. unfold finally_. destruct (rv (g (rw (c w)))); cbn [re]; apply Forall_app; split; auto.
Qed.
Lemma allev_try {A} P (c : M A) : allev P c -> allev P (try_ c).
Proof. intros H w. unfold try_. destruct (rv (c w)); cbn; apply H. Qed.
Lemma allev_weaken {A} (P Q : event -> Prop) (c : M A) :
  (forall e, P e -> Q e) -> allev P c -> allev Q c.
Proof. intros H Hc w. eapply Forall_impl; [apply H | apply Hc]. Qed.

(* a postcondition on the bound value *)
Lemma allev_bind_post {A B} P (Q : A -> Prop) (c : M A) (k : A -> M B) :
  allev P c -> (forall w a, rv (c w) = inl a -> Q a) -> (forall a, Q a -> allev P (k a)) ->
  allev P (bind c k).
Proof.
  intros Hc HQ Hk w. rewrite bind_unfold. destruct (rv (c w)) eqn:E; cbn; [apply Forall_app; split|]; auto.
  apply Hk. eapply HQ; eauto.
Qed.
Lemma pres_bind_post {X A B} (f : world -> X) (Q : A -> Prop) (c : M A) (k : A -> M B) :
  pres f c -> (forall w a, rv (c w) = inl a -> Q a) -> (forall a, Q a -> pres f (k a)) ->
  pres f (bind c k).
Proof.
  intros Hc HQ Hk w. rewrite bind_unfold. destruct (rv (c w)) eqn:E; cbn; [|apply Hc].
  rewrite Hk; [apply Hc | eapply HQ; eauto].
Qed.

(* binding a pure value keeps the equation (the generic bind rules forget which value is bound) *)
Lemma allev_bind_lift {A B} P (v : A + exn) (k : A -> M B) :
  (forall a, v = inl a -> allev P (k a)) -> allev P (bind (lift v) k).
Proof.
  intros H w. rewrite bind_unfold. destruct v as [a|x]; cbn; [apply H; reflexivity | constructor].
Qed.
Lemma pres_bind_lift {X A B} (f : world -> X) (v : A + exn) (k : A -> M B) :
  (forall a, v = inl a -> pres f (k a)) -> pres f (bind (lift v) k).
Proof.
  intros H w. rewrite bind_unfold. destruct v as [a|x]; cbn; [apply H; reflexivity | reflexivity].
Qed.

(* ------------------------------------------------------------------ syntax-directed tactics *)

Create HintDb pres discriminated.
Create HintDb allev discriminated.

Ltac pres_step :=
  match goal with
  | |- pres _ (bind _ _) => apply pres_bind; [|intros ?]
  | |- pres _ (ret _) => apply pres_ret
  | |- pres _ (raise _) => apply pres_raise
  | |- pres _ getw => apply pres_getw
  | |- pres _ (emit _) => apply pres_emit
  | |- pres _ (lift _) => apply pres_lift
  | |- pres _ (try_ _) => apply pres_try
  | |- pres _ (modw _) => apply pres_modw; intros ?; reflexivity
  | |- pres _ (if ?c then _ else _) => destruct c
  | |- pres _ (match ?x with _ => _ end) => destruct x
  | |- pres _ (let (_, _) := ?x in _) => destruct x
  | |- pres _ _ => solve [eauto with pres]
  end.
Ltac pres_tac := repeat pres_step.

Ltac allev_step :=
  match goal with
  | |- allev _ (bind _ _) => apply allev_bind; [|intros ?]
  | |- allev _ (ret _) => apply allev_ret
  | |- allev _ (raise _) => apply allev_raise
  | |- allev _ getw => apply allev_getw
  | |- allev _ (modw _) => apply allev_modw
  | |- allev _ (emit _) => apply allev_emit; cbn; auto
  | |- allev _ (lift _) => apply allev_lift
  | |- allev _ (try_ _) => apply allev_try
  | |- allev _ (if ?c then _ else _) => destruct c
  | |- allev _ (match ?x with _ => _ end) => destruct x
  | |- allev _ (let (_, _) := ?x in _) => destruct x
  | |- allev _ _ => solve [eauto with allev]
  end.
Ltac allev_tac := repeat allev_step.

(* ------------------------------------------------------------------ which fields a projection ignores *)

Inductive fld := FSt | FRole | FNin | FNout | FMaxres | FTreq | FWasact | FLastt | FWr
               | FJsout | FJsin | FJout | FJin.

Definition ins {X} (f : world -> X) (d : fld) : Prop :=
  match d with
  | FSt => forall v w, f (set_st v w) = f w
  | FRole => forall v w, f (set_role v w) = f w
  | FNin => forall v w, f (set_nin v w) = f w
  | FNout => forall v w, f (set_nout v w) = f w
  | FMaxres => forall v w, f (set_maxres v w) = f w
  | FTreq => forall v w, f (set_treq v w) = f w
  | FWasact => forall v w, f (set_wasact v w) = f w
  | FLastt => forall v w, f (set_lastt v w) = f w
  | FWr => forall v w, f (set_wr v w) = f w
  | FJsout => forall v w, f (set_jsout v w) = f w
  | FJsin => forall v w, f (set_jsin v w) = f w
  | FJout => forall v w, f (set_jout v w) = f w
  | FJin => forall v w, f (set_jin v w) = f w
  end.

(* ins_all f [fields]: f ignores every listed field *)
Fixpoint ins_all {X} (f : world -> X) (ds : list fld) : Prop :=
  match ds with [] => True | d :: ds' => ins f d /\ ins_all f ds' end.

Ltac ins_solve := cbn [ins_all ins]; repeat split; intros; reflexivity.
Ltac ins_auto := cbn [ins_all ins]; repeat split; auto; try congruence.

(* modw with a chain of setters *)
Ltac pres_modw_with H :=
  apply pres_modw; intros ?; cbn [ins_all ins] in H;
  repeat match goal with H : _ /\ _ |- _ => destruct H end;
  repeat match goal with
         | H : forall v w, ?f (_ v w) = ?f w |- _ => rewrite !H
         end; try reflexivity.

(* ------------------------------------------------------------------ handler footprints (pres) *)

Section Footprints.
  Context {X : Type} (f : world -> X) (c : cfg).

  Lemma state_set_pres s : ins_all f [FSt; FWasact] -> pres f (state_set s).
  Proof.
    intros H. unfold state_set. pres_step; [|pres_tac]. pres_modw_with H.
    destruct (s =? ST_ACTIVE); rewrite ?H0, ?H; reflexivity.
  Qed.

  Lemma persist_out_pres seq m : ins_all f [FJsout; FJout] -> pres f (persist_out seq m).
  Proof.
    intros [H1 [H2 _]] w. cbn in H1, H2. unfold persist_out.
    destruct (negb (in_i64 seq)); [reflexivity|]. destruct (has_key _ _); [reflexivity|].
    cbn [rw]. now rewrite H1, H2.
  Qed.

  Lemma persist_in_pres m : ins_all f [FJsin; FJin] -> pres f (persist_in m).
  Proof.
    intros [H1 [H2 _]] w. cbn in H1, H2. unfold persist_in.
    destruct (get T34 (mtags m)); [|reflexivity]. destruct (py_int_bytes s); [|reflexivity].
    destruct (negb (in_i64 z)); [reflexivity|]. destruct (existsb _ _); [reflexivity|].
    cbn [rw]. now rewrite H1, H2.
  Qed.

  Lemma set_seq_num_pres o i :
    ins_all f [FJsout; FJsin; FJout; FJin] ->
    (o <> None -> ins f FNout) -> (i <> None -> ins f FNin) -> pres f (set_seq_num o i).
  Proof.
    intros H Ho Hi. unfold set_seq_num.
    pres_step.
    { destruct o; [|pres_tac]. destruct (z <=? 0); [pres_tac|].
      apply pres_modw. intros w. apply Ho. discriminate. }
    pres_step.
    { destruct i; [|pres_tac]. destruct (z <=? 0); [pres_tac|].
      apply pres_modw. intros w. apply Hi. discriminate. }
    cbn in H. destruct H as [H1 [H2 [H3 [H4 _]]]].
    pres_step; [pres_tac|]. pres_step; [pres_tac|].
    pres_step. { apply pres_modw. intros w. now rewrite H1, H2. }
    pres_step; [pres_tac|].
    pres_step. { apply pres_modw. intros w. now rewrite H4. }
    pres_step; [pres_tac|].
    apply pres_modw. intros w. now rewrite H3.
  Qed.

  Lemma recover_out_pres lo hi : pres f (recover_out lo hi).
  Proof. intros w. unfold recover_out. destruct (negb _); reflexivity. Qed.

  Lemma encode_pres m : ins_all f [FNout] -> pres f (encode c m).
  Proof.
    intros [H _]. cbn in H. unfold encode. destruct (raw_seq m); [pres_tac|].
    pres_step; [pres_tac|]. pres_step; [|pres_tac]. apply pres_modw. intros w. apply H.
  Qed.

  Lemma send_write_pres m : ins_all f [FNout; FJsout; FJout] -> pres f (send_write c m).
  Proof.
    intros H. cbn in H. destruct H as [H3 [H4 [H5 _]]].
    unfold send_write. pres_step; [apply encode_pres; ins_auto|].
    pres_step; [destruct (skip_journal m); [apply pres_ret|apply persist_out_pres; ins_auto]|].
    pres_tac.
  Qed.

  Lemma send_tail_pres m w0 : ins_all f [FNout; FJsout; FJout] -> pres f (send_tail c m w0).
  Proof.
    intros H. unfold send_tail. pres_step; [pres_tac|]. now apply send_write_pres.
  Qed.

  Lemma send_gate_pres m w0 : ins_all f [FSt; FRole] -> pres f (send_gate m w0).
  Proof.
    intros H. cbn in H. destruct H as [H1 [H2 _]].
    assert (Hs : forall s, s <> ST_ACTIVE -> pres f (state_set s)).
    { intros s Hs. unfold state_set. pres_step; [|pres_tac]. apply pres_modw. intros w.
      destruct (s =? ST_ACTIVE) eqn:E; [lia|]. apply H1. }
    unfold send_gate.
    destruct (st w0 <? ST_NCE); [pres_tac|]. destruct (st w0 =? ST_NCE).
    - destruct (mkind m); try solve [pres_tac];
        (pres_step; [apply Hs; unfold ST_LOGON_SENT, ST_ACTIVE; lia|]; apply pres_modw; intros w; apply H2).
    - pres_tac.
  Qed.

  Lemma send_msg_pres m : ins_all f [FSt; FRole; FNout; FJsout; FJout] -> pres f (send_msg c m).
  Proof.
    intros H. cbn in H. destruct H as [H1 [H2 [H3 [H4 [H5 _]]]]].
    unfold send_msg. pres_step; [pres_tac|]. pres_step; [apply send_gate_pres; ins_auto|].
    apply send_tail_pres; ins_auto.
  Qed.

  Lemma send_test_req_pres now :
    ins_all f [FSt; FRole; FNout; FJsout; FJout; FTreq] -> pres f (send_test_req c now).
  Proof.
    intros H. cbn in H. destruct H as [H1 [H2 [H3 [H4 [H5 [H6 _]]]]]].
    unfold send_test_req. pres_step; [pres_tac|]. destruct (treq a); [pres_tac|].
    pres_step; [apply pres_modw; intros w; apply H6|]. apply send_msg_pres. ins_auto.
  Qed.

  Lemma disconnect_pres ds lm :
    ins_all f [FSt; FRole; FNout; FJsout; FJout; FTreq; FLastt; FMaxres; FWr; FWasact] ->
    pres f (disconnect c ds lm).
  Proof.
    intros H. cbn in H. destruct H as [H1 [H2 [H3 [H4 [H5 [H6 [H7 [H8 [H9 [H10 _]]]]]]]]]].
    unfold disconnect. pres_step; [pres_tac|]. destruct (st a <=? ST_DISC_BROKEN); [pres_tac|].
    pres_step; [pres_tac|].
    pres_step. { apply pres_modw. intros w. now rewrite H8, H7, H6. }
    pres_step. { destruct lm; [|pres_tac]. apply send_msg_pres. ins_auto. }
    pres_step. { apply pres_modw. intros w. apply H9. }
    pres_step; [|pres_tac]. apply state_set_pres. ins_auto.
  Qed.

  Lemma process_logon_pres m :
    ins_all f [FSt; FRole; FNout; FJsout; FJout; FWasact] -> pres f (process_logon c m).
  Proof.
    intros H. cbn in H. destruct H as [H1 [H2 [H3 [H4 [H5 [H6 _]]]]]].
    assert (Hs : forall s, pres f (state_set s)) by (intros; apply state_set_pres; ins_auto).
    assert (Hm : forall m', pres f (send_msg c m')) by (intros; apply send_msg_pres; ins_auto).
    unfold process_logon. pres_tac; auto.
  Qed.

  Lemma check_gaps_pres n :
    ins_all f [FSt; FRole; FNout; FJsout; FJout; FWasact; FMaxres] -> pres f (check_gaps c n).
  Proof.
    intros H. cbn in H. destruct H as [H1 [H2 [H3 [H4 [H5 [H6 [H7 _]]]]]]].
    assert (Hs : forall s, pres f (state_set s)) by (intros; apply state_set_pres; ins_auto).
    assert (Hm : forall m', pres f (send_msg c m')) by (intros; apply send_msg_pres; ins_auto).
    unfold check_gaps. pres_step; [pres_tac|]. destruct (nin a <? n); [|pres_tac].
    pres_step; [|pres_tac]. destruct (negb _); [|pres_tac].
    pres_step; [apply pres_modw; intros w; apply H7|]. pres_tac; auto.
  Qed.

  Lemma process_logout_pres m :
    ins_all f [FSt; FTreq; FLastt; FMaxres; FWr; FWasact] -> pres f (process_logout c m).
  Proof.
    intros H. cbn in H. destruct H as [H1 [H6 [H7 [H8 [H9 [H10 _]]]]]].
    unfold process_logout. pres_step; [pres_tac|]. pres_step; [pres_tac|].
    unfold disconnect. pres_step; [pres_tac|]. destruct (st a1 <=? ST_DISC_BROKEN); [pres_tac|].
    pres_step; [pres_tac|].
    pres_step. { apply pres_modw. intros w. now rewrite H8, H7, H6. }
    pres_step; [pres_tac|].
    pres_step. { apply pres_modw. intros w. apply H9. }
    pres_step; [|pres_tac]. apply state_set_pres. ins_auto.
  Qed.

  Lemma process_seqreset_pres m :
    ins_all f [FNin; FJsout; FJsin; FJout; FJin] -> pres f (process_seqreset c m).
  Proof.
    intros H. cbn in H. destruct H as [H1 [H2 [H3 [H4 [H5 _]]]]].
    assert (Hq : forall i, pres f (set_seq_num None i)).
    { intros. apply set_seq_num_pres; ins_auto. }
    unfold process_seqreset. pres_tac; auto.
  Qed.

  Lemma process_testrequest_pres m :
    ins_all f [FSt; FRole; FNout; FJsout; FJout] -> pres f (process_testrequest c m).
  Proof. intros H. unfold process_testrequest. now apply send_msg_pres. Qed.

  Lemma process_heartbeat_pres m :
    ins_all f [FSt; FRole; FNout; FJsout; FJout; FTreq; FLastt; FMaxres; FWr; FWasact] ->
    pres f (process_heartbeat c m).
  Proof.
    intros H. pose proof (disconnect_pres ST_DISC_BROKEN (Some R_TESTID) H) as Hd.
    cbn in H. destruct H as [H1 [H2 [H3 [H4 [H5 [H6 _]]]]]].
    unfold process_heartbeat. pres_step; [pres_tac|]. destruct (treq a); [|pres_tac].
    destruct (get T112 (mtags m)); [|pres_tac]. destruct (negb _); [exact Hd|].
    apply pres_modw. intros w. apply H6.
  Qed.

  Lemma replay_loop_pres rows : forall gfb gfe,
    ins_all f [FSt; FRole; FNout; FJsout; FJout] -> pres f (replay_loop c rows gfb gfe).
  Proof.
    induction rows as [|r rows IH]; intros gfb gfe H; cbn [replay_loop]; cbv zeta; [pres_tac|].
    assert (Hm : forall m', pres f (send_msg c m')) by (intros; now apply send_msg_pres).
    pres_tac; auto.
  Qed.

  Lemma process_resend_pres m :
    ins_all f [FSt; FRole; FNout; FJsout; FJsin; FJout; FJin; FWasact] -> pres f (process_resend c m).
  Proof.
    intros H. cbn in H. destruct H as [H1 [H2 [H3 [H4 [H5 [H6 [H7 [H8 _]]]]]]]].
    assert (Hs : forall s, pres f (state_set s)) by (intros; apply state_set_pres; ins_auto).
    assert (Hm : forall m', pres f (send_msg c m')) by (intros; apply send_msg_pres; ins_auto).
    assert (Hq : forall o, pres f (set_seq_num o None)).
    { intros. apply set_seq_num_pres; ins_auto. }
    assert (Hl : forall rows a b, pres f (replay_loop c rows a b)).
    { intros. apply replay_loop_pres. ins_auto. }
    assert (Hr : forall a b, pres f (recover_out a b)) by (intros; apply recover_out_pres).
    unfold process_resend. pres_tac; auto.
  Qed.

  Lemma set_next_num_in_pres m : ins_all f [FNin] -> pres f (set_next_num_in m).
  Proof.
    intros [H _]. cbn in H. unfold set_next_num_in.
    assert (Hn : forall v, pres f (modw (set_nin v))) by (intros v; apply pres_modw; intros; apply H).
    pres_tac; auto.
  Qed.

  Lemma logout_counted_pres m :
    ins_all f [FNin; FJsin; FJin; FSt; FTreq; FLastt; FMaxres; FWr; FWasact] -> pres f (logout_counted c m).
  Proof.
    intros H. cbn in H. destruct H as [H1 [H2 [H3 [H4 [H5 [H6 [H7 [H8 [H9 _]]]]]]]]].
    unfold logout_counted. pres_step; [pres_tac|]. pres_step; [pres_tac|].
    pres_step; [|apply process_logout_pres; ins_auto].
    destruct (a =? nin a0); [|pres_tac].
    pres_step; [|pres_tac]. apply pres_try.
    pres_step; [apply set_next_num_in_pres; ins_auto|apply persist_in_pres; ins_auto].
  Qed.

  Lemma finalize_tail_pres m now r :
    ins_all f [FSt; FWasact; FMaxres; FLastt; FJsin; FJin] -> pres f (finalize_tail m now r).
  Proof.
    intros H. cbn in H. destruct H as [H2 [H3 [H4 [H5 [H6 [H7 _]]]]]].
    assert (Hs : forall s, pres f (state_set s)) by (intros; apply state_set_pres; ins_auto).
    unfold finalize_tail. pres_step; [pres_tac|].
    pres_step.
    { destruct (st a =? ST_AWAITING); [|pres_tac]. destruct (negb _); [pres_tac|].
      destruct (maxres a <=? r); [|pres_tac]. pres_step; [|auto].
      apply pres_modw. intros w. apply H4. }
    pres_step. { apply pres_modw. intros w. apply H5. }
    apply persist_in_pres. ins_auto.
  Qed.

  Lemma finalize_pres m now :
    ins_all f [FNin; FSt; FWasact; FMaxres; FLastt; FJsin; FJin] -> pres f (finalize m now).
  Proof.
    intros H. cbn in H. destruct H as [H1 [H2 [H3 [H4 [H5 [H6 [H7 _]]]]]]].
    unfold finalize. pres_step; [apply set_next_num_in_pres; ins_auto|].
    destruct (a <=? 0); [pres_tac|]. apply finalize_tail_pres. ins_auto.
  Qed.

  Lemma dispatch_pres m valid :
    ins_all f [FSt; FRole; FNout; FJsout; FJsin; FJout; FJin; FWasact; FTreq; FLastt; FMaxres; FWr] ->
    pres f (dispatch c m valid).
  Proof.
    intros H. cbn in H. destruct H as [H1 [H2 [H3 [H4 [H5 [H6 [H7 [H8 [H9 [H10 [H11 [H12 _]]]]]]]]]]]].
    unfold dispatch. destruct (mkind m); try solve [pres_tac].
    - apply pres_finally; [apply process_resend_pres; ins_auto|].
      unfold restore_handling. pres_step; [pres_tac|]. destruct (st a =? ST_HANDLING); [|pres_tac].
      apply state_set_pres. ins_auto.
    - apply process_testrequest_pres. ins_auto.
    - apply process_heartbeat_pres. ins_auto.
  Qed.
End Footprints.

(* ------------------------------------------------------------------ handler event footprints (allev) *)

Section Events.
  Context (P : event -> Prop) (c : cfg).

  Lemma state_set_allev s : P (State s) -> allev P (state_set s).
  Proof. intros H. unfold state_set. allev_tac. Qed.

  Lemma persist_out_allev seq m : allev P (persist_out seq m).
  Proof.
    intros w. unfold persist_out. destruct (negb _); [constructor|]. destruct (has_key _ _); constructor.
  Qed.

  Lemma persist_in_allev m : allev P (persist_in m).
  Proof.
    intros w. unfold persist_in. destruct (get T34 (mtags m)); [|constructor].
    destruct (py_int_bytes s); [|constructor]. destruct (negb _); [constructor|].
    destruct (existsb _ _); constructor.
  Qed.

  Lemma set_seq_num_allev o i : allev P (set_seq_num o i).
  Proof. unfold set_seq_num. allev_tac. Qed.

  Lemma recover_out_allev lo hi : allev P (recover_out lo hi).
  Proof. intros w. unfold recover_out. destruct (negb _); constructor. Qed.

  Lemma encode_allev m : allev P (encode c m).
  Proof. unfold encode. allev_tac. Qed.

  (* send_msg emits at most: State LOGON_INITIAL_SENT, Wire of a message of the same type *)
  Lemma encode_mtype m w sm : rv (encode c m w) = inl sm -> mtype (snd sm) = mtype m.
  Proof.
    unfold encode. destruct (raw_seq m).
    - destruct (get T34 (mtags m)); [|discriminate]. destruct (py_int s); [|discriminate].
      cbn. now inversion 1.
    - cbn. now inversion 1.
  Qed.

  Lemma send_gate_allev m w0 : P (State ST_LOGON_SENT) -> allev P (send_gate m w0).
  Proof.
    intros H1. unfold send_gate.
    destruct (st w0 <? ST_NCE); [allev_tac|]. destruct (st w0 =? ST_NCE); [|allev_tac].
    destruct (mkind m); try solve [allev_tac];
      (allev_step; [apply state_set_allev; auto | allev_tac]).
  Qed.

  Lemma send_write_allev m : (forall tags, P (Wire (mkMsg (mtype m) tags))) -> allev P (send_write c m).
  Proof.
    intros H2. unfold send_write.
    apply allev_bind_post with (Q := fun sm => mtype (snd sm) = mtype m);
      [apply encode_allev | intros; eapply encode_mtype; eauto |].
    intros [n wm] Hm. cbn [snd fst] in *.
    allev_step; [destruct (skip_journal m); [apply allev_ret|apply persist_out_allev]|].
    allev_step; [allev_tac|]. allev_step; [allev_tac|].
    apply allev_emit. destruct wm as [t tags]. cbn in Hm. subst t. apply H2.
  Qed.

  Lemma send_tail_allev m w0 : (forall tags, P (Wire (mkMsg (mtype m) tags))) -> allev P (send_tail c m w0).
  Proof.
    intros H2. unfold send_tail. allev_step; [allev_tac|]. now apply send_write_allev.
  Qed.

  Lemma send_msg_allev m :
    P (State ST_LOGON_SENT) -> (forall tags, P (Wire (mkMsg (mtype m) tags))) -> allev P (send_msg c m).
  Proof.
    intros H1 H2. unfold send_msg.
    allev_step; [allev_tac|]. allev_step; [apply send_gate_allev; auto|]. apply send_tail_allev; auto.
  Qed.

  Lemma send_test_req_allev now :
    P (State ST_LOGON_SENT) -> (forall tags, P (Wire (mkMsg MT_TESTREQUEST tags))) ->
    allev P (send_test_req c now).
  Proof.
    intros H1 H2. unfold send_test_req. allev_step; [allev_tac|]. destruct (treq a); [allev_tac|].
    allev_step; [allev_tac|]. apply send_msg_allev; auto.
  Qed.

  Lemma disconnect_allev ds lm :
    P (State ST_LOGON_SENT) -> (forall tags, P (Wire (mkMsg MT_LOGOUT tags))) ->
    P (State ds) -> P OnDisconnect -> allev P (disconnect c ds lm).
  Proof.
    intros H1 H2 H3 H4. unfold disconnect. allev_step; [allev_tac|].
    destruct (st a <=? ST_DISC_BROKEN); [allev_tac|].
    allev_step; [allev_tac|]. allev_step; [allev_tac|].
    allev_step. { destruct lm; [|allev_tac]. apply send_msg_allev; auto. }
    allev_step; [allev_tac|]. allev_step; [apply state_set_allev; auto|]. allev_tac.
  Qed.

  (* disconnect without a Logout message *)
  Lemma disconnect_none_allev ds :
    P (State ds) -> P OnDisconnect -> allev P (disconnect c ds None).
  Proof.
    intros H3 H4. unfold disconnect. allev_step; [allev_tac|].
    destruct (st a <=? ST_DISC_BROKEN); [allev_tac|].
    allev_step; [allev_tac|]. allev_step; [allev_tac|]. allev_step; [allev_tac|].
    allev_step; [allev_tac|]. allev_step; [apply state_set_allev; auto|]. allev_tac.
  Qed.

  Lemma process_logon_allev m :
    P (State ST_LOGON_SENT) -> (forall tags, P (Wire (mkMsg MT_LOGON tags))) ->
    P (State ST_ACTIVE) -> P (State ST_TOO_HIGH) -> (forall b, P (OnLogon b)) ->
    allev P (process_logon c m).
  Proof.
    intros H1 H2 H3 H4 H5.
    assert (Hm : forall tags, allev P (send_msg c (mkMsg MT_LOGON tags))) by (intros; apply send_msg_allev; auto).
    assert (Ha : allev P (state_set ST_ACTIVE)) by (apply state_set_allev; auto).
    assert (Hb : allev P (state_set ST_TOO_HIGH)) by (apply state_set_allev; auto).
    unfold process_logon. allev_tac; auto.
  Qed.

  Lemma check_gaps_allev n :
    P (State ST_LOGON_SENT) -> (forall tags, P (Wire (mkMsg MT_RESENDREQUEST tags))) ->
    P (State ST_AWAITING) -> allev P (check_gaps c n).
  Proof.
    intros H1 H2 H3.
    assert (Hm : forall tags, allev P (send_msg c (mkMsg MT_RESENDREQUEST tags))) by (intros; apply send_msg_allev; auto).
    assert (Ha : allev P (state_set ST_AWAITING)) by (apply state_set_allev; auto).
    unfold check_gaps. allev_tac; auto.
  Qed.

  Lemma process_logout_allev m :
    P OnLogout -> P (State ST_DISC_WCONN) -> P (State ST_DISC_BROKEN) -> P OnDisconnect ->
    allev P (process_logout c m).
  Proof.
    intros H1 H2 H3 H4. unfold process_logout. allev_step; [allev_tac|]. allev_step; [allev_tac|].
    destruct (wasact a); apply disconnect_none_allev; auto.
  Qed.

  Lemma process_seqreset_allev m : allev P (process_seqreset c m).
  Proof.
    assert (Hq : forall o i, allev P (set_seq_num o i)) by (intros; apply set_seq_num_allev).
    unfold process_seqreset. allev_tac; auto.
  Qed.

  Lemma process_testrequest_allev m :
    P (State ST_LOGON_SENT) -> (forall tags, P (Wire (mkMsg MT_HEARTBEAT tags))) ->
    allev P (process_testrequest c m).
  Proof. intros. unfold process_testrequest. apply send_msg_allev; auto. Qed.

  Lemma process_heartbeat_allev m :
    P (State ST_LOGON_SENT) -> (forall tags, P (Wire (mkMsg MT_LOGOUT tags))) ->
    P (State ST_DISC_BROKEN) -> P OnDisconnect -> allev P (process_heartbeat c m).
  Proof.
    intros H1 H2 H3 H4.
    assert (Hd : forall lm, allev P (disconnect c ST_DISC_BROKEN lm)) by (intros; apply disconnect_allev; auto).
    unfold process_heartbeat. allev_tac; auto.
  Qed.

  (* the replay loop only writes gap fills and messages whose type is not a session type *)
  Lemma del_tags_mtype ts : forall (x y : msg), del_tags ts x = inl y -> mtype y = mtype x.
  Proof.
    induction ts as [|t ts IHt]; intros x y Hx; cbn in Hx; [now inversion Hx|].
    unfold del_tag in Hx. destruct (has t (mtags x)); [|discriminate].
    apply IHt in Hx. exact Hx.
  Qed.

  Lemma set_tag_mtype t v (x y : msg) : set_tag t v x = inl y -> mtype y = mtype x.
  Proof. unfold set_tag. destruct (has t (mtags x)); [discriminate|]. now inversion 1. Qed.

  Lemma replay_loop_allev rows : forall gfb gfe,
    P (State ST_LOGON_SENT) -> (forall tags, P (Wire (mkMsg MT_SEQUENCERESET tags))) ->
    (forall t tags, is_noreply t = false -> P (Wire (mkMsg t tags))) ->
    allev P (replay_loop c rows gfb gfe).
  Proof.
    induction rows as [|r rows IH]; intros gfb gfe H1 H2 H3; cbn [replay_loop]; cbv zeta; [allev_tac|].
    assert (Hg : forall a b, allev P (send_msg c (gap_fill a b))) by (intros; apply send_msg_allev; auto).
    allev_step; [allev_tac|].
    apply allev_bind_lift. intros t Ht.
    assert (t = mtype (snd r)) as ->.
    { unfold get_tag in Ht. cbn in Ht. now inversion Ht. }
    destruct (is_noreply (mtype (snd r)) || negb (c_replay c (decode_row c r))) eqn:E; [apply IH; auto|].
    apply orb_false_iff in E. destruct E as [E _].
    cbv zeta. allev_step; [destruct (_ <? _); [apply Hg|allev_tac]|].
    allev_step; [allev_tac|].
    apply allev_bind_lift. intros m3 Hm3.
    allev_step; [|apply IH; auto].
    apply send_msg_allev; auto. intros tags. apply H3.
    apply del_tags_mtype in Hm3. rewrite Hm3. exact E.
  Qed.

  Lemma process_resend_allev m :
    P (State ST_LOGON_SENT) -> (forall tags, P (Wire (mkMsg MT_SEQUENCERESET tags))) ->
    (forall t tags, is_noreply t = false -> P (Wire (mkMsg t tags))) ->
    P (State ST_HANDLING) -> P (State ST_ACTIVE) ->
    allev P (process_resend c m).
  Proof.
    intros H1 H2 H3 H4 H5.
    assert (Hg : forall a b, allev P (send_msg c (gap_fill a b))) by (intros; apply send_msg_allev; auto).
    assert (Hq : forall o i, allev P (set_seq_num o i)) by (intros; apply set_seq_num_allev).
    assert (Hl : forall rows a b, allev P (replay_loop c rows a b)) by (intros; apply replay_loop_allev; auto).
    assert (Hr : forall a b, allev P (recover_out a b)) by (intros; apply recover_out_allev).
    assert (Ha : allev P (state_set ST_ACTIVE)) by (apply state_set_allev; auto).
    assert (Hb : allev P (state_set ST_HANDLING)) by (apply state_set_allev; auto).
    unfold process_resend. allev_tac; auto.
  Qed.

  Lemma set_next_num_in_allev m : allev P (set_next_num_in m).
  Proof. unfold set_next_num_in. allev_tac. Qed.

  Lemma logout_counted_allev m :
    P OnLogout -> P (State ST_DISC_WCONN) -> P (State ST_DISC_BROKEN) -> P OnDisconnect ->
    allev P (logout_counted c m).
  Proof.
    intros H1 H2 H3 H4. unfold logout_counted. allev_step; [allev_tac|]. allev_step; [allev_tac|].
    allev_step; [|apply process_logout_allev; auto].
    destruct (a =? nin a0); [|allev_tac].
    allev_step; [|allev_tac]. apply allev_try.
    allev_step; [apply set_next_num_in_allev|apply persist_in_allev].
  Qed.

  Lemma finalize_tail_allev m now r : P (State ST_ACTIVE) -> allev P (finalize_tail m now r).
  Proof.
    intros H.
    assert (Ha : allev P (state_set ST_ACTIVE)) by (apply state_set_allev; auto).
    assert (Hp : allev P (persist_in m)) by apply persist_in_allev.
    unfold finalize_tail. allev_tac; auto.
  Qed.

  Lemma finalize_allev m now : P (State ST_ACTIVE) -> allev P (finalize m now).
  Proof.
    intros H.
    assert (Hn : allev P (set_next_num_in m)) by apply set_next_num_in_allev.
    assert (Ht : forall r, allev P (finalize_tail m now r)) by (intros; apply finalize_tail_allev; auto).
    unfold finalize. allev_tac; auto.
  Qed.
End Events.
