"""C09 - restarting an endpoint is transparent to the session.

Theorems (Props/C09.v) are about the counter-ledger model coq/theories/Fix/Restart.v.  This harness ties that
model to asyncfix/connection.py + journaler.py + session.py and decides the property on the implementation:

  * a real connection object (AsyncFIXClient = initiator / AsyncFIXDummyServer = acceptor, FIXProtocol44) is built
    by the public constructor over a REAL journal file (temp dir under /dev/shm); no socket: the stream writer is
    a fake that records the bytes (async drain), the reader a truthy dummy, hooks are recorded by a subclass,
    Codec.current_datetime is patched to a constant; inbound traffic = real frames (built here, not by the
    library's encoder) -> Codec.decode -> await conn._process_message(msg, raw).  ALL private-name access is in
    class Adapter;
  * a history (<= ~10 operations: connect, Logon exchange, application traffic both ways, gaps + ResendRequest /
    replay, gap fills spanning several numbers, sequence resets, ResendRequests of the peer, peer Logout, our
    Logout, reconnects, restarts) is run once to the end (dry run, also fixes the concrete numbers), then
    restarted at EVERY restart point: each quiescent point (graceful: drop the object, close the journal, new
    Journaler + connection on the same file) and after every single effect - transport write, transport drain,
    each SQL data statement and each commit - of the last incarnation, realised by a forked CHILD PROCESS that
    runs the history and calls os._exit right after the chosen effect (counting proxies around the fake writer
    and sqlite3.connect); the parent then reopens the file.  fork is slow on a loaded VM, so real deaths are
    taken while a wall-time budget lasts (points inside operations first); EVERY death point is also run by
    simulated death (the proxies raise a BaseException from the chosen effect on and perform nothing, the SQLite
    connection is closed without commit) and a point done both ways must give identical observations;
  * projection compared with the extracted model: per operation of the dry run (exception class escaping, state
    class, live and stored counters, effects so far, numbers delivered), the complete effect trace (kinds of SQL
    statements, frames written), and per restart point: counters restored by create_or_load (and sessions()),
    then the next Logon exchange with a peer whose outgoing number is what it had sent so far and one application
    message: per-step projections and the frames written by the new object;
  * oracle (from the property text, independent of the model): restored counters = the old object's counters for
    everything it completed; no ResendRequest in the next Logon exchange (and state ACTIVE) when no frame of the
    peer was lost (decided by a reference receiver fed with the same frames); no original frame of the new object
    carries a number already handed to the transport before the restart."""
import asyncio
import json
import logging
import os
import select
import shutil
import signal
import subprocess
import sys
import tempfile
import time
from concurrent.futures import ThreadPoolExecutor

META = {
    "level": "proof",
    "tables": [],
    "files": ["asyncfix/connection.py", "asyncfix/journaler.py", "asyncfix/session.py"],
    "rule": "a case is one (history, restart point) pair on a real connection object over a real SQLite journal file: "
            "curated + random session-aware histories up to 10 operations (Logon exchange, application traffic both ways, "
            "gaps + ResendRequest/replay, gap fills spanning several numbers, sequence resets, peer ResendRequests, peer "
            "Logout, own Logout, reconnects, restarts inside the history) x every quiescent point (graceful stop) x every "
            "single effect boundary (transport write, drain, each SQL statement, each commit) of the last incarnation "
            "(child process dying by os._exit); non-trivial when the restart point is inside an operation or after an "
            "operation that moved a counter; distinct by (role, concrete ops, restart point)",
    "trusted_base": [
        "SQLite atomic commit and Python sqlite3 transaction control as modelled in Fix/Restart.v (projection of Fix/Journal.v, "
        "validated by C08/C13 and re-validated here against real files and real process deaths by os._exit; no claim about power loss)",
        "the fake transport (a frame handed to write() counts as consumed by the peer), the crash-injection proxies and the "
        "reference receiver of harness/c09.py",
        "frames are symbolic in the model (type, MsgSeqNum, PossDupFlag, two parameters); CompIDs/BeginString always right, "
        "TestReqID handling and timers outside (C12), should_replay = default",
    ],
    "assumptions": ["one process writes the journal file at a time", "sequence numbers fit SQLite's 64-bit INTEGER"],
}

PY = "/venv/bin/python"
SENDER, TARGET, BEGIN = "CLI", "SRV", "FIX.4.4"
TIME = "20230101-10:00:00.000"
SOH = "\x01"
MT = {0: "D", 1: "0", 2: "1", 3: "2", 4: "4", 5: "A", 6: "5"}
MT_INV = {v: k for k, v in MT.items()}
KIND_NAMES = {1: "drain", 10: "ins-in", 11: "ins-out", 12: "upd-in", 13: "upd-out", 14: "upd-both", 15: "del-in",
              16: "del-out", 17: "commit"}

_quiet = logging.getLogger("verif.c09.quiet")
_quiet.addHandler(logging.NullHandler())
_quiet.propagate = False
_quiet.setLevel(logging.CRITICAL + 10)


def tmpdir():
    base = "/dev/shm" if os.path.isdir("/dev/shm") else None
    return tempfile.mkdtemp(prefix="afr_", dir=base)


# ------------------------------------------------------------------------------------------
# frames (built and parsed here, independent of the library's codec)
# ------------------------------------------------------------------------------------------

def build_frame(mtype, fields):
    body = "".join("%s=%s%s" % (t, v, SOH) for t, v in fields)
    head35 = "35=%s%s" % (mtype, SOH)
    txt = "8=%s%s9=%d%s%s%s" % (BEGIN, SOH, len(head35) + len(body), SOH, head35, body)
    ck = sum(ord(c) for c in txt) % 256
    return (txt + "10=%03d%s" % (ck, SOH)).encode("latin-1")


def peer_frame(t, seq, pd, a, b):
    """An inbound frame of the symbolic kind [t, seq, pd, a, b], as the peer would send it."""
    f = [("49", TARGET), ("56", SENDER), ("34", str(seq)), ("52", TIME)]
    if pd:
        f += [("43", "Y"), ("122", TIME)]
    if t == 0:
        f += [("11", "B%d" % a), ("55", "SYM"), ("54", "1")]
    elif t == 1:
        pass
    elif t == 2:
        f += [("112", str(a))]
    elif t == 3:
        f += [("7", str(a)), ("16", str(b))]
    elif t == 4:
        if b:
            f += [("123", "Y")]
        f += [("36", str(a))]
    elif t == 5:
        f += [("98", "0"), ("108", "30")]
    elif t == 6:
        pass
    return build_frame(MT[t], f)


def frame_proj(data):
    """bytes written to the transport -> [type, seq, pd, a, b] (None when not a frame of the modelled kinds)."""
    txt = data.decode("latin-1")
    tags = {}
    for part in txt.split(SOH):
        if "=" in part:
            k, v = part.split("=", 1)
            tags.setdefault(k, v)
    t = MT_INV.get(tags.get("35"))
    if t is None or "34" not in tags:
        return None
    a = b = 0
    try:
        if t == 0:
            a = int(tags.get("11", "B0")[1:])
        elif t in (1, 2):
            a = int(tags.get("112", "0"))
        elif t == 3:
            a, b = int(tags["7"]), int(tags["16"])
        elif t == 4:
            a, b = int(tags["36"]), (1 if tags.get("123") == "Y" else 0)
        return [t, int(tags["34"]), 1 if tags.get("43") == "Y" else 0, a, b]
    except (ValueError, KeyError):
        return None


def is_original(fr):
    return fr is not None and not fr[2] and fr[0] != 4


# ------------------------------------------------------------------------------------------
# effect counting and death
# ------------------------------------------------------------------------------------------

class Death(BaseException):
    """Simulated process death: passes through every `except Exception` of the library."""


class Fx:
    """Counts the effects of the current incarnation; dies after the k-th when told to."""

    def __init__(self):
        self.enabled = False
        self.trace = []          # effect codes of the current incarnation: frame projection | 1 | 10..17
        self.wire = []           # bytes handed to the transport, all incarnations
        self.flat = []           # [op index, effect code] of all incarnations
        self.cur_op = -1
        self.die_at = None
        self.on_die = None
        self.dead = False

    def pre(self):
        """Before an effect is performed: a (simulated) dead process performs nothing any more."""
        if self.dead:
            raise Death()

    def effect(self, code):
        if not self.enabled:
            return
        self.trace.append(code)
        self.flat.append([self.cur_op, code])
        if self.die_at is not None and len(self.trace) == self.die_at:
            self.on_die()

    def check_zero(self):
        if self.enabled and self.die_at == 0 and not self.trace:
            self.on_die()

    def sim_die(self):
        self.dead = True
        raise Death()


FX = Fx()


def classify_sql(sql, params):
    s = " ".join(sql.split()).upper()
    if s.startswith("INSERT INTO MESSAGE"):
        return 11 if params[2] == 1 else 10
    if s.startswith("UPDATE SESSION SET"):
        i, o = "INBOUNDSEQNO" in s, "OUTBOUNDSEQNO" in s
        return 14 if (i and o) else (13 if o else 12)
    if s.startswith("DELETE FROM MESSAGE"):
        return 16 if params[2] == 1 else 15
    if s.startswith("INSERT INTO SESSION"):
        return 18
    return None          # DDL / SELECT: no effect on the file


class _PCursor:
    def __init__(self, cur):
        self._c = cur

    def execute(self, sql, params=()):
        code = classify_sql(sql, params)
        if code is not None:
            FX.pre()
        try:
            self._c.execute(sql, params)
        except BaseException:
            if code is not None:
                FX.effect(code)          # a failing statement has been executed
            raise
        if code is not None:
            FX.effect(code)
        return self

    def __iter__(self):
        return iter(self._c)

    def __next__(self):
        return next(self._c)

    def __getattr__(self, name):
        return getattr(self._c, name)


class _PConn:
    def __init__(self, conn):
        self._conn = conn

    def cursor(self):
        return _PCursor(self._conn.cursor())

    def commit(self):
        FX.pre()
        self._conn.commit()
        FX.effect(17)

    def __getattr__(self, name):
        return getattr(self._conn, name)


_sql_patched = False


def patch_sqlite():
    global _sql_patched
    if _sql_patched:
        return
    import sqlite3
    real = sqlite3.connect
    sqlite3.connect = lambda *a, **kw: _PConn(real(*a, **kw))
    _sql_patched = True


class FakeWriter:
    fault = 0        # 1: write() raises (nothing reaches the wire); 2: write() takes the bytes, drain() raises

    def __init__(self):
        self.closed = False

    def write(self, data):
        FX.pre()
        if FakeWriter.fault == 1:
            raise ConnectionResetError("transport refused the frame")
        FX.wire.append(bytes(data))
        FX.effect(frame_proj(bytes(data)) or [-1, 0, 0, 0, 0])

    async def drain(self):
        FX.pre()
        if FakeWriter.fault == 2:
            raise ConnectionResetError("connection reset while draining")
        FX.effect(1)

    def close(self):
        self.closed = True

    async def wait_closed(self):
        return None

    def get_extra_info(self, *a, **k):
        return None


# ------------------------------------------------------------------------------------------
# the adapter: every private name of asyncfix used by this check is here
# ------------------------------------------------------------------------------------------

def exc_code(e):
    from asyncfix import errors
    if isinstance(e, errors.FIXConnectionError):
        return 1
    if isinstance(e, errors.DuplicateSeqNoError):
        return 2
    if isinstance(e, AssertionError):
        return 3
    if isinstance(e, errors.DuplicatedTagError):
        return 4
    if isinstance(e, ConnectionError):
        return 5
    return [99, type(e).__name__]


class Adapter:
    """One endpoint: a journal file and the current connection object over it."""

    _patched = False

    @classmethod
    def patch(cls):
        if cls._patched:
            return
        from asyncfix.codec import Codec
        Codec.current_datetime = staticmethod(lambda: TIME)
        patch_sqlite()
        cls._patched = True

    def __init__(self, role, path):
        Adapter.patch()
        self.role, self.path = role, path
        self.delivered = []
        self.conn = self.journal = None
        self.boot()

    def boot(self):
        """A new Journaler + connection object over the file (public constructors)."""
        from asyncfix import AsyncFIXClient, AsyncFIXDummyServer, Journaler
        from asyncfix.codec import Codec
        from asyncfix.protocol import FIXProtocol44
        ad = self

        class Hooks:
            async def on_message(self, msg):
                ad.delivered.append(int(msg[34]))

            async def on_connect(self):
                pass

        base = AsyncFIXClient if self.role == 1 else AsyncFIXDummyServer
        cls = type("Rec" + base.__name__, (Hooks, base), {})
        self.proto = FIXProtocol44()
        self.codec = Codec(self.proto)
        was = FX.enabled
        FX.enabled = False                      # construction is not a restart point
        self.journal = Journaler(self.path)
        self.delivered = []
        self.conn = cls(self.proto, SENDER, TARGET, self.journal, "localhost", 0, heartbeat_period=30, logger=_quiet)
        FX.enabled = was
        FX.trace = []

    def close(self):
        """Graceful end of the object: close the journal's connection (what __del__ does)."""
        j = self.journal
        if j is None:
            return
        try:
            j.cursor.close()
            j.conn.close()
        except Exception:
            pass

        class _D:
            def close(self):
                pass
        j.cursor = _D()
        j.conn = _D()
        self.conn = self.journal = None

    def connect(self):
        from asyncfix.connection import ConnectionState
        self.conn._socket_writer = FakeWriter()
        self.conn._socket_reader = object()
        self.conn._connection_state = ConnectionState.NETWORK_CONN_ESTABLISHED

    @property
    def live(self):
        s = self.conn._session
        return s.next_num_in, s.next_num_out

    @property
    def state(self):
        s = int(self.conn._connection_state)
        return 0 if s <= 3 else s

    def stored(self):
        s = self.conn._session
        r = self.journal.sessions()[(s.target_comp_id, s.sender_comp_id)]
        return r.next_num_in - 1, r.next_num_out - 1

    def proj(self, exc):
        nin, nout = self.live
        sin, sout = self.stored()
        return [exc, self.state, nin, nout, sin, sout, len(FX.trace), list(self.delivered)]

    async def _op(self, op):
        from asyncfix import FIXMessage
        from asyncfix.connection import ConnectionState
        k = op[0]
        c = self.conn
        if k == 0:
            self.connect()
        elif k == 1:
            raw = peer_frame(*op[1:6])
            m, _, rawm = self.codec.decode(raw)
            await c._process_message(m, rawm)
        elif k in (2, 5):
            t, seq, pd, a, b = op[1:6]
            fm = FIXMessage(MT[t])
            if t == 0:
                fm.set(11, "B%d" % a)
                fm.set(55, "SYM")
            elif t in (1, 2):
                fm.set(112, str(a))
            elif t == 3:
                fm.set(7, str(a))
                fm.set(16, str(b))
            elif t == 4:
                if b:
                    fm.set(123, "Y")
                fm.set(34, str(seq))
                fm.set(36, str(a))
            elif t == 5:
                fm.set(98, "0")
                fm.set(108, "30")
            if pd:
                fm.set(43, "Y")
                if t != 4:
                    fm.set(34, str(seq))
            if k == 5:
                FakeWriter.fault = 2 if op[6] else 1
            try:
                await c.send_msg(fm)
            finally:
                FakeWriter.fault = 0
        elif k == 3:
            await c.disconnect(ConnectionState.DISCONNECTED_WCONN_TODAY, logout_message="bye" if op[1] else None)
        elif k == 4:
            self.close()
            self.boot()
        else:
            raise ValueError(op)

    def run_op(self, loop, op, timeout=20):
        exc = 0
        try:
            loop.run_until_complete(asyncio.wait_for(self._op(op), timeout))
        except asyncio.TimeoutError:
            exc = [98, "timeout"]
        except Exception as e:  # noqa: BLE001 - the class of whatever escapes is the observation
            exc = exc_code(e)
        return self.proj(exc)

    def kill(self):
        """Simulated process death: the journal's connection goes away WITHOUT commit (SQLite rolls the open
        transaction back, as it does for a dead process); nothing else of the object survives."""
        self.close()


def new_loop():
    loop = asyncio.new_event_loop()
    asyncio.set_event_loop(loop)
    return loop


def read_restored(path):
    """Counters a fresh Journaler reports for the session: create_or_load and sessions() (both must agree)."""
    from asyncfix import Journaler
    j = Journaler(path)
    try:
        s = j.create_or_load(TARGET, SENDER)
        a = [s.next_num_in, s.next_num_out]
        r = j.sessions().get((TARGET, SENDER))
        b = [r.next_num_in, r.next_num_out] if r is not None else None
        return a, b
    finally:
        j.cursor.close()
        j.conn.close()

        class _D:
            def close(self):
                pass
        j.cursor = _D()
        j.conn = _D()


# ------------------------------------------------------------------------------------------
# running a history, dying, restarting
# ------------------------------------------------------------------------------------------

def run_ops(ad, loop, ops):
    steps = []
    for op in ops:
        steps.append(ad.run_op(loop, op))
    return steps


def probe(role, path, ops2):
    """After the restart: counters of the file, then a new object runs ops2."""
    FX.__init__()
    restored, listed = read_restored(path)
    loop = new_loop()
    try:
        ad = Adapter(role, path)
        FX.enabled = True
        FX.trace = []
        built = list(ad.live)
        steps = run_ops(ad, loop, ops2)
        wire = [frame_proj(w) for w in FX.wire]
        ad.close()
        return {"restored": restored, "listed": listed, "built": built, "steps": steps, "wire": wire}
    finally:
        FX.enabled = False
        loop.close()


def graceful_point(role, ops1, ops2):
    """Run ops1, stop gracefully (drop the object, close the journal), restart, run ops2."""
    d = tmpdir()
    path = os.path.join(d, "j.db")
    loop = new_loop()
    try:
        FX.__init__()
        ad = Adapter(role, path)
        FX.enabled = True
        FX.trace = []
        run_ops(ad, loop, ops1)
        old_wire = [frame_proj(w) for w in FX.wire]
        ad.close()
        FX.enabled = False
        loop.close()
        res = probe(role, path, ops2)
        res["old_wire"] = old_wire
        return res
    finally:
        FX.enabled = False
        shutil.rmtree(d, ignore_errors=True)


def sim_point(role, ops1, k, ops2):
    """Death after the k-th effect of the last incarnation WITHOUT a child process: the effect proxies raise a
    BaseException from then on and perform nothing, the journal's connection is closed without commit.  Used for
    the restart points the real-death budget does not reach; cross-checked against real deaths on every run."""
    d = tmpdir()
    path = os.path.join(d, "j.db")
    loop = new_loop()
    try:
        FX.__init__()
        ad = Adapter(role, path)
        last_inc = max([i for i, o in enumerate(ops1) if o[0] == 4], default=-1)
        FX.on_die = FX.sim_die
        FX.enabled = True
        FX.trace = []
        done = 0
        try:
            if last_inc < 0:
                FX.die_at = k
                FX.check_zero()
            for i, op in enumerate(ops1):
                ad.run_op(loop, op)
                done = i + 1
                if i == last_inc:
                    FX.die_at = k
                    FX.check_zero()
        except Death:
            pass
        effects = len(FX.trace)
        old_wire = [frame_proj(w) for w in FX.wire]
        ad.kill()
        FX.enabled = False
        loop.close()
        res = probe(role, path, ops2)
        res["old_wire"] = old_wire
        res["child"] = {"done": done, "effects": effects}
        return res
    finally:
        FX.enabled = False
        shutil.rmtree(d, ignore_errors=True)


def child_main(role, path, ops, k, wfd):
    signal.alarm(90)             # a hang ends the child (no watchdog thread: the parent forks)
    loop = new_loop()
    FX.__init__()
    ad = Adapter(role, path)
    last_inc = max([i for i, o in enumerate(ops) if o[0] == 4], default=-1)
    state = {"done": 0}

    def die():
        rep = {"done": state["done"], "effects": len(FX.trace), "wire": [w.hex() for w in FX.wire]}
        os.write(wfd, json.dumps(rep).encode())
        os._exit(0)

    FX.on_die = die
    FX.enabled = True
    FX.trace = []
    if last_inc < 0:
        FX.die_at = k
        FX.check_zero()
    for i, op in enumerate(ops):
        ad.run_op(loop, op)
        state["done"] = i + 1
        if i == last_inc:
            FX.die_at = k
            FX.check_zero()
    # the history ended before the k-th effect: report and leave without closing anything
    rep = {"done": state["done"], "effects": len(FX.trace), "wire": [w.hex() for w in FX.wire], "ended": True}
    os.write(wfd, json.dumps(rep).encode())
    os._exit(0)


def crash_point(role, ops1, k, ops2, timeout=40):
    """Fork a child that runs ops1 and dies right after the k-th effect of the last incarnation; restart; run ops2."""
    d = tmpdir()
    path = os.path.join(d, "j.db")
    try:
        rfd, wfd = os.pipe()
        pid = os.fork()
        if pid == 0:
            try:
                os.close(rfd)
                child_main(role, path, ops1, k, wfd)
            finally:
                os._exit(3)
        os.close(wfd)
        buf, deadline, hung = b"", time.time() + timeout, False
        while True:
            left = deadline - time.time()
            if left <= 0:
                hung = True
                break
            r, _, _ = select.select([rfd], [], [], left)
            if not r:
                hung = True
                break
            chunk = os.read(rfd, 1 << 16)
            if not chunk:
                break
            buf += chunk
        os.close(rfd)
        if hung:
            os.kill(pid, signal.SIGKILL)
        _, status = os.waitpid(pid, 0)
        if hung:
            return {"error": "child hung (killed after %ss)" % timeout}
        if not buf:
            return {"error": "child died without report, wait status %d" % status}
        rep = json.loads(buf.decode())
        res = probe(role, path, ops2)
        res["old_wire"] = [frame_proj(bytes.fromhex(w)) for w in rep["wire"]]
        res["child"] = {"done": rep["done"], "effects": rep["effects"], "ended": rep.get("ended", False)}
        return res
    finally:
        shutil.rmtree(d, ignore_errors=True)




# ------------------------------------------------------------------------------------------
# the peer: what it has sent so far, and a reference receiver (independent of library and model)
# ------------------------------------------------------------------------------------------

class Peer:
    """out = the next number the peer will use; ref = the number a correct receiver that was handed every frame
    fed so far would expect next (FIX 4.4 session rules: in-sequence frame counts, a gap does not, a GapFill at
    the expected number moves it to NewSeqNo, a Reset moves it forward to NewSeqNo)."""

    def __init__(self):
        self.out = 1
        self.ref = 1
        self.logged = False      # a Logon of the peer has reached the endpoint on the current connection

    def new_connection(self):
        self.logged = False

    def sent(self, fr, connected):
        t, seq, pd, a, b = fr
        if t == 4:
            self.out = a if not b else max(self.out, a)
        else:
            self.out = max(self.out, seq + 1)
        if not connected:
            return
        if t == 5:
            if self.logged:
                return           # a second Logon inside a session: a protocol violation, not a frame to count
            self.logged = True
        elif not self.logged:
            return               # nothing is received before the Logon (the endpoint must drop the connection)
        if t == 4:
            if b:
                if seq == self.ref and a > seq:
                    self.ref = a
            elif a > self.ref:
                self.ref = a
        elif seq == self.ref:
            self.ref += 1


def probe_ops(role, peer_out):
    """After a restart: attach a transport, Logon exchange with the peer, one application message."""
    if role == 1:
        return [[0], [2, 5, 0, 0, 0, 0], [1, 5, peer_out, 0, 0, 0], [2, 0, 0, 0, 999, 0]]
    return [[0], [1, 5, peer_out, 0, 0, 0], [2, 0, 0, 0, 999, 0]]


def logon_step(role):
    return 2 if role == 1 else 1


# ------------------------------------------------------------------------------------------
# session-aware history policy (decisions from one seeded PRNG, numbers from the live endpoint)
# ------------------------------------------------------------------------------------------

def policy(rng, role, st, nin, nout, peer, k):
    """Next operation(s) as concrete ops, given the live state of the endpoint and of the peer."""
    P = peer.out
    r = rng.random()
    if st == 0:
        if r < 0.70:
            return [[0]] + logon_ops(rng, role, peer)
        if r < 0.90:
            return [[4]]
        return [[0]]
    if st == 6:
        if r < 0.85:
            return logon_ops(rng, role, peer)
        if r < 0.93:
            return [[1, 0, P, 0, k, 0]]                 # first message is not a Logon
        return [[2, 0, 0, 0, k, 0]]                     # send refused
    if st == 7:
        if r < 0.85:
            return [[1, 5, P + (rng.randrange(1, 3) if rng.random() < 0.2 else 0), 0, 0, 0]]
        if r < 0.93:
            return [[2, 0, 0, 0, k, 0]]                 # refused while waiting for the Logon reply
        return [[1, 0, P, 0, k, 0]]
    if st == 12 and r < 0.55:
        # we asked for a resend: the peer replays / fills from our expected number
        x = rng.random()
        if x < 0.45:
            return [[1, 0, nin, 1, k, 0]]
        if x < 0.85:
            return [[1, 4, nin, 1, max(nin + 1, min(P, nin + rng.randrange(1, 5))), 1]]
        return [[1, 4, nin, 1, P, 1]]
    table = [
        (0.17, "app"), (0.04, "hb"), (0.07, "treq"), (0.07, "gapapp"), (0.05, "gfnext"), (0.03, "gfself"),
        (0.03, "gfhigh"), (0.03, "gflow"), (0.03, "reset"), (0.09, "rr"), (0.04, "logout"), (0.14, "send"),
        (0.03, "sendsr"), (0.03, "discl"), (0.02, "disc"), (0.03, "restart"), (0.02, "low"), (0.02, "logon2"),
        (0.025, "sendfw"), (0.035, "sendfd"),
    ]
    x, acc, kind = rng.random(), 0.0, "app"
    for w, name in table:
        acc += w
        if x < acc:
            kind = name
            break
    if kind == "app":
        return [[1, 0, P, 0, k, 0]]
    if kind == "hb":
        return [[1, 1, P, 0, 0, 0]]
    if kind == "treq":
        return [[1, 2, P, 0, 100 + k, 0]]
    if kind == "gapapp":
        return [[1, 0, P + rng.randrange(1, 4), 0, k, 0]]
    if kind == "gfnext":
        return [[1, 4, P, 0, P + rng.randrange(1, 5), 1]]
    if kind == "gfself":
        return [[1, 4, P, 0, P, 1]]
    if kind == "gfhigh":
        s = P + rng.randrange(1, 3)
        return [[1, 4, s, 0, s + rng.randrange(1, 4), 1]]
    if kind == "gflow":
        s = max(1, nin - rng.randrange(1, 3))
        return [[1, 4, s, 1, rng.choice([s + 1, nin, nin + 2, s]), 1]]
    if kind == "reset":
        return [[1, 4, P, 0, rng.choice([P + 3, 1, max(1, nin - 1), nin, P + 1]), 0]]
    if kind == "rr":
        b = rng.choice([1, max(1, nout - 2), max(1, nout - 1), nout, nout + 2, 0, 2])
        e = rng.choice([0, 0, 0, b, b + 1, nout + 5])
        return [[1, 3, P, 0, b, e]]
    if kind == "logout":
        return [[1, 6, P, 0, 0, 0]]
    if kind == "send":
        return [[2, 0, 0, 0, k, 0]]
    if kind in ("sendfw", "sendfd"):
        # the transport raises in write() / in drain() after the write; often the endpoint is restarted next
        ops = [[5, 0, 0, 0, k, 0, 1 if kind == "sendfd" else 0]]
        return ops + ([[4]] if rng.random() < 0.5 else [])
    if kind == "sendsr":
        x = rng.random()
        if x < 0.25:
            return [[2, 0, max(1, nout - 1), 1, k, 0]]          # application-level PossDup resend
        s = rng.choice([nout, nout, nout + 3, max(1, nout - 1)])
        return [[2, 4, s, 0, s + rng.randrange(1, 3), 1 if x < 0.6 else 0]]
    if kind == "discl":
        return [[3, 1]]
    if kind == "disc":
        return [[3, 0]]
    if kind == "restart":
        return [[4]]
    if kind == "low":
        return [[1, 0, max(1, nin - 1), 0, k, 0]]
    return [[1, 5, P, 0, 0, 0]]


def logon_ops(rng, role, peer):
    g = rng.randrange(1, 4) if rng.random() < 0.15 else 0
    ops = [[2, 5, 0, 0, 0, 0]] if role == 1 else []
    return ops + [[1, 5, peer.out + g, 0, 0, 0]]


def run_history(role, ops=None, seed=None, length=8):
    """Dry run of a whole history without a crash; with a seed the operations are chosen on the fly.
    Returns dict(role, ops, steps, flat, wire, peer = [[out, ref] after each op], last_inc)."""
    import random
    rng = random.Random(seed) if ops is None else None
    d = tmpdir()
    loop = new_loop()
    try:
        FX.__init__()
        ad = Adapter(role, os.path.join(d, "j.db"))
        FX.enabled = True
        FX.trace = []
        peer = Peer()
        done, steps, track = [], [], []
        queue = [list(o) for o in ops] if ops is not None else []
        while True:
            if not queue:
                if rng is None or len(done) >= length:
                    break
                nin, nout = ad.live
                queue = policy(rng, role, ad.state, nin, nout, peer, len(done) + 1)
            op = queue.pop(0)
            if op[0] == 1:
                peer.sent(op[1:6], ad.state != 0)
            elif op[0] in (0, 4):
                peer.new_connection()
            FX.cur_op = len(done)
            steps.append(ad.run_op(loop, op))
            done.append(op)
            track.append([peer.out, peer.ref])
        res = {"role": role, "ops": done, "steps": steps, "flat": list(FX.flat), "peer": track,
               "wire": [frame_proj(w) for w in FX.wire],
               "last_inc": max([i for i, o in enumerate(done) if o[0] == 4], default=-1)}
        ad.close()
        return res
    finally:
        FX.enabled = False
        loop.close()
        shutil.rmtree(d, ignore_errors=True)


def restart_points(h):
    """Every restart point of a dry run: [kind, j, k, inflight] with kind 'g' (graceful after op j, k = -1) or
    'c' (death after k effects of the last incarnation; j = the operation in flight, or the earliest operation
    boundary with that effect count when inflight is false; j = last_inc for 'before any operation')."""
    ops, steps, li = h["ops"], h["steps"], h["last_inc"]
    pts = [["g", j, -1, False] for j in range(len(ops)) if ops[j][0] != 4]
    cum = {li: 0}
    for j in range(li + 1, len(ops)):
        cum[j] = steps[j][6]
    total = cum[len(ops) - 1] if len(ops) - 1 in cum else 0
    for k in range(total + 1):
        bj = next((j for j in range(li, len(ops)) if cum[j] == k), None)
        if bj is not None:
            pts.append(["c", bj, k, False])
        else:
            pts.append(["c", next(j for j in range(li + 1, len(ops)) if cum[j] > k), k, True])
    return pts


def peer_at(h, j):
    return h["peer"][j] if j >= 0 else [1, 1]


SAME_KEYS = ("restored", "listed", "built", "steps", "wire", "old_wire")


def run_points(h, only=None, real_deadline=None):
    """Restart the history at every point (or at the given ones) on the implementation.  Every death point is run
    by sim_point, and again by a forked child calling os._exit while the time budget lasts (fork is very slow on
    a loaded machine); a point done both ways must give identical observations."""
    out = []
    role, ops = h["role"], h["ops"]
    pts = only if only is not None else restart_points(h)
    for pt in pts:
        kind, j, k, infl = pt
        ops2 = probe_ops(role, peer_at(h, j)[0])
        if kind == "g":
            out.append({"pt": pt, "ops2": ops2, "res": graceful_point(role, ops[:j + 1], ops2), "how": "graceful"})
        else:
            out.append({"pt": pt, "ops2": ops2, "res": sim_point(role, ops, k, ops2), "how": "sim"})
    crash = [p for p in out if p["pt"][0] == "c"]
    # real deaths: points inside an operation first (shuffled deterministically), operation boundaries last
    import random
    rs = random.Random(len(ops) * 7919 + len(crash))
    inside = [p for p in crash if p["pt"][3]]
    rs.shuffle(inside)
    order = inside + [p for p in crash if not p["pt"][3]]
    for p in order:
        if real_deadline is not None and time.time() > real_deadline:
            break
        real = crash_point(role, ops, p["pt"][2], p["ops2"])
        if "error" in real:
            real = crash_point(role, ops, p["pt"][2], p["ops2"], timeout=120)     # a loaded machine: once more
        if "error" in real:
            p["how"] = "sim(real death failed: %s)" % real["error"]
            continue
        sim = p["res"]
        diff = [key for key in SAME_KEYS if sim.get(key) != real.get(key)]
        if diff:
            p["sim_mismatch"] = {key: [sim.get(key), real.get(key)] for key in diff}
        p["res"], p["how"] = real, "real"
    return out


# ------------------------------------------------------------------------------------------
# workers
# ------------------------------------------------------------------------------------------

def worker_main():
    # no faulthandler watchdog thread here: this process forks (the caller enforces the timeout)
    job = json.load(sys.stdin)
    t0 = time.time()
    n = len(job["items"])
    for i, item in enumerate(job["items"]):
        h = run_history(item["role"], ops=item.get("ops"), seed=item.get("seed"), length=item.get("len", 8))
        h["id"] = item["id"]
        # the real-death budget of this worker is spread over its histories
        deadline = t0 + job["real_s"] * (i + 1) / float(n)
        h["points"] = run_points(h, real_deadline=deadline)
        sys.stdout.write(json.dumps(h) + "\n")
        sys.stdout.flush()


def run_workers(items, nproc=None, timeout=2400, real_s=25.0):
    from vlib import core
    nproc = nproc or core.NPROC
    jobs = [{"items": [], "real_s": real_s} for _ in range(min(nproc, max(1, len(items))))]
    order = sorted(range(len(items)), key=lambda i: -(len(items[i].get("ops") or []) or items[i].get("len", 8)))
    for n, i in enumerate(order):
        jobs[n % len(jobs)]["items"].append(dict(items[i], id=i))

    def one(job):
        p = subprocess.run([PY, "-m", "harness.c09", "--worker"], input=json.dumps(job).encode(),
                           stdout=subprocess.PIPE, stderr=subprocess.PIPE, timeout=timeout,
                           env=core.child_env(), cwd=core.ROOT)
        if p.returncode != 0:
            raise RuntimeError("restart worker failed rc=%s: %s" % (p.returncode, p.stderr.decode()[-1500:]))
        return [json.loads(line) for line in p.stdout.decode().splitlines() if line.strip()]

    results = {}
    with ThreadPoolExecutor(len(jobs)) as ex:
        for lst in ex.map(one, jobs):
            for r in lst:
                results[r["id"]] = r
    return [results[i] for i in range(len(items))]


# ------------------------------------------------------------------------------------------
# known-finding class predicates (decidable on a concrete history + restart point + its dry run)
# ------------------------------------------------------------------------------------------

def durable_prefix(h, pt):
    """Effects [op index, code] whose result is on the file at the restart point (up to the last commit)."""
    kind, j, k, infl = pt
    flat, li = h["flat"], h["last_inc"]
    if kind == "g":
        pre = [e for e in flat if e[0] <= j]
    else:
        old = [e for e in flat if e[0] <= li]
        pre = old + [e for e in flat if e[0] > li][:k]
    c = max([i for i, e in enumerate(pre) if e[1] == 17], default=-1)
    return pre, pre[:c + 1]


def last_writer(dur, codes):
    for e in reversed(dur):
        if e[1] in codes:
            return e[0]
    return None


def live_before(h, j):
    """(nin, nout) of the object before operation j started."""
    if j <= 0:
        return (1, 1)
    s = h["steps"][j - 1]
    return (s[2], s[3])


def classify(h, pt, kind, detail=None):
    """Name of the known-finding class that explains a failure of this kind at this restart point, or None."""
    ops = h["ops"]
    pre, dur = durable_prefix(h, pt)
    pkind, j, k, infl = pt
    if kind == "reuse" and detail:
        # the number was carried before the restart only by application-sent frames that bring their own number
        # (SequenceReset, PossDup) and do not consume it
        src = [e[0] for e in pre if isinstance(e[1], list) and e[1] in detail]
        if src and all(ops[i][0] in (2, 5) and (ops[i][1] == 4 or ops[i][3]) for i in src):
            return "D20_app_sequence_reset_uncounted"
    if kind in ("reuse", "nout", "inactive"):
        # aftermath of D20: a later journal write of the old object hit the row an application-sent SequenceReset
        # left under a number it did not consume (DuplicateSeqNoError: the live counter moved, the stored one did not)
        for i in sorted({e[0] for e in dur}):
            if ops[i][0] in (2, 5) and ops[i][1] == 4 and not ops[i][3] and not ops[i][5]:
                for t in range(len(pre)):
                    failed = (pre[t + 1][1] != 13) if t + 1 < len(pre) else (not infl)
                    if pre[t][0] > i and pre[t][1] == 11 and failed:
                        return "D20_app_sequence_reset_uncounted"
    wout = last_writer(dur, (13, 14))
    if kind in ("reuse", "nout") and wout is not None:
        o = ops[wout]
        if o[0] in (2, 5) and o[1] == 4 and not o[3] and not o[5]:
            return "D20_app_sequence_reset_uncounted"
    win = last_writer(dur, (12, 14))
    if kind in ("nin", "rr", "inactive") and win is not None:
        o = ops[win]
        if o[0] == 1 and o[1] == 4:
            before = live_before(h, win)[0]
            if o[2] != before or o[4] != o[2] + 1:
                return "D11_sequence_reset_stored_lag"
    if kind == "inactive" and detail:
        # the new object's Logon hits a journal row left by an application-sent SequenceReset (DuplicateSeqNoError)
        for i in sorted({e[0] for e in dur}):
            if ops[i][0] in (2, 5) and ops[i][1] == 4 and not ops[i][3] and not ops[i][5] and ops[i][2] >= detail[1]:
                return "D20_app_sequence_reset_uncounted"
    if kind in ("rr", "inactive"):
        # the first frame after which the endpoint's expected number and a correct receiver's differ
        end = j if not infl else j - 1
        agree = -1
        for i in range(end + 1):
            if h["steps"][i][2] == h["peer"][i][1]:
                agree = i
        nxt = agree + 1
        if nxt <= end and ops[nxt][0] == 4 and nxt > 0:
            # a restart inside the history made a stored counter live: the class of that restart point
            return classify(h, ["g", nxt - 1, -1, False], "nin")
        if nxt <= end and ops[nxt][0] == 1:
            # D20 aftermath inside inbound processing: a reply sent while the frame was processed (Logon reply, Heartbeat,
            # ResendRequest) hit the journal row of an application-sent reset-mode SequenceReset (DuplicateSeqNoError,
            # swallowed): the handler is aborted and the frame is not counted
            hit = any(pre[t][0] == nxt and pre[t][1] == 11 and (t + 1 >= len(pre) or pre[t + 1][1] != 13)
                      for t in range(len(pre)))
            if hit and any(ops[i][0] in (2, 5) and ops[i][1] == 4 and not ops[i][3] and not ops[i][5] for i in range(nxt)):
                return "D20_app_sequence_reset_uncounted"
            if ops[nxt][1] == 4 and (ops[nxt][2] != live_before(h, nxt)[0] or ops[nxt][4] != ops[nxt][2] + 1):
                return "D11_sequence_reset_stored_lag"
    return None


# ------------------------------------------------------------------------------------------
# oracle (the property, decided on the implementation's behaviour; independent of the Coq model)
# ------------------------------------------------------------------------------------------

def oracle(h, p):
    """[(kind, text, detail)] breaches of C09 at one restart point."""
    bad = []
    pt, res, role = p["pt"], p["res"], h["role"]
    kind, j, k, infl = pt
    if "error" in res:
        return [("mismatch", "restart run did not finish: %s" % res["error"], None)]
    rest = res["restored"]
    if not (rest == res["listed"] == res["built"]):
        bad.append(("mismatch", "create_or_load %r, sessions() %r and the new object's counters %r differ"
                    % (rest, res["listed"], res["built"]), None))
    steps = h["steps"]
    after = (steps[j][2], steps[j][3]) if j >= 0 else (1, 1)
    if not infl:
        if rest[0] != after[0]:
            bad.append(("nin", "restored next_num_in %d, the old object had %d after everything it completed" % (rest[0], after[0]), None))
        if rest[1] != after[1]:
            bad.append(("nout", "restored next_num_out %d, the old object had %d after everything it completed" % (rest[1], after[1]), None))
        lost_free = peer_at(h, j)[0] == peer_at(h, j)[1]
    else:
        before = live_before(h, j)
        for idx, name, kd in ((0, "next_num_in", "nin"), (1, "next_num_out", "nout")):
            lo, hi = min(before[idx], after[idx]), max(before[idx], after[idx])
            if not lo <= rest[idx] <= hi:
                bad.append((kd, "death inside operation %d: restored %s %d is outside [%d, %d] (the object's value before / after it)"
                            % (j, name, rest[idx], lo, hi), None))
        lost_free = h["ops"][j][0] in (2, 3, 5) and peer_at(h, j - 1)[0] == peer_at(h, j - 1)[1]
    if lost_free:
        ls = res["steps"][logon_step(role)]
        rr = [f for f in res["wire"] if f is not None and f[0] == 3]
        if rr or ls[1] != 17:
            bad.append(("rr" if rr else "inactive",
                        "no frame of the peer was lost (it sent up to %d, all received in sequence) but the Logon exchange "
                        "after the restart %s (restored next_num_in %d)" % (
                            peer_at(h, j)[0] - 1,
                            "contains ResendRequest %r" % rr[0] if rr else "ends in state %d, not ACTIVE" % ls[1], rest[0]),
                        rest))
    old = [f for f in res["old_wire"] if f is not None]
    for f in res["wire"]:
        if is_original(f):
            same = [g for g in old if g[1] == f[1]]
            if same and f not in same:
                bad.append(("reuse", "MsgSeqNum %d was handed to the transport before the restart as %r and is used again for %r"
                            % (f[1], same[0], f), same))
                break
    return bad


# ------------------------------------------------------------------------------------------
# correspondence with the extracted model
# ------------------------------------------------------------------------------------------

def sx_ops(ops):
    return "[" + ",".join("[" + ",".join(str(int(x)) for x in o) + "]" for o in ops) + "]"


def model_lines(h):
    """One request for all crash points of the full history, one per graceful point."""
    role, ops = h["role"], h["ops"]
    crash = [p for p in h["points"] if p["pt"][0] == "c"]
    lines = ["[%d,%s,[%s]]" % (role, sx_ops(ops), ",".join("[%d,%s]" % (p["pt"][2], sx_ops(p["ops2"])) for p in crash))]
    for p in h["points"]:
        if p["pt"][0] == "g":
            lines.append("[%d,%s,[[-1,%s]]]" % (role, sx_ops(ops[:p["pt"][1] + 1]), sx_ops(p["ops2"])))
    return lines


def case_of(h, p=None):
    c = {"role": h["role"], "ops": h["ops"]}
    if p is not None:
        c["point"] = p["pt"]
        c["ops2"] = p["ops2"]
    return c


def compare(ctx, h, outs):
    """outs: model answers in the order of model_lines(h)."""
    main = outs[0]
    if not isinstance(main, list) or len(main) != 3:
        ctx.disagree(case_of(h), None, main, "model-result-shape")
        return
    if main[0] != h["steps"]:
        i = next((i for i, (a, b) in enumerate(zip(h["steps"], main[0])) if a != b), 0)
        ctx.disagree(dict(case_of(h), upto=i), h["steps"][i:i + 1], main[0][i:i + 1], "dry-run-step")
        return
    last = [e[1] for e in h["flat"] if e[0] > h["last_inc"]]
    if main[1] != last:
        ctx.disagree(case_of(h), last, main[1], "effect-trace")
        return
    crash = [p for p in h["points"] if p["pt"][0] == "c"]
    grace = [p for p in h["points"] if p["pt"][0] == "g"]
    answers = list(zip(crash, main[2])) + [(p, o[2][0]) for p, o in zip(grace, outs[1:])]
    for p, mo in answers:
        res = p["res"]
        if "error" in res:
            continue
        if res["restored"] != mo[0]:
            ctx.disagree(case_of(h, p), res["restored"], mo[0], "restored-counters")
        elif res["steps"] != mo[1]:
            ctx.disagree(case_of(h, p), res["steps"], mo[1], "logon-exchange-steps")
        elif res["wire"] != mo[2]:
            ctx.disagree(case_of(h, p), res["wire"], mo[2], "frames-after-restart")


# ------------------------------------------------------------------------------------------
# check
# ------------------------------------------------------------------------------------------

LOGON_A = [[0], [1, 5, 1, 0, 0, 0]]
LOGON_I = [[0], [2, 5, 0, 0, 0, 0], [1, 5, 1, 0, 0, 0]]

CURATED = [
    # plain traffic both ways
    (2, LOGON_A + [[1, 0, 2, 0, 1, 0], [2, 0, 0, 0, 2, 0], [1, 2, 3, 0, 77, 0], [2, 0, 0, 0, 3, 0], [1, 1, 4, 0, 0, 0]]),
    (1, LOGON_I + [[2, 0, 0, 0, 1, 0], [1, 0, 2, 0, 2, 0], [1, 2, 3, 0, 78, 0], [2, 0, 0, 0, 3, 0]]),
    # gap -> ResendRequest -> replay + gap fill spanning several numbers
    (2, LOGON_A + [[1, 0, 5, 0, 1, 0], [1, 0, 2, 1, 2, 0], [1, 4, 3, 1, 6, 1], [1, 0, 6, 0, 3, 0]]),
    (1, LOGON_I + [[1, 0, 4, 0, 1, 0], [1, 4, 2, 1, 5, 1], [1, 0, 5, 0, 2, 0], [2, 0, 0, 0, 3, 0]]),
    # D11: gap fill spanning several numbers as the next frame; reset; gap fill onto itself then the same number
    (2, LOGON_A + [[1, 4, 2, 0, 6, 1], [1, 0, 6, 0, 1, 0]]),
    (2, LOGON_A + [[1, 0, 2, 0, 1, 0], [1, 4, 3, 0, 9, 0]]),
    (2, LOGON_A + [[1, 4, 2, 0, 2, 1], [1, 0, 2, 0, 1, 0]]),
    (2, LOGON_A + [[1, 0, 2, 0, 1, 0], [1, 0, 3, 0, 2, 0], [1, 4, 2, 1, 3, 1]]),
    # peer ResendRequest (all, bounded, twice over the same range, beyond, non-positive): D12 before its repair
    (2, LOGON_A + [[2, 0, 0, 0, 1, 0], [2, 0, 0, 0, 2, 0], [2, 0, 0, 0, 3, 0], [1, 3, 2, 0, 2, 0]]),
    (2, LOGON_A + [[2, 0, 0, 0, 1, 0], [2, 0, 0, 0, 2, 0], [2, 0, 0, 0, 3, 0], [1, 3, 2, 0, 2, 2], [2, 0, 0, 0, 4, 0]]),
    (2, LOGON_A + [[2, 0, 0, 0, 1, 0], [2, 0, 0, 0, 2, 0], [1, 3, 2, 0, 2, 0], [1, 3, 3, 0, 2, 0], [2, 0, 0, 0, 3, 0]]),
    (2, LOGON_A + [[2, 0, 0, 0, 1, 0], [2, 0, 0, 0, 2, 0], [1, 3, 2, 0, 3, 0], [1, 3, 3, 0, 2, 0]]),
    (2, LOGON_A + [[2, 0, 0, 0, 1, 0], [1, 3, 2, 0, 6, 0], [2, 0, 0, 0, 2, 0]]),
    # bounded request (no tail gap fill beyond EndSeqNo); a hole before a replayed row (row 2 lost to a refused journal write)
    (2, LOGON_A + [[2, 0, 0, 0, 1, 0], [2, 0, 0, 0, 2, 0], [2, 0, 0, 0, 3, 0], [1, 3, 2, 0, 2, 3], [1, 3, 3, 0, 3, 3]]),
    (2, LOGON_A + [[2, 4, 2, 0, 4, 0], [2, 0, 0, 0, 1, 0], [2, 0, 0, 0, 2, 0], [1, 3, 2, 0, 1, 0]]),
    (2, LOGON_A + [[2, 0, 0, 0, 1, 0], [1, 3, 2, 0, 0, 0], [2, 0, 0, 0, 2, 0]]),
    (1, LOGON_I + [[2, 0, 0, 0, 1, 0], [1, 2, 2, 0, 5, 0], [2, 0, 0, 0, 2, 0], [1, 3, 3, 0, 1, 0]]),
    # D20: application-sent SequenceReset (gap fill: not journaled, number not consumed; reset mode: journaled under its
    # own number); application-level PossDup resend (not journaled)
    (2, LOGON_A + [[2, 0, 0, 0, 1, 0], [2, 4, 3, 0, 5, 1], [2, 0, 0, 0, 2, 0]]),
    (2, LOGON_A + [[2, 0, 0, 0, 1, 0], [2, 4, 3, 0, 5, 0], [2, 0, 0, 0, 2, 0]]),
    (1, LOGON_I + [[2, 4, 5, 0, 7, 1], [2, 0, 0, 0, 1, 0]]),
    (1, LOGON_I + [[2, 4, 5, 0, 7, 0], [2, 0, 0, 0, 1, 0], [2, 0, 0, 0, 2, 0], [2, 0, 0, 0, 3, 0]]),
    (2, LOGON_A + [[2, 0, 0, 0, 1, 0], [2, 0, 2, 1, 1, 0], [2, 0, 0, 0, 2, 0]]),
    (2, LOGON_A + [[2, 4, 2, 0, 3, 0], [3, 0], [0], [1, 5, 2, 0, 0, 0], [1, 6, 3, 0, 0, 0]]),
    # peer Logout (counted and journaled since the repair of D22), then restart / reconnect; Logout with a gap
    (2, LOGON_A + [[1, 0, 2, 0, 1, 0], [1, 6, 3, 0, 0, 0]]),
    (2, LOGON_A + [[1, 0, 2, 0, 1, 0], [1, 6, 5, 0, 0, 0]]),
    (2, LOGON_A + [[1, 4, 2, 0, 2, 1], [1, 6, 2, 0, 0, 0]]),       # the Logout's journal write fails: the session still ends
    (1, LOGON_I + [[2, 0, 0, 0, 1, 0], [1, 6, 2, 0, 0, 0], [0], [2, 5, 0, 0, 0, 0], [1, 5, 3, 0, 0, 0]]),
    # own Logout, restart inside the history, too-low frame, refused sends
    (2, LOGON_A + [[2, 0, 0, 0, 1, 0], [3, 1], [4], [0], [1, 5, 2, 0, 0, 0], [2, 0, 0, 0, 2, 0]]),
    (1, LOGON_I + [[1, 0, 2, 0, 1, 0], [4], [0], [2, 5, 0, 0, 0, 0], [1, 5, 3, 0, 0, 0], [1, 0, 4, 0, 2, 0]]),
    (2, LOGON_A + [[1, 0, 2, 0, 1, 0], [1, 0, 1, 0, 2, 0]]),
    # the transport raises in write() / in drain() after the write of a send; the object lives on, later restart
    (1, LOGON_I + [[2, 0, 0, 0, 1, 0], [5, 0, 0, 0, 2, 0, 1], [4], [0], [2, 5, 0, 0, 0, 0], [1, 5, 2, 0, 0, 0]]),
    (1, LOGON_I + [[2, 0, 0, 0, 1, 0], [5, 0, 0, 0, 2, 0, 0], [4], [0], [2, 5, 0, 0, 0, 0], [1, 5, 2, 0, 0, 0]]),
    (2, LOGON_A + [[5, 0, 0, 0, 1, 0, 1], [2, 0, 0, 0, 2, 0], [1, 3, 2, 0, 2, 0]]),
    (2, LOGON_A + [[5, 0, 0, 0, 1, 0, 0], [2, 0, 0, 0, 2, 0], [1, 3, 2, 0, 2, 0]]),
    (2, [[0], [5, 5, 0, 0, 0, 0, 1], [4], [0], [1, 5, 1, 0, 0, 0]]),
    (2, LOGON_A + [[5, 4, 2, 0, 4, 1, 1], [5, 0, 2, 1, 1, 0, 1], [2, 0, 0, 0, 1, 0]]),
    # non-Logon traffic before the Logon exchange has completed: dropped / refused
    (1, [[0], [2, 5, 0, 0, 0, 0], [1, 0, 1, 0, 5, 0], [0], [2, 5, 0, 0, 0, 0], [1, 5, 2, 0, 0, 0]]),
    (1, [[0], [2, 5, 0, 0, 0, 0], [1, 2, 1, 0, 7, 0]]),
    (1, [[0], [2, 5, 0, 0, 0, 0], [1, 6, 1, 0, 0, 0]]),
    (1, [[0], [2, 0, 0, 0, 1, 0], [2, 5, 0, 0, 0, 0], [2, 0, 0, 0, 2, 0], [1, 5, 3, 0, 0, 0], [1, 0, 4, 0, 1, 0]]),
    (2, [[0], [1, 0, 1, 0, 1, 0], [0], [1, 5, 4, 0, 0, 0], [1, 4, 1, 1, 5, 1]]),
]


# the witnesses of the *_refuted theorems of Props/C09.v, as (role, ops, restart point, what the real code must show)
WITNESSES = {
    "C09_gapfill_lag_refuted": (2, LOGON_A + [[1, 4, 2, 0, 6, 1]], ["g", 2, -1, False],
                                lambda h, res: h["steps"][2][2:5] == [6, 2, 2] and res["restored"][0] == 3
                                and any(f[0] == 3 for f in res["wire"])),
    "C09_resend_keeps_journal": (2, LOGON_A + [[2, 0, 0, 0, 1, 0], [2, 0, 0, 0, 2, 0], [1, 3, 2, 0, 3, 0], [1, 3, 3, 0, 2, 0]],
                                 ["g", 5, -1, False],
                                 lambda h, res: h["steps"][5][1] == 17 and h["steps"][5][3] == 4 and h["steps"][5][5] == 3
                                 and res["restored"] == [4, 4]),
    "C09_app_seqreset_refuted": (2, LOGON_A + [[2, 4, 2, 0, 5, 0]], ["g", 2, -1, False],
                                 lambda h, res: h["steps"][2][3] == 2 and h["steps"][2][5] == 2 and res["restored"][1] == 3),
    "C09_peer_logout_counted": (2, LOGON_A + [[1, 6, 2, 0, 0, 0]], ["g", 2, -1, False],
                                lambda h, res: h["steps"][2][2] == 3 and h["steps"][2][4] == 2 and h["steps"][2][1] == 0
                                and res["restored"][0] == 3 and not any(f[0] == 3 for f in res["wire"])
                                and res["steps"][1][1] == 17),
    # former D14: journal first.  Effects of the send: 9 INSERT, 10 UPDATE, 11 COMMIT, 12 write, 13 drain
    "C09_send_crash_points@10": (2, LOGON_A + [[2, 0, 0, 0, 9, 0]], ["c", 2, 10, True],
                                 lambda h, res: res["restored"][1] == 2 and [0, 2, 0, 9, 0] not in res["old_wire"]),
    "C09_send_crash_points@11": (2, LOGON_A + [[2, 0, 0, 0, 9, 0]], ["c", 2, 11, True],
                                 lambda h, res: res["restored"][1] == 3 and [0, 2, 0, 9, 0] not in res["old_wire"]
                                 and [5, 3, 0, 0, 0] in res["wire"]),
    "C09_send_crash_points@12": (2, LOGON_A + [[2, 0, 0, 0, 9, 0]], ["c", 2, 12, True],
                                 lambda h, res: res["restored"][1] == 3 and [0, 2, 0, 9, 0] in res["old_wire"]
                                 and [5, 3, 0, 0, 0] in res["wire"]),
    "C09_drain_fault_then_restart": (1, LOGON_I + [[2, 0, 0, 0, 1, 0], [5, 0, 0, 0, 2, 0, 1]], ["g", 4, -1, False],
                                     lambda h, res: h["steps"][4][0] == 5 and h["steps"][4][3] == 4 and h["steps"][4][5] == 3
                                     and res["restored"][1] == 4 and [0, 3, 0, 2, 0] in res["old_wire"]
                                     and [5, 4, 0, 0, 0] in res["wire"]),
    "C09_duplicate_inbound_row": (2, LOGON_A + [[1, 4, 2, 0, 2, 1], [1, 0, 2, 0, 1, 0]], ["g", 3, -1, False],
                                  lambda h, res: h["steps"][3][0] == 2 and h["steps"][3][2] == 3 and h["steps"][3][4] == 2),
}


def confirm_witnesses(ctx, hists):
    got = {}
    for name, (role, ops, pt, pred) in WITNESSES.items():
        ok = False
        for h in hists:
            if h["role"] == role and h["ops"] == ops:
                for p in h["points"]:
                    if p["pt"] == pt and "error" not in p["res"]:
                        try:
                            ok = bool(pred(h, p["res"]))
                        except Exception:
                            ok = False
        got[name] = ok
        if not ok:
            ctx.notes.append("note: the witness of %s is no longer reproduced by the implementation" % name)
    ctx.extra["refuted_witnesses_confirmed_on_impl"] = got


def nontrivial(h, p):
    kind, j, k, infl = p["pt"]
    if infl:
        return True
    if j < 0:
        return False
    b, a = live_before(h, j), (h["steps"][j][2], h["steps"][j][3])
    return b != a


def evaluate(ctx, hists, use_model=True):
    outs_all = None
    if use_model and ctx.model:
        lines, spans = [], []
        for h in hists:
            ls = model_lines(h)
            spans.append((len(lines), len(ls)))
            lines += ls
        flat_out = ctx.model.batch(lines)
        outs_all = [flat_out[a:a + n] for a, n in spans]
    for idx, h in enumerate(hists):
        for o in h["ops"]:
            ctx.count("op:%s" % (["connect", "in", "send", "disconnect", "restart", "send-fault"][o[0]]
                                 + ("" if o[0] not in (1, 2, 5) else ":" + MT[o[1]])))
        ctx.count("role:%d" % h["role"])
        ctx.traces += 1
        if outs_all is not None:
            compare(ctx, h, outs_all[idx])
        for p in h["points"]:
            kind, j, k, infl = p["pt"]
            canon = (h["role"], json.dumps(h["ops"]), json.dumps(p["pt"]))
            nt = nontrivial(h, p)
            ctx.case(canon, nt, sample={"role": h["role"], "ops": h["ops"], "point": p["pt"], "restored": p["res"].get("restored"),
                                        "frames_after_restart": p["res"].get("wire")}
                     if (nt and infl and len(ctx.samples) < 4 and len(h["ops"]) > 5) else None)
            ctx.count("point:" + ("graceful" if kind == "g" else ("inside-op" if infl else "boundary-death")))
            if infl:
                o = h["ops"][j]
                ctx.count("inside:" + ["connect", "in", "send", "disconnect", "restart", "send-fault"][o[0]])
            if "sim_mismatch" in p:
                ctx.disagree(case_of(h, p), p["sim_mismatch"], None, "simulated-death-vs-real-death")
            ctx.count("death:" + p["how"])
            for fk, text, detail in oracle(h, p):
                cls = classify(h, p["pt"], fk, detail) if fk != "mismatch" else None
                ctx.fail(case_of(h, p), text, cls)


def make_items(ctx, rng):
    items = [{"role": r, "ops": ops} for r, ops in corpus() + CURATED + [(w[0], w[1]) for w in WITNESSES.values()]]
    n = ctx.scale(330, 3000)
    for _ in range(n):
        items.append({"role": rng.choice([1, 2]), "seed": rng.randrange(1 << 40), "len": rng.randrange(4, ctx.scale(10, 13))})
    return items


def run(ctx):
    t = time.time()
    hists = run_workers(make_items(ctx, ctx.rng), real_s=ctx.scale(25.0, 420.0))
    ctx.extra["restart_runs_s"] = round(time.time() - t, 1)
    ctx.extra["histories"] = len(hists)
    evaluate(ctx, hists)
    confirm_witnesses(ctx, hists)


def corpus():
    import glob
    out = []
    for f in sorted(glob.glob(os.path.join(os.path.dirname(__file__), "..", "corpus", "C09", "*.json"))):
        rec = json.load(open(f))
        out.append((rec["role"], rec["ops"]))
    return out


def search(ctx, cases):
    """A proof or the correspondence broke: look for a restart point at which the implementation itself breaks the property."""
    import random
    rng = random.Random(ctx.seed + 1)
    items, seen = [], set()
    for c in cases:
        key = json.dumps([c.get("role"), c.get("ops")])
        if c.get("ops") and key not in seen:
            seen.add(key)
            items.append({"role": c["role"], "ops": c["ops"]})
    items = items[:40]
    for _ in range(ctx.scale(60, 400)):
        items.append({"role": rng.choice([1, 2]), "seed": rng.randrange(1 << 40), "len": rng.randrange(4, 10)})
    evaluate(ctx, run_workers(items, real_s=5.0), use_model=False)


def replay(path):
    rec = json.load(open(path))
    case = rec.get("input")
    if not case or not case.get("ops"):
        print("replay: no concrete input; broken:", rec.get("broken"))
        return 1
    h = run_history(case["role"], ops=case["ops"])
    only = [case["point"]] if case.get("point") else None
    h["points"] = run_points(h, only)
    rc = 0
    print("role=%d ops=%s" % (h["role"], h["ops"]))
    for p in h["points"]:
        bad = oracle(h, p)
        if bad or only:
            print(" restart point %s: restored=%s frames after restart=%s" % (p["pt"], p["res"].get("restored"), p["res"].get("wire")))
        for fk, text, detail in bad:
            cls = classify(h, p["pt"], fk, detail) if fk != "mismatch" else None
            print("  BREACH [%s]%s: %s" % (fk, " (known class %s)" % cls if cls else "", text))
            if cls is None:
                rc = 1
    return rc


if __name__ == "__main__" and "--worker" in sys.argv:
    worker_main()

if __name__ == "__main__" and "--adhoc" in sys.argv:
    role = int(sys.argv[2])
    hh = run_history(role, ops=json.loads(sys.argv[3]))
    print("steps", hh["steps"])
    print("flat", hh["flat"])
    print("peer", hh["peer"])
    hh["points"] = run_points(hh)
    for pp in hh["points"]:
        print(pp["pt"], pp["res"].get("restored"), pp["res"].get("wire"), [(fk, classify(hh, pp["pt"], fk, dt)) for fk, _, dt in oracle(hh, pp)])
