(* The session model with an application callback that may RAISE.

   Fix/Session.v treats the overridable hooks as non-raising.  For `on_message` this file removes that assumption:
   `hr m = Some x` means that the application's on_message(m) records the message and then raises x.  In the code the
   call sits inside `try: ... except Exception: log` of `_process_message`, and `_finalize_message` runs in the
   `finally:` clause whenever the number was valid - so a failing callback must not stop the message from being
   counted and journaled (otherwise the peer's next message looks too high, a ResendRequest goes out although nothing
   was lost and the PossDup copy is handed to the application a second time).

   Only the three top definitions of `_process_message` are restated; everything below them is Fix/Session.v.
   Lemmas/SessionHooksL.v proves that the raising variant computes EXACTLY the same result (value, world, events) as
   `process_message`, for every hook behaviour - so every theorem of C04 / C05 / C11 holds for raising callbacks too. *)
From Coq Require Import ZArith NArith List Bool.
From AF Require Import Base.Sx Py.Str Fix.Session.
Import ListNotations.
Open Scope Z_scope.

Definition hook := msg -> option exn.

(* await self.on_message(msg): the event, then the callback's own exception if it has one *)
Definition on_message_h (hr : hook) (m : msg) : M unit :=
  emit (App m) ;;; (match hr m with Some x => raise x | None => ret tt end).

Definition dispatch_h (hr : hook) (c : cfg) (m : msg) (valid : bool) : M unit :=
  match mkind m with
  | KLogout | KApp =>
      if valid then
        w <- getw ;;
        match get_int T34 m with
        | inl n => if n =? nin w then on_message_h hr m else ret tt
        | inr _ => ret tt
        end
      else ret tt
  | _ => dispatch c m valid
  end.

Definition after_part1_h (hr : hook) (c : cfg) (m : msg) (now : Z) (r1 : option (option bool)) : M unit :=
  match r1 with
  | Some (Some true) => try_ (dispatch_h hr c m true) ;;; finalize m now
  | Some (Some false) => try_ (dispatch_h hr c m false) ;;; ret tt
  | _ => ret tt
  end.

Definition process_message_h (hr : hook) (c : cfg) (m : msg) (now : Z) : M unit := fun w =>
  match validate_integrity c m w with
  | VExc x => raise x w
  | VTrue => disconnect c ST_DISC_BROKEN None w
  | VStr s => disconnect c ST_DISC_BROKEN (Some s) w
  | VOk => (r1 <- try_ (part1 c m) ;; after_part1_h hr c m now r1) w
  end.

Definition step_h (hr : hook) (c : cfg) (o : op) : M unit :=
  match o with
  | OIn m now => process_message_h hr c m now
  | _ => step c o
  end.

Fixpoint run_h (hr : hook) (c : cfg) (w : world) (h : list op) : list srec :=
  match h with
  | [] => []
  | o :: h' => let r := step_h hr c o w in mkS w o r :: run_h hr c (rw r) h'
  end.

(* what the callback itself saw: the messages handed to it, and those on which it failed *)
Definition failed_callbacks (hr : hook) (evs : list event) : list msg :=
  flat_map (fun e => match e with App m => match hr m with Some _ => [m] | None => [] end | _ => [] end) evs.
