"""Extensional tabulation of FIXNewOrderSingle.change_status on its whole finite domain.

cell code: 0 = returns None, 1 = returns the reported status, 2 = raises FIXError,
           3 = raises something else, 4 = returns something else.
A row is (status, kind, exec_type, [codes for each reported status, raise_on_err=True],
                                   [same, raise_on_err=False]).
Statuses / kinds / exec types are the one-character wire values as code points; the
non-member status is '?' (63), the unsupported kind is '7' (ADVERTISEMENT), and the
'omitted' ExecType marker is the integer 0 the library itself passes (code point 0 here)."""
from .coqfmt import HEADER, clist

NAME = "GenChangeStatus"
SOURCES = ["asyncfix/protocol/order_single.py", "asyncfix/protocol/common.py", "asyncfix/msgtype.py"]


def domain():
    from asyncfix import FMsg
    from asyncfix.protocol.common import FExecType, FOrdStatus

    statuses = list(FOrdStatus) + ["?"]
    kinds = [FMsg.EXECUTIONREPORT, FMsg.ORDERCANCELREJECT, FMsg.ORDERCANCELREQUEST,
             FMsg.ORDERCANCELREPLACEREQUEST, FMsg.ADVERTISEMENT]
    execs = list(FExecType) + [0]
    reported = list(FOrdStatus)
    return statuses, kinds, execs, reported


def code(x):
    if x == 0 and isinstance(x, int):
        return 0
    v = x.value if hasattr(x, "value") else x
    assert isinstance(v, str) and len(v) == 1, v
    return ord(v)


def cell(st, kind, ex, ms, raise_on_err):
    from asyncfix.errors import FIXError
    from asyncfix.protocol.order_single import FIXNewOrderSingle

    try:
        r = FIXNewOrderSingle.change_status(st, kind, ex, ms, raise_on_err=raise_on_err)
    except FIXError:
        return 2
    except Exception:
        return 3
    if r is None:
        return 0
    if r is ms:
        return 1
    return 4


def rows():
    statuses, kinds, execs, reported = domain()
    for st in statuses:
        for kind in kinds:
            for ex in execs:
                yield (code(st), code(kind), code(ex),
                       [cell(st, kind, ex, ms, True) for ms in reported],
                       [cell(st, kind, ex, ms, False) for ms in reported])


def generate():
    statuses, kinds, execs, reported = domain()
    t = HEADER
    t += "Definition reported : list N := %s.\n" % clist([str(code(m)) for m in reported], 20)
    t += "Definition statuses : list N := %s.\n" % clist([str(code(m)) for m in statuses], 20)
    t += "Definition kinds : list N := %s.\n" % clist([str(code(m)) for m in kinds], 20)
    t += "Definition execs : list N := %s.\n\n" % clist([str(code(m)) for m in execs], 20)
    rs = []
    for (s, k, e, a, b) in rows():
        rs.append("(%d, %d, %d, %s, %s)" % (s, k, e, "[" + ";".join(map(str, a)) + "]", "[" + ";".join(map(str, b)) + "]"))
    t += "Definition graph : list (N * N * N * list N * list N) :=\n  %s.\n" % clist(rs, 1)
    return t
