#!/bin/bash
# Development tool: harness-only run (no theorem re-check) of one property against a patched scratch worktree.
PID=$1; PATCH=$2
WT=$(mktemp -d /tmp/mt_XXXXXX); rmdir "$WT"
git -C /repo worktree add --detach "$WT" HEAD >/dev/null 2>&1
trap 'git -C /repo worktree remove --force "$WT" >/dev/null 2>&1; rm -rf "$WT"' EXIT
git -C "$WT" apply "$PATCH" || exit 2
cd /verif && VERIF_REPO="$WT" VERIF_EXTRA_FINDINGS=${KF:-} timeout 900 /venv/bin/python selftest/dev_run.py "$PID" 2>&1 | cut -c1-400 | grep -v "^{" | tail -4
