(* Sx front end of the validate_value model (C19).
   request : [[tag, ftype, [enumerator, ...]], [value, ...]]      (strings as code point lists)
   reply   : [code, ...]   one per value: 0 accept, 1 accept + "Unsupported datatype" warning,
                           2 FIXMessageError, 3 AssertionError, 4 ValueError *)
From Coq Require Import ZArith NArith List Bool.
From AF Require Import Base.Sx Py.Str Fix.ValidateValue.
Import ListNotations.
Open Scope Z_scope.

Definition sx_result (r : result) : sx :=
  match r with
  | Accept false => SI 0
  | Accept true => SI 1
  | Raise EFIXMessageError => SI 2
  | Raise EAssertionError => SI 3
  | Raise EValueError => SI 4
  end.

Definition get_field (s : sx) : option field :=
  match s with
  | SL [t; ty; vs] =>
      match get_str t, get_str ty, get_list get_str vs with
      | Some t', Some ty', Some vs' => Some (mkField t' ty' vs')
      | _, _, _ => None
      end
  | _ => None
  end.

Definition run (req : sx) : sx :=
  match req with
  | SL [f; vals] =>
      match get_field f, get_list get_str vals with
      | Some f', Some vals' => SL (map (fun v => sx_result (validate_value f' v)) vals')
      | _, _ => err_sx 1
      end
  | _ => err_sx 2
  end.

Definition entry (line : str) : str := run_line run line.
