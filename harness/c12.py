"""C12 - the heartbeat watchdog detects dead peers and spares live ones.

The theorems (coq/theories/Props/C12.v) are about the model coq/theories/Fix/Timer.v.  This harness
ties that model to asyncfix/connection.py by running the REAL `heartbeat_timer_task` and the
REAL `socket_read_task` / `_process_message` of a real connection object under a virtual-time
asyncio event loop, and the extracted model on the resulting concrete event list.

Time.  All scenario times are integer multiples of 125 ms (1/8 s) counted from the virtual
epoch 1 000 000 s, hence exactly representable as floats (and as the model's integer
milliseconds): every float comparison of the timer task is then exact.

Event list handed to the model (Sx syntax of Fix/TimerRun.v), times in ms:
    [0, t]                 one iteration of heartbeat_timer_task at time t
    [1, t, kind, rid, d]   inbound valid message numbered next_num_in + d (d = 0 in sequence, d > 0 behind a gap):
                           kind 0 Heartbeat, 1 TestRequest, 2 application; rid = [] (no tag 112) | [text]
    [1, t, 3, [], d, nw]   inbound SequenceReset-GapFill with NewSeqNo = next_num_in + nw
    [2, t]                 application calls send_test_req()
    [3, t, text]           application calls send_msg(TestRequest(112=text)) directly
Per event the model answers [outs, [state, connected, mlt_ms, [id]?, gap]] (gap = _max_seq_num_resend - next_num_in
while a resend is awaited, else 0) with
    outs = list of [0, kind, rid] frame written (kind 0 Heartbeat, 1 TestRequest, 2 ResendRequest, 5 Logout) | [1] on_disconnect
           | [2] the timer task would spin (exception without sleep) | [3] FIXConnectionError raised to the caller."""
from __future__ import annotations

import asyncio
import faulthandler
import json
import os
import selectors
import sys
import time as _time

_REAL_TIME, _REAL_SLEEP = _time.time, asyncio.sleep
EPOCH = 1_000_000          # virtual epoch in seconds (small: see memory/asyncfix-harness-pitfalls)
Q = 125                    # time quantum in ms (1/8 s: exact in binary floating point)

META = {
    "level": "proof",
    "tables": ["GenTimer"],
    "files": ["asyncfix/connection.py"],
    "rule": "one case = (heartbeat interval, first-tick phase, peer policy, run length): the real heartbeat_timer_task and "
            "socket_read_task run under a virtual clock against a reactive scripted peer (silent / periodic traffic below, at, "
            "above the interval / bursts then silence / probe answers delayed 0..2.5 intervals / wrong, missing, non-numeric, "
            "leniently spelled TestReqID / inbound TestRequests with and without 112 / application-initiated probes / "
            "heartbeat-protocol traffic behind a sequence gap: answers numbered above the expected number then gap fill, "
            "inbound TestRequests behind a gap, all traffic behind an unfilled gap, partial fills and re-sends); "
            "non-trivial when at least one TestRequest is written or the peer sends at least 3 messages; distinct by canonical "
            "(hb, concrete event list)",
    "trusted_base": [
        "virtual-time event loop of harness/c12.py (SelectorEventLoop subclass, time.time patched to the same clock): "
        "asyncio.sleep(1.0) is taken to wake exactly 1 s later; wall-clock drift, scheduling latency and float rounding of "
        "real time.time() values are not modelled (scenario times are dyadic, so the float comparisons are exact)",
        "inbound messages are valid frames built by the harness, numbered at the expected number or above it (a scripted "
        "peer that loses messages and gap-fills); the session is put into ACTIVE by a real Logon exchange",
    ],
    "assumptions": ["virtual time >= 1 s after the Unix epoch (int(time.time()) != 0)",
                    "ticks are exactly 1 s apart (no drift), drain() never blocks"],
}

SOH = "\x01"


# ----------------------------------------------------------------------------------------------
# virtual-time event loop
# ----------------------------------------------------------------------------------------------

class VClock:
    """`now` is what time.time() returns; the loop's own clock (used only to decide which timers are due) is
    now - lag.  lag is 0 except while a scripted event is processed at an instant at which a timer is also due:
    then the timer is held back until the event has been processed (`tie` order: event first)."""

    def __init__(self, now):
        self.now = float(now)
        self.lag = 0.0

    def time(self):
        return self.now


class VSelector:
    """Wraps a real selector; when nothing is ready and the loop would block, jumps the virtual
    clock to the exact `when` of the earliest scheduled timer instead of sleeping."""

    def __init__(self, clock):
        self._sel = selectors.DefaultSelector()
        self._clock = clock
        self.loop = None
        self.idle_deadlock = False

    def select(self, timeout=None):
        ev = self._sel.select(0)
        if ev or (timeout is not None and timeout <= 0):
            return ev
        sched = getattr(self.loop, "_scheduled", None)
        if sched:
            w = min(h._when for h in sched if not h._cancelled) if any(not h._cancelled for h in sched) else None
            if w is not None and w > self._clock.now:
                self._clock.now = w
            return []
        self.idle_deadlock = True
        raise RuntimeError("virtual loop: nothing scheduled, would block forever")

    def __getattr__(self, name):
        return getattr(self._sel, name)


class VLoop(asyncio.SelectorEventLoop):
    def __init__(self, clock):
        self.vclock = clock
        sel = VSelector(clock)
        super().__init__(sel)
        sel.loop = self

    def time(self):
        return self.vclock.now - self.vclock.lag

    # --- explicit stepping used by the driver -------------------------------------------------
    def earliest(self):
        ws = [h._when for h in self._scheduled if not h._cancelled]
        return min(ws) if ws else None

    def quiescent(self):
        if self._ready:
            return False
        w = self.earliest()
        return w is None or w > self.time()

    def settle(self, cap=20000):
        """Run iterations at the current virtual time until the ready queue is empty and no
        timer is due now.  Returns False when `cap` iterations did not reach quiescence (spin)."""
        n = 0
        while not self.quiescent():
            self.call_soon(self.stop)
            self.run_forever()
            n += 1
            if n > cap:
                return False
        return True


class FakeWriter:
    def __init__(self, clock, reader, log):
        self.clock, self.reader, self.log = clock, reader, log
        self.closed = False

    def write(self, data):
        self.log.append((self.clock.now, bytes(data)))

    async def drain(self):
        return None

    def close(self):
        if not self.closed:
            self.closed = True
            self.reader.feed_eof()      # a real socket would give the reader EOF

    def is_closing(self):
        return self.closed

    async def wait_closed(self):
        return None

    def get_extra_info(self, *a, **k):
        return None


# ----------------------------------------------------------------------------------------------
# adapter to the private state of the connection (one place to touch after a harmless rename)
# ----------------------------------------------------------------------------------------------

class Adapter:
    @staticmethod
    def snapshot(conn):
        mlt = conn._message_last_time
        ms = mlt * 1000.0
        rid = conn._test_req_id
        m = conn._max_seq_num_resend
        return [int(conn._connection_state), 1 if (conn._socket_writer and conn._socket_reader) else 0,
                int(ms) if ms == int(ms) else ["inexact", repr(mlt)], [] if rid is None else [int(rid)],
                (m - conn._session.next_num_in) if m else 0]

    @staticmethod
    def attach(conn, reader, writer):
        conn._socket_reader, conn._socket_writer = reader, writer

    @staticmethod
    def poke(conn, state=None, mlt=None, rid="keep"):
        if state is not None:
            conn._connection_state = state
        if mlt is not None:
            conn._message_last_time = mlt
        if rid != "keep":
            conn._test_req_id = rid

    @staticmethod
    def next_in(conn):
        return conn._session.next_num_in


def frame(msg_type, seq, pairs, sender="T", target="S"):
    """An inbound frame as the peer would send it (written from the FIX framing rules)."""
    body = "35=%s%s49=%s%s56=%s%s34=%d%s52=20240101-00:00:00.000%s" % (msg_type, SOH, sender, SOH, target, SOH, seq, SOH, SOH)
    for k, v in pairs:
        body += "%s=%s%s" % (k, v, SOH)
    head = "8=FIX.4.4%s9=%d%s" % (SOH, len(body), SOH)
    cs = sum((head + body).encode("latin-1")) % 256
    return (head + body + "10=%03d%s" % (cs, SOH)).encode("latin-1")


def parse_frame(data):
    fields = [f.split("=", 1) for f in data.decode("latin-1").split(SOH) if f]
    d = {}
    for kv in fields:
        if len(kv) == 2 and kv[0] not in d:
            d[kv[0]] = kv[1]
    return d


KIND_OF_TYPE = {"0": 0, "1": 1, "2": 2, "5": 5, "A": 10}
TYPE_OF_KIND = {0: "0", 1: "1", 2: "D", 3: "4"}


# ----------------------------------------------------------------------------------------------
# implementation driver
# ----------------------------------------------------------------------------------------------

class Driver:
    """One real connection under the virtual loop.  Times given/returned in ms since EPOCH*1000 ... absolute ms."""

    def __init__(self, hb, t0_ms, init="logon"):
        import asyncfix.connection as C
        from asyncfix.connection import AsyncFIXConnection, ConnectionState
        from asyncfix.journaler import Journaler
        from asyncfix.protocol import FIXProtocol44

        self.C = C
        self.hb = hb
        self.clock = VClock(t0_ms / 1000.0)
        self.loop = VLoop(self.clock)
        asyncio.set_event_loop(self.loop)
        self.wire = []            # (time, bytes)
        self.disc = []            # on_disconnect times
        self.states = []          # (time, state)
        self.app = []             # (time, msgtype) handed to on_message
        self.sleeps = []          # (time, delay) of the heartbeat task
        self.errors = []
        self.spin = False
        drv = self

        class Conn(AsyncFIXConnection):
            async def on_disconnect(self):
                drv.disc.append(drv.clock.now)

            async def on_state_change(self, st):
                drv.states.append((drv.clock.now, int(st)))

            async def on_message(self, msg):
                drv.app.append((drv.clock.now, str(msg.msg_type)))

        self._real_time = _time.time
        self._real_sleep = asyncio.sleep
        _time.time = self.clock.time

        async def vsleep(delay, result=None):
            t = asyncio.current_task()
            if t is not None and t.get_name() == "c12-heartbeat":
                drv.sleeps.append((drv.clock.now, delay))
            return await drv._real_sleep(delay, result)

        asyncio.sleep = vsleep
        self.AWAITING = int(ConnectionState.RESENDREQ_AWAITING)
        self.conn = Conn(FIXProtocol44(), "S", "T", Journaler(), "vhost", 0, heartbeat_period=hb)
        self.reader = asyncio.StreamReader(loop=self.loop)
        self.writer = FakeWriter(self.clock, self.reader, self.wire)
        Adapter.attach(self.conn, self.reader, self.writer)
        self.CS = ConnectionState
        self.read_task = self.loop.create_task(self.conn.socket_read_task(), name="c12-reader")
        self.hb_task = None
        self.peer_seq = 1
        if init == "logon":
            self.run_coro(self.conn._state_set(ConnectionState.NETWORK_CONN_ESTABLISHED))
            self.inject("A", [("98", "0"), ("108", str(hb))])
        else:
            Adapter.poke(self.conn, state=ConnectionState(init["state"]), mlt=init["mlt"] / 1000.0,
                         rid=init.get("rid"))
            self.settle()

    # --- plumbing -----------------------------------------------------------------------------
    def close(self):
        try:
            for t in (self.hb_task, self.read_task):
                if t is not None:
                    t.cancel()
            self.loop.settle(200)
            self.loop.close()
        finally:
            _time.time = self._real_time
            asyncio.sleep = self._real_sleep
            asyncio.set_event_loop(None)

    def settle(self, hold_timers=False):
        self.clock.lag = 2.0 ** -10 if hold_timers else 0.0
        try:
            ok = self.loop.settle()
        finally:
            self.clock.lag = 0.0
        if not ok:
            self.spin = True
            raise Spin()

    def run_coro(self, coro):
        box = {}

        async def wrap():
            try:
                box["ok"] = await coro
            except Exception as e:            # reported to the caller as a class name
                box["exc"] = type(e).__name__

        self.loop.create_task(wrap(), name="c12-call")
        self.settle(hold_timers=True)
        return box

    def now_ms(self):
        return int(round(self.clock.now * 1000))

    def set_time(self, t_ms):
        t = t_ms / 1000.0
        assert t >= self.clock.now, (t, self.clock.now)
        self.clock.now = t

    def start_timer(self):
        self.hb_task = self.loop.create_task(self.conn.heartbeat_timer_task(), name="c12-heartbeat")

    def inject(self, msg_type, pairs, d=0):
        seq = Adapter.next_in(self.conn) + d
        self.reader.feed_data(frame(msg_type, seq, pairs))
        self.settle(hold_timers=True)

    def next_timer_ms(self):
        w = self.loop.earliest()
        return None if w is None else w * 1000.0

    def step_timers(self):
        """Fire every timer due at the earliest `when`; returns that time in ms."""
        w = self.loop.earliest()
        self.clock.now = w
        self.settle()
        return w

    def snapshot(self):
        return Adapter.snapshot(self.conn)


class Spin(Exception):
    pass


# ----------------------------------------------------------------------------------------------
# one case on the implementation
# ----------------------------------------------------------------------------------------------
# case = {"hb": int, "phase": ms, "end": ms, "init": "logon" | {"state": n, "mlt": ms (absolute) | 0},
#         "tie": 0|1 (1: a scripted item at the same instant as a tick goes first),
#         "script": [[t_rel_ms, "recv", kind, rid|None] | [t_rel_ms, "probe"] | [t_rel_ms, "raw", rid]
#                    | [t_rel_ms, "lose"]           one peer message is lost on the wire: everything the peer sends from now
#                                                   on is numbered above what the connection expects (d grows by one per message)
#                    | [t_rel_ms, "fill", nw|None]  the peer gap-fills: SequenceReset in sequence, NewSeqNo = its next number
#                                                   (None) or next_num_in + nw
#                    | [t_rel_ms, "resend", kind, rid|None]  the peer re-sends one missing message in sequence],
#         "policy": None | {"delay": ms, "mode": "match"|"wrong"|"missing"|"junk"|"lenient"|"zero", "limit": k|None,
#                           "gap": None | {"at": k, "fill_after": ms|None}}   the k-th answer (1-based) is preceded by a lost
#                                                   message, the gap is filled fill_after ms after that answer (None: never)}
# All times relative to T0 = EPOCH*1000 ms and multiples of Q.

T0 = EPOCH * 1000


def rid_sx(rid):
    return [] if rid is None else [[ord(c) for c in rid]]


def answer_rid(mode, n):
    if mode == "match":
        return str(n)
    if mode == "wrong":
        return str(n + 1)
    if mode == "missing":
        return None
    if mode == "junk":
        return "abc"
    if mode == "lenient":
        return " +%d" % n            # int() accepts it: the library treats it as the same id
    if mode == "zero":
        return "0"
    raise ValueError(mode)


def run_impl(case):
    """Runs the real tasks.  Returns {"init": snapshot, "events": [...], "rows": [[outs, snapshot], ...],
    "ticks": [...], "note": ...}.  A spinning timer task ends the run with rows[-1] = [[[2]], snapshot]."""
    import heapq

    hb = case["hb"]
    if case.get("tag") == "ctor":
        try:
            Driver(hb, globals()["T0"], {"state": 6, "mlt": 0}).close()
            return {"ctor": "accepted"}
        except ValueError:
            return {"ctor": "refused"}
        finally:
            _time.time = _REAL_TIME
            asyncio.sleep = _REAL_SLEEP
            asyncio.set_event_loop(None)
    T0 = case.get("t0", globals()["T0"])      # epoch override: only the one-off "first second of the epoch" probe uses it
    d = Driver(hb, T0, case.get("init", "logon"))
    res = {"events": [], "rows": [], "note": ""}
    try:
        res["init"] = d.snapshot()
        base_wire = len(d.wire)
        heap = []
        order = 0
        for it in case.get("script", []):
            heapq.heappush(heap, (T0 + it[0], order, it[1:]))
            order += 1
        policy = case.get("policy")
        answered = 0
        ahead = 0                      # peer's next number minus the connection's expected number
        res["awaiting"] = d.AWAITING
        end = T0 + case["end"]
        start_at = T0 + case["phase"]
        started = False
        tie = case.get("tie", 0)

        def observe(n_wire, n_disc, extra=None):
            outs = []
            for (t, data) in d.wire[n_wire:]:
                f = parse_frame(data)
                outs.append([0, KIND_OF_TYPE.get(f.get("35"), 99), rid_sx(f.get("112"))])
            if len(d.disc) > n_disc:
                outs.append([1])
            if extra:
                outs.append(extra)
            return outs

        def deliver(kind, rid, dd, nw=None):
            if d.conn._socket_reader is None or d.reader.at_eof():
                return
            if kind == 3:
                e_ = Adapter.next_in(d.conn)
                d.inject("4", [("123", "Y"), ("36", str(e_ + nw))], dd)
            else:
                d.inject(TYPE_OF_KIND[kind], ([("112", rid)] if rid is not None else []) +
                         ([("11", "x")] if kind == 2 else []), dd)

        def react(n_wire, now):
            nonlocal order, answered
            if not policy:
                return
            for (t, data) in d.wire[n_wire:]:
                f = parse_frame(data)
                if f.get("35") == "1":
                    if policy.get("limit") is not None and answered >= policy["limit"]:
                        continue
                    answered += 1
                    try:
                        n = int(f.get("112", "0"))
                    except ValueError:
                        n = 0
                    gap = policy.get("gap")
                    if gap and answered == gap["at"]:
                        heapq.heappush(heap, (now + policy["delay"], order, ["lose"]))
                        order += 1
                        if gap.get("fill_after") is not None:
                            heapq.heappush(heap, (now + policy["delay"] + gap["fill_after"], order + 1, ["fill", None]))
                    heapq.heappush(heap, (now + policy["delay"], order, ["recv", 0, answer_rid(policy["mode"], n)]))
                    order += 2

        while True:
            w = start_at if not started else d.next_timer_ms()
            s = heap[0][0] if heap else None
            take_script = s is not None and (w is None or s < w or (s == w and tie))
            t = s if take_script else w
            if t is None or t > end:
                break
            n_wire, n_disc, n_sleep = len(d.wire), len(d.disc), len(d.sleeps)
            d.set_time(t)
            try:
                if take_script:
                    _, _, it = heapq.heappop(heap)
                    if it[0] == "lose":
                        ahead += 1
                        continue
                    if it[0] == "fill":
                        nw = ahead if it[1] is None else it[1]
                        if nw < 1 or nw > ahead:
                            continue
                        ev = [1, int(t), 3, [], 0, nw]
                        deliver(3, None, 0, nw)
                        ahead -= nw
                        outs = observe(n_wire, n_disc)
                    elif it[0] == "resend":
                        if ahead < 1:
                            continue
                        ev = [1, int(t), it[1], rid_sx(it[2]), 0]
                        deliver(it[1], it[2], 0)
                        ahead -= 1
                        outs = observe(n_wire, n_disc)
                    elif it[0] == "recv":
                        ev = [1, int(t), it[1], rid_sx(it[2]), ahead]
                        deliver(it[1], it[2], ahead)
                        if ahead > 0:
                            ahead += 1
                        outs = observe(n_wire, n_disc)
                    elif it[0] == "probe":
                        ev = [2, int(t)]
                        box = d.run_coro(d.conn.send_test_req())
                        outs = observe(n_wire, n_disc, [3] if "exc" in box else None)
                    else:
                        from asyncfix import FIXMessage, FMsg, FTag
                        ev = [3, int(t), [ord(c) for c in it[1]]]
                        box = d.run_coro(d.conn.send_msg(FIXMessage(FMsg.TESTREQUEST, {FTag.TestReqID: it[1]})))
                        outs = observe(n_wire, n_disc, [3] if "exc" in box else None)
                else:
                    if not started:
                        started = True
                        d.start_timer()
                        d.settle()
                    else:
                        d.step_timers()
                    if len(d.sleeps) == n_sleep:
                        # a timer of the reader task (it polls once a second while disconnected): not a tick
                        if len(d.wire) != n_wire or len(d.disc) != n_disc:
                            res["note"] += "non-tick timer step had effects at %s; " % t
                        continue
                    ev = [0, int(t)]
                    outs = observe(n_wire, n_disc)
            except Spin:
                res["events"].append([0, int(t)])
                res["rows"].append([observe(n_wire, n_disc, [2]), d.snapshot()])
                res["note"] += "timer task spins at %s; " % t
                break
            res["events"].append(ev)
            res["rows"].append([outs, d.snapshot()])
            react(n_wire, t)
        res["ticks"] = [[int(round(t * 1000)), dl] for (t, dl) in d.sleeps]
        res["app"] = len(d.app)
    finally:
        d.close()
    return res


# ----------------------------------------------------------------------------------------------
# property oracle (independent of the model: written from the property text)
# ----------------------------------------------------------------------------------------------

def _pyint(text):
    try:
        return int(text)
    except (ValueError, TypeError):
        return None


def _txt(rid):
    return None if not rid else "".join(chr(c) for c in rid[0])


def oracle(case, res):
    """Returns a list of (what, class-or-None).  Decided on observable behaviour only: frames written
    (time, type, 112), connection state / connectedness over time, on_disconnect.  The class named for a
    failure is the known-finding class whose predicate (CLASSES) accepts the observed run, else None."""
    hb = case["hb"]
    H = hb * 1000
    out = []
    facts = {"hb": hb}
    if case.get("init", "logon") != "logon":
        return out                                   # the property speaks about an ACTIVE session
    ACTIVE = res["init"][0]
    AWAITING = res.get("awaiting", -1)               # a ResendRequest is out: the session is still logged on
    events, rows = res["events"], res["rows"]
    end = T0 + case["end"]
    if rows and [2] in rows[-1][0]:
        return [("the timer task raises on every iteration without sleeping (spins) at t=%d" % events[-1][1], None)]
    # --- timeline -------------------------------------------------------------------------------
    inbound = []          # (index, t, kind, rid_text, d)  delivered while connected and logged on (ACTIVE / awaiting a resend);
                          # d = 0: in sequence = "valid traffic" for the silence clock; d > 0: behind a sequence gap
    probes = []           # dict(i, t, rid, src) every TestRequest frame written
    disc = None           # (index, t, event kind)
    connected, state = res["init"][1], res["init"][0]
    outstanding = []      # rids (text) of TestRequests written and not yet answered
    max_out = (0, None)
    ticks = [e[1] for e in events if e[0] == 0]
    pre_states = []
    for i, (e, (outs, snap)) in enumerate(zip(events, rows)):
        t = e[1]
        pre_live = connected and state in (ACTIVE, AWAITING)
        pre_states.append(state)
        if e[0] == 1 and pre_live:
            kind, rid = e[2], _txt(e[3])
            inbound.append((i, t, kind, rid, e[4]))
            frames = [o for o in outs if o[0] == 0 and o[1] != 2]      # the ResendRequest of a gap is C04's business
            if kind == 1:
                want = rid if rid is not None else "0"
                hbs = [o for o in frames if o[1] == 0]
                if len(hbs) != 1 or _txt(hbs[0][2]) != want:
                    out.append(("inbound TestRequest(112=%r) at t=%d answered with %r, expected one Heartbeat(112=%r)"
                                % (rid, t, frames, want), None))
            if kind == 0 and rid is not None and outstanding:
                lib = [r for r in outstanding if r[1] != "raw"]
                if lib:
                    n = _pyint(lib[0][0])
                    got = _pyint(rid)
                    got = 0 if got is None else got
                    logout = any(o[0] == 0 and o[1] == 5 for o in outs) and [1] in outs
                    if got != n and not logout:
                        out.append(("Heartbeat with wrong TestReqID %r (outstanding %r) at t=%d did not end the session with a Logout"
                                    % (rid, lib[0][0], t), None))
                    if got == n and ([1] in outs or frames):
                        out.append(("Heartbeat echoing the outstanding TestReqID %r at t=%d caused %r" % (rid, t, outs), None))
                # the answer clears the probes it echoes (same integer, or same text)
                outstanding = [r for r in outstanding
                               if not (r[0] == rid or (_pyint(r[0]) is not None and _pyint(r[0]) == _pyint(rid)))]
        for o in outs:
            if o[0] == 0 and o[1] == 1:
                src = {0: "tick", 2: "probe", 3: "raw"}.get(e[0], "recv")
                probes.append({"i": i, "t": t, "rid": _txt(o[2]), "src": src})
                if any(r[0] == _txt(o[2]) for r in outstanding):
                    continue                      # the pending probe sent again under its own id: still one TestReqID
                outstanding.append((_txt(o[2]), src))
                if len(outstanding) > max_out[0]:
                    max_out = (len(outstanding), (t, src, list(outstanding)))
        if [1] in outs:
            if disc is None:
                disc = (i, t, e[0])
            outstanding = []
            if e[0] == 1:
                ok = e[2] == 0 and any(o[0] == 0 and o[1] == 5 for o in outs)
                if not ok:
                    out.append(("disconnected while processing a valid inbound message at t=%d: %r" % (t, outs), None))
        state, connected = snap[0], snap[1]
    # --- at most one TestRequest outstanding ------------------------------------------------------
    if max_out[0] > 1:
        t, src, lst = max_out[1]
        facts["double"] = lst
        out.append(("%d TestRequests outstanding at t=%d: %r" % (max_out[0], t, lst), None))
    disc_t = disc[1] if disc else None
    refs = [(-1, T0)] + [(i, t) for (i, t, _, _, _) in inbound]
    in_times = [t for (_, t, _, _, _) in inbound]                 # anything received
    seq_times = [t for (_, t, _, _, dd) in inbound if dd == 0]     # in-sequence (finalized) messages only

    def active_throughout(a, b):
        return all(snap[0] in (ACTIVE, AWAITING) for (e, (_, snap)) in zip(events, rows) if a <= e[1] <= b)
    timer_on = ticks[0] if ticks else None

    def silent(a, b):          # no inbound in (a, b]
        return not any(a < t <= b for t in in_times)

    def answered(p, upto_i=None):
        n = _pyint(p["rid"])
        for (i, t, kind, rid, _dd) in inbound:        # an answer counts whatever its sequence number
            if i > p["i"] and kind == 0 and rid is not None and (upto_i is None or i < upto_i):
                if rid == p["rid"] or (n is not None and _pyint(rid) == n):
                    return t
        return None

    if hb >= 1 and timer_on is not None:
        for (ia, a) in refs:
            # --- probe by one interval of silence -------------------------------------------------
            if (a + H <= end and timer_on <= a + H and silent(a, a + H) and (disc_t is None or disc_t > a + H)
                    and active_throughout(a, a + H)):
                ok = False
                for p in probes:
                    if p["t"] <= a + H:
                        ta = answered(p)
                        if ta is None or ta > a + H:
                            ok = True
                if not ok:
                    out.append(("no TestRequest outstanding after %d s of silence (last inbound at t=%d)" % (hb, a), None))
            # --- dead peer disconnected within three intervals (+1 s) -----------------------------
            lim = a + 3 * H + 1000
            if lim <= end and timer_on <= a + H and silent(a, lim) and (disc_t is None or disc_t > a):
                if disc_t is None or disc_t > lim:
                    out.append(("peer silent since t=%d not disconnected by t=%d (3 intervals + 1 s): %r" % (a, lim, disc_t), None))
        # --- no probe before hb - 1 s of silence (watchdog-initiated probes only) -------------------
        for p in probes:
            if p["src"] == "tick":
                last = max([T0] + [t for (i, t, _, _, dd) in inbound if i < p["i"] and dd == 0])
                if not (p["t"] - last > (hb - 1) * 1000):
                    out.append(("TestRequest at t=%d although the last inbound message was at t=%d (< %d s of silence)"
                                % (p["t"], last, hb - 1), None))
    # --- a live peer is never disconnected by the watchdog --------------------------------------
    if disc is not None and disc[2] == 0:
        # a watchdog probe must be answered within 2*hb - 1 s; a probe the application sent itself (send_test_req())
        # does not restart the silence clock, so only an answer within hb s is certain to be in time
        def due(p):
            return p["t"] + (hb if p["src"] == "probe" else max(2 * hb - 1, 0)) * 1000

        late = [p for p in probes if p["i"] <= disc[0] and not (
            (answered(p, disc[0]) is not None and answered(p, disc[0]) <= due(p)) or disc_t <= due(p))]
        L1 = not late
        gaps_from = [T0] + [t for (i, t, _, _, dd) in inbound if i < disc[0] and dd == 0]
        L2 = all(b - a <= H for a, b in zip(gaps_from, gaps_from[1:] + [disc_t]))
        facts.update(wd_disc=disc_t, answered_all=L1, traffic_continues=L2,
                     awaiting_at_disc=(pre_states[disc[0]] == AWAITING), since_last_in_sequence=disc_t - gaps_from[-1],
                     never_answered=[p for p in late if answered(p, disc[0]) is None],
                     overdue=[p for p in late if disc_t > due(p)])
        if L1 or L2:
            cls = None                              # no known-finding class is open (R13a-R13d repaired the four)
            why = ("every TestRequest was answered in time (or still had time)" if L1 else
                   "valid traffic never paused longer than %d s (unanswered: %r)" % (hb, [(p["t"], p["rid"]) for p in late]))
            out.append(("watchdog disconnected the peer at t=%d although %s" % (disc_t, why), cls))
    # --- ticks one second apart ----------------------------------------------------------------
    bad = [(a, b) for a, b in zip(ticks, ticks[1:]) if b - a != 1000]
    if bad:
        out.append(("watchdog iterations not 1 s apart: %r" % (bad[:3],), None))
    return out


# ----------------------------------------------------------------------------------------------
# known-finding class predicates (decided on the concrete case + observed run)
# ----------------------------------------------------------------------------------------------
# Each predicate is decided on facts the oracle computed from the observed run (never on the model).

# The four classes of the unrepaired library (unanswered-probe-while-traffic-continues, hb0-immediate-disconnect,
# raw-testrequest-while-pending, unfilled-gap-dropped-unprobed) were repaired by R13a-R13d: no class is open.
CLASSES = {}


def classify(cls, facts):
    return cls if cls in CLASSES and CLASSES[cls](facts) else None


# ----------------------------------------------------------------------------------------------
# generators
# ----------------------------------------------------------------------------------------------

def q(ms):
    """round to the time quantum"""
    return int(round(ms / Q)) * Q


RIDS = ["1", "42", "0", "TEST", "7x", " 5", "1000000", "-3", "00"]


def gen_cases(rng, tier_all):
    hbs = list(range(1, 61)) if tier_all else [1, 2, 3, 4, 5, 6, 7, 8, 10, 12, 15, 20, 29, 30, 31, 45, 59, 60]
    phases_all = [0, 125, 250, 375, 500, 625, 750, 875, 1000]
    cases = []

    def add(tag, hb, phase, end, script=(), policy=None, tie=None, init="logon"):
        cases.append({"tag": tag, "hb": hb, "phase": phase, "end": int(end), "script": [list(x) for x in script],
                      "policy": policy, "tie": rng.randrange(2) if tie is None else tie, "init": init})

    for hb in hbs:
        H = hb * 1000
        phases = phases_all if tier_all else ([0] + rng.sample(phases_all[1:], 3))
        for ph in phases:
            # silent from t0
            add("silent", hb, ph, 3 * H + 3000)
            # periodic traffic below / at / above the thresholds, never answering probes
            for per in sorted({H - 1000 - Q, H - 1000, H - 1000 + Q, H - Q, H, H + Q, 2 * H, H // 2}):
                if per < Q:
                    continue
                per = q(per)
                n = int((5 * H + 4000) // per) if tier_all else min(int((5 * H + 4000) // per), 40)
                kinds = rng.choice([[2], [0], [2, 0, 1]])
                off = rng.choice([0, Q, 500])
                script = [(off + per * (k + 1), "recv", rng.choice(kinds), None) for k in range(n)]
                add("periodic", hb, ph, 5 * H + 4000, script,
                    rng.choice([None, None, {"delay": q(rng.randrange(0, 2 * H)), "mode": "match", "limit": None}]))
            # burst then silence
            k = rng.randrange(2, 8)
            start = q(rng.randrange(0, H + 1000))
            script = [(start + Q * rng.randrange(0, 9) + 250 * i, "recv", rng.choice([0, 1, 2]),
                       rng.choice([None, None, "9"])) for i in range(k)]
            add("burst", hb, ph, start + 3 * H + 5000, script)
            # probe answers delayed by 0 .. 2.5 intervals
            delays = sorted({0, Q, H // 2, H, 2 * H - 1000 - Q, 2 * H - 1000, 2 * H - 1000 + Q, 2 * H - Q, 2 * H,
                             2 * H + Q, 2 * H + 1000, 2 * H + 1000 + Q, (5 * H) // 2})
            for dl in (delays if tier_all else rng.sample(delays, 7)):
                if dl < 0:
                    continue
                dl = q(dl)
                add("answer", hb, ph, min(3 * (H + dl) + 3 * H + 3000, 12 * H + 6000), (),
                    {"delay": dl, "mode": "match", "limit": rng.choice([None, None, 1, 2])})
            # wrong / missing / junk / lenient / zero ids
            for mode in ("wrong", "missing", "junk", "lenient", "zero"):
                add("id-" + mode, hb, ph, 4 * H + 3000, (),
                    {"delay": q(rng.randrange(0, 2 * H)), "mode": mode, "limit": None})
        # ---- heartbeat protocol behind a sequence gap -------------------------------------------------
        for ph in ([0] + rng.sample(phases_all[1:], 1) if not tier_all else phases_all[::2]):
            # the k-th probe answer is numbered one above the expected number (a message was lost before it);
            # the peer gap-fills later, early, at once, or never
            for at in (1, 2):
                for fill in (0, Q, 1000, q(H // 2), 2 * H - 1000, 2 * H + 2000, None):
                    dl = q(rng.choice([0, Q, H // 2, H, 2 * H - 1000 - Q]))
                    add("gap-answer", hb, ph, 7 * H + 6000, (),
                        {"delay": max(dl, 0), "mode": rng.choice(["match", "match", "match", "wrong", "lenient"]),
                         "limit": None, "gap": {"at": at, "fill_after": fill}})
            # inbound TestRequests / Heartbeats / application messages behind a gap, then gap fill or re-sends
            for _ in range(3):
                t1 = q(rng.randrange(0, 2 * H + 1000))
                script = [(t1, "lose")]
                for k in range(rng.randrange(1, 5)):
                    script.append((t1 + q(rng.randrange(0, H + 1000)), "recv", rng.choice([1, 1, 0, 2]),
                                   rng.choice([None] + RIDS[:4])))
                r = rng.random()
                t2 = t1 + q(rng.randrange(0, 2 * H + 2000))
                if r < 0.4:
                    script.append((t2, "fill", None))
                elif r < 0.6:
                    script += [(t2, "fill", 1), (t2 + 1000, "fill", None)]
                elif r < 0.8:
                    script += [(t2 + 250 * k, "resend", rng.choice([0, 2]), None) for k in range(6)]
                script.append((t2 + q(rng.randrange(0, H)), "recv", rng.choice([0, 1, 2]), None))
                add("gap-testreq", hb, ph, 6 * H + 5000, script,
                    rng.choice([None, {"delay": q(rng.randrange(0, H)), "mode": "match", "limit": None}]))
            # all traffic behind an unfilled gap: periodic messages, probes (if any) answered
            per = q(rng.choice([max(Q, H // 3), max(Q, H - 1000), H]))
            script = [(q(rng.randrange(0, H)), "lose")] + [
                (per * (k + 1), "recv", rng.choice([0, 2, 1]), None) for k in range(int((4 * H + 3000) // per))]
            add("gap-all", hb, ph, 4 * H + 3000, script,
                {"delay": q(rng.randrange(0, H)), "mode": "match", "limit": None})
        # inbound TestRequests with / without 112, unsolicited heartbeats with ids
        for _ in range(2):
            n = rng.randrange(3, 10)
            script = [(q(rng.randrange(0, 3 * H + 1000)), "recv", rng.choice([1, 1, 0, 2]),
                       rng.choice([None] + RIDS)) for _ in range(n)]
            add("testreq-in", hb, rng.choice(phases_all), 4 * H + 3000, script,
                rng.choice([None, {"delay": q(rng.randrange(0, H)), "mode": "match", "limit": None}]))
        # application-initiated probes and raw TestRequests
        for _ in range(2):
            n = rng.randrange(1, 5)
            script = [(q(rng.randrange(0, 3 * H + 1000)), rng.choice(["probe", "probe", "raw"])) for _ in range(n)]
            script = [(t, k) if k == "probe" else (t, k, rng.choice(RIDS[:5])) for (t, k) in script]
            add("app", hb, rng.choice(phases_all), 4 * H + 3000, script,
                rng.choice([None, {"delay": q(rng.randrange(0, 2 * H)), "mode": "match", "limit": None}]))
        # random mixtures
        for _ in range(8 if tier_all else 5):
            n = rng.randrange(0, 12)
            script = []
            for _ in range(n):
                t = q(rng.randrange(0, 4 * H + 1000))
                r = rng.random()
                if r < 0.7:
                    script.append((t, "recv", rng.choice([0, 1, 2, 2]), rng.choice([None, None] + RIDS)))
                elif r < 0.75:
                    script.append((t, "lose"))
                elif r < 0.8:
                    script.append((t, "fill", rng.choice([None, None, 1, 2])))
                elif r < 0.9:
                    script.append((t, "probe"))
                else:
                    script.append((t, "raw", rng.choice(RIDS[:5])))
            pol = rng.choice([None, {"delay": q(rng.randrange(0, 3 * H)),
                                     "mode": rng.choice(["match", "match", "match", "wrong", "missing", "lenient", "junk"]),
                                     "limit": rng.choice([None, 1, 2]),
                                     "gap": rng.choice([None, None, {"at": rng.choice([1, 2]),
                                                                     "fill_after": rng.choice([None, 0, 1000, q(H)])}])}])
            add("mix", hb, rng.choice(phases_all), 5 * H + 3000, script, pol)
        # watchdog outside ACTIVE (second test): handshake states, with and without a last-message time
        for stt in (6, 7, 8):
            add("nonactive", hb, rng.choice(phases_all), 3 * H + 3000, (), None, 0,
                {"state": stt, "mlt": rng.choice([0, T0, T0 - q(rng.randrange(0, 2 * H))])})
    # heartbeat intervals below 1 s make no sense for this watchdog (probe threshold hb - 1 < 0): the constructor refuses them
    for bad in (0, -1, 0.5):
        cases.append({"tag": "ctor", "hb": bad, "phase": 0, "end": 0, "script": [], "policy": None, "tie": 0, "init": "logon"})
    return cases


def corpus_cases():
    """Fixed witnesses, always run first: D19 for hb = 30 (traffic every 29.5 s) and hb = 1 (every 0.5 s)."""
    return [
        {"tag": "D19-hb30", "hb": 30, "phase": 250, "end": 125000, "tie": 1, "init": "logon", "policy": None,
         "script": [[29500 * k, "recv", 2, None] for k in range(1, 5)]},
        {"tag": "D19-hb30-phase0", "hb": 30, "phase": 0, "end": 125000, "tie": 0, "init": "logon", "policy": None,
         "script": [[29500 * k, "recv", 2, None] for k in range(1, 5)]},
        {"tag": "D19-hb1", "hb": 1, "phase": 250, "end": 5000, "tie": 1, "init": "logon", "policy": None,
         "script": [[500 * k, "recv", 2, None] for k in range(1, 10)]},
        {"tag": "raw-while-pending", "hb": 5, "phase": 0, "end": 12000, "tie": 1, "init": "logon", "policy": None,
         "script": [[6000, "raw", "X1"], [7000, "probe"]]},
        # the first probe answer arrives behind a gap (MsgSeqNum + 1), the peer gap-fills 2 s later and keeps answering
        {"tag": "gap-answer-then-fill", "hb": 30, "phase": 250, "end": 200000, "tie": 1, "init": "logon", "script": [],
         "policy": {"delay": 1750, "mode": "match", "limit": None, "gap": {"at": 1, "fill_after": 2000}}},
        # an inbound TestRequest behind a gap must still be answered
        {"tag": "gap-testreq", "hb": 30, "phase": 250, "end": 40000, "tie": 1, "init": "logon", "policy": None,
         "script": [[4000, "lose"], [5000, "recv", 1, "TR7"], [6000, "recv", 1, None], [8000, "fill", None],
                    [9000, "recv", 1, "TR8"]]},
        # all traffic behind an unfilled gap (Heartbeats every 10 s): never probed, dropped 2 intervals after the last
        # in-sequence message
        {"tag": "gap-all-unfilled", "hb": 30, "phase": 250, "end": 70000, "tie": 1, "init": "logon", "policy": None,
         "script": [[4000, "lose"]] + [[5000 + 10000 * k, "recv", 0, None] for k in range(7)]},
    ]


# ----------------------------------------------------------------------------------------------
# worker process (the implementation never runs in the verdict process)
# ----------------------------------------------------------------------------------------------

def worker_main():
    import logging

    logging.disable(logging.CRITICAL)
    limit = int(os.environ.get("C12_WORKER_TIMEOUT", "240"))
    faulthandler.dump_traceback_later(limit, exit=True)
    for line in sys.stdin:
        line = line.strip()
        if not line:
            continue
        idx, case = json.loads(line)
        sys.stdout.write(json.dumps({"start": idx}) + "\n")
        sys.stdout.flush()
        try:
            res = run_impl(case)
        except Exception as e:       # a harness-side failure is reported, not swallowed
            import traceback
            res = {"error": "%s: %s" % (type(e).__name__, e), "tb": traceback.format_exc()[-1500:]}
        sys.stdout.write(json.dumps({"idx": idx, "res": res}) + "\n")
        sys.stdout.flush()


def run_workers(cases, nproc=8, timeout=300):
    """run_workers_once, then re-runs (in fresh workers) the cases that were queued behind a case that hung."""
    results = run_workers_once(cases, nproc, timeout)
    for _ in range(4):
        todo = [i for i, r in enumerate(results) if r.get("skipped")]
        if not todo:
            break
        again = run_workers_once([cases[i] for i in todo], nproc, timeout)
        for i, r in zip(todo, again):
            results[i] = r
    return results


def run_workers_once(cases, nproc=8, timeout=300):
    """Runs cases in child interpreters; returns list of results (an {"error": ...} record for a case whose worker died)."""
    import subprocess

    from vlib import core

    chunks = [[] for _ in range(nproc)]
    for i, c in enumerate(cases):
        chunks[i % nproc].append((i, c))
    env = core.child_env()
    env["C12_WORKER_TIMEOUT"] = str(timeout)
    procs = []
    for ch in chunks:
        if not ch:
            continue
        p = subprocess.Popen([core.PY, "-X", "faulthandler", "-m", "harness.c12", "--worker"], cwd=core.ROOT, env=env,
                             stdin=subprocess.PIPE, stdout=subprocess.PIPE, stderr=subprocess.PIPE, text=True)
        procs.append((p, ch))
    import threading
    outs = {}

    def feed(p, ch, key):
        try:
            o, e = p.communicate("".join(json.dumps([i, c]) + "\n" for i, c in ch), timeout=timeout + 30)
        except subprocess.TimeoutExpired:
            p.kill()
            o, e = p.communicate()
        outs[key] = (o, e, p.returncode)

    ths = []
    for k, (p, ch) in enumerate(procs):
        th = threading.Thread(target=feed, args=(p, ch, k))
        th.start()
        ths.append(th)
    for th in ths:
        th.join()
    results = [None] * len(cases)
    for k, (p, ch) in enumerate(procs):
        o, e, rc = outs[k]
        started = None
        for line in o.splitlines():
            try:
                rec = json.loads(line)
            except ValueError:
                continue
            if "start" in rec:
                started = rec["start"]
            elif "idx" in rec:
                results[rec["idx"]] = rec["res"]
                started = None
        if started is not None and results[started] is None:
            results[started] = {"error": "worker died or hung (rc=%s) in this case: %s" % (rc, e[-1500:]), "hang": True}
        for i, _ in ch:
            if results[i] is None:
                results[i] = {"error": "not run: worker ended early (rc=%s)" % rc, "skipped": True}
    return results


# ----------------------------------------------------------------------------------------------
# check
# ----------------------------------------------------------------------------------------------

def model_request(case, res):
    return "[%d,%s,%s]" % (case["hb"], json.dumps(res["init"]).replace(" ", ""), json.dumps(res["events"]).replace(" ", ""))


def canon(case, res):
    return (case["hb"], json.dumps(res["events"]), json.dumps(case.get("init", "logon")))


def is_nontrivial(res):
    n_probe = sum(1 for (outs, _) in res["rows"] for o in outs if o[0] == 0 and o[1] == 1)
    n_in = sum(1 for e in res["events"] if e[0] == 1)
    return n_probe >= 1 or n_in >= 3


def slim(case):
    return {k: v for k, v in case.items()}


def check_case(ctx, case, res, model_rows):
    if "error" in res:
        if res.get("skipped"):
            ctx.notes.append("case not run: " + res["error"][:200])
            return
        ctx.fail(slim(case), "implementation run failed: " + res["error"][:600], None)
        return
    if "ctor" in res:
        ctx.case(("ctor", case["hb"]), False)
        ctx.count("tag:ctor")
        if res["ctor"] != "refused":
            ctx.fail({"case": slim(case)}, "the constructor accepts heartbeat_period = %r: the watchdog would probe at once and "
                     "give the peer no time to answer" % (case["hb"],), None)
        return
    ctx.case(canon(case, res), is_nontrivial(res),
             sample={"case": slim(case), "events": res["events"][:6], "rows": res["rows"][:6]} if len(ctx.samples) < 3 and is_nontrivial(res) else None)
    ctx.traces += 1
    ctx.count("tag:" + case.get("tag", "?"))
    ctx.count("hb:%d" % case["hb"])
    for e in res["events"]:
        ctx.count("ev%d" % e[0])
    for (outs, snap) in res["rows"]:
        for o in outs:
            ctx.count("out:" + ("frame%d" % o[1] if o[0] == 0 else {1: "disconnect", 2: "spin", 3: "raise"}.get(o[0], "?")))
    if res.get("note"):
        ctx.notes.append(res["note"][:200])
    for what, cls in oracle(case, res):
        ctx.fail({"case": slim(case)}, what, cls)
    if model_rows is not None:
        if not isinstance(model_rows, list) or (model_rows and model_rows[0] == -1):
            ctx.disagree({"case": slim(case)}, "rows", model_rows, "watchdog-model-request")
            return
        for i, (a, b) in enumerate(zip(res["rows"], model_rows)):
            if a != b:
                ctx.disagree({"case": slim(case), "step": i, "event": res["events"][i]}, a, b, "watchdog-step")
                break
        else:
            if len(res["rows"]) != len(model_rows):
                ctx.disagree({"case": slim(case)}, len(res["rows"]), len(model_rows), "watchdog-length")


def translator_misses():
    """Names the ast extractor cannot find in the repository under test (same function the translator runs)."""
    from translator import gen_session
    from vlib import core
    try:
        with open(os.path.join(core.REPO, gen_session.SOURCES[0])) as f:
            return list(gen_session.extract(f.read())[1])
    except Exception as e:
        return ["extractor failed: %s" % type(e).__name__]


def run(ctx):
    t_start = _time.time()
    misses = translator_misses()
    if misses:
        # DESIGN.md 3.1: a miss is not an alarm; the constants keep their defaults and the correspondence
        # (which crosses every threshold from both sides) is escalated to thorough depth
        ctx.notes.append("translator_miss: " + ", ".join(misses) + " (correspondence escalated to thorough depth)")
        ctx.extra["translator_miss"] = misses
    cases = corpus_cases() + gen_cases(ctx.rng, ctx.tier == "thorough" or bool(misses))
    results = run_workers(cases, nproc=12, timeout=ctx.scale(200, 1500))
    ctx.extra["impl_wall_s"] = round(_time.time() - t_start, 1)
    model_out = [None] * len(cases)
    if ctx.model:
        idx = [i for i, r in enumerate(results) if "error" not in r and "ctor" not in r]
        outs = ctx.model.batch([model_request(cases[i], results[i]) for i in idx])
        for i, o in zip(idx, outs):
            model_out[i] = o
    for case, res, mo in zip(cases, results, model_out):
        check_case(ctx, case, res, mo)
    ctx.extra["cases"] = len(cases)


def search(ctx, cases):
    """A proof, the translator or the correspondence broke: look for an input on which the implementation
    itself breaks the property (disagreeing cases first, then a fresh generator run, oracle only)."""
    import random

    rng = random.Random(ctx.seed + 1)
    todo = [c["case"] for c in cases if isinstance(c, dict) and "case" in c]
    todo += gen_cases(rng, False)
    results = run_workers(todo, nproc=12, timeout=ctx.scale(120, 600))
    for case, res in zip(todo, results):
        check_case(ctx, case, res, None)


def replay(path):
    import logging

    logging.disable(logging.CRITICAL)
    rec = json.load(open(path))
    inp = rec.get("input")
    case = inp.get("case") if isinstance(inp, dict) and "case" in inp else inp
    if not case or "hb" not in case:
        print("replay: no concrete input; broken:", rec.get("broken"))
        return 1
    faulthandler.dump_traceback_later(120, exit=True)
    res = run_impl(case)
    faulthandler.cancel_dump_traceback_later()
    for e, (outs, snap) in zip(res["events"], res["rows"]):
        if outs or e[0] != 0:
            print("t=%+.3f s %s -> %s state=%s" % ((e[1] - T0) / 1000.0, e, outs, snap))
    fails = oracle(case, res)
    for what, cls in fails:
        print("ORACLE: %s [class %s]" % (what, cls))
    return 1 if fails else 0


if __name__ == "__main__":
    if "--worker" in sys.argv:
        worker_main()
