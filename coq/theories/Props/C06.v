(* C06 - a ResendRequest is answered completely, in order and without side effects.
   Theorems only (proofs in AF.Lemmas.ResendL) about the model Fix/Resend.v of
   AsyncFIXConnection._process_resend and what it calls, AS REPAIRED by
   fixes/D12-resend-keeps-journal.patch (the handler no longer rewinds / truncates the outbound
   journal, send_msg does not journal PossDupFlag=Y frames and SequenceReset-GapFill frames, and a
   BeginSeqNo below 1 is read as 1).

   The property for one request (bs, es = texts of tags 7 and 16) with replay filter f in state s is
   the predicate  resend_correct f s bs es  (Lemmas/ResendL.v):
     the frames written are  chain (rows s) f hi lo hi  over the requested range [lo, hi) of
     already-sent numbers (a retransmission with the number kept, PossDupFlag=Y, OrigSendingTime =
     the original SendingTime and the body otherwise identical for every journaled application
     message the filter accepts; one GapFill(seq = first, NewSeqNo = next) per maximal run of other
     numbers - session-level, declined, missing; hence no session-level message retransmitted);
     nothing is written for a request that must not be answered; the WHOLE outbound journal (inside
     and outside the range), next_num_out (live and stored) and the connection state are what they were.
   FULL STATEMENT (what C06 asks):   forall f s bs es, resend_correct f s bs es.
   The "no side effects on journal and counters" half now holds unconditionally (C06_no_side_effects);
   the reply / state half holds outside five classes; one refutation per remaining class. *)
From Coq Require Import ZArith NArith List Bool.
From AF Require Import Base.Sx Py.Str Fix.Resend Lemmas.ResendL.
From AFGen Require Import GenEnums.
Import ListNotations.
Open Scope Z_scope.

(* UNCONDITIONAL (every state, journal, request - readable or not -, filter): the handler never
   changes the outbound journal, next_num_out or the stored counter; the exception that leaves it is
   never DuplicateSeqNoError / FIXConnectionError / EncodingError; without an exception the state ends
   ACTIVE (stays RESENDREQ_AWAITING), with one it is left RESENDREQ_HANDLING (stays AWAITING). *)
Theorem C06_no_side_effects : forall f s bs es,
  let (s', x) := process_resend f bs es s in
  rows s' = rows s /\ nout s' = nout s /\ sout s' = sout s
  /\ allowed_exc x
  /\ cstate s' = (if cstate s =? ST_AWAITING then ST_AWAITING
                  else match x with None => ST_ACTIVE | Some _ => ST_HANDLING end).
Proof. exact resend_general. Qed.
Print Assumptions C06_no_side_effects.

(* every frame the handler writes, whatever the request, carries a MsgSeqNum of at least 1 *)
Theorem C06_no_nonpositive_numbers : forall f s bs es,
  exists W, wire (fst (process_resend f bs es s)) = wire s ++ W /\ Forall (fun fr => 1 <= r_seq fr) W.
Proof. exact resend_wire_positive. Qed.
Print Assumptions C06_no_nonpositive_numbers.

(* a request with BeginSeqNo <= 0 is handled exactly like BeginSeqNo = 1: same frames, same state
   and counters afterwards, and it is the same request for the property (was C06-begin-nonpositive) *)
Theorem C06_begin_nonpositive_as_one : forall f s bs es b,
  py_int bs = Some b -> b < 1 ->
  process_resend f (Some bs) es s = process_resend f (dec 1) es s
  /\ requested_range s (Some bs) es = requested_range s (dec 1) es
  /\ (resend_correct f s (Some bs) es <-> resend_correct f s (dec 1) es).
Proof. exact begin_nonpositive_as_one. Qed.
Print Assumptions C06_begin_nonpositive_as_one.

Theorem C06_begin_nonpositive_example :
  resend_correct w_all w_small (dec 0) (dec 0) /\ resend_correct w_all w_small (dec (-3)) (dec 0)
  /\ (let (s', x) := process_resend w_all (dec (-3)) (dec 0) w_small in
      x = None /\ map r_seq (wire s') = [1; 2] /\ map r_type (wire s') = [MT_SEQUENCERESET; [68%N]]
      /\ cstate s' = ST_ACTIVE /\ nout s' = 3).
Proof. exact begin_nonpositive_example. Qed.
Print Assumptions C06_begin_nonpositive_example.

(* The reply: unbounded in the journal; every journal with unique keys below the counter
   (journal_ok: C05/C13 invariants), every replay filter, both start states, every readable request
   - any BeginSeqNo, also zero and negative: b is the number the code uses, max(1, BeginSeqNo) -
   outside the five classes: the property holds in full. *)
Theorem C06_reply_chain_partial : forall f s bs es b0 e0,
  py_int bs = Some b0 -> py_int es = Some e0 ->
  let b := clamp1 b0 in
  (cstate s = ST_ACTIVE \/ cstate s = ST_AWAITING) ->
  journal_ok s -> NoDup (map r_seq (rows s)) ->
  k_unparsable (Some bs) (Some es) = false ->          (* tags 7/16 readable, within 64 bits *)
  k_begin_beyond s b = false ->                        (* BeginSeqNo <= next_num_out *)
  k_bounded_end s b e0 = false ->                      (* EndSeqNo = 0 or >= the last sent number *)
  k_row_carries_possdup_tags f s b e0 = false ->       (* no replayed row in range was journaled with tag 43/122 *)
  k_hole_before_replayed f s b e0 = false ->           (* no replayed row in range follows a missing number *)
  resend_correct f s (Some bs) (Some es).
Proof. exact resend_partial_classes. Qed.
Print Assumptions C06_reply_chain_partial.

(* ... and the state it leaves satisfies the same hypotheses: any further request - the same range
   again, or another one - is answered correctly too (was C06_second_request_refuted, D12) *)
Theorem C06_repeated_requests : forall f s bs es b0 e0 f2 bs2 es2 c0 e2,
  py_int bs = Some b0 -> py_int es = Some e0 ->
  let b := clamp1 b0 in
  (cstate s = ST_ACTIVE \/ cstate s = ST_AWAITING) ->
  journal_ok s -> NoDup (map r_seq (rows s)) ->
  k_unparsable (Some bs) (Some es) = false ->
  k_begin_beyond s b = false -> k_bounded_end s b e0 = false ->
  k_row_carries_possdup_tags f s b e0 = false -> k_hole_before_replayed f s b e0 = false ->
  let s1 := fst (process_resend f (Some bs) (Some es) s) in
  py_int bs2 = Some c0 -> py_int es2 = Some e2 ->
  let b2 := clamp1 c0 in
  k_unparsable (Some bs2) (Some es2) = false ->
  k_begin_beyond s b2 = false -> k_bounded_end s b2 e2 = false ->
  k_row_carries_possdup_tags f2 s b2 e2 = false -> k_hole_before_replayed f2 s b2 e2 = false ->
  resend_correct f2 s1 (Some bs2) (Some es2).
Proof. exact resend_repeatable. Qed.
Print Assumptions C06_repeated_requests.

(* pristine journals (original sends numbered 1..n, a suffix may be missing), every BeginSeqNo up to
   next_num_out (also zero and negative), EndSeqNo = 0 *)
Theorem C06_reply_chain_pristine : forall f s bs es b,
  py_int bs = Some b -> py_int es = Some 0 ->
  (cstate s = ST_ACTIVE \/ cstate s = ST_AWAITING) -> pristine s -> b <= nout s ->
  resend_correct f s (Some bs) (Some es).
Proof. exact pristine_partial. Qed.
Print Assumptions C06_reply_chain_pristine.

(* what a chain is made of: every frame is the copy of a replayable journaled message or a gap fill *)
Theorem C06_no_session_retransmit : forall J f lim a c W, chain J f lim a c W -> forall fr, In fr W ->
  (exists r, In r J /\ replayable f r = true /\ is_copy_of r fr) \/ (exists x h, is_gap_fill fr x h).
Proof. exact chain_frames. Qed.
Print Assumptions C06_no_session_retransmit.

(* the row hypothesis of journal_ok / pristine is an invariant of journals written by send_msg,
   and replies to a ResendRequest never reach the journal *)
Theorem C06_sent_rows_wellformed : forall m s s',
  send_msg m s = Ok s' ->
  rows s' = rows s \/ exists fr, rows s' = rows s ++ [fr] /\ codec_row fr = true.
Proof. exact send_msg_frame_codec_row. Qed.
Print Assumptions C06_sent_rows_wellformed.

(* the concrete second request of the old D12 witness, now answered like the first *)
Theorem C06_second_request_ok :
  pristine w_first /\ resend_correct w_all w_first (dec 2) (dec 0)
  /\ rows w_second = rows w_first /\ nout w_second = 4
  /\ resend_correct w_all w_second (dec 2) (dec 0)
  /\ map r_seq (wire (fst (process_resend w_all (dec 2) (dec 0) w_second))) = [2; 3; 2; 3].
Proof. exact second_request_ok. Qed.
Print Assumptions C06_second_request_ok.

(* ---- refutations of the full statement, one per remaining known-finding class (each witness is
   replayed on the implementation by harness/c06.py; classes_of = the five predicates in the order above) *)

(* bounded EndSeqNo: the reply gap-fills past EndSeqNo up to next_num_out (the journal is intact now) *)
Theorem C06_bounded_end_refuted :
  pristine w_bounded
  /\ classes_of w_all w_bounded (dec 2) (dec 2) 2 2 = (false, false, true, false, false)
  /\ ~ resend_correct w_all w_bounded (dec 2) (dec 2)
  /\ (let (s', x) := process_resend w_all (dec 2) (dec 2) w_bounded in
      x = None /\ map r_seq (wire s') = [2; 3]
      /\ map (fun r => get_tag T_NewSeqNo (r_body r)) (wire s') = [None; Some [53%N]]).
Proof. exact bounded_end_refuted. Qed.
Print Assumptions C06_bounded_end_refuted.

(* BeginSeqNo beyond next_num_out: AssertionError, state stuck (counters no longer moved) *)
Theorem C06_begin_beyond_refuted :
  pristine w_small
  /\ classes_of w_all w_small (dec 5) (dec 0) 5 0 = (false, true, false, false, false)
  /\ ~ resend_correct w_all w_small (dec 5) (dec 0)
  /\ (let (s', x) := process_resend w_all (dec 5) (dec 0) w_small in
      x = Some EAssertion /\ nout s' = 3 /\ sout s' = 2 /\ wire s' = [] /\ cstate s' = ST_HANDLING).
Proof. exact begin_beyond_refuted. Qed.
Print Assumptions C06_begin_beyond_refuted.

(* unreadable BeginSeqNo: state stuck *)
Theorem C06_unparsable_refuted :
  k_unparsable (Some [120%N]) (dec 0) = true
  /\ ~ resend_correct w_all w_small (Some [120%N]) (dec 0)
  /\ (let (s', x) := process_resend w_all (Some [120%N]) (dec 0) w_small in
      x = Some EValue /\ cstate s' = ST_HANDLING).
Proof. exact unparsable_refuted. Qed.
Print Assumptions C06_unparsable_refuted.

(* a hole between two application rows is not gap-filled: rows {1,2,4,5} -> reply 2,4,5 (D21) *)
Theorem C06_hole_refuted :
  journal_ok w_hole /\ NoDup (map r_seq (rows w_hole))
  /\ classes_of w_all w_hole (dec 2) (dec 0) 2 0 = (false, false, false, false, true)
  /\ ~ resend_correct w_all w_hole (dec 2) (dec 0)
  /\ (let (s', x) := process_resend w_all (dec 2) (dec 0) w_hole in
      x = None /\ map r_seq (wire s') = [2; 4; 5] /\ map r_type (wire s') = [[68%N]; [68%N]; [68%N]]).
Proof. exact hole_refuted. Qed.
Print Assumptions C06_hole_refuted.

(* an application message journaled with tag 43 (PossDupFlag=N) in its body cannot be retransmitted *)
Theorem C06_possdup_tag_refuted :
  journal_ok w_tagged /\ NoDup (map r_seq (rows w_tagged))
  /\ classes_of w_all w_tagged (dec 2) (dec 0) 2 0 = (false, false, false, true, false)
  /\ ~ resend_correct w_all w_tagged (dec 2) (dec 0)
  /\ (let (s', x) := process_resend w_all (dec 2) (dec 0) w_tagged in
      x = Some EDuplicatedTag /\ wire s' = [] /\ cstate s' = ST_HANDLING).
Proof. exact possdup_tag_refuted. Qed.
Print Assumptions C06_possdup_tag_refuted.

(* non-vacuity: a journal with application, session, SequenceReset and declined rows and a missing
   suffix, in RESENDREQ_AWAITING, meets every hypothesis of C06_reply_chain_partial *)
Example C06_nonvacuous :
  journal_ok w_rich /\ NoDup (map r_seq (rows w_rich)) /\ cstate w_rich = ST_AWAITING
  /\ classes_of w_filter w_rich (dec 2) (dec 0) 2 0 = (false, false, false, false, false)
  /\ (let s' := fst (process_resend w_filter (dec 2) (dec 0) w_rich) in
      map r_seq (wire s') = [2; 3; 5; 6] /\ map r_type (wire s') = [[68%N]; MT_SEQUENCERESET; [68%N]; MT_SEQUENCERESET]
      /\ map (fun r => get_tag T_NewSeqNo (r_body r)) (wire s') = [None; Some [53%N]; None; Some [57%N]]
      /\ rows s' = rows w_rich /\ nout s' = 9 /\ cstate s' = ST_AWAITING).
Proof. exact nonvacuous. Qed.
Print Assumptions C06_nonvacuous.

(* the model's noreply_msgs is the code's literal (regenerated by gen_const.py) *)
From AF Require Import Lemmas.ConstTieL.
From AFGen Require Import GenConst.
Theorem C06_noreply_set_is_code : same_set Resend.noreply_msgs noreply_values = true.
Proof. exact noreply_set_is_code. Qed.
Print Assumptions C06_noreply_set_is_code.
