(* C10: totality, consumed length, acceptance and progress of the decoder model (Fix/Codec.v),
   for arbitrary input. *)
From Coq Require Import ZArith NArith List Bool Lia.
From AF Require Import Base.Sx Py.Str Fix.Codec Fix.Framing Lemmas.StrA.
From AFGen Require Import GenGroups.
Import ListNotations.
Open Scope N_scope.

(* ------------------------------------------------------------------ the pieces decode looks at *)

(* offset of the next marker after the first one (or the end) ... *)
Definition dec_next0 (msg : str) : nat :=
  match find_sub MARK (skipn 5 msg) with
  | Some k => (k + 5)%nat
  | None => length msg
  end.

(* ... moved back to the end of the first CheckSum field, when there is one: where the frame
   text is cut *)
Definition dec_next (msg : str) : nat := cut_at_checksum msg (dec_next0 msg).

(* the slice of raw that decode treats as the frame, given the marker offset i *)
Definition dec_encoded (i : nat) (raw : str) : str :=
  firstn (dec_next (skipn i raw)) (skipn i raw).

Definition strip_last_empty (fs : list str) : list str :=
  match rev fs with
  | [] :: r => rev r
  | _ => fs
  end.

(* its SOH-separated fields (a trailing empty piece dropped) *)
Definition dec_fields (i : nat) (raw : str) : list str :=
  strip_last_empty (split_on 1 (dec_encoded i raw)).

(* the checksum decode expects: over everything before the SOH that precedes the last field *)
Definition dec_ck (fs : list str) : N := (sum_codes (join SOHs (removelast fs)) + 1) mod 256.

Definition frame_fields (raw : str) : list str :=
  match find_sub MARK raw with
  | Some i => dec_fields i raw
  | None => []
  end.

(* another marker follows the first one *)
Definition has_next (msg : str) : bool :=
  match find_sub MARK (skipn 5 msg) with Some _ => true | None => false end.

(* junk before the marker plus the frame candidate: what a rejection / acceptance consumes *)
Definition frame_len (i : nat) (raw : str) : Z := (Z.of_nat i + Z.of_nat (dec_next (skipn i raw)))%Z.

Definition st0 : dst := mkD [] [] UNKNOWN false.

Lemma decode_eq G bs raw :
  decode G bs raw true =
  match find_sub MARK raw with
  | None => Ok (None, (zlen raw - Z.of_nat (marker_tail raw))%Z, None)
  | Some i =>
      match dec_fields i raw with
      | f0 :: f1 :: _ :: _ =>
          match split1 61 f0 with
          | (_, None) => Exc EValue
          | (_, Some v0) =>
              if negb (str_eqb v0 bs) then Ok (None, frame_len i raw, None)
              else
                match split1 61 f1 with
                | (_, None) => Ok (None, frame_len i raw, None)
                | (tag1, Some v1) =>
                    if negb (str_eqb tag1 T9) then Ok (None, frame_len i raw, None)
                    else
                      match py_int v1 with
                      | None => Ok (None, frame_len i raw, None)
                      | Some bl =>
                         if (bl <? 0)%Z then Ok (None, frame_len i raw, None) else
                          if (zlen raw - Z.of_nat i <? zlen f0 + zlen f1 + 9 + bl)%Z
                          then Ok (None, Z.of_nat i, None)
                          else
                            match fields_loop G (dec_ck (dec_fields i raw)) st0 (dec_fields i raw) with
                            | FExc e => Exc e
                            | FReturnBad => Ok (None, frame_len i raw, None)
                            | FCont st =>
                                if d_ck st
                                then Ok (Some (mkMsg (d_type st) (d_root st)),
                                         frame_len i raw, Some (dec_encoded i raw))
                                else Ok (None, frame_len i raw, None)
                            end
                      end
                end
          end
      | _ => if has_next (skipn i raw) then Ok (None, frame_len i raw, None)
             else Ok (None, Z.of_nat i, None)
      end
  end.
Proof. reflexivity. Qed.

Ltac dmatch H :=
  match type of H with
  | context [match ?x with _ => _ end] => destruct x eqn:?
  | context [if ?x then _ else _] => destruct x eqn:?
  end.

(* ------------------------------------------------------------------ (a) the field loop never raises *)

Lemma str_eqb_sym a b : str_eqb a b = str_eqb b a.
Proof.
  destruct (str_eqb a b) eqn:E.
  - apply streqb_eq in E. subst. symmetry. apply streqb_refl.
  - symmetry. apply streqb_neq. apply streqb_neq in E. congruence.
Qed.

Lemma ct_get_put q t v c : ct_get q (ct_put t v c) = if str_eqb t q then Some v else ct_get q c.
Proof.
  induction c as [|[k w] c IH]; cbn [ct_put ct_get]; [reflexivity|].
  destruct (str_eqb k t) eqn:E; cbn [ct_get].
  - apply streqb_eq in E. subst k. destruct (str_eqb t q); reflexivity.
  - rewrite IH. destruct (str_eqb k q) eqn:E2; [|reflexivity].
    apply streqb_eq in E2. subst k. now rewrite (str_eqb_sym t q), E.
Qed.

Lemma ct_mem_put q t v c : ct_mem q (ct_put t v c) = str_eqb t q || ct_mem q c.
Proof. unfold ct_mem. rewrite ct_get_put. destruct (str_eqb t q); reflexivity. Qed.

Section Total.
Variable G : group_table.

Definition is_group (t : str) : Prop := lookup_group G t <> None.

(* keys that are group tags hold group values: add_group on them cannot fail *)
Definition grp_ok (c : container) : Prop :=
  forall k v, is_group k -> ct_get k c = Some v -> exists items, v = VGrp items.

Lemma grp_ok_nil : grp_ok [].
Proof. intros k v _ H. discriminate. Qed.

Lemma grp_ok_put_grp t its c : grp_ok c -> grp_ok (ct_put t (VGrp its) c).
Proof.
  intros H k v Hk. rewrite ct_get_put. destruct (str_eqb t k); [|now apply H].
  intros E. inversion E. eauto.
Qed.

Lemma grp_ok_put_plain t v c : lookup_group G t = None -> grp_ok c -> grp_ok (ct_put t v c).
Proof.
  intros Ht H k w Hk. rewrite ct_get_put. destruct (str_eqb t k) eqn:E; [|now apply H].
  apply streqb_eq in E. subst k. contradiction.
Qed.

Lemma ct_add_group_ok t item c : grp_ok c -> is_group t ->
  exists c', ct_add_group t item c = Ok c' /\ grp_ok c'.
Proof.
  intros Hc Ht. unfold ct_add_group. destruct (ct_get t c) as [v|] eqn:E.
  - destruct (Hc t v Ht E) as [items ->]. eexists. split; [reflexivity|]. now apply grp_ok_put_grp.
  - eexists. split; [reflexivity|]. now apply grp_ok_put_grp.
Qed.

Definition pending_ok (p : option (str * container)) : Prop :=
  match p with Some (t, _) => is_group t | None => True end.

Lemma add_pending_ok p c : grp_ok c -> pending_ok p ->
  exists c', add_pending p c = Ok c' /\ grp_ok c'.
Proof.
  intros Hc Hp. destruct p as [[t item]|]; cbn [add_pending].
  - now apply ct_add_group_ok.
  - exists c. auto.
Qed.

Definition ctx_ok (c : ctx) : Prop := is_group (c_tag c) /\ grp_ok (c_tags c).

Lemma pop_while_ok tag : forall stack p root,
  Forall ctx_ok stack -> grp_ok root -> pending_ok p ->
  exists stack' root', pop_while tag stack p root = Ok (stack', root')
    /\ Forall ctx_ok stack' /\ grp_ok root'.
Proof.
  induction stack as [|c rest IH]; intros p root Hs Hr Hp; cbn [pop_while].
  - destruct (add_pending_ok p root Hr Hp) as (r' & E & Hr'). rewrite E. cbn [bind].
    exists [], r'. auto.
  - inversion Hs as [|? ? [Hct Hcg] Hrest]. subst.
    destruct (add_pending_ok p (c_tags c) Hcg Hp) as (tg & E & Htg). rewrite E. cbn [bind].
    cbn [c_members c_tag c_tags].
    destruct (mem_str tag (c_members c)) eqn:M.
    + eexists _, root. split; [reflexivity|].
      split; [constructor; [split; assumption|assumption]|]. auto.
    + apply IH; auto.
Qed.

Lemma ct_set_ok t v c : py_int t <> None -> ct_mem t c = false -> ct_set t v c = Ok (ct_put t (VStr v) c).
Proof. intros Hi Hm. unfold ct_set. destruct (py_int t); [|congruence]. now rewrite Hm. Qed.

(* invariant of the decoder state *)
Definition inv (st : dst) : Prop := grp_ok (d_root st) /\ Forall ctx_ok (d_stack st).

(* one field: the frame is rejected, or the loop goes on in a good state - never an exception *)
Lemma field_step_total ck st m : inv st ->
  field_step G ck st m = FReturnBad \/ exists st', field_step G ck st m = FCont st' /\ inv st'.
Proof.
  intros (Hgr & Hctx). unfold field_step.
  destruct (split1 61 m) as [tag [val|]] eqn:S; [|now left].
  destruct (py_int tag) as [z|] eqn:Htag; [|now left]. right.
  assert (Hi : py_int tag <> None) by congruence.
  match goal with
  | |- exists st', match ?r1 with _ => _ end = _ /\ _ =>
      assert (R1 : exists st1, r1 = Ok st1 /\ d_root st1 = d_root st /\ d_stack st1 = d_stack st)
  end.
  { destruct (str_eqb tag T10); [|destruct (str_eqb tag T35)]; eexists; (split; [reflexivity|]); auto. }
  destruct R1 as (st1 & -> & E1 & E2). rewrite E1, E2. clear E1 E2.
  destruct (lookup_group G tag) as [members|] eqn:LG.
  - (* start of a group *)
    assert (Hg : is_group tag) by (unfold is_group; congruence).
    destruct (d_stack st) as [|c0 rest0] eqn:Est.
    + eexists. split; [reflexivity|]. split; cbn [d_root d_stack]; auto.
      constructor; [|constructor]. split; [exact Hg|apply grp_ok_nil].
    + destruct (pop_while_ok tag (c0 :: rest0) None (d_root st) Hctx Hgr I)
        as (stack' & root' & E & Hc' & Hr').
      rewrite E. eexists. split; [reflexivity|]. split; cbn [d_root d_stack]; auto.
      constructor; [|exact Hc']. split; [exact Hg|apply grp_ok_nil].
  - destruct (d_stack st) as [|c0 rest0] eqn:Est.
    + (* plain tag at the root *)
      destruct (ct_mem tag (d_root st)) eqn:M.
      * eexists. split; [reflexivity|]. split; cbn [d_root d_stack]; auto.
        now apply grp_ok_put_plain.
      * rewrite ct_set_ok by assumption. eexists. split; [reflexivity|].
        split; cbn [d_root d_stack]; auto. now apply grp_ok_put_plain.
    + (* plain tag while groups are open *)
      destruct (pop_while_ok tag (c0 :: rest0) None (d_root st) Hctx Hgr I)
        as (stack' & root' & E & Hc' & Hr').
      rewrite E. destruct stack' as [|c rest].
      * destruct (ct_mem tag root') eqn:Mr.
        -- eexists. split; [reflexivity|]. split; cbn [d_root d_stack]; auto.
           now apply grp_ok_put_plain.
        -- rewrite ct_set_ok by assumption. eexists. split; [reflexivity|].
           split; cbn [d_root d_stack]; auto. now apply grp_ok_put_plain.
      * inversion Hc' as [|? ? [Hct Hcg] Hrest]. subst.
        destruct (ct_mem tag (c_tags c)) eqn:Mc.
        -- rewrite (ct_set_ok tag val []) by (auto; reflexivity).
           destruct rest as [|p rest'].
           ++ destruct (ct_add_group_ok (c_tag c) (c_tags c) root' Hr' Hct) as (r2 & E2 & Hr2).
              rewrite E2. cbn [bind]. eexists. split; [reflexivity|].
              split; cbn [d_root d_stack]; auto.
              constructor; [|constructor]. split; [exact Hct|].
              cbn [c_tags]. apply grp_ok_put_plain; [exact LG|apply grp_ok_nil].
           ++ inversion Hrest as [|? ? [Hpt Hpg] Hrest']. subst.
              destruct (ct_add_group_ok (c_tag c) (c_tags c) (c_tags p) Hpg Hct) as (tg & E2 & Htg).
              rewrite E2. cbn [bind]. eexists. split; [reflexivity|].
              split; cbn [d_root d_stack]; auto.
              constructor; [|constructor; [|exact Hrest']].
              ** split; [exact Hct|]. cbn [c_tags]. apply grp_ok_put_plain; [exact LG|apply grp_ok_nil].
              ** split; [exact Hpt|exact Htg].
        -- rewrite ct_set_ok by assumption. eexists. split; [reflexivity|].
           split; cbn [d_root d_stack]; auto.
           constructor; [|exact Hrest]. split; [exact Hct|].
           cbn [c_tags]. now apply grp_ok_put_plain.
Qed.

Lemma fields_loop_total ck fs : forall st, inv st -> forall e, fields_loop G ck st fs <> FExc e.
Proof.
  induction fs as [|m fs IH]; intros st Hs e; cbn [fields_loop]; [discriminate|].
  destruct (field_step_total ck st m Hs) as [->|(st' & -> & Hs')]; [discriminate|]. now apply IH.
Qed.

End Total.

Lemma inv_init G : inv G st0.
Proof. split; [apply grp_ok_nil|constructor]. Qed.

Lemma strip_last_empty_head (x : str) (ps : list str) : x <> [] -> exists ps', strip_last_empty (x :: ps) = x :: ps'.
Proof.
  intros Hx. unfold strip_last_empty. destruct (rev (x :: ps)) as [|[|c p] r] eqn:R; eauto.
  cbn [rev] in R. destruct (rev ps) as [|a l]; cbn [app] in R.
  - inversion R; congruence.
  - injection R as Ea Er. rewrite <- Er, rev_unit. eauto.
Qed.

Lemma dec_next0_ge5 (r : str) : (5 <= dec_next0 (MARK ++ r))%nat.
Proof.
  unfold dec_next0. destruct (find_sub MARK _); [lia|]. rewrite app_length. cbn. lia.
Qed.

Lemma dec_next_ge2 (r : str) : (2 <= dec_next (MARK ++ r))%nat.
Proof.
  unfold dec_next, cut_at_checksum. pose proof (dec_next0_ge5 r).
  destruct (find_sub CKSEP _); [|lia]. destruct (find_sub SOHs _); lia.
Qed.

Lemma first_field_has_eq i raw f0 rest :
  find_sub MARK raw = Some i -> dec_fields i raw = f0 :: rest ->
  exists v, split1 61 f0 = ([56], Some v).
Proof.
  intros Ei Ef. apply find_sub_spec in Ei. destruct Ei as [_ [r Er]].
  unfold dec_fields, dec_encoded in Ef. rewrite Er in Ef.
  pose proof (dec_next_ge2 r) as Hk. destruct (dec_next (MARK ++ r)) as [|[|k]]; [lia|lia|].
  cbn [MARK app firstn] in Ef.
  set (t := firstn k _) in Ef.
  assert (Es : exists p ps, split_on 1 (56 :: 61 :: t) = (56 :: 61 :: p) :: ps).
  { cbn [split_on N.eqb Pos.eqb]. destruct (split_on 1 t) as [|p ps] eqn:Et.
    - exfalso. eapply split_on_nonempty; eauto.
    - eauto. }
  destruct Es as (p & ps & Es). rewrite Es in Ef.
  destruct (strip_last_empty_head (56 :: 61 :: p) ps) as [ps' E]; [discriminate|].
  pose proof (eq_trans (eq_sym E) Ef) as Ef2. inversion Ef2. subst. exists p. reflexivity.
Qed.

(* silent decode never raises: for every table, BeginString and input it returns a triple *)
Lemma decode_total G bs raw : exists m n r, decode G bs raw true = Ok (m, n, r).
Proof.
  rewrite decode_eq.
  destruct (find_sub MARK raw) as [i|] eqn:Ei; [|eauto].
  destruct (dec_fields i raw) as [|f0 [|f1 [|f2 rest]]] eqn:Ef;
    try (destruct (has_next (skipn i raw)); eauto; fail).
  destruct (first_field_has_eq _ _ _ _ Ei Ef) as [v0 S0]. rewrite S0.
  destruct (negb (str_eqb v0 bs)); eauto.
  destruct (split1 61 f1) as [t1 [v1|]] eqn:S1; eauto.
  destruct (negb (str_eqb t1 T9)); eauto.
  destruct (py_int v1) as [bl|]; eauto.
  destruct (bl <? 0)%Z; eauto. destruct (_ <? _)%Z; eauto.
  pose proof (fields_loop_total G (dec_ck (f0 :: f1 :: f2 :: rest)) (f0 :: f1 :: f2 :: rest) st0 (inv_init G)) as Hne.
  destruct (fields_loop G _ st0 _) as [st| |e] eqn:Efl; eauto.
  - destruct (d_ck st); eauto.
  - exfalso. eapply Hne; eauto.
Qed.

(* ------------------------------------------------------------------ (c) the checksum flag *)

Definition cks_verdict (ck : N) (v : str) : bool :=
  three_digits v && Z.eqb (Z.of_N ck) (digits_value v).

Lemma field_step_ck G ck st m st' : field_step G ck st m = FCont st' ->
  exists tag val, split1 61 m = (tag, Some val) /\
    d_ck st' = if str_eqb tag T10 then cks_verdict ck val else d_ck st.
Proof.
  unfold field_step. destruct (split1 61 m) as [tag [val|]] eqn:S; [|discriminate].
  destruct (py_int tag) as [z|] eqn:Htag; [|discriminate].
  intros H. exists tag, val. split; [reflexivity|].
  match type of H with
  | match ?r1 with _ => _ end = _ => destruct r1 as [st1|e1] eqn:R1; [|discriminate]
  end.
  assert (Hck : d_ck st' = d_ck st1).
  { clear R1. unfold bind in H.
    repeat (dmatch H; try discriminate); inversion H; reflexivity. }
  rewrite Hck. clear H Hck.
  destruct (str_eqb tag T10); [inversion R1; reflexivity|].
  destruct (str_eqb tag T35); inversion R1; reflexivity.
Qed.

Fixpoint last_cks (fs : list str) : option str :=
  match fs with
  | [] => None
  | f :: r =>
      match last_cks r with
      | Some v => Some v
      | None => match split1 61 f with
                | (t, Some v) => if str_eqb t T10 then Some v else None
                | (_, None) => None
                end
      end
  end.

Lemma fields_loop_last_ck G ck fs : forall st st',
  fields_loop G ck st fs = FCont st' ->
  d_ck st' = match last_cks fs with Some v => cks_verdict ck v | None => d_ck st end.
Proof.
  induction fs as [|f fs IH]; intros st st'; cbn [fields_loop last_cks].
  - intros H. inversion H. reflexivity.
  - destruct (field_step G ck st f) as [st1| |] eqn:E; try discriminate.
    intros H. specialize (IH _ _ H). destruct (last_cks fs) as [v|]; [exact IH|].
    destruct (field_step_ck _ _ _ _ _ E) as (tag & val & S & Hc). rewrite S.
    destruct (str_eqb tag T10); congruence.
Qed.

(* ------------------------------------------------------------------ inversion of a return *)

(* the two situations in which decode asks for more bytes although a marker is there *)
Definition wait_case (i : nat) (raw : str) : Prop :=
  ((length (dec_fields i raw) < 3)%nat /\ has_next (skipn i raw) = false)
  \/ exists f0 f1 rest v1 bl,
       dec_fields i raw = f0 :: f1 :: rest /\ split1 61 f1 = (T9, Some v1) /\ py_int v1 = Some bl
       /\ (0 <= bl)%Z /\ (zlen raw - Z.of_nat i < zlen f0 + zlen f1 + 9 + bl)%Z.

Lemma decode_ok_inv G bs raw m n r : decode G bs raw true = Ok (m, n, r) ->
  (m = None /\ r = None /\ find_sub MARK raw = None
   /\ n = (zlen raw - Z.of_nat (marker_tail raw))%Z) \/
  exists i, find_sub MARK raw = Some i /\
    ((m = None /\ r = None /\ n = Z.of_nat i /\ wait_case i raw) \/
     (m = None /\ r = None /\ n = frame_len i raw) \/
     exists f0 f1 f2 rest t0 v1 bl st,
       dec_fields i raw = f0 :: f1 :: f2 :: rest
       /\ split1 61 f0 = (t0, Some bs) /\ split1 61 f1 = (T9, Some v1) /\ py_int v1 = Some bl
       /\ (0 <= bl)%Z /\ (zlen f0 + zlen f1 + 9 + bl <= zlen raw - Z.of_nat i)%Z
       /\ fields_loop G (dec_ck (dec_fields i raw)) st0 (dec_fields i raw) = FCont st
       /\ d_ck st = true /\ m = Some (mkMsg (d_type st) (d_root st))
       /\ r = Some (dec_encoded i raw) /\ n = frame_len i raw).
Proof.
  rewrite decode_eq. intros H.
  destruct (find_sub MARK raw) as [i|] eqn:Ei; [|inversion H; auto].
  right. exists i. split; [reflexivity|].
  assert (W : forall l, dec_fields i raw = l -> (length l < 3)%nat ->
              (if has_next (skipn i raw) then Ok (None, frame_len i raw, None)
               else Ok (None, Z.of_nat i, None)) = Ok (m, n, r) ->
              (m = None /\ r = None /\ n = Z.of_nat i /\ wait_case i raw) \/
              (m = None /\ r = None /\ n = frame_len i raw) \/ False).
  { intros l El Hl Hw. destruct (has_next (skipn i raw)) eqn:Hn; inversion Hw; subst.
    - right. left. auto.
    - left. repeat split; auto. left. auto. }
  destruct (dec_fields i raw) as [|f0 [|f1 [|f2 rest]]] eqn:Ef;
    try (destruct (W _ eq_refl ltac:(cbn; lia) H) as [?|[?|[]]]; auto; fail).
  clear W.
  destruct (split1 61 f0) as [t0 [v0|]] eqn:S0; [|discriminate].
  destruct (str_eqb v0 bs) eqn:Eb; cbn [negb] in H; [|inversion H; auto].
  apply streqb_eq in Eb. subst v0.
  destruct (split1 61 f1) as [t1 [v1|]] eqn:S1; [|inversion H; auto].
  destruct (str_eqb t1 T9) eqn:E9; cbn [negb] in H; [|inversion H; auto].
  apply streqb_eq in E9. subst t1.
  destruct (py_int v1) as [bl|] eqn:Ebl; [|inversion H; auto].
  destruct (bl <? 0)%Z eqn:Eneg; [inversion H; auto|]. apply Z.ltb_ge in Eneg.
  destruct (zlen raw - Z.of_nat i <? zlen f0 + zlen f1 + 9 + bl)%Z eqn:El.
  { apply Z.ltb_lt in El. inversion H. left. repeat split; auto. right.
    exists f0, f1, (f2 :: rest), v1, bl. auto. }
  apply Z.ltb_ge in El.
  destruct (fields_loop G _ _ _) as [st| |e] eqn:Efl; [|inversion H; auto|].
  - destruct (d_ck st) eqn:Eck; inversion H; subst; [|auto].
    right. right. exists f0, f1, f2, rest, t0, v1, bl, st. repeat split; auto.
  - exfalso. eapply (fields_loop_total G); [apply inv_init|exact Efl].
Qed.

(* ------------------------------------------------------------------ (b) consumed length *)

(* the BodyLength value decode reads (second field of the frame text), when it parses *)
Definition frame_blen (raw : str) : option Z :=
  match frame_fields raw with
  | _ :: f1 :: _ => match split1 61 f1 with (_, Some v) => py_int v | (_, None) => None end
  | _ => None
  end.

Lemma ends_with_spec p s : ends_with p s = true -> exists a, s = a ++ p.
Proof.
  unfold ends_with. intros H. apply prefixb_app in H. destruct H as [r E].
  exists (rev r). rewrite <- (rev_involutive s), E, rev_app_distr, rev_involutive. reflexivity.
Qed.

Lemma marker_tail_from_spec raw : forall k, (k <= 5)%nat ->
  let t := marker_tail_from k raw in
  (t <= k)%nat /\ exists a, raw = a ++ firstn t MARK.
Proof.
  induction k as [|k IH]; intros Hk; cbn [marker_tail_from].
  - split; [lia|]. exists raw. cbn. now rewrite app_nil_r.
  - destruct (ends_with (firstn (S k) MARK) raw) eqn:E.
    + split; [lia|]. now apply ends_with_spec.
    + destruct (IH ltac:(lia)) as [A B]. split; [lia|exact B].
Qed.

Lemma marker_tail_spec raw :
  (marker_tail raw <= 5)%nat /\ (marker_tail raw <= length raw)%nat
  /\ skipn (length raw - marker_tail raw) raw = firstn (marker_tail raw) MARK.
Proof.
  unfold marker_tail. destruct (marker_tail_from_spec raw 5 ltac:(lia)) as [A [a B]].
  set (t := marker_tail_from 5 raw) in *.
  assert (L : length (firstn t MARK) = t) by (apply firstn_length_le; change (length MARK) with 6%nat; lia).
  assert (Hl : length raw = (length a + t)%nat).
  { pose proof (f_equal (@length N) B) as Hl. rewrite app_length, L in Hl. exact Hl. }
  split; [exact A|]. split; [lia|].
  rewrite Hl. replace (length a + t - t)%nat with (length a) by lia.
  clearbody t. rewrite B. apply skipn_app_exact.
Qed.

Lemma decode_no_marker G bs raw : find_sub MARK raw = None ->
  decode G bs raw true = Ok (None, (zlen raw - Z.of_nat (marker_tail raw))%Z, None).
Proof. intros E. rewrite decode_eq, E. reflexivity. Qed.

(* the frame candidate lies inside what follows the marker and is not empty *)
Lemma dec_next0_le (msg : str) : (dec_next0 msg <= length msg)%nat.
Proof.
  unfold dec_next0. destruct (find_sub MARK (skipn 5 msg)) as [k|] eqn:E; [|lia].
  apply find_sub_spec in E. destruct E as [E _]. rewrite skipn_length in E. cbn [MARK length] in E. lia.
Qed.

Lemma cut_at_checksum_le (msg : str) n0 : (cut_at_checksum msg n0 <= n0)%nat.
Proof.
  unfold cut_at_checksum. destruct (find_sub CKSEP (firstn n0 msg)) as [ci|] eqn:Ec; [|lia].
  destruct (find_sub SOHs _) as [j|] eqn:Ej; [|lia].
  apply find_sub_spec in Ej. destruct Ej as [Ej _]. rewrite skipn_length in Ej. cbn [SOHs length] in Ej.
  pose proof (firstn_le_length n0 msg). lia.
Qed.

Lemma dec_next_le (msg : str) : (dec_next msg <= length msg)%nat.
Proof. unfold dec_next. pose proof (cut_at_checksum_le msg (dec_next0 msg)). pose proof (dec_next0_le msg). lia. Qed.

Lemma dec_encoded_length i raw : length (dec_encoded i raw) = dec_next (skipn i raw).
Proof. unfold dec_encoded. apply firstn_length_le, dec_next_le. Qed.

Lemma frame_len_bounds i raw : find_sub MARK raw = Some i ->
  (Z.of_nat i + 2 <= frame_len i raw <= zlen raw)%Z
  /\ frame_len i raw = (Z.of_nat i + zlen (dec_encoded i raw))%Z.
Proof.
  intros Ei. unfold frame_len, zlen. rewrite dec_encoded_length.
  apply find_sub_spec in Ei. destruct Ei as [Hi [r Er]].
  pose proof (dec_next_le (skipn i raw)) as U. rewrite skipn_length in U.
  pose proof (dec_next_ge2 r) as L. rewrite <- Er in L. lia.
Qed.

(* exact shape of the consumed length *)
Lemma decode_consumed_shape G bs raw m n r : decode G bs raw true = Ok (m, n, r) ->
  (find_sub MARK raw = None /\ m = None /\ n = (zlen raw - Z.of_nat (marker_tail raw))%Z) \/
  exists i, find_sub MARK raw = Some i /\
    ((m = None /\ n = Z.of_nat i /\ wait_case i raw)
     \/ n = (Z.of_nat i + zlen (dec_encoded i raw))%Z).
Proof.
  intros H. apply decode_ok_inv in H.
  destruct H as [(Hm & _ & E & Hn)|(i & Ei & H)]; [auto|].
  right. exists i. split; [exact Ei|]. destruct (frame_len_bounds _ _ Ei) as [_ FL].
  destruct H as [(Hm & _ & Hn & W)|[(_ & _ & Hn)|H]]; [auto|right; congruence|].
  destruct H as (f0 & f1 & f2 & rest & t0 & v1 & bl & st & H). right.
  repeat match type of H with _ /\ _ => destruct H as [_ H] end. congruence.
Qed.

(* full strength: the consumed length is always within the buffer *)
Lemma decode_consumed_bounds G bs raw m n r : decode G bs raw true = Ok (m, n, r) ->
  (0 <= n <= zlen raw)%Z.
Proof.
  intros H. apply decode_consumed_shape in H.
  destruct H as [(_ & _ & ->)|(i & Ei & H)].
  - pose proof (marker_tail_spec raw) as (_ & T & _). unfold zlen. lia.
  - destruct (frame_len_bounds _ _ Ei) as [B FL]. rewrite FL in B.
    pose proof (find_sub_spec _ _ _ Ei) as [Hi _]. unfold zlen in *.
    destruct H as [(_ & -> & _)| ->]; lia.
Qed.

(* a returned message always comes with a positive length: junk prefix + the accepted text *)
Lemma decode_msg_consumed G bs raw m n r : decode G bs raw true = Ok (Some m, n, r) ->
  exists i e, find_sub MARK raw = Some i /\ r = Some e /\ e = dec_encoded i raw
    /\ n = (Z.of_nat i + zlen e)%Z /\ (2 <= length e)%nat.
Proof.
  intros H. apply decode_ok_inv in H.
  destruct H as [(? & _)|(i & Ei & [(? & _)|[(? & _)|H]])]; try discriminate.
  destruct H as (f0 & f1 & f2 & rest & t0 & v1 & bl & st & _ & _ & _ & _ & _ & _ & _ & _ & _ & Er & Hn).
  destruct (frame_len_bounds _ _ Ei) as [B FL].
  exists i, (dec_encoded i raw). repeat split; auto; [congruence|]. unfold zlen in *. lia.
Qed.

Lemma decode_msg_positive G bs raw m n r : decode G bs raw true = Ok (Some m, n, r) -> (0 < n)%Z.
Proof.
  intros H. destruct (decode_msg_consumed _ _ _ _ _ _ H) as (i & e & _ & _ & _ & -> & L). unfold zlen. lia.
Qed.

(* when nothing is consumed: the buffer is a proper prefix of the marker (at most 5 bytes, kept for
   the next read), or a candidate starts the buffer and decode waits for its completion *)
Lemma decode_zero_cases G bs raw m r : decode G bs raw true = Ok (m, 0%Z, r) ->
  m = None /\
  ((find_sub MARK raw = None /\ (length raw <= 5)%nat /\ raw = firstn (length raw) MARK)
   \/ (find_sub MARK raw = Some 0%nat /\ wait_case 0 raw)).
Proof.
  intros H. apply decode_consumed_shape in H. unfold zlen in *.
  destruct H as [(E & Hm & Hn)|(i & Ei & [(Hm & Hn & W)|Hn])].
  - split; [exact Hm|]. left. pose proof (marker_tail_spec raw) as (A & B & C).
    assert (T : marker_tail raw = length raw) by lia. rewrite T in *.
    rewrite Nat.sub_diag in C. cbn [skipn] in C. auto.
  - split; [exact Hm|]. right. assert (i = 0%nat) by lia. subst i. auto.
  - destruct (frame_len_bounds _ _ Ei) as [B FL]. unfold zlen in *. lia.
Qed.

(* whatever is consumed beyond the junk prefix is exactly the frame candidate: nothing that
   follows it in the buffer is lost (a rejected frame is dropped alone) *)
Lemma decode_consumes_candidate G bs raw m n r i : decode G bs raw true = Ok (m, n, r) ->
  find_sub MARK raw = Some i ->
  (m = None /\ n = Z.of_nat i /\ wait_case i raw)
  \/ (n = (Z.of_nat i + zlen (dec_encoded i raw))%Z
      /\ raw = firstn i raw ++ dec_encoded i raw ++ skipn (Z.to_nat n) raw).
Proof.
  intros H Ei. apply decode_consumed_shape in H.
  destruct H as [(E & _)|(i' & Ei' & H)]; [congruence|].
  assert (i' = i) by congruence. subst i'. destruct H as [H|Hn]; [auto|]. right. split; [exact Hn|].
  subst n. unfold zlen. rewrite <- Nat2Z.inj_add, Nat2Z.id, dec_encoded_length.
  rewrite <- skipn_skipn'. unfold dec_encoded.
  rewrite (firstn_skipn (dec_next (skipn i raw)) (skipn i raw)). now rewrite firstn_skipn.
Qed.

(* ------------------------------------------------------------------ (c) what acceptance means *)

Definition is_some {A} (o : option A) : bool := match o with Some _ => true | None => false end.

Definition field_tag (f : str) : option str :=
  match split1 61 f with (t, Some _) => Some t | (_, None) => None end.

Lemma join_snoc_empty sep l : l <> [] -> join sep (l ++ [[]]) = join sep l ++ sep.
Proof.
  induction l as [|p l IH]; [congruence|]. intros _.
  destruct l as [|p' l].
  - cbn. now rewrite app_nil_r.
  - change ((p :: p' :: l) ++ [[]]) with (p :: ((p' :: l) ++ [[]])).
    rewrite join_cons by (destruct l; discriminate).
    rewrite IH by discriminate. change (join sep (p :: p' :: l)) with (p ++ sep ++ join sep (p' :: l)).
    rewrite <- !app_assoc. reflexivity.
Qed.

Lemma dec_fields_text i raw :
  dec_encoded i raw = join SOHs (dec_fields i raw)
  \/ (dec_fields i raw <> [] /\ dec_encoded i raw = join SOHs (dec_fields i raw) ++ SOHs).
Proof.
  unfold dec_fields, strip_last_empty. set (e := dec_encoded i raw).
  pose proof (join_split_on 1 e) as J. fold SOHs in J.
  destruct (rev (split_on 1 e)) as [|[|c p] r] eqn:R; auto.
  assert (E : split_on 1 e = rev r ++ [[]]).
  { rewrite <- (rev_involutive (split_on 1 e)), R. reflexivity. }
  destruct (rev r) as [|q qs] eqn:Q.
  - left. rewrite E in J. cbn in J. cbn. auto.
  - right. split; [discriminate|]. rewrite E in J. rewrite join_snoc_empty in J by discriminate. auto.
Qed.

Lemma split1_field t v : ~ In 61 t -> split1 61 (field t v) = (t, Some v).
Proof.
  unfold field. induction t as [|c t IH]; intros H; [reflexivity|].
  cbn [app split1]. destruct (N.eqb c 61) eqn:E.
  - apply N.eqb_eq in E. subst c. exfalso. apply H. now left.
  - rewrite IH; [reflexivity|]. intros F. apply H. now right.
Qed.

Definition P10 : str := T10 ++ [61].        (* "10=" *)

Lemma field_tag_T10_prefix f : field_tag f = Some T10 -> prefixb P10 f = true.
Proof.
  unfold field_tag. destruct (split1 61 f) as [t [v|]] eqn:S; [|discriminate].
  intros H. inversion H. subst t. apply split1_some in S. subst f.
  change (T10 ++ 61 :: v) with (P10 ++ v). apply prefixb_self_app.
Qed.

Lemma no_cksep_tl : forall A : str, (forall k, prefixb CKSEP (skipn k A) = false) ->
  Forall (fun f => prefixb P10 f = false) (tl (split_on 1 A)).
Proof.
  induction A as [|x A IH]; intros H; [constructor|].
  assert (H' : forall k, prefixb CKSEP (skipn k A) = false) by (intros k; apply (H (S k))).
  specialize (IH H'). cbn [split_on].
  destruct (N.eqb x 1) eqn:E.
  - apply N.eqb_eq in E. subst x. cbn [tl].
    destruct (split_on 1 A) as [|f l] eqn:S; [constructor|].
    constructor; [|exact IH].
    destruct (prefixb P10 f) eqn:P; [|reflexivity].
    destruct (split_on_hd _ _ _ _ S) as [rest ->].
    specialize (H 0%nat). cbn [skipn] in H.
    change CKSEP with (1 :: P10) in H. cbn [prefixb] in H. rewrite N.eqb_refl in H. cbn [andb] in H.
    now rewrite (prefixb_app_r _ _ rest P) in H.
  - destruct (split_on 1 A) as [|p ps] eqn:S; [constructor|]. exact IH.
Qed.

Lemma strip_last_empty_snoc_empty (X : list str) : strip_last_empty (X ++ [[]]) = X.
Proof. unfold strip_last_empty. rewrite rev_unit. apply rev_involutive. Qed.

Lemma strip_last_empty_snoc (X : list str) (W : str) : W <> [] -> strip_last_empty (X ++ [W]) = X ++ [W].
Proof. intros H. unfold strip_last_empty. rewrite rev_unit. destruct W; [congruence|reflexivity]. Qed.

Lemma strip_last_empty_cases (l : list str) :
  strip_last_empty l = l \/ l = strip_last_empty l ++ [[]].
Proof.
  unfold strip_last_empty. destruct (rev l) as [|[|c w] r] eqn:R; auto.
  right. rewrite <- (rev_involutive l), R. reflexivity.
Qed.

Lemma cut_fields (msg : str) (n0 : nat) :
  let fs := strip_last_empty (split_on 1 (firstn (cut_at_checksum msg n0) msg)) in
  Forall (fun f => prefixb P10 f = false) (tl fs)
  \/ exists FA v, fs = FA ++ [field T10 v] /\ FA <> []
                 /\ Forall (fun f => prefixb P10 f = false) (tl FA).
Proof.
  cbv zeta. unfold cut_at_checksum. set (head := firstn n0 msg).
  destruct (find_sub CKSEP head) as [ci|] eqn:Ec.
  - (* a CheckSum separator at offset ci *)
    right. pose proof (find_sub_min _ _ _ Ec) as Hmin.
    apply find_sub_spec in Ec. destruct Ec as [Hci [B EB]].
    set (A := firstn ci head).
    assert (LA : length A = ci) by (apply firstn_length_le; lia).
    assert (EH : head = A ++ 1 :: P10 ++ B).
    { rewrite <- (firstn_skipn ci head). fold A. now rewrite EB. }
    assert (HA : forall k, prefixb CKSEP (skipn k A) = false).
    { intros k. destruct (prefixb CKSEP (skipn k A)) eqn:P; [|reflexivity].
      assert (Hk : (k + 4 <= ci)%nat).
      { apply prefixb_length in P. rewrite skipn_length in P. cbn in P. lia. }
      rewrite <- (Hmin k ltac:(lia)). rewrite EH, skipn_app.
      replace (k - length A)%nat with 0%nat by lia. cbn [skipn].
      symmetry. now apply prefixb_app_r. }
    pose proof (no_cksep_tl A HA) as HtlA.
    assert (ES : skipn (ci + 1) head = P10 ++ B).
    { rewrite EH, skipn_app, LA. replace (ci + 1 - ci)%nat with 1%nat by lia.
      rewrite skipn_all2 by lia. reflexivity. }
    rewrite ES.
    destruct (find_sub SOHs (P10 ++ B)) as [j|] eqn:Ej.
    + pose proof (find_sub_min _ _ _ Ej) as Hj.
      apply find_sub_spec in Ej. destruct Ej as [Hjl [B' EB']].
      set (R := P10 ++ B) in *. set (V := firstn j R).
      assert (HV : ~ In 1 V) by (apply no_char_firstn; exact Hj).
      assert (ER : R = V ++ 1 :: B') by (rewrite <- (firstn_skipn j R); fold V; now rewrite EB').
      assert (LV : length V = j).
      { apply firstn_length_le. lia. }
      assert (Ee : firstn (ci + 1 + j + 1) msg = A ++ 1 :: V ++ [1]).
      { assert (Hle : (ci + 1 + j + 1 <= length head)%nat).
        { rewrite EH. fold R. rewrite ER, !app_length. cbn [length]. rewrite app_length. cbn [length]. lia. }
        assert (Hn0 : (ci + 1 + j + 1 <= n0)%nat).
        { unfold head in Hle. rewrite firstn_length in Hle. lia. }
        rewrite <- (firstn_firstn_le _ n0 msg Hn0). fold head. rewrite EH. fold R. rewrite ER.
        rewrite firstn_app, LA. rewrite (firstn_all2 A) by lia.
        replace (ci + 1 + j + 1 - ci)%nat with (S (j + 1)) by lia. cbn [firstn].
        rewrite firstn_app, LV. rewrite (firstn_all2 V) by lia.
        replace (j + 1 - j)%nat with 1%nat by lia. reflexivity. }
      rewrite Ee.
      change (A ++ 1 :: V ++ [1]) with (A ++ 1 :: (V ++ 1 :: [])).
      rewrite !split_on_app, (split_on_nosep 1 V HV). cbn [split_on].
      change (split_on 1 A ++ [V] ++ [[]]) with (split_on 1 A ++ [V] ++ [[]]).
      rewrite app_assoc, strip_last_empty_snoc_empty.
      (* V starts with "10=" *)
      assert (EV : exists v, V = field T10 v).
      { unfold V, R, P10, T10. unfold R, P10, T10 in EB'.
        destruct j as [|[|[|j]]]; cbn in EB'; try discriminate.
        exists (firstn j B). reflexivity. }
      destruct EV as [v EV]. exists (split_on 1 A), v. rewrite EV.
      split; [reflexivity|]. split; [apply split_on_nonempty|exact HtlA].
    + (* no SOH after it: the CheckSum field runs to the end of the candidate *)
      pose proof (find_sub_none _ _ Ej) as Hn.
      assert (HR : ~ In 1 (P10 ++ B)).
      { rewrite <- (firstn_all (P10 ++ B)). apply no_char_firstn. intros k _. apply Hn. }
      fold head. rewrite EH.
      rewrite split_on_app, (split_on_nosep 1 _ HR).
      rewrite strip_last_empty_snoc by discriminate.
      exists (split_on 1 A), B. split; [reflexivity|]. split; [apply split_on_nonempty|exact HtlA].
  - (* no separator at all *)
    left. fold head. pose proof (no_cksep_tl head (find_sub_none _ _ Ec)) as H.
    destruct (strip_last_empty_cases (split_on 1 head)) as [->|E]; [exact H|].
    rewrite E in H. destruct (strip_last_empty (split_on 1 head)) as [|f l]; [constructor|].
    cbn [app tl] in H. apply Forall_app in H. tauto.
Qed.

Lemma last_cks_none fs : Forall (fun f => field_tag f <> Some T10) fs -> last_cks fs = None.
Proof.
  induction 1 as [|f fs Hf _ IH]; [reflexivity|]. cbn [last_cks]. rewrite IH.
  unfold field_tag in Hf. destruct (split1 61 f) as [t [v|]]; [|reflexivity].
  destruct (str_eqb t T10) eqn:E; [|reflexivity]. apply streqb_eq in E. subst. congruence.
Qed.

Lemma last_cks_snoc FA v : last_cks (FA ++ [field T10 v]) = Some v.
Proof.
  induction FA as [|f FA IH]; cbn [app last_cks].
  - rewrite split1_field by (intros [F|[F|[]]]; discriminate). now rewrite streqb_refl.
  - now rewrite IH.
Qed.

Lemma not_p10_tag f : prefixb P10 f = false -> field_tag f <> Some T10.
Proof. intros H F. apply field_tag_T10_prefix in F. congruence. Qed.

(* three ASCII digits whose value is c < 256 are exactly "%0.3i" % c *)
Lemma three_digits_fmt03 v c : three_digits v = true -> digits_value v = Z.of_N c -> c < 256 ->
  v = fmt03 c.
Proof.
  unfold three_digits. rewrite andb_true_iff. intros [L D] V Hc.
  destruct v as [|d1 [|d2 [|d3 [|]]]]; try discriminate. clear L.
  cbn [forallb] in D. rewrite !andb_true_iff in D. destruct D as (D1 & D2 & D3 & _).
  unfold is_digit in D1, D2, D3. rewrite andb_true_iff, !N.leb_le in D1, D2, D3.
  destruct (fmt03_spec c Hc) as (e1 & e2 & e3 & -> & E1 & E2 & E3 & Ev & _).
  apply ascii_digit_range in E1, E2, E3.
  unfold digits_value in V. cbn [fold_left] in V.
  assert (d1 = e1 /\ d2 = e2 /\ d3 = e3) as (-> & -> & ->) by lia. reflexivity.
Qed.

(* Every returned message (full strength):
   - its raw text is the slice of the input that starts at the marker, and the consumed length is the
     junk before the marker plus that text;
   - BeginString is the expected one, the second field is a BodyLength that is a length and does not
     exceed what the buffer holds;
   - the CheckSum field is the LAST field of the text and the only one with tag "10"; its value is
     exactly the three ASCII digits "%0.3i" of the sum of ALL bytes before "10=" modulo 256;
   - the text is those bytes, "10=ddd", and at most one SOH. *)
Lemma decode_accept_sound G bs raw m n r : decode G bs raw true = Ok (Some m, n, r) ->
  exists i, find_sub MARK raw = Some i /\ r = Some (dec_encoded i raw)
    /\ n = (Z.of_nat i + zlen (dec_encoded i raw))%Z /\
    let fs := dec_fields i raw in
    let before := join SOHs (removelast fs) ++ SOHs in
    let ddd := fmt03 (sum_codes before mod 256) in
    (3 <= length fs)%nat
    /\ (exists t0 v1 bl, nth 0 fs [] = field t0 bs /\ nth 1 fs [] = field T9 v1 /\ py_int v1 = Some bl
          /\ (0 <= bl)%Z /\ (zlen (nth 0 fs []) + zlen (nth 1 fs []) + 9 + bl <= zlen raw - Z.of_nat i)%Z)
    /\ fs = removelast fs ++ [field T10 ddd]
    /\ Forall (fun f => field_tag f <> Some T10) (removelast fs)
    /\ exists tail, (tail = [] \/ tail = SOHs) /\ dec_encoded i raw = before ++ field T10 ddd ++ tail.
Proof.
  intros H. pose proof (decode_ok_inv _ _ _ _ _ _ H) as I.
  destruct I as [(? & _)|(i & Ei & [(? & _)|[(? & _)|I]])]; try discriminate.
  destruct I as (f0 & f1 & f2 & rest & t0 & v1 & bl & st & Ef & S0 & S1 & Ebl & Hbl & Hle & Efl & Eck & _ & Er & Hn).
  exists i. split; [exact Ei|]. split; [exact Er|].
  destruct (frame_len_bounds _ _ Ei) as [_ FL]. split; [congruence|]. cbv zeta.
  split; [rewrite Ef; cbn [length]; lia|]. split.
  { exists t0, v1, bl. rewrite Ef. cbn [nth]. pose proof (split1_some _ _ _ _ S0) as A0.
    pose proof (split1_some _ _ _ _ S1) as A1. rewrite A0 at 1. rewrite A1 at 1. auto. }
  pose proof (fields_loop_last_ck _ _ _ _ _ Efl) as L. rewrite Eck in L.
  destruct (first_field_has_eq _ _ _ _ Ei Ef) as [v0 S0'].
  assert (T0 : field_tag f0 <> Some T10) by (unfold field_tag; rewrite S0'; discriminate).
  pose proof (cut_fields (skipn i raw) (dec_next0 (skipn i raw))) as C. cbv zeta in C.
  fold (dec_next (skipn i raw)) in C. fold (dec_encoded i raw) in C. fold (dec_fields i raw) in C.
  destruct C as [C|(FA & v & EF & HFA & C)].
  - (* no CheckSum field at all: cannot have been accepted *)
    exfalso. rewrite Ef in C. cbn [tl] in C.
    rewrite (last_cks_none (dec_fields i raw)) in L; [discriminate|].
    rewrite Ef. constructor; [exact T0|].
    eapply Forall_impl; [|exact C]. intros f. apply not_p10_tag.
  - assert (RL : removelast (dec_fields i raw) = FA) by (rewrite EF; apply removelast_last).
    rewrite RL. rewrite EF, last_cks_snoc in L. symmetry in L. unfold cks_verdict in L.
    apply andb_true_iff in L. destruct L as [L3 Lv]. apply Z.eqb_eq in Lv.
    unfold dec_ck in Lv. rewrite <- EF, RL in Lv.
    assert (Esum : (sum_codes (join SOHs FA) + 1) mod 256 = sum_codes (join SOHs FA ++ SOHs) mod 256).
    { unfold SOHs. rewrite sum_codes_app. reflexivity. }
    assert (Ev : v = fmt03 (sum_codes (join SOHs FA ++ SOHs) mod 256)).
    { rewrite <- Esum. apply three_digits_fmt03; [exact L3|now symmetry|apply N.mod_lt; lia]. }
    rewrite <- Ev. split; [exact EF|]. split.
    + destruct FA as [|a FA']; [congruence|].
      assert (a = f0) by (rewrite EF in Ef; cbn in Ef; now inversion Ef). subst a.
      constructor; [exact T0|]. cbn [tl] in C.
      eapply Forall_impl; [|exact C]. intros f. apply not_p10_tag.
    + assert (L2 : (2 <= length (dec_fields i raw))%nat) by (rewrite Ef; cbn [length]; lia).
      assert (EL : last (dec_fields i raw) [] = field T10 v) by (rewrite EF; apply last_last).
      destruct (dec_fields_text i raw) as [E|[_ E]]; rewrite E, (join_removelast _ _ L2), RL, EL.
      * exists []. split; [auto|]. now rewrite app_nil_r, <- !app_assoc.
      * exists SOHs. split; [auto|]. now rewrite <- !app_assoc.
Qed.

(* ------------------------------------------------------------------ (d) progress of the reader *)

Definition status {A B} (x : A * B * N) : N := snd x.
Definition residual {A B} (x : str * A * B) : str := fst (fst x).
Definition delivered {A B} (x : A * list (message * str) * B) : list (message * str) := snd (fst x).

Lemma decode_msg_nonempty G bs raw m n r : decode G bs raw true = Ok (Some m, n, r) -> raw <> [].
Proof.
  intros H. pose proof (decode_msg_positive _ _ _ _ _ _ H) as P.
  pose proof (decode_consumed_bounds _ _ _ _ _ _ H) as B. destruct raw; [cbn in B; lia|discriminate].
Qed.

(* any positive consumed length strictly shortens the buffer *)
Lemma consumed_shrinks G bs buf m n r :
  decode G bs buf true = Ok (m, n, r) -> (0 < n)%Z ->
  (length (skipn (Z.to_nat n) buf) < length buf)%nat.
Proof.
  intros D Hn. pose proof (decode_consumed_bounds _ _ _ _ _ _ D) as B. unfold zlen in B.
  rewrite skipn_length. lia.
Qed.

(* full strength: the inner loop of socket_read_task always ends within len(buffer) + 1 iterations
   (status 1 = decode raised, status 2 = fuel exhausted: both impossible), although it now goes on
   after a rejected candidate *)
Lemma reader_loop_terminates G bs : forall fuel buf acc,
  (length buf < fuel)%nat -> status (reader_loop G bs fuel buf acc) = 0.
Proof.
  induction fuel as [|f IH]; intros buf acc Hlen; [lia|].
  cbn [reader_loop].
  destruct (decode_total G bs buf) as (m & n & r & D). rewrite D.
  destruct (0 <? n)%Z eqn:En.
  - apply Z.ltb_lt in En. pose proof (consumed_shrinks _ _ _ _ _ _ D En) as Hlt.
    destruct m as [m|]; [destruct r|]; apply IH; lia.
  - destruct m as [m|]; [|destruct r; reflexivity].
    apply Z.ltb_ge in En. pose proof (decode_msg_positive _ _ _ _ _ _ D). lia.
Qed.

Lemma reader_step_terminates G bs buf chunk : status (reader_step G bs buf chunk) = 0.
Proof. unfold reader_step. apply reader_loop_terminates. lia. Qed.

(* each iteration that goes on - a delivery, or a rejection with a positive consumed length -
   strictly shortens the buffer; a delivery always has a positive consumed length *)
Lemma reader_iteration_shrinks G bs buf m n r :
  decode G bs buf true = Ok (m, n, r) -> (m <> None \/ 0 < n)%Z ->
  (0 < n)%Z /\ (length (skipn (Z.to_nat n) buf) < length buf)%nat.
Proof.
  intros D H. assert (Hn : (0 < n)%Z).
  { destruct H as [H|H]; [|exact H]. destruct m as [m|]; [|congruence].
    eapply decode_msg_positive; eauto. }
  split; [exact Hn|]. eapply consumed_shrinks; eauto.
Qed.

(* deliveries accumulate in order *)
Lemma reader_loop_acc G bs : forall fuel buf acc,
  reader_loop G bs fuel buf acc =
  (residual (reader_loop G bs fuel buf []), rev acc ++ delivered (reader_loop G bs fuel buf []),
   status (reader_loop G bs fuel buf [])).
Proof.
  induction fuel as [|f IH]; intros buf acc; cbn [reader_loop].
  - cbn. now rewrite app_nil_r.
  - destruct (decode G bs buf true) as [[[m n] r]|e]; [|cbn; now rewrite app_nil_r].
    destruct m as [m|].
    + destruct r as [r|].
      * rewrite (IH _ ((m, r) :: acc)), (IH _ [(m, r)]). cbn [rev residual delivered status fst snd app].
        now rewrite <- app_assoc.
      * rewrite (IH _ ((m, []) :: acc)), (IH _ [(m, [])]). cbn [rev residual delivered status fst snd app].
        now rewrite <- app_assoc.
    + destruct (0 <? n)%Z; [|destruct r; cbn; now rewrite app_nil_r].
      rewrite (IH _ acc). destruct r; reflexivity.
Qed.

(* A rejected frame does not take its successor with it, and the successor does not have to wait
   for another read: if decode rejects the head of the buffer with a positive consumed length (the
   junk and the candidate alone, see decode_consumes_candidate) and what follows decodes to a
   message, that message is the first delivery of the SAME reader step. *)
Lemma reader_bad_then_good G bs buf chunk n r m n2 r2 :
  decode G bs (buf ++ chunk) true = Ok (None, n, r) -> (0 < n)%Z ->
  decode G bs (skipn (Z.to_nat n) (buf ++ chunk)) true = Ok (Some m, n2, Some r2) ->
  exists more, delivered (reader_step G bs buf chunk) = (m, r2) :: more
               /\ status (reader_step G bs buf chunk) = 0.
Proof.
  intros D1 Hn D2. pose proof (reader_step_terminates G bs buf chunk) as T.
  split with (x := delivered (reader_loop G bs (length (buf ++ chunk) - 1)
       (if (0 <? n2)%Z then skipn (Z.to_nat n2) (skipn (Z.to_nat n) (buf ++ chunk))
        else skipn (Z.to_nat n) (buf ++ chunk)) [])).
  split; [|exact T]. clear T.
  pose proof (consumed_shrinks _ _ _ _ _ _ D1 Hn) as Hlt.
  unfold reader_step. set (b := buf ++ chunk) in *.
  destruct (length b) as [|k] eqn:Lb; [lia|].
  cbn [reader_loop]. rewrite D1. replace (0 <? n)%Z with true by (symmetry; now apply Z.ltb_lt).
  replace (S k - 1)%nat with k by lia.
  destruct r; cbn [reader_loop]; rewrite D2, reader_loop_acc; reflexivity.
Qed.

(* ------------------------------------------------------------------ single-byte substitution *)

Lemma join_sum_replace sep pre post :
  exists K, forall f : str, sum_codes (join sep (pre ++ f :: post)) = K + sum_codes f.
Proof.
  induction pre as [|p pre [K IH]].
  - destruct post as [|q post].
    + exists 0. intros f. reflexivity.
    + exists (sum_codes sep + sum_codes (join sep (q :: post))). intros f.
      cbn [app]. rewrite join_cons by discriminate. rewrite !sum_codes_app. lia.
  - exists (sum_codes p + sum_codes sep + K). intros f.
    cbn [app]. rewrite join_cons by (destruct pre; discriminate).
    rewrite !sum_codes_app, IH. lia.
Qed.

Lemma mod256_cancel K x y : x < 256 -> y < 256 -> (K + x) mod 256 = (K + y) mod 256 -> x = y.
Proof.
  intros Hx Hy H.
  pose proof (N.div_mod (K + x) 256 ltac:(lia)) as D1.
  pose proof (N.div_mod (K + y) 256 ltac:(lia)) as D2.
  pose proof (N.mod_lt (K + x) 256 ltac:(lia)) as L1.
  rewrite H in D1.
  remember ((K + x) / 256) as q1. remember ((K + y) / 256) as q2. remember ((K + y) mod 256) as r.
  lia.
Qed.

Lemma fmt03_inj a b : a < 256 -> b < 256 -> fmt03 a = fmt03 b -> a = b.
Proof.
  intros Ha Hb E. destruct (fmt03_spec a Ha) as (d1 & d2 & d3 & E1 & _ & _ & _ & V1 & _).
  destruct (fmt03_spec b Hb) as (e1 & e2 & e3 & E2 & _ & _ & _ & V2 & _).
  rewrite E1, E2 in E. inversion E. subst. congruence.
Qed.

Lemma field_inj t v v' : field t v = field t v' -> v = v'.
Proof. unfold field. intros H. apply app_inv_head in H. now inversion H. Qed.

Lemma snoc_cases {A} (l : list A) : l = [] \/ exists l0 x, l = l0 ++ [x].
Proof. destruct l as [|a l] using rev_ind; [now left|right; eauto]. Qed.

Definition cks_of (fa : list str) : str := field T10 (fmt03 (sum_codes (join SOHs fa ++ SOHs) mod 256)).

(* If a frame is returned as a message, then the text in which one byte of one field is replaced
   by another byte - the list of fields otherwise unchanged, i.e. the change neither creates nor
   destroys a SOH, a marker or the CheckSum separator - is not returned as a message.  This covers
   every position: tags, "=", values, BeginString, BodyLength and the CheckSum field itself. *)
Lemma decode_subst_detected G bs raw raw' pre a x y c post :
  frame_fields raw = pre ++ (a ++ x :: c) :: post ->
  frame_fields raw' = pre ++ (a ++ y :: c) :: post ->
  x <> y -> x < 256 -> y < 256 ->
  (exists m n r, decode G bs raw true = Ok (Some m, n, r)) ->
  forall m' n' r', decode G bs raw' true <> Ok (Some m', n', r').
Proof.
  intros F F' Hxy Hx Hy (m & n & r & D) m' n' r' D'.
  assert (A : forall raw0 m0 n0 r0, decode G bs raw0 true = Ok (Some m0, n0, r0) ->
              frame_fields raw0 = removelast (frame_fields raw0) ++ [cks_of (removelast (frame_fields raw0))]).
  { intros raw0 m0 n0 r0 D0. apply decode_accept_sound in D0.
    destruct D0 as (i & Ei & _ & _ & _ & _ & E & _). unfold frame_fields. rewrite Ei. exact E. }
  pose proof (A _ _ _ _ D) as E. pose proof (A _ _ _ _ D') as E'.
  rewrite F in E. rewrite F' in E'. clear A D D' F F'.
  destruct (snoc_cases post) as [->|(post0 & l & ->)].
  - (* the changed field is the CheckSum field: it is determined by what precedes it *)
    change (pre ++ [a ++ x :: c]) with (pre ++ [a ++ x :: c]) in E.
    rewrite removelast_last in E, E'. apply app_inv_head in E, E'.
    inversion E as [E1]. inversion E' as [E2]. rewrite <- E2 in E1.
    apply app_inv_head in E1. inversion E1. contradiction.
  - (* another field: the sum moves by a non-zero amount below 256, the CheckSum field stays *)
    assert (R : forall f : str, pre ++ f :: post0 ++ [l] = (pre ++ f :: post0) ++ [l])
      by (intros f; now rewrite <- app_assoc).
    rewrite R, removelast_last in E, E'. apply app_inv_head in E, E'.
    inversion E as [E1]. inversion E' as [E2]. rewrite E1 in E2. unfold cks_of in E2.
    apply field_inj in E2. apply fmt03_inj in E2; try (apply N.mod_lt; lia).
    destruct (join_sum_replace SOHs pre post0) as [K HK].
    rewrite !sum_codes_app, !HK, !sum_codes_app, !sum_codes_cons in E2.
    apply Hxy.
    apply (mod256_cancel (K + sum_codes a + sum_codes c + sum_codes SOHs)); [exact Hx|exact Hy|].
    etransitivity; [|etransitivity; [exact E2|]]; f_equal; lia.
Qed.

(* ------------------------------------------------------------------ witnesses (| stands for SOH) *)

(* 8=FIX.4.4|9=abc|35=0|10=000| *)
Definition w_blen : str := [56; 61; 70; 73; 88; 46; 52; 46; 52; 1; 57; 61; 97; 98; 99; 1; 51; 53; 61; 48; 1; 49; 48; 61; 48; 48; 48; 1].
(* 8=FIX.4.4|9=5|35=0|10=abc| *)
Definition w_cks : str := [56; 61; 70; 73; 88; 46; 52; 46; 52; 1; 57; 61; 53; 1; 51; 53; 61; 48; 1; 49; 48; 61; 97; 98; 99; 1].
(* 8=FIX.4.4|9=5|35=0|abc=1|10=000| *)
Definition w_tag : str := [56; 61; 70; 73; 88; 46; 52; 46; 52; 1; 57; 61; 53; 1; 51; 53; 61; 48; 1; 97; 98; 99; 61; 49; 1; 49; 48; 61; 48; 48; 48; 1].
(* 8=FIX.4.4|9=5|35=J|70=a|78=1|79=A|70=b|10=000| *)
Definition w_dup : str := [56; 61; 70; 73; 88; 46; 52; 46; 52; 1; 57; 61; 53; 1; 51; 53; 61; 74; 1; 55; 48; 61; 97; 1; 55; 56; 61; 49; 1; 55; 57; 61; 65; 1; 55; 48; 61; 98; 1; 49; 48; 61; 48; 48; 48; 1].
(* 8=FIX.4.4|9=-1000|35=0|10=092|   (checksum correct) *)
Definition w_neg : str := [56; 61; 70; 73; 88; 46; 52; 46; 52; 1; 57; 61; 45; 49; 48; 48; 48; 1; 51; 53; 61; 48; 1; 49; 48; 61; 48; 57; 50; 1].
(* 8=FIX.4.4|9=-1000|35=0|10=000|   (checksum wrong) *)
Definition w_negbad : str := [56; 61; 70; 73; 88; 46; 52; 46; 52; 1; 57; 61; 45; 49; 48; 48; 48; 1; 51; 53; 61; 48; 1; 49; 48; 61; 48; 48; 48; 1].
(* 8=FIX.4.4|9=5|35=0|10=163|   (a correct Heartbeat-like frame) *)
Definition w_good : str := [56; 61; 70; 73; 88; 46; 52; 46; 52; 1; 57; 61; 53; 1; 51; 53; 61; 48; 1; 49; 48; 61; 49; 54; 51; 1].
(* xxxxxxxxxx8=FIX.4.4|9=15|35=0|10=212| *)
Definition w_over : str := [120; 120; 120; 120; 120; 120; 120; 120; 120; 120; 56; 61; 70; 73; 88; 46; 52; 46; 52; 1; 57; 61; 49; 53; 1; 51; 53; 61; 48; 1; 49; 48; 61; 50; 49; 50; 1].
(* 8=FIX.4.4|9=2|35=0|58=hello|10=095|   (true body length 14) *)
Definition w_wrongbl : str := [56; 61; 70; 73; 88; 46; 52; 46; 52; 1; 57; 61; 50; 1; 51; 53; 61; 48; 1; 53; 56; 61; 104; 101; 108; 108; 111; 1; 49; 48; 61; 48; 57; 53; 1].
(* 8=FIX.4.4|9=12|35=0|58=299|10=032|   (correct) *)
Definition w_lz : str := [56; 61; 70; 73; 88; 46; 52; 46; 52; 1; 57; 61; 49; 50; 1; 51; 53; 61; 48; 1; 53; 56; 61; 50; 57; 57; 1; 49; 48; 61; 48; 51; 50; 1].
(* 8=FIX.4.4|9=12|35=0|58=299|10= 32| *)
Definition w_lenient : str := [56; 61; 70; 73; 88; 46; 52; 46; 52; 1; 57; 61; 49; 50; 1; 51; 53; 61; 48; 1; 53; 56; 61; 50; 57; 57; 1; 49; 48; 61; 32; 51; 50; 1].
(* 8=FIX.4.4|9=12|35=0|58=299|10=+32| *)
Definition w_lenient_plus : str := [56; 61; 70; 73; 88; 46; 52; 46; 52; 1; 57; 61; 49; 50; 1; 51; 53; 61; 48; 1; 53; 56; 61; 50; 57; 57; 1; 49; 48; 61; 43; 51; 50; 1].
(* 8=FIX.4.4|9=5|35=0|58=7|10=190|1=evil| *)
Definition w_trailing : str := [56; 61; 70; 73; 88; 46; 52; 46; 52; 1; 57; 61; 53; 1; 51; 53; 61; 48; 1; 53; 56; 61; 55; 1; 49; 48; 61; 49; 57; 48; 1; 49; 61; 101; 118; 105; 108; 1].
(* the 130-byte AllocationInstruction of C02_nonvacuous (NoAllocs / NoNestedPartyIDs / NoNestedPartySubIDs) *)
Definition w_nested : str := [56; 61; 70; 73; 88; 46; 52; 46; 52; 1; 57; 61; 49; 48; 55; 1; 51; 53; 61; 74; 1; 52; 57; 61; 83; 1; 53; 54; 61; 84; 1; 51; 52; 61; 53; 1; 53; 50; 61; 50; 48; 50; 51; 48; 57; 49; 57; 45; 48; 55; 58; 49; 51; 58; 50; 54; 46; 56; 48; 56; 1; 55; 48; 61; 97; 49; 1; 55; 56; 61; 50; 1; 55; 57; 61; 65; 1; 56; 48; 61; 49; 1; 53; 51; 57; 61; 49; 1; 53; 50; 52; 61; 80; 1; 56; 48; 52; 61; 49; 1; 53; 52; 53; 61; 115; 1; 56; 48; 53; 61; 49; 1; 55; 57; 61; 66; 233; 1; 56; 48; 61; 50; 1; 49; 48; 61; 48; 48; 50; 1].

Definition TBL : group_table := GenGroups.table.      (* regenerated from FIXProtocol44.repeating_groups *)
Definition BS : str := GenGroups.beginstring.         (* "FIX.4.4" *)

Definition dec (raw : str) : result dres := decode TBL BS raw true.
Definition dec_summary (raw : str) : option (bool * Z * bool) :=
  match dec raw with
  | Ok (m, n, r) => Some (is_some m, n, is_some r)
  | Exc _ => None
  end.

(* 8=FIX.4.4|9=12|35=0|58=298|10=032| *)
Definition w_lz_subst : str :=
  [56; 61; 70; 73; 88; 46; 52; 46; 52; 1; 57; 61; 49; 50; 1; 51; 53; 61; 48; 1; 53; 56; 61; 50; 57; 56; 1; 49; 48; 61; 48; 51; 50; 1].
(* 8=FIX.4.2|9=5|35=0|10=161| *)
Definition w_badbs : str :=
  [56; 61; 70; 73; 88; 46; 52; 46; 50; 1; 57; 61; 53; 1; 51; 53; 61; 48; 1; 49; 48; 61; 49; 54; 49; 1].
(* 8=FIX.4 *)
Definition w_frag : str := [56; 61; 70; 73; 88; 46; 52].
Definition run2 (first : str) := reader_run TBL BS [] [first ++ w_good; w_good].

(* 8=FIX.4.4|9=5|35=J|70=a|78=1|79=A|70=b|10=151|   (w_dup with a correct checksum) *)
Definition w_dup_ok : str := [56; 61; 70; 73; 88; 46; 52; 46; 52; 1; 57; 61; 53; 1; 51; 53; 61; 74; 1; 55; 48; 61; 97; 1; 55; 56; 61; 49; 1; 55; 57; 61; 65; 1; 55; 48; 61; 98; 1; 49; 48; 61; 49; 53; 49; 1].
(* 8=FIX.4.4|9=16|35=0|58=8=FIX.x|10=130|   (an encoder frame whose value contains the marker) *)
Definition w_d5 : str := [56; 61; 70; 73; 88; 46; 52; 46; 52; 1; 57; 61; 49; 54; 1; 51; 53; 61; 48; 1; 53; 56; 61; 56; 61; 70; 73; 88; 46; 120; 1; 49; 48; 61; 49; 51; 48; 1].
(* 8=FIX.4.4|9=12|35=0|58=2<NUL>99|10=032|   (w_lz with a NUL inserted in the value) *)
Definition w_nul : str := [56; 61; 70; 73; 88; 46; 52; 46; 52; 1; 57; 61; 49; 50; 1; 51; 53; 61; 48; 1; 53; 56; 61; 50; 0; 57; 57; 1; 49; 48; 61; 48; 51; 50; 1].
(* 8=FIX.4.4|9=500|35=0|10=000| *)
Definition w_oversize : str := [56; 61; 70; 73; 88; 46; 52; 46; 52; 1; 57; 61; 53; 48; 48; 1; 51; 53; 61; 48; 1; 49; 48; 61; 48; 48; 48; 1].
(* 8=FIX.4.4|9=12|35=0|58=299|10=033| *)
Definition w_lz_ck : str := [56; 61; 70; 73; 88; 46; 52; 46; 52; 1; 57; 61; 49; 50; 1; 51; 53; 61; 48; 1; 53; 56; 61; 50; 57; 57; 1; 49; 48; 61; 48; 51; 51; 1].

(* repaired (R10a-d): the frames that used to raise ValueError / FIXMessageError / AttributeError
   are rejected and consumed alone; a root tag repeated after a closed group is marked like any
   other repeated root tag and the message is returned *)
Lemma no_raise_examples :
  dec_summary w_blen = Some (false, zlen w_blen, false)
  /\ dec_summary w_cks = Some (false, zlen w_cks, false)
  /\ dec_summary w_tag = Some (false, zlen w_tag, false)
  /\ dec_summary w_dup = Some (false, zlen w_dup, false)
  /\ exists m, dec w_dup_ok = Ok (Some m, zlen w_dup_ok, Some w_dup_ok)
       /\ ct_get [55; 48] (msg_tags m) = Some VErr.
Proof.
  repeat (split; [vm_compute; reflexivity|]).
  destruct (dec w_dup_ok) as [[[[m|] n] [r|]]|] eqn:E; try (vm_compute in E; discriminate).
  exists m. vm_compute in E. inversion E. subst. split; vm_compute; reflexivity.
Qed.

(* repaired (R10a, R10h, R9c): negative BodyLength / junk prefix: consumed stays within the buffer *)
Lemma consumed_examples :
  dec_summary w_neg = Some (false, zlen w_neg, false)
  /\ dec_summary w_negbad = Some (false, zlen w_negbad, false)
  /\ dec_summary w_over = Some (false, 10%Z, false) /\ zlen w_over = 37%Z.
Proof. repeat split; vm_compute; reflexivity. Qed.

(* still true (pinned by tests/test_codec.py::test_decode_custom_msg_type): BodyLength is not
   compared with the body.  A frame whose BodyLength says 2 instead of 14 is returned ... *)
Lemma bodylength_unchecked_refuted :
  exists raw m n, decode TBL BS raw true = Ok (Some m, n, Some raw)
    /\ frame_blen raw = Some 2%Z /\ well_framedb raw = false.
Proof.
  exists w_wrongbl.
  destruct (decode TBL BS w_wrongbl true) as [[[[m|] n] [r|]]|] eqn:E; try (vm_compute in E; discriminate).
  exists m, n. vm_compute in E. inversion E. subst. repeat split; vm_compute; reflexivity.
Qed.

(* ... and so is a frame into which a NUL byte was inserted (the byte sum does not move) *)
Lemma nul_keeps_checksum_refuted :
  exists a b m m' n n', w_lz = a ++ b /\ w_nul = a ++ 0 :: b
    /\ decode TBL BS w_lz true = Ok (Some m, n, Some w_lz)
    /\ decode TBL BS w_nul true = Ok (Some m', n', Some w_nul)
    /\ well_framedb w_lz = true /\ well_framedb w_nul = false
    /\ ct_get [53; 56] (msg_tags m) = Some (VStr [50; 57; 57])
    /\ ct_get [53; 56] (msg_tags m') = Some (VStr [50; 0; 57; 57]).
Proof.
  exists (firstn 24 w_lz), (skipn 24 w_lz).
  destruct (decode TBL BS w_lz true) as [[[[m|] n] [r|]]|] eqn:E; try (vm_compute in E; discriminate).
  destruct (decode TBL BS w_nul true) as [[[[m'|] n'] [r'|]]|] eqn:E'; try (vm_compute in E'; discriminate).
  exists m, m', n, n'. vm_compute in E. inversion E. subst. vm_compute in E'. inversion E'. subst.
  repeat split; vm_compute; reflexivity.
Qed.

(* repaired (R10b, R10g): only the three-digit spelling of the CheckSum passes *)
Lemma checksum_strict_examples :
  dec_summary w_lz = Some (true, 34%Z, true)
  /\ dec_summary w_lenient = Some (false, 34%Z, false)
  /\ dec_summary w_lenient_plus = Some (false, 34%Z, false).
Proof. repeat split; vm_compute; reflexivity. Qed.

(* repaired (R9b): nothing after the CheckSum field belongs to the frame *)
Lemma trailing_field_fixed :
  dec_summary w_trailing = Some (false, 31%Z, false) /\ zlen w_trailing = 38%Z
  /\ last (frame_fields w_trailing) [] = field T10 [49; 57; 48].
Proof. repeat split; vm_compute; reflexivity. Qed.

(* D5, still true: the frame extent is found by searching the next "8=FIX.", so an encoder frame
   whose value contains that text is not returned (the reference grammar accepts it) *)
Lemma marker_in_field_refuted :
  well_framedb w_d5 = true /\ dec_summary w_d5 = Some (false, 23%Z, false) /\ zlen w_d5 = 38%Z.
Proof. repeat split; vm_compute; reflexivity. Qed.

(* repaired (R9a): the tail kept when the buffer ends inside a marker *)
Lemma marker_tail_examples :
  dec_summary [97; 98; 99; 56; 61; 70] = Some (false, 3%Z, false)         (* "abc8=F": keeps "8=F" *)
  /\ dec_summary [56; 61; 70; 73; 88] = Some (false, 0%Z, false)          (* "8=FIX": keeps all *)
  /\ dec_summary [97; 98; 99] = Some (false, 3%Z, false)                  (* "abc": drops all *)
  /\ length (delivered (reader_run TBL BS [] [w_good ++ [56; 61; 70]; skipn 3 w_good])) = 2%nat.
Proof. repeat split; vm_compute; reflexivity. Qed.

(* repaired (R10a-f, R10h): none of the former blocking frames blocks the frames that follow it:
   both good frames are delivered, the buffer is empty, no exception, no livelock *)
Lemma no_blocking_examples :
  Forall (fun first => residual (run2 first) = [] /\ length (delivered (run2 first)) = 2%nat
                       /\ snd (run2 first) = [0; 0])
         [w_negbad; w_neg; w_blen; w_cks; w_tag; w_dup; w_frag; w_badbs; w_lenient; w_trailing].
Proof. repeat constructor; vm_compute; reflexivity. Qed.

(* the general theorem instantiated: a frame with a wrong BeginString followed, in the same
   buffer, by a good frame *)
Lemma bad_then_good_example :
  dec_summary (w_badbs ++ w_good) = Some (false, zlen w_badbs, false)
  /\ dec_summary (w_frag ++ w_good) = Some (false, zlen w_frag, false)
  /\ exists m, dec w_good = Ok (Some m, zlen w_good, Some w_good)
       /\ delivered (reader_run TBL BS [] [w_badbs ++ w_good; w_good]) = [(m, w_good); (m, w_good)].
Proof.
  split; [vm_compute; reflexivity|]. split; [vm_compute; reflexivity|].
  destruct (dec w_good) as [[[[m|] n] [r|]]|] eqn:E; try (vm_compute in E; discriminate).
  exists m. vm_compute in E. inversion E. subst. split; vm_compute; reflexivity.
Qed.

(* repaired (R10i): the reader goes on after a rejection, so a good frame behind rejected
   candidates is delivered by the same read *)
Lemma same_read_examples :
  (let '(b, out, sts) := reader_run TBL BS [] [w_badbs ++ w_good] in (b, length out, sts)) = ([], 1%nat, [0])
  /\ (let '(b, out, sts) := reader_run TBL BS [] [w_d5 ++ w_good] in (b, length out, sts)) = ([], 1%nat, [0])
  /\ (let '(b, out, sts) := reader_run TBL BS [] [w_blen ++ w_negbad ++ w_frag ++ w_good ++ w_tag ++ w_good] in
      (b, length out, sts)) = ([], 2%nat, [0]).
Proof. repeat split; vm_compute; reflexivity. Qed.

(* D8-oversize-bodylength-waits, still true: a candidate whose declared BodyLength exceeds what the
   buffer holds makes decode wait although complete frames follow it *)
Lemma oversize_bodylength_waits_refuted :
  dec_summary (w_oversize ++ w_good) = Some (false, 0%Z, false)
  /\ frame_blen (w_oversize ++ w_good) = Some 500%Z
  /\ run2 w_oversize = (w_oversize ++ w_good ++ w_good, [], [0; 0]).
Proof. repeat split; vm_compute; reflexivity. Qed.

(* non-vacuity of decode_accept_sound / decode_subst_detected *)
Lemma accept_nonvacuous :
  dec_summary w_nested = Some (true, 130%Z, true) /\ dec_summary w_good = Some (true, 26%Z, true).
Proof. split; vm_compute; reflexivity. Qed.

Lemma subst_example :
  let pre := [field T8 BS; field T9 [49; 50]; field T35 [48]] in
  (* 58=299 -> 58=298 *)
  frame_fields w_lz = pre ++ ([53; 56; 61; 50; 57] ++ 57 :: []) :: [field T10 [48; 51; 50]]
  /\ frame_fields w_lz_subst = pre ++ ([53; 56; 61; 50; 57] ++ 56 :: []) :: [field T10 [48; 51; 50]]
  (* 10=032 -> 10=033 *)
  /\ frame_fields w_lz = (pre ++ [field [53; 56] [50; 57; 57]]) ++ ([49; 48; 61; 48; 51] ++ 50 :: []) :: []
  /\ frame_fields w_lz_ck = (pre ++ [field [53; 56] [50; 57; 57]]) ++ ([49; 48; 61; 48; 51] ++ 51 :: []) :: []
  /\ dec_summary w_lz = Some (true, 34%Z, true)
  /\ dec_summary w_lz_subst = Some (false, 34%Z, false)
  /\ dec_summary w_lz_ck = Some (false, 34%Z, false).
Proof. repeat split; vm_compute; reflexivity. Qed.

(* no marker: everything but a partial-marker tail is dropped, and what is kept is exactly the
   proper marker prefix the buffer ends with *)
Lemma decode_no_marker_tail G bs raw : find_sub MARK raw = None ->
  exists t, (t <= 5)%nat /\ (t <= length raw)%nat
    /\ decode G bs raw true = Ok (None, (zlen raw - Z.of_nat t)%Z, None)
    /\ skipn (length raw - t) raw = firstn t MARK.
Proof.
  intros E. pose proof (marker_tail_spec raw) as (A & B & C).
  exists (marker_tail raw). repeat split; auto. now apply decode_no_marker.
Qed.
