(* C18 - message containers behave as ordered tag maps with strict duplicate rules.
   Theorems only (proofs in AF.Lemmas.ContainerL).  They are about the executable model
   Fix/Container.v of asyncfix/message.py (FIXContainer, FIXMessage, the repeating group
   container); harness/c18.py runs that model against the implementation.

   A container is `C msg_type items`, items an insertion-ordered list (key string, value);
   `keys c = map fst (items c)`; mutating methods return (container afterwards, outcome).
   The model describes message.py with all repairs of ledger D18 applied: fixes/C18-*.patch (dict
   equality ignores the framing tags, add_group on a plain tag, get_group_by_index below -len,
   integer check of group tags) and fixes/R11-container-equality-is-structural.patch (== with a
   container compares content, not rendered text).  Every part of the property is stated at full
   strength; no `_partial` / `_refuted` theorem is left. *)
From Coq Require Import ZArith NArith List Bool.
From AF Require Import Base.Sx Py.Str Fix.Container Fix.ContainerRun Lemmas.ContainerL.
From AFGen Require Import GenEnums.
Import ListNotations.
Open Scope N_scope.

(* ------------------------------------------------------------------ tags: one key per number *)

(* every method sees a tag only through str(tag): two spellings with the same text are the same tag *)
Theorem C18_spelling_independent : forall t1 t2,
  tag_str t1 = tag_str t2 ->
  (forall v r c, c_set t1 v r c = c_set t2 v r c) /\
  (forall d c, c_get t1 d c = c_get t2 d c) /\
  (forall c, c_del t1 c = c_del t2 c) /\
  (forall c, c_contains t1 c = c_contains t2 c) /\
  (forall c, c_is_group t1 c = c_is_group t2 c) /\
  (forall it idx c, c_add_group t1 it idx c = c_add_group t2 it idx c) /\
  (forall g c, c_set_group t1 g c = c_set_group t2 g c) /\
  (forall c, c_get_group_list t1 c = c_get_group_list t2 c) /\
  (forall idx c, c_get_group_by_index t1 idx c = c_get_group_by_index t2 idx c) /\
  (forall t gv c, c_get_group_by_tag t1 t gv c = c_get_group_by_tag t2 t gv c) /\
  (forall t gv c, c_get_group_by_tag t t1 gv c = c_get_group_by_tag t t2 gv c).
Proof. exact spelling_independent. Qed.
Print Assumptions C18_spelling_independent.

(* an int and its decimal string are the same tag *)
Theorem C18_int_is_decimal_string : forall z, tag_str (TInt z) = tag_str (TStr (z_to_dec z)).
Proof. exact tag_str_int. Qed.
Print Assumptions C18_int_is_decimal_string.

(* every member of the FTag table regenerated from fixtags.py spells an accepted integer tag,
   the same one as the int and the decimal string of its number *)
Theorem C18_ftag_spelling : forall name v,
  In (name, v) ftag ->
  tag_str (TFTag name) = v /\ tag_ok (TFTag name) = true /\
  exists z, tag_str (TFTag name) = tag_str (TInt z) /\ tag_str (TFTag name) = tag_str (TStr (z_to_dec z)).
Proof. exact ftag_spelling. Qed.
Print Assumptions C18_ftag_spelling.

(* int tags are accepted (below CPython's 4300 digit limit of str/int) and distinct ints are distinct keys *)
Theorem C18_int_tag_accepted : forall z, (length (z_to_dec z) <= 4300)%nat -> tag_ok (TInt z) = true.
Proof. exact int_tag_ok. Qed.
Print Assumptions C18_int_tag_accepted.

Theorem C18_int_tags_distinct : forall a b, tag_str (TInt a) = tag_str (TInt b) -> a = b.
Proof. exact int_tags_distinct. Qed.
Print Assumptions C18_int_tags_distinct.

(* ------------------------------------------------------------------ set / get *)

(* a value read back is the string written, for any spelling of the tag and any default *)
Theorem C18_get_after_set : forall t t' s r d c c',
  c_set t (SVal s) r c = (c', Ok tt) -> tag_str t' = tag_str t -> c_get t' d c' = Ok (RvStr s).
Proof. exact get_after_set. Qed.
Print Assumptions C18_get_after_set.

(* ... and no other tag is affected *)
Theorem C18_get_other_after_set : forall t t' v r d c c',
  c_set t v r c = (c', Ok tt) -> tag_str t' <> tag_str t -> c_get t' d c' = c_get t' d c.
Proof. exact get_other_after_set. Qed.
Print Assumptions C18_get_other_after_set.

(* set succeeds on an integer tag that is new or when replacement is requested *)
Theorem C18_set_succeeds : forall t s r c,
  tag_ok t = true -> r = true \/ has (tag_str t) (items c) = false ->
  c_set t (SVal s) r c = (with_items c (assign (tag_str t) (VStr s) (items c)), Ok tt).
Proof. exact set_ok. Qed.
Print Assumptions C18_set_succeeds.

(* a refused set leaves the container unchanged; it is refused only for a non-integer tag
   (FIXMessageError) or an existing tag without replace (DuplicatedTagError) *)
Theorem C18_set_refused_unchanged : forall t v r c c' e,
  c_set t v r c = (c', Exc e) ->
  c' = c /\
  ((e = EFIXMessage /\ tag_ok t = false) \/
   (e = EDuplicatedTag /\ tag_ok t = true /\ r = false /\ has (tag_str t) (items c) = true
    /\ exists s, v = SVal s)).
Proof. exact set_refused. Qed.
Print Assumptions C18_set_refused_unchanged.

Theorem C18_nonint_tag_refused : forall t v r c, tag_ok t = false -> c_set t v r c = (c, Exc EFIXMessage).
Proof. exact set_nonint. Qed.
Print Assumptions C18_nonint_tag_refused.

Theorem C18_duplicate_refused : forall t s c,
  tag_ok t = true -> has (tag_str t) (items c) = true -> c_set t (SVal s) false c = (c, Exc EDuplicatedTag).
Proof. exact set_duplicate. Qed.
Print Assumptions C18_duplicate_refused.

(* ------------------------------------------------------------------ order *)

(* replace=True rewrites the value where the key stands *)
Theorem C18_replace_in_place : forall t s c,
  tag_ok t = true -> has (tag_str t) (items c) = true ->
  exists l1 v0 l2,
    items c = l1 ++ (tag_str t, v0) :: l2 /\ ~ In (tag_str t) (map fst l1) /\
    c_set t (SVal s) true c = (with_items c (l1 ++ (tag_str t, VStr s) :: l2), Ok tt).
Proof. exact set_replace_in_place. Qed.
Print Assumptions C18_replace_in_place.

Theorem C18_replace_keeps_order : forall t s c c',
  c_set t (SVal s) true c = (c', Ok tt) -> has (tag_str t) (items c) = true ->
  keys c' = keys c /\ mt c' = mt c /\
  forall k, lookup k (items c') = if str_eqb (tag_str t) k then Some (VStr s) else lookup k (items c).
Proof. exact set_replace_keeps_order. Qed.
Print Assumptions C18_replace_keeps_order.

(* a new key goes to the end *)
Theorem C18_new_key_at_end : forall t s r c,
  tag_ok t = true -> has (tag_str t) (items c) = false ->
  c_set t (SVal s) r c = (with_items c (items c ++ [(tag_str t, VStr s)]), Ok tt).
Proof. exact set_new_at_end. Qed.
Print Assumptions C18_new_key_at_end.

(* delete removes exactly that key and keeps the order of the others ... *)
Theorem C18_delete_keeps_others : forall t c c',
  NoDup (keys c) -> c_del t c = (c', Ok tt) ->
  keys c' = filter (fun k => negb (str_eqb k (tag_str t))) (keys c) /\ mt c' = mt c /\
  c_contains t c' = false /\
  forall k, k <> tag_str t -> lookup k (items c') = lookup k (items c).
Proof. exact del_keeps_others. Qed.
Print Assumptions C18_delete_keeps_others.

(* ... deleting a missing key raises (KeyError) and changes nothing ... *)
Theorem C18_delete_missing : forall t c c' e,
  c_del t c = (c', Exc e) -> c' = c /\ e = EKeyError /\ c_contains t c = false.
Proof. exact del_refused. Qed.
Print Assumptions C18_delete_missing.

(* ... and delete followed by set puts the key at the end *)
Theorem C18_delete_readd_at_end : forall t s r c c1,
  NoDup (keys c) -> tag_ok t = true -> c_del t c = (c1, Ok tt) ->
  c_set t (SVal s) r c1 = (with_items c (remove (tag_str t) (items c) ++ [(tag_str t, VStr s)]), Ok tt).
Proof. exact del_then_set_at_end. Qed.
Print Assumptions C18_delete_readd_at_end.

(* keys are unique and integer in every variable and every nested container after every operation
   sequence (wfc: NoDup keys and int()-accepted keys at every depth) *)
Theorem C18_keys_unique : forall n ops, Forall wfc (run_state n ops).
Proof. exact reachable_wf. Qed.
Print Assumptions C18_keys_unique.

(* wfc also says that every key is an integer key: since set, set_group and add_group all refuse a
   non-integer tag, no such key is ever stored *)
Theorem C18_keys_unique_top : forall n ops c,
  In c (run_state n ops) -> NoDup (keys c) /\ Forall (fun k => key_ok k = true) (keys c).
Proof. exact reachable_unique_keys. Qed.
Print Assumptions C18_keys_unique_top.

(* ------------------------------------------------------------------ missing / plain / group *)

Theorem C18_contains : forall t c, c_contains t c = true <-> In (tag_str t) (keys c).
Proof. exact contains_spec. Qed.
Print Assumptions C18_contains.

Theorem C18_get_classes : forall t c,
  c_get t DRaise c = match lookup (tag_str t) (items c) with
                     | None => Exc ETagNotFound
                     | Some (VStr s) => Ok (RvStr s)
                     | Some (VGrp _) => Exc EFIXMessage
                     | Some (VCls KTagNotFound _) => Exc ETagNotFound
                     | Some (VCls KRepeating _) => Exc ERepeatingTag
                     | Some (VCls k x) => Ok (RvCls k x)
                     end.
Proof. exact get_classes. Qed.
Print Assumptions C18_get_classes.

Theorem C18_get_default : forall t d c,
  lookup (tag_str t) (items c) = None ->
  c_get t d c = match d with DRaise => Exc ETagNotFound | DNone => Ok RvNone | DStr s => Ok (RvStr s) end.
Proof. exact get_default. Qed.
Print Assumptions C18_get_default.

(* get_group_list: TagNotFoundError / UnmappedRepeatedGrpError / the items *)
Theorem C18_group_list_classes : forall t c,
  c_get_group_list t c = match lookup (tag_str t) (items c) with
                         | None => Exc ETagNotFound
                         | Some (VGrp g) => Ok g
                         | Some _ => Exc EUnmappedGrp
                         end.
Proof. exact group_list_classes. Qed.
Print Assumptions C18_group_list_classes.

(* ------------------------------------------------------------------ groups keep index order *)

(* add_group inserts at the position list.insert would (clamped; -1 appends); the old items keep
   their relative order *)
Theorem C18_insert_position : forall idx (x : container) l,
  let len := Z.of_nat (length l) in
  exists a b, l = a ++ b /\ py_insert idx x l = a ++ x :: b /\
    Z.of_nat (length a) =
      (if idx =? -1 then len else if 0 <=? idx then Z.min idx len else Z.max 0 (len + idx))%Z.
Proof. exact (@py_insert_spec container). Qed.
Print Assumptions C18_insert_position.

Theorem C18_add_group_then_list : forall t it idx c c',
  c_add_group t (Ok it) idx c = (c', Ok tt) ->
  c_get_group_list t c' =
    Ok (py_insert idx it (match c_get_group_list t c with Ok g => g | Exc _ => [] end))
  /\ keys c' = (if c_contains t c then keys c else keys c ++ [tag_str t])
  /\ forall k, k <> tag_str t -> lookup k (items c') = lookup k (items c).
Proof. exact add_group_then_list. Qed.
Print Assumptions C18_add_group_then_list.

(* add_group succeeds exactly on an integer tag that is missing or a group *)
Theorem C18_add_group_succeeds : forall t it idx c,
  tag_ok t = true -> c_is_group t c <> Some false ->
  let g := match c_get_group_list t c with Ok g => g | Exc _ => [] end in
  c_add_group t (Ok it) idx c =
    (with_items c (assign (tag_str t) (VGrp (py_insert idx it g)) (items c)), Ok tt).
Proof. exact add_group_ok. Qed.
Print Assumptions C18_add_group_succeeds.

(* a refused add_group changes nothing; the reasons: non-integer tag (FIXMessageError), the item
   is not a container / its dict cannot be built (that error), or the tag holds a plain value
   (FIXMessageError; was AttributeError before fixes/C18-add-group-on-plain-tag.patch) *)
Theorem C18_add_group_refused_unchanged : forall t item idx c c' e,
  c_add_group t item idx c = (c', Exc e) ->
  c' = c /\
  ((e = EFIXMessage /\ tag_ok t = false) \/
   (tag_ok t = true /\ item = Exc e) \/
   (e = EFIXMessage /\ tag_ok t = true /\ c_is_group t c = Some false)).
Proof. exact add_group_refused. Qed.
Print Assumptions C18_add_group_refused_unchanged.

Theorem C18_add_group_plain_refused : forall t item idx c,
  c_is_group t c = Some false ->
  exists e, c_add_group t item idx c = (c, Exc e) /\ (e = EFIXMessage \/ item = Exc e).
Proof. exact add_group_on_plain. Qed.
Print Assumptions C18_add_group_plain_refused.

(* a refused set_group (non-integer tag: FIXMessageError; existing tag: DuplicatedTagError; bad
   item: its error) changes nothing *)
Theorem C18_set_group_refused_unchanged : forall t g c c' e,
  c_set_group t g c = (c', Exc e) ->
  c' = c /\
  ((e = EFIXMessage /\ tag_ok t = false) \/
   (e = EDuplicatedTag /\ tag_ok t = true /\ c_contains t c = true) \/
   (tag_ok t = true /\ c_contains t c = false /\ g = Exc e)).
Proof. exact set_group_refused. Qed.
Print Assumptions C18_set_group_refused_unchanged.

Theorem C18_set_group_succeeds : forall t g c,
  tag_ok t = true -> c_contains t c = false ->
  c_set_group t (Ok g) c = (with_items c (items c ++ [(tag_str t, VGrp g)]), Ok tt).
Proof. exact set_group_ok. Qed.
Print Assumptions C18_set_group_succeeds.

Theorem C18_set_group_then_list : forall t g c c',
  c_set_group t (Ok g) c = (c', Ok tt) ->
  tag_ok t = true /\ c_get_group_list t c' = Ok g /\ keys c' = keys c ++ [tag_str t].
Proof. exact set_group_then_list. Qed.
Print Assumptions C18_set_group_then_list.

(* non-integer tags are refused as group tags too (fixes/C18-group-tag-validated.patch) *)
Theorem C18_group_nonint_tag_refused : forall t,
  tag_ok t = false ->
  (forall g c, c_set_group t g c = (c, Exc EFIXMessage)) /\
  (forall it idx c, c_add_group t it idx c = (c, Exc EFIXMessage)).
Proof. exact group_nonint_tag. Qed.
Print Assumptions C18_group_nonint_tag_refused.

(* get_group_by_index: Python indexing from -len to len-1, TagNotFoundError outside *)
Theorem C18_group_by_index_nonneg : forall t idx c g,
  c_get_group_list t c = Ok g -> (0 <= idx < Z.of_nat (length g))%Z ->
  exists x, nth_error g (Z.to_nat idx) = Some x /\ c_get_group_by_index t idx c = Ok x.
Proof. exact group_by_index_nonneg. Qed.
Print Assumptions C18_group_by_index_nonneg.

Theorem C18_group_by_index_negative : forall t idx c g,
  c_get_group_list t c = Ok g -> (- Z.of_nat (length g) <= idx < 0)%Z ->
  exists x, nth_error g (Z.to_nat (Z.of_nat (length g) + idx)) = Some x
            /\ c_get_group_by_index t idx c = Ok x.
Proof. exact group_by_index_negative. Qed.
Print Assumptions C18_group_by_index_negative.

(* outside [-len, len): TagNotFoundError on both sides (fixes/C18-group-index-below-minus-len.patch) *)
Theorem C18_group_by_index_out_of_range : forall t idx c g,
  c_get_group_list t c = Ok g -> (Z.of_nat (length g) <= idx \/ idx < - Z.of_nat (length g))%Z ->
  c_get_group_by_index t idx c = Exc ETagNotFound.
Proof. exact group_by_index_out_of_range. Qed.
Print Assumptions C18_group_by_index_out_of_range.

Theorem C18_group_by_index_no_group : forall t idx c e,
  c_get_group_list t c = Exc e -> c_get_group_by_index t idx c = Exc e.
Proof. exact group_by_index_no_group. Qed.
Print Assumptions C18_group_by_index_no_group.

(* for every index and every container the only errors are the two documented ones *)
Theorem C18_group_by_index_errors : forall t idx c e,
  c_get_group_by_index t idx c = Exc e -> e = ETagNotFound \/ e = EUnmappedGrp.
Proof. exact group_by_index_errors. Qed.
Print Assumptions C18_group_by_index_errors.

(* get_group_by_tag returns the first item in index order whose inner tag holds the value;
   TagNotFoundError exactly when no item does (items whose inner tag is plain or missing) *)
Theorem C18_group_by_tag_first : forall t gt gv c g,
  c_get_group_list t c = Ok g -> Forall (plain_at (tag_str gt)) g ->
  (forall x, c_get_group_by_tag t gt gv c = Ok x ->
     exists a b, g = a ++ x :: b /\ lookup (tag_str gt) (items x) = Some (VStr gv)
                 /\ Forall (fun y => lookup (tag_str gt) (items y) <> Some (VStr gv)) a)
  /\ (c_get_group_by_tag t gt gv c = Exc ETagNotFound <->
      Forall (fun y => lookup (tag_str gt) (items y) <> Some (VStr gv)) g)
  /\ (forall e, c_get_group_by_tag t gt gv c = Exc e -> e = ETagNotFound).
Proof. exact group_by_tag_first. Qed.
Print Assumptions C18_group_by_tag_first.

(* ------------------------------------------------------------------ items handed out by the accessors *)

(* The accessors return the stored item objects; a method called on such an item changes the
   container.  `at_path path f c` is the container after calling f on the item reached from c by a
   path of get_group_by_index / get_group_by_tag / get_group_list(..)[n] calls (OAt in the operation
   language, so all sequence theorems - C18_keys_unique - cover these mutations too). *)

(* the position `locate` computes is the very item the accessor returns *)
Theorem C18_locate_by_index : forall t idx c,
  c_get_group_by_index t idx c =
  match locate (SIdx t idx) c with Ok (_, _, _, x) => Ok x | Exc e => Exc e end.
Proof. exact locate_by_index. Qed.
Print Assumptions C18_locate_by_index.

Theorem C18_locate_by_tag : forall t gt gv c,
  c_get_group_by_tag t gt gv c =
  match locate (STag t gt gv) c with Ok (_, _, _, x) => Ok x | Exc e => Exc e end.
Proof. exact locate_by_tag. Qed.
Print Assumptions C18_locate_by_tag.

(* a change made through an accessor is a change of the container: the group holds the changed item
   at the same position (so every later accessor, == and str see it), nothing else moves *)
Theorem C18_nested_mutation_visible : forall (s : pstep) (f : container -> container * outcome) c k g n x,
  locate s c = Ok (k, g, n, x) ->
  let c' := fst (at_path [s] f c) in
  at_path [s] f c = (with_items c (assign k (VGrp (set_nth n (fst (f x)) g)) (items c)), Ok (snd (f x)))
  /\ c_get_group_list (step_tag s) c' = Ok (set_nth n (fst (f x)) g)
  /\ nth_error (set_nth n (fst (f x)) g) n = Some (fst (f x))
  /\ keys c' = keys c /\ mt c' = mt c
  /\ forall k', k' <> k -> lookup k' (items c') = lookup k' (items c).
Proof. exact (@at_path_one outcome). Qed.
Print Assumptions C18_nested_mutation_visible.

(* a failing accessor on the way, or a call that leaves the item unchanged (a read, a refused set),
   leaves the whole container unchanged *)
Theorem C18_nested_error_unchanged : forall path (f : container -> container * outcome) c c' e,
  at_path path f c = (c', Exc e) -> c' = c.
Proof. exact (@at_path_error outcome). Qed.
Print Assumptions C18_nested_error_unchanged.

Theorem C18_nested_noop_unchanged : forall path (f : container -> container * outcome) c,
  (forall x, fst (f x) = x) -> fst (at_path path f c) = c.
Proof. exact (@at_path_id outcome). Qed.
Print Assumptions C18_nested_noop_unchanged.

(* == has no memory: it follows the current content through a history of comparisons and in-place
   changes (append to an existing group, set / delete inside an item reached by each accessor) *)
Example C18_eq_follows_history :
  outcomes (init 2) hist_ops =
  [RNone; RNone; RBool true;
   RNone; RBool false; RBool false;
   RNone; RBool true;
   RNone; RBool false; RBool false;
   RNone; RBool true;
   RNone; RBool false;
   RExc ETagNotFound].
Proof. exact eq_follows_history. Qed.
Print Assumptions C18_eq_follows_history.

(* ------------------------------------------------------------------ query *)

Theorem C18_query_int : forall z c,
  c_query [TInt z] c = match c_get (TInt z) DNone c with
                       | Ok r => Ok [(z_to_dec z, r)]
                       | Exc e => Exc e
                       end.
Proof. exact query_int. Qed.
Print Assumptions C18_query_int.

(* recorded behaviour, not alarmed (DESIGN.md section 8: non-canonical spellings are distinct keys):
   query() normalises a spelling with int(), so it reads key "5" where set/get use " 5" *)
Example C18_query_noncanonical :
  let c := C None [([32; 53], VStr [97])] in
  c_get (TStr [32; 53]) DNone c = Ok (RvStr [97]) /\ c_get (TInt 5) DNone c = Ok RvNone
  /\ c_query [TStr [32; 53]] c = Ok [([53], RvNone)] /\ c_query [] c = Ok [([53], RvNone)].
Proof. exact query_noncanonical. Qed.
Print Assumptions C18_query_noncanonical.

(* ------------------------------------------------------------------ equality with a container *)

(* for ALL containers: == is exactly equality of content - the ordered list of (tag, value) pairs,
   a group being the list of its items' contents and every error-class marker the same token *)
Theorem C18_eq_iff_content : forall a b, c_eq a b = true <-> content a = content b.
Proof. exact c_eq_iff_content. Qed.
Print Assumptions C18_eq_iff_content.

(* for containers of strings and plain FIXContainer items (no class objects, no FIXMessage as a group
   item) the content is the items themselves *)
Theorem C18_eq_iff_items : forall a b,
  pure a = true -> pure b = true -> (c_eq a b = true <-> items a = items b).
Proof. exact c_eq_iff_items_pure. Qed.
Print Assumptions C18_eq_iff_items.

Theorem C18_eq_same_items : forall a b, items a = items b -> c_eq a b = true.
Proof. exact c_eq_same_items. Qed.
Print Assumptions C18_eq_same_items.

(* equal containers list the same tags in the same order *)
Theorem C18_eq_keys : forall a b, c_eq a b = true -> keys a = keys b.
Proof. exact c_eq_keys. Qed.
Print Assumptions C18_eq_keys.

(* == is an equivalence *)
Theorem C18_eq_equivalence :
  (forall a, c_eq a a = true) /\ (forall a b, c_eq a b = c_eq b a)
  /\ (forall a b c, c_eq a b = true -> c_eq b c = true -> c_eq a c = true).
Proof. exact (conj c_eq_refl (conj c_eq_sym c_eq_trans)). Qed.
Print Assumptions C18_eq_equivalence.

(* the former D18 collisions: same text, different content -> not equal; order matters; an error
   marker is not the string "#err#" but equals any other error marker; the msg_type of a group item
   and of the container itself is not content *)
Example C18_eq_no_collision :
  render w_a = render w_b /\ c_eq w_a w_b = false
  /\ render w_c = render w_d /\ c_eq w_c w_d = false
  /\ c_eq w_b w_e = false
  /\ render w_err1 = render w_errs /\ c_eq w_err1 w_errs = false /\ c_eq w_err1 w_err2 = true
  /\ c_eq w_m1 w_m2 = true.
Proof. exact eq_no_collision. Qed.
Print Assumptions C18_eq_no_collision.

(* about __str__ (no longer about ==): the rendering is injective on containers whose tags, values
   and nested msg types contain none of | = > [ ] , and space *)
Theorem C18_str_injective_clean : forall a b,
  clean a = true -> clean b = true -> (render a = render b <-> items a = items b).
Proof. exact render_iff_clean. Qed.
Print Assumptions C18_str_injective_clean.

(* canonical decimal tags are always clean keys *)
Theorem C18_decimal_tag_clean : forall z, clean_tag (z_to_dec z) = true.
Proof. exact clean_tag_z_to_dec. Qed.
Print Assumptions C18_decimal_tag_clean.

(* ------------------------------------------------------------------ equality with a dict *)

(* full strength (fixes/C18-eq-dict-ignores-framing-tags.patch): == dict is True exactly when tags
   and values are the same, the framing tags 8, 9, 10, 35 ignored on both sides *)
Theorem C18_eq_dict_iff : forall other c, c_eq_dict other c = Ok true <-> dict_content_eq other c.
Proof. exact eq_dict_iff. Qed.
Print Assumptions C18_eq_dict_iff.

(* it returns a bool when the message holds plain values only ... *)
Theorem C18_eq_dict_total : forall other c,
  Forall (fun kv => exists s, snd kv = VStr s) (items c) -> exists b, c_eq_dict other c = Ok b.
Proof. exact eq_dict_total. Qed.
Print Assumptions C18_eq_dict_total.

(* ... and otherwise the only error is the documented FIXMessageError for a compared group tag
   (never TagNotFoundError), unless the message holds class objects as values *)
Theorem C18_eq_dict_errors : forall other c,
  Forall (fun kv => forall k x, snd kv <> VCls k x) (items c) ->
  forall e, c_eq_dict other c = Exc e -> e = EFIXMessage.
Proof. exact eq_dict_no_missing. Qed.
Print Assumptions C18_eq_dict_errors.

(* the former D18 witnesses on the repaired model *)
Example C18_repaired_witnesses :
  c_eq_dict w_dict w_msg = Ok true /\ c_eq_dict w_dict2 w_msg2 = Ok true
  /\ c_eq_dict [(TInt 1, [98])] w_msg = Ok false
  /\ c_add_group (TInt 1) (Ok empty) (-1) w_msg = (w_msg, Exc EFIXMessage)
  /\ c_get_group_by_index (TInt 78) (-3) w_grp = Exc ETagNotFound
  /\ c_get_group_by_index (TInt 78) (-2) w_grp = Ok empty
  /\ c_set_group (TStr [120]) (Ok []) empty = (empty, Exc EFIXMessage)
  /\ c_add_group (TStr []) (Ok empty) (-1) empty = (empty, Exc EFIXMessage).
Proof. exact repaired_witnesses. Qed.
Print Assumptions C18_repaired_witnesses.

(* ------------------------------------------------------------------ non-vacuity *)

(* a reachable pool: two variables built in different ways (dict literal with an FTag key and a
   nested group / set + add_group with other spellings) are clean, equal and have the same content;
   a third holds a non-canonical key ' 5' next to '35' and is outside the clean class *)
Example C18_nonvacuous :
  let p := run_state 3 ex_ops in
  clean (var p 0) = true /\ clean (var p 1) = true /\ c_eq (var p 0) (var p 1) = true
  /\ items (var p 0) = items (var p 1)
  /\ items (var p 0) = [([49], VStr [97]); ([55; 56], VGrp [C None [([55; 57], VStr [120])]; C None []])]
  /\ c_get (TFTag ACCOUNT) DRaise (var p 1) = Ok (RvStr [97])
  /\ dict_content_eq [(TInt 35, [68]); (TInt 1, [97])] (C None [([49], VStr [97])])
  /\ keys (var p 2) = [[51; 53]; [32; 53]] /\ clean (var p 2) = false.
Proof. exact nonvacuous. Qed.
Print Assumptions C18_nonvacuous.
