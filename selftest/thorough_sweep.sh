#!/bin/bash
# Development tool: thorough tier of the given properties, one line each.
cd "$(dirname "$0")/.."
./run setup > /dev/null 2>&1
for p in "$@"; do
  s=$(date +%s)
  out=$(./run $p thorough 2>&1 | grep -v "^KNOWN" | tail -1 | cut -c1-160)
  echo "$out [$(( $(date +%s) - s )) s]"
done
