(* C20 - the bundled test helper (FIXTester) fabricates valid, consistent counterparty traffic.
   Theorems only (proofs in AF.Lemmas.TesterL).  The model is Fix/Tester.v: fix_exec_report_msg as a
   total function  scale u -> tester state -> order fields -> arguments -> Ok msg state' | AssertionFailed state'.
   A number z stands for the rational z / u (any scale u: no bound on quantities, prices or counters).

   Proved here, for EVERY order state, argument combination and tester state: the arithmetic constraints,
   ExecID freshness over every history of calls, OrderID reuse, the tag set, the copied values, the
   cancel-reject shape, and that a consistent order stays consistent in the closed loop helper -> order.
   Dictionary validity (last section): the model's messages are accepted by C15's model of FIXSchema.validate
   on the REGENERATED FIX 4.4 dictionary with C19's model of validate_value as the value check (validate44,
   Fix/TesterSchema.v) - session factories and cancel rejects for all argument values of the stated domains,
   execution reports for every renderer of numbers that stays in the finite FIX float layout, instantiated with
   the exact binary-fraction printer print_q.  The harness keeps deciding the same claim on the real
   FIXSchema.validate.  NOT proved (differential only): session fidelity of the simulated acceptor.
   The model describes fix_tester.py with fixes/R12a-R12e applied.  The one remaining *_refuted theorem
   (foreign ClOrdID, pinned by tests/test_protocol_order_single.py::test_exec_report_clord_mismatch) is a
   known-finding class of harness/c20.py. *)
From Coq Require Import ZArith NArith List Bool Sorting.Sorted.
From AF Require Import Base.Sx Py.Str Fix.OrderStatus Fix.Tester Fix.TesterSchema Lemmas.TesterL Lemmas.TesterSchemaL.
From AF Require Fix.Lex.
Import ListNotations.
Open Scope Z_scope.

(* ---------------------------------------------------------------- which calls are accepted *)

(* the helper returns a message exactly under the conditions of its assertion chain (incl. ord_status != CREATED,
   fixes/R12a); the message and the counters afterwards are then determined *)
Theorem C20_accepts_iff : forall u t o a m t',
  fix_exec_report_msg u t o a = Ok m t' <->
  exists clord oq cum leaves price last,
    registered t (o_clord o) = true /\ a_clord a = Some clord /\ clord <> [] /\ a_status a <> CREATED /\
    resolve_qtys o a = Some (oq, cum, leaves) /\ trade_fields u o a cum = Some last /\
    resolve_price o a = Some price /\ pending_cancel_ok o a cum leaves = true /\ finished_ok a leaves = true /\
    t' = after_ids t o /\ m = report t o a clord oq cum leaves price last.
Proof. exact exec_accepts_iff. Qed.
Print Assumptions C20_accepts_iff.

(* a refused call leaves the registered keys alone, moves each counter by at most one, never back, and never
   changes an OrderID already drawn for a root ClOrdID *)
Theorem C20_refused_counters : forall u t o a t',
  fix_exec_report_msg u t o a = AssertionFailed t' ->
  t_eid t <= t_eid t' <= t_eid t + 1 /\ t_oid t <= t_oid t' <= t_oid t + 1 /\ t_reg t' = t_reg t /\
  (forall k v, lookup k (t_oids t) = Some v -> lookup k (t_oids t') = Some v).
Proof. exact exec_fail_ids. Qed.
Print Assumptions C20_refused_counters.

(* ---------------------------------------------------------------- quantities *)

(* CumQty + LeavesQty <= OrderQty in every fabricated report - whatever the order object holds *)
Theorem C20_cum_plus_leaves_le_qty : forall u t o a m t',
  fix_exec_report_msg u t o a = Ok m t' ->
  exists cum leaves oq,
    get_q T_CumQty m = Some cum /\ get_q T_LeavesQty m = Some leaves /\ get_q T_OrderQty m = Some oq /\
    cum + leaves <= oq.
Proof. exact exec_sum. Qed.
Print Assumptions C20_cum_plus_leaves_le_qty.

(* 0 <= CumQty, 0 <= LeavesQty: explicit arguments are checked by the helper ... *)
Theorem C20_nonneg_explicit : forall u t o a m t' c l,
  fix_exec_report_msg u t o a = Ok m t' -> a_cum a = Some c -> a_leaves a = Some l ->
  get_q T_CumQty m = Some c /\ get_q T_LeavesQty m = Some l /\ 0 <= c /\ 0 <= l.
Proof. exact exec_nonneg_explicit. Qed.
Print Assumptions C20_nonneg_explicit.

(* ... omitted ones (isnan -> the order's values) are non-negative when the order's are ... *)
Theorem C20_nonneg_partial : forall u t o a m t',
  fix_exec_report_msg u t o a = Ok m t' -> 0 <= o_cum o -> 0 <= o_leaves o ->
  exists cum leaves, get_q T_CumQty m = Some cum /\ get_q T_LeavesQty m = Some leaves /\ 0 <= cum /\ 0 <= leaves.
Proof. exact exec_nonneg. Qed.
Print Assumptions C20_nonneg_partial.

(* ... and that hypothesis cannot be dropped: the defaults are copied from the order unchecked *)
Theorem C20_nonneg_defaults_refuted :
  exists o m t', o_leaves o < 0 /\
    fix_exec_report_msg 4096 w_state o (w_args (o_clord o) NEW NEW None None) = Ok m t' /\
    get_q T_LeavesQty m = Some (-4096).
Proof. exact defaults_need_consistent_order. Qed.
Print Assumptions C20_nonneg_defaults_refuted.

(* LeavesQty = 0 for FILLED / CANCELED / REJECTED / EXPIRED *)
Theorem C20_finished_leaves_zero : forall u t o a m t',
  fix_exec_report_msg u t o a = Ok m t' ->
  In (a_status a) [FILLED; CANCELED; REJECTED; EXPIRED] ->
  get_q T_LeavesQty m = Some 0.
Proof. exact exec_finished. Qed.
Print Assumptions C20_finished_leaves_zero.

(* a consistent order (0 <= cum, 0 <= leaves, cum + leaves <= qty; true of every new order with qty >= 0)
   yields a consistent report and is consistent again after processing it: in the closed loop
   helper -> order object the helper cannot fabricate an inconsistent report, for any argument list *)
Theorem C20_consistent_report : forall u t o a m t',
  fix_exec_report_msg u t o a = Ok m t' -> wf_order o -> consistent m.
Proof. exact exec_consistent. Qed.
Print Assumptions C20_consistent_report.

Theorem C20_consistency_preserved : forall u t o a m t',
  fix_exec_report_msg u t o a = Ok m t' -> wf_order o -> wf_order (fst (process_execution_report o m)).
Proof. exact process_wf. Qed.
Print Assumptions C20_consistency_preserved.

Theorem C20_closed_loop_consistent : forall u calls t o,
  wf_order o -> Forall consistent (drive u t o calls).
Proof. exact drive_consistent. Qed.
Print Assumptions C20_closed_loop_consistent.

(* a trade report carries LastQty > 0 within 0.0005 of the CumQty increment *)
Theorem C20_trade_check : forall u t o a m t',
  fix_exec_report_msg u t o a = Ok m t' -> a_exec a = X_TRADE ->
  exists l cum, a_last a = Some l /\ get_q T_LastQty m = Some l /\ get_q T_CumQty m = Some cum /\ 0 < l /\
                2000 * Z.abs (l - (cum - o_cum o)) <= u.
Proof. exact exec_trade. Qed.
Print Assumptions C20_trade_check.

(* ---------------------------------------------------------------- ids *)

(* ExecID = str(counter + 1), counter advanced; OrderID = the order's own when it has one, else the id drawn for
   the order's root ClOrdID: the one in the map when there is one, else str of the advanced order counter, which
   is then remembered (fixes/R12b) *)
Theorem C20_ids : forall u t o a m t',
  fix_exec_report_msg u t o a = Ok m t' ->
  get_s T_ExecID m = Some (z_to_dec (t_eid t + 1)) /\ t_eid t' = t_eid t + 1 /\ t_reg t' = t_reg t /\
  match o_oid o with
  | Some s => get_s T_OrderID m = Some s /\ t_oid t' = t_oid t /\ t_oids t' = t_oids t
  | None =>
      match lookup (root_of o) (t_oids t) with
      | Some v => get_s T_OrderID m = Some (z_to_dec v) /\ t_oid t' = t_oid t /\ t_oids t' = t_oids t
      | None => get_s T_OrderID m = Some (z_to_dec (t_oid t + 1)) /\ t_oid t' = t_oid t + 1 /\
                t_oids t' = t_oids t ++ [(root_of o, t_oid t + 1)]
      end
  end.
Proof. exact exec_ids. Qed.
Print Assumptions C20_ids.

(* over ANY history of helper calls on one tester - registrations (order_register_single, fix_cxl_request,
   fix_rep_request), accepted and refused fabrications for arbitrary orders, AND the non-fabricating public methods
   (reset_messages, set_next_num, the two queries, the msg_* factories, fix_cxlrep_reject_msg, process_msg_acceptor /
   reply; Tester.book) in any order: the ExecIDs of the returned messages are str(n) of a strictly increasing
   sequence of numbers above the counter at the start ... *)
Theorem C20_exec_id_increasing : forall u ops t t' ms,
  run_ops u t ops = (t', ms) ->
  t_eid t <= t_eid t' /\
  exists ids, map exec_id_of ms = map (fun z => Some (z_to_dec z)) ids /\
              StronglySorted Z.lt ids /\ Forall (fun z => t_eid t < z <= t_eid t') ids.
Proof. exact run_exec_ids. Qed.
Print Assumptions C20_exec_id_increasing.

(* ... hence pairwise distinct as texts (str(int) is injective) *)
Theorem C20_exec_id_fresh : forall u ops t t' ms,
  run_ops u t ops = (t', ms) -> NoDup (map exec_id_of ms) /\ Forall (fun e => e <> None) (map exec_id_of ms).
Proof. exact run_exec_ids_distinct. Qed.
Print Assumptions C20_exec_id_fresh.

(* the bookkeeping methods do not touch the id counters, the registered orders or the root -> OrderID map (this is
   the model; the harness compares the real tester's state with it after every such call) *)
Theorem C20_bookkeeping_keeps_ids : forall t b, bookkeeping t b = t.
Proof. exact bookkeeping_id. Qed.
Print Assumptions C20_bookkeeping_keeps_ids.

Example C20_nonvacuous_two_phase_history :
  let a1 := w_args (o_clord w_order) PENDING_NEW PENDING_NEW None None in
  let a2 := w_args (o_clord w_order) NEW NEW (Some 0) (Some (8 * 4096)) in
  map (fun m => (order_id_of m, exec_id_of m))
      (snd (run_ops 4096 w_state
              [OpExec w_order a1; OpExec w_order a2; OpBook BResetMessages; OpBook (BSetNextNum (Some 5) None);
               OpExec w_order a1; OpBook BQuery; OpExec w_order a2]))
  = [(Some [49%N], Some [49;48;48;48;49]%N); (Some [49%N], Some [49;48;48;48;50]%N);
     (Some [49%N], Some [49;48;48;48;51]%N); (Some [49%N], Some [49;48;48;48;52]%N)].
Proof. exact reset_history_witness. Qed.
Print Assumptions C20_nonvacuous_two_phase_history.

Theorem C20_str_int_injective : forall a b, z_to_dec a = z_to_dec b -> a = b.
Proof. exact z_to_dec_inj. Qed.
Print Assumptions C20_str_int_injective.

(* OrderID is stable per order, FULL strength since fixes/R12b: two fabrications for the same order (same root
   ClOrdID) with ANY history of helper calls in between carry the same OrderID, whether the order object has
   processed the first report (its order_id is then that OrderID) or not (order_id still None) ... *)
Theorem C20_order_id_stable : forall u t o1 a1 m1 t1 ops t2 ms o2 a2 m2 t3,
  fix_exec_report_msg u t o1 a1 = Ok m1 t1 -> run_ops u t1 ops = (t2, ms) ->
  fix_exec_report_msg u t2 o2 a2 = Ok m2 t3 ->
  o_oid o1 = None -> root_of o2 = root_of o1 -> (o_oid o2 = None \/ o_oid o2 = order_id_of m1) ->
  order_id_of m2 = order_id_of m1.
Proof. exact order_id_stable. Qed.
Print Assumptions C20_order_id_stable.

(* ... orders with different root ClOrdIDs never share a drawn OrderID (from any state whose map holds ids drawn
   from the counter, e.g. the initial one) ... *)
Theorem C20_order_id_distinct : forall u t o1 a1 m1 t1 ops t2 ms o2 a2 m2 t3,
  wf_t t ->
  fix_exec_report_msg u t o1 a1 = Ok m1 t1 -> run_ops u t1 ops = (t2, ms) ->
  fix_exec_report_msg u t2 o2 a2 = Ok m2 t3 ->
  o_oid o1 = None -> o_oid o2 = None -> root_of o2 <> root_of o1 ->
  order_id_of m2 <> order_id_of m1.
Proof. exact order_id_distinct. Qed.
Print Assumptions C20_order_id_distinct.

Theorem C20_order_id_map_wf : wf_t t_init /\ (forall u ops t t' ms, run_ops u t ops = (t', ms) -> wf_t t -> wf_t t').
Proof. exact order_id_map_wf. Qed.
Print Assumptions C20_order_id_map_wf.

(* ... and in the closed loop (each report processed before the next is fabricated, ClOrdID = the order's) the whole
   run carries one OrderID *)
Theorem C20_order_id_closed_loop : forall u calls t o,
  Forall (fun a => a_clord a = Some (o_clord o)) calls ->
  match drive u t o calls with
  | [] => True
  | m0 :: ms => order_id_of m0 <> None /\ Forall (fun m => order_id_of m = order_id_of m0) ms
  end.
Proof. exact drive_oid_stable. Qed.
Print Assumptions C20_order_id_closed_loop.

(* the former finding C20-orderid-open-loop (OrderIDs 1 then 2) is gone: both reports carry OrderID 1, remembered
   under the root ClOrdID "ord" *)
Example C20_order_id_open_loop_fixed :
  exists t1 m1 t2 m2,
    fix_exec_report_msg 4096 w_state w_order (w_args (o_clord w_order) PENDING_NEW PENDING_NEW None None) = Ok m1 t1 /\
    fix_exec_report_msg 4096 t1 w_order (w_args (o_clord w_order) NEW NEW (Some 0) (Some (8 * 4096))) = Ok m2 t2 /\
    order_id_of m1 = Some [49%N] /\ order_id_of m2 = Some [49%N] /\
    t_oids t2 = [(root_of w_order, 1)] /\ root_of w_order = [111;114;100]%N.
Proof. exact open_loop_witness. Qed.
Print Assumptions C20_order_id_open_loop_fixed.

(* ---------------------------------------------------------------- tags and values *)

(* the tag sequence is fixed by the arguments; every tag occurs once; the mandatory tags
   11 37 17 150 39 54 14 151 55 44 38 6 1 are present; LastQty iff TRADE; OrigClOrdID iff given *)
Theorem C20_tags : forall u t o a m t',
  fix_exec_report_msg u t o a = Ok m t' ->
  tags_of m = expected_tags a /\ NoDup (tags_of m).
Proof. exact exec_tags. Qed.
Print Assumptions C20_tags.

Theorem C20_mandatory_tags : forall u t o a m t',
  fix_exec_report_msg u t o a = Ok m t' ->
  NoDup (tags_of m) /\
  Forall (fun tag => In tag (tags_of m)) mandatory_tags /\
  (In T_LastQty (tags_of m) <-> a_exec a = X_TRADE) /\
  (In T_OrigClOrdID (tags_of m) <-> truthy (a_orig a) = true).
Proof. exact exec_mandatory. Qed.
Print Assumptions C20_mandatory_tags.

Example C20_mandatory_tags_are :
  mandatory_tags = [11; 37; 17; 150; 39; 54; 14; 151; 55; 44; 38; 6; 1]%N.
Proof. exact mandatory_tags_are. Qed.
Print Assumptions C20_mandatory_tags_are.

Theorem C20_values : forall u t o a m t',
  fix_exec_report_msg u t o a = Ok m t' ->
  option_map (@Some str) (get_s T_ClOrdID m) = Some (a_clord a) /\
  get_s T_ExecType m = Some [a_exec a] /\ get_s T_OrdStatus m = Some [a_status a] /\
  get_s T_Side m = Some (o_side o) /\ get_s T_Symbol m = Some (o_ticker o) /\
  get_s T_Account m = Some (o_account o) /\ get_q T_AvgPx m = Some (a_avg a) /\
  get_q T_Price m = Some (match a_price a with Some p => p | None => o_price o end) /\
  get_q T_OrderQty m = Some (match a_oqty a with Some q => q | None => o_qty o end) /\
  (forall p, a_price a = Some p -> a_exec a = X_REPLACED) /\
  (forall q, a_oqty a = Some q -> a_exec a = X_REPLACED /\ 0 < q).
Proof. exact exec_values. Qed.
Print Assumptions C20_values.

(* ---------------------------------------------------------------- processed by the order object *)

(* a report carrying the order's ClOrdID (or its OrigClOrdID) and an FOrdStatus member is processed
   without error (model of process_execution_report restricted to what C20 needs; the full order model
   is C17's; the harness runs the real method on every fabricated report) ... *)
Theorem C20_processed_partial : forall u t o a m t',
  fix_exec_report_msg u t o a = Ok m t' ->
  (a_clord a = Some (o_clord o) \/ a_clord a = o_orig o) ->
  In (a_status a) all_statuses ->
  snd (process_execution_report o m) = RetTrue \/ snd (process_execution_report o m) = RetFalse.
Proof. exact process_no_error. Qed.
Print Assumptions C20_processed_partial.

(* ... any other ClOrdID is accepted by the helper and refused by the order object with FIXError
   [finding C20-foreign-clordid] *)
Theorem C20_processed_foreign_clordid_refuted :
  exists m t', fix_exec_report_msg 4096 w_state w_order (w_args [120%N] NEW NEW (Some 0) (Some (8 * 4096))) = Ok m t' /\
               snd (process_execution_report w_order m) = RaisedFIXError.
Proof. exact foreign_clordid_witness. Qed.
Print Assumptions C20_processed_foreign_clordid_refuted.

(* the internal status CREATED = "Z" (an FOrdStatus member, not a FIX 4.4 OrdStatus value) is never put on the wire
   (fixes/R12a; former finding C20-status-created) *)
Theorem C20_status_never_created : forall u t o a m t',
  fix_exec_report_msg u t o a = Ok m t' -> a_status a <> CREATED /\ get_s T_OrdStatus m = Some [a_status a].
Proof. exact status_never_created. Qed.
Print Assumptions C20_status_never_created.

Example C20_status_created_refused :
  fix_exec_report_msg 4096 w_state w_order (w_args (o_clord w_order) NEW CREATED None None) = AssertionFailed w_state /\
  fix_cxlrep_reject_msg [K_ORDERCANCELREQUEST] (Some [97%N]) (Some [98%N]) CREATED = RAssertion /\
  In CREATED all_statuses.
Proof. exact created_status_witness. Qed.
Print Assumptions C20_status_created_refused.

(* ---------------------------------------------------------------- cancel reject *)

(* 37 / 11 / 41 / 39 / 434 in this order, 434 = "1" for a cancel request, "2" for a replace request; never status Z *)
Theorem C20_cancel_reject : forall mt clord orig st m,
  fix_cxlrep_reject_msg mt clord orig st = ROk m ->
  exists c og r,
    clord = Some c /\ orig = Some og /\ st <> CREATED /\
    m = [(T_OrderID, VS [48%N]); (T_ClOrdID, VS c); (T_OrigClOrdID, VS og); (T_OrdStatus, VS [st]);
         (T_CxlRejResponseTo, VS [r])] /\
    ((mt = [K_ORDERCANCELREQUEST] /\ r = 49%N) \/ (mt = [K_ORDERCANCELREPLACEREQUEST] /\ r = 50%N)).
Proof. exact reject_spec. Qed.
Print Assumptions C20_cancel_reject.

Theorem C20_cancel_reject_refuses : forall mt clord orig st,
  fix_cxlrep_reject_msg mt clord orig st = RAssertion <->
  (exists c og, clord = Some c /\ orig = Some og) /\
  (st = CREATED \/ (mt <> [K_ORDERCANCELREQUEST] /\ mt <> [K_ORDERCANCELREPLACEREQUEST])).
Proof. exact reject_refuses. Qed.
Print Assumptions C20_cancel_reject_refuses.

(* ---------------------------------------------------------------- non-vacuity *)

(* a partial fill on a live, consistent order with LastQty off by 2/4096 (< 0.0005) is accepted, reuses the
   order's OrderID and is processed; off by 3/4096 it is refused after the ExecID was consumed *)
Example C20_nonvacuous_fill :
  exists m t', fix_exec_report_msg 4096 w_state w_live w_fill = Ok m t' /\
    wf_order w_live /\ get_q T_LastQty m = Some (2 * 4096 + 2) /\ order_id_of m = Some [49%N] /\
    snd (process_execution_report w_live m) = RetTrue /\
    o_status (fst (process_execution_report w_live m)) = PARTIALLY_FILLED /\
    o_cum (fst (process_execution_report w_live m)) = 2 * 4096.
Proof. exact fill_witness. Qed.
Print Assumptions C20_nonvacuous_fill.

Example C20_nonvacuous_tolerance :
  fix_exec_report_msg 4096 w_state w_live
    (mkArgs (Some (o_clord w_live)) X_TRADE PARTIALLY_FILLED (Some (2 * 4096)) (Some (6 * 4096)) (Some (2 * 4096 + 3))
            None None None 0) = AssertionFailed (mkT 0 10001 (t_reg w_state) []).
Proof. exact fill_tolerance_witness. Qed.
Print Assumptions C20_nonvacuous_tolerance.

Example C20_nonvacuous_closed_loop :
  map (fun m => (order_id_of m, exec_id_of m))
      (drive 4096 w_state w_order
         [w_args (o_clord w_order) PENDING_NEW PENDING_NEW None None;
          w_args (o_clord w_order) NEW NEW (Some 0) (Some (8 * 4096));
          w_args (o_clord w_order) CANCELED CANCELED None (Some 0)])
  = [(Some [49%N], Some [49;48;48;48;49]%N); (Some [49%N], Some [49;48;48;48;50]%N); (Some [49%N], Some [49;48;48;48;51]%N)].
Proof. exact drive_witness. Qed.
Print Assumptions C20_nonvacuous_closed_loop.

(* ================================================================ validity against the FIX 4.4 dictionary *)
(* validate44 m = SchemaModel.validate value_check44 GenSchema.FIX44.schema m, where value_check44 runs C19's
   validate_value model on the entry of C19's regenerated table for the same tag (Fix/TesterSchema.v);
   render pr mt m = the FIXMessage with MsgType mt, tag texts str(tag), numbers printed by pr. *)

(* the two regenerated tables describe the same fields: same type name, same has-enum flag, for all 912 *)
Example C20_tables_agree : forallb field_agrees GenSchema.FIX44.fields = true.
Proof. exact tables_agree. Qed.
Print Assumptions C20_tables_agree.

(* session message factories: msg_logon (default tags), msg_logout, msg_heartbeat (no id / any valid String id /
   str(z) for every integer z), msg_test_request (any valid String id), msg_sequence_reset (all 0 < n, new < 10^4300,
   both flags), msg_resend_request (all 0 < begin < 10^4300, 0 <= end < 10^4300); 10^4300 = CPython's int() digit
   limit, beyond which the library's own validator refuses the text.  All-values proofs except the three closed
   messages (by computation). *)
Theorem C20_session_factories_validate :
  validate44 (render0 (msg_logon [])) = SM.Ok /\
  validate44 (render0 msg_logout) = SM.Ok /\
  validate44 (render0 (msg_heartbeat None)) = SM.Ok /\
  (forall s, valid_string s = true -> validate44 (render0 (msg_heartbeat (Some s))) = SM.Ok) /\
  (forall z, validate44 (render0 (msg_heartbeat (Some (z_to_dec z)))) = SM.Ok) /\
  (forall s, valid_string s = true -> validate44 (render0 (msg_test_request s)) = SM.Ok) /\
  (forall n new g, seq_ok n -> seq_ok new -> validate44 (render0 (msg_sequence_reset n new g)) = SM.Ok) /\
  (forall b e, seq_ok b -> (0 <= e < Z.of_N INT_LIMIT)%Z -> validate44 (render0 (msg_resend_request b e)) = SM.Ok).
Proof. exact session_factories_validate. Qed.
Print Assumptions C20_session_factories_validate.

(* cancel reject: every valid String ClOrdID / OrigClOrdID (non-empty, no SOH, no '='), every FOrdStatus member
   (CREATED is refused by the helper itself since fixes/R12a), both request kinds *)
Theorem C20_cancel_reject_validates : forall mt c og st m,
  fix_cxlrep_reject_msg mt (Some c) (Some og) st = ROk m ->
  valid_string c = true -> valid_string og = true -> In st all_statuses ->
  validate44 (render no_numbers [57%N] m) = SM.Ok.
Proof. exact cancel_reject_validates. Qed.
Print Assumptions C20_cancel_reject_validates.

(* execution report: every accepted call whose texts are valid Strings, whose ExecType / OrdStatus / Side are
   enum members (exec_valid; OrdStatus CREATED cannot occur) and whose numbers are rendered inside the finite FIX float layout validates -
   for ANY renderer pr (partial: the rendering of numbers is the hypothesis) ... *)
Theorem C20_exec_report_validates_partial : forall pr u t o a m t',
  fix_exec_report_msg u t o a = Ok m t' -> exec_valid o a -> numbers_ok pr m ->
  validate44 (render pr [56%N] m) = SM.Ok.
Proof. exact exec_report_validates. Qed.
Print Assumptions C20_exec_report_validates_partial.

(* ... the exact decimal expansion of z / 2^k (what str(float) prints for the binary fractions of the harness's
   exact stream) is such a rendering whenever the integer part is below float()'s overflow threshold ... *)
Theorem C20_printer_is_finite_fix_float : forall k z,
  printable k z -> Lex.lex_float (print_q k z) = true /\ Lex.float_overflows (print_q k z) = false.
Proof. exact print_q_float_ok. Qed.
Print Assumptions C20_printer_is_finite_fix_float.

(* ... hence: *)
Theorem C20_exec_report_validates_printed : forall k u t o a m t',
  fix_exec_report_msg u t o a = Ok m t' -> exec_valid o a -> numbers_printable k m ->
  validate44 (render (print_q k) [56%N] m) = SM.Ok.
Proof. exact exec_report_validates_printed. Qed.
Print Assumptions C20_exec_report_validates_printed.

Example C20_exec_report_validates_nonvacuous :
  exists m t', fix_exec_report_msg 4096 w_state w_live w_fill = Ok m t' /\
    validate44 (render (print_q 12) [56%N] m) = SM.Ok /\
    get_tag_text (render (print_q 12) [56%N] m) [51;50]%N = Some [50;46;48;48;48;52;56;56;50;56;49;50;53]%N.
Proof. exact exec_report_validates_witness. Qed.
Print Assumptions C20_exec_report_validates_nonvacuous.

(* the hypothesis numbers_ok is needed: a rendering outside the layout ("1e-05", what str(float) printed below 1e-4
   before fixes/R12c + R12d made the helper print plain notation) is refused by the dictionary *)
Example C20_exponent_text_outside_layout :
  exists m t', fix_exec_report_msg 4096 w_state w_live w_fill = Ok m t' /\
    validate44 (render exponent_text [56%N] m) = SM.Exc SM.EFIXMessage.
Proof. exact exponent_text_refused. Qed.
Print Assumptions C20_exponent_text_outside_layout.

