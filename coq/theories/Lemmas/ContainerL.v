(* Proofs about the container model Fix/Container.v (property C18). *)
From Coq Require Import ZArith NArith List Bool Lia.
From AF Require Import Base.Sx Py.Str Fix.Container Fix.ContainerRun.
From AFGen Require Import GenEnums.
Import ListNotations.
Open Scope N_scope.

#[local] Arguments str_eqb : simpl never.

(* ================================================================ strings *)

Lemma str_eqb_eq a b : str_eqb a b = true <-> a = b.
Proof.
  unfold str_eqb. revert b. induction a as [|x a IH]; intros [|y b]; split; intros H; try discriminate; try reflexivity.
  - apply andb_true_iff in H. destruct H as [H1 H2]. apply N.eqb_eq in H1. apply IH in H2. now subst.
  - inversion H; subst. apply andb_true_iff. split; [apply N.eqb_refl|now apply IH].
Qed.

Lemma str_eqb_refl a : str_eqb a a = true.
Proof. now apply str_eqb_eq. Qed.

Lemma str_eqb_neq a b : str_eqb a b = false <-> a <> b.
Proof.
  split; intros H.
  - intros E. apply str_eqb_eq in E. congruence.
  - destruct (str_eqb a b) eqn:E; [|reflexivity]. apply str_eqb_eq in E. contradiction.
Qed.

Lemma str_eqb_sym a b : str_eqb a b = str_eqb b a.
Proof.
  destruct (str_eqb a b) eqn:E.
  - apply str_eqb_eq in E. subst. now rewrite str_eqb_refl.
  - symmetry. apply str_eqb_neq. apply str_eqb_neq in E. congruence.
Qed.

Lemma mem_In k l : mem k l = true <-> In k l.
Proof.
  unfold mem. rewrite existsb_exists. split.
  - intros [x [Hx E]]. apply str_eqb_eq in E. now subst.
  - intros H. exists k. split; [exact H|apply str_eqb_refl].
Qed.

Lemma NoDup_snoc {A} (l : list A) (x : A) : NoDup l -> ~ In x l -> NoDup (l ++ [x]).
Proof.
  induction l as [|y l IH]; cbn; intros ND N.
  - constructor; [intros []|constructor].
  - inversion ND as [|? ? N1 N2]; subst. constructor.
    + rewrite in_app_iff. intros [F|[F|[]]]; [contradiction|]. subst. apply N. now left.
    + apply IH; [exact N2|]. intros F. apply N. now right.
Qed.

Lemma filter_all {A} (f : A -> bool) (l : list A) : (forall x, In x l -> f x = true) -> filter f l = l.
Proof.
  induction l as [|y l IH]; cbn; intros H; [reflexivity|].
  rewrite (H y) by now left. rewrite IH; [reflexivity|]. intros x Hx. apply H. now right.
Qed.

(* ================================================================ ordered dict primitives *)

Section AssocL.
  Context {V : Type}.
  Implicit Types (l : list (str * V)) (k : str) (v : V).

  Lemma lookup_In k l v : lookup k l = Some v -> In (k, v) l.
  Proof.
    induction l as [|[k' v'] l IH]; cbn; [discriminate|].
    destruct (str_eqb k' k) eqn:E.
    - intros H. inversion H; subst. apply str_eqb_eq in E. subst. now left.
    - intros H. right. now apply IH.
  Qed.

  Lemma lookup_None k l : lookup k l = None <-> ~ In k (map fst l).
  Proof.
    induction l as [|[k' v'] l IH]; cbn.
    - split; [intros _ []|reflexivity].
    - destruct (str_eqb k' k) eqn:E.
      + apply str_eqb_eq in E. subst. split; [discriminate|]. intros H. exfalso. apply H. now left.
      + apply str_eqb_neq in E. rewrite IH. split; intros H.
        * intros [F|F]; [congruence|contradiction].
        * intros F. apply H. now right.
  Qed.

  Lemma has_In k l : has k l = true <-> In k (map fst l).
  Proof.
    unfold has. destruct (lookup k l) eqn:E.
    - split; [|reflexivity]. intros _. apply lookup_In in E. apply in_map_iff. now exists (k, v).
    - split; [discriminate|]. intros H. apply lookup_None in E. contradiction.
  Qed.

  Lemma has_false k l : has k l = false <-> ~ In k (map fst l).
  Proof.
    rewrite <- has_In. destruct (has k l); split; intros H; try reflexivity; try discriminate; try congruence.
  Qed.

  (* In with unique keys determines lookup *)
  Lemma In_lookup k v l : NoDup (map fst l) -> In (k, v) l -> lookup k l = Some v.
  Proof.
    induction l as [|[k' v'] l IH]; cbn; [intros _ []|].
    intros ND [H|H].
    - inversion H; subst. now rewrite str_eqb_refl.
    - inversion ND as [|? ? N1 N2]; subst. destruct (str_eqb k' k) eqn:E.
      + apply str_eqb_eq in E. subst. exfalso. apply N1. apply in_map_iff. now exists (k, v).
      + now apply IH.
  Qed.

  (* ---- assign: d[k] = v ---- *)

  Lemma assign_new k v l : has k l = false -> assign k v l = l ++ [(k, v)].
  Proof.
    unfold has. induction l as [|[k' v'] l IH]; cbn; [reflexivity|].
    destruct (str_eqb k' k) eqn:E; [discriminate|]. intros H. now rewrite IH.
  Qed.

  Lemma assign_keys_existing k v l : has k l = true -> map fst (assign k v l) = map fst l.
  Proof.
    unfold has. induction l as [|[k' v'] l IH]; cbn; [discriminate|].
    destruct (str_eqb k' k) eqn:E; cbn; [reflexivity|]. intros H. now rewrite IH.
  Qed.

  Lemma assign_keys k v l :
    map fst (assign k v l) = if has k l then map fst l else map fst l ++ [k].
  Proof.
    destruct (has k l) eqn:E.
    - now apply assign_keys_existing.
    - rewrite assign_new by exact E. now rewrite map_app.
  Qed.

  Lemma lookup_assign_same k v l : lookup k (assign k v l) = Some v.
  Proof.
    induction l as [|[k' v'] l IH]; cbn.
    - now rewrite str_eqb_refl.
    - destruct (str_eqb k' k) eqn:E; cbn; rewrite E; [reflexivity|exact IH].
  Qed.

  Lemma lookup_assign_other k k' v l : k' <> k -> lookup k' (assign k v l) = lookup k' l.
  Proof.
    intros N. induction l as [|[k2 v2] l IH]; cbn.
    - assert (str_eqb k k' = false) as -> by (apply str_eqb_neq; congruence). reflexivity.
    - destruct (str_eqb k2 k) eqn:E; cbn.
      + apply str_eqb_eq in E. subst.
        assert (str_eqb k k' = false) as -> by (apply str_eqb_neq; congruence). reflexivity.
      + destruct (str_eqb k2 k'); [reflexivity|exact IH].
  Qed.

  Lemma lookup_assign k k' v l :
    lookup k' (assign k v l) = if str_eqb k k' then Some v else lookup k' l.
  Proof.
    destruct (str_eqb k k') eqn:E.
    - apply str_eqb_eq in E. subst. apply lookup_assign_same.
    - apply str_eqb_neq in E. apply lookup_assign_other. congruence.
  Qed.

  Lemma has_assign k k' v l : has k' (assign k v l) = str_eqb k k' || has k' l.
  Proof. unfold has. rewrite lookup_assign. now destruct (str_eqb k k'). Qed.

  Lemma assign_NoDup k v l : NoDup (map fst l) -> NoDup (map fst (assign k v l)).
  Proof.
    intros ND. rewrite assign_keys. destruct (has k l) eqn:E; [exact ND|].
    apply has_false in E. now apply NoDup_snoc.
  Qed.

  (* every entry other than k is untouched, in place *)
  Lemma assign_In k v l kv : In kv (assign k v l) -> kv = (fst kv, v) /\ fst kv = k \/ In kv l.
  Proof.
    induction l as [|[k2 v2] l IH]; cbn.
    - intros [H|[]]. subst. left. now split.
    - destruct (str_eqb k2 k) eqn:E; cbn.
      + intros [H|H]; [|right; now right]. subst. left. apply str_eqb_eq in E. now split.
      + intros [H|H]; [right; now left|]. destruct (IH H) as [A|A]; [now left|right; now right].
  Qed.

  (* ---- remove: del d[k] ---- *)

  Lemma remove_keys k l :
    NoDup (map fst l) -> map fst (remove k l) = filter (fun k' => negb (str_eqb k' k)) (map fst l).
  Proof.
    induction l as [|[k' v'] l IH]; cbn; [reflexivity|]. intros ND. inversion ND as [|? ? N1 N2]; subst.
    destruct (str_eqb k' k) eqn:E; cbn.
    - apply str_eqb_eq in E. subst. symmetry.
      rewrite filter_all; [reflexivity|].
      intros x Hx. apply negb_true_iff. apply str_eqb_neq. intros F. subst. contradiction.
    - now rewrite IH.
  Qed.

  Lemma lookup_remove_same k l : NoDup (map fst l) -> lookup k (remove k l) = None.
  Proof.
    induction l as [|[k' v'] l IH]; cbn; [reflexivity|]. intros ND. inversion ND as [|? ? N1 N2]; subst.
    destruct (str_eqb k' k) eqn:E; cbn.
    - apply str_eqb_eq in E. subst. now apply lookup_None.
    - rewrite E. now apply IH.
  Qed.

  Lemma lookup_remove_other k k' l : k' <> k -> lookup k' (remove k l) = lookup k' l.
  Proof.
    intros N. induction l as [|[k2 v2] l IH]; cbn; [reflexivity|].
    destruct (str_eqb k2 k) eqn:E; cbn.
    - apply str_eqb_eq in E. subst.
      assert (str_eqb k k' = false) as -> by (apply str_eqb_neq; congruence). reflexivity.
    - destruct (str_eqb k2 k'); [reflexivity|exact IH].
  Qed.

  Lemma remove_incl k l kv : In kv (remove k l) -> In kv l.
  Proof.
    induction l as [|[k2 v2] l IH]; cbn; [intros []|].
    destruct (str_eqb k2 k); cbn; [now right|]. intros [H|H]; [now left|right; now apply IH].
  Qed.

  Lemma remove_NoDup k l : NoDup (map fst l) -> NoDup (map fst (remove k l)).
  Proof. intros ND. rewrite remove_keys by exact ND. now apply NoDup_filter. Qed.

  Lemma has_remove_same k l : NoDup (map fst l) -> has k (remove k l) = false.
  Proof. intros ND. unfold has. now rewrite lookup_remove_same. Qed.
End AssocL.

