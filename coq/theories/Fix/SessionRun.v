(* Sx front end of the session model: runs a history of operations from a given world and
   reports, per operation, what the harness compares (exception class, events, world projection).

   request  [cfg, world, ops]
     cfg    [begin_string, sender, target, time_string, [declined seq numbers of should_replay]]
     world  [st, role, nin, nout, maxres, [treq]?, wasact, lastt, wr, [sout, sin, [[seq, msg]..], [seq..]]]
     msg    [type, [[tag, value]..]]
     op     [0, msg, now]  _process_message    [1, msg]  send_msg    [2, now]  send_test_req
            [3, ds, [logout_message]?]  disconnect
   result [[outcome, events, wproj]..] ++ [final outbound rows with contents]
     outcome 0 = returned, n > 0 = exception class (see exn_code)
     event  [0, msg] Wire  [1, msg] App  [2, b] OnLogon  [3] OnLogout  [4] OnDisconnect  [5, s] State
     wproj  [st, role, nin, nout, maxres, [treq]?, wasact, lastt, wr, sout, sin, [out keys], [in keys]] *)
From Coq Require Import ZArith NArith List Bool.
From AF Require Import Base.Sx Py.Str Fix.Session.
From AFGen Require Import GenEnums.
Import ListNotations.
Open Scope Z_scope.

Definition exn_code (x : exn) : Z :=
  match x with
  | XValue => 1 | XTagNotFound => 2 | XAssertion => 3 | XConn => 4 | XDupSeq => 5 | XEncoding => 6
  | XAttribute => 7 | XOverflow => 8 | XFIXMessage => 9 | XDupTag => 10 | XKey => 11 | XOverflowIns => 12
  end.

Definition sx_tagv (tv : tagv) : sx := SL [sx_of_str (fst tv); sx_of_str (snd tv)].
Definition sx_msg (m : msg) : sx := SL [sx_of_str (mtype m); sx_of_list sx_tagv (mtags m)].

Definition sx_event (e : event) : sx :=
  match e with
  | Wire m => SL [SI 0; sx_msg m]
  | App m => SL [SI 1; sx_msg m]
  | OnLogon b => SL [SI 2; sx_of_bool b]
  | OnLogout => SL [SI 3]
  | OnDisconnect => SL [SI 4]
  | State s => SL [SI 5; SI s]
  end.

Definition sx_world (w : world) : sx :=
  SL [SI (st w); SI (role w); SI (nin w); SI (nout w); SI (maxres w); sx_of_opt SI (treq w);
      sx_of_bool (wasact w); SI (lastt w); sx_of_bool (wr w);
      SI (j_sout (jr w)); SI (j_sin (jr w));
      sx_of_list (fun r => SI (fst r)) (j_out (jr w)); sx_of_list SI (j_in (jr w))].

Definition sx_outcome (r : unit + exn) : sx :=
  match r with inl _ => SI 0 | inr x => SI (exn_code x) end.

Definition get_tagv (s : sx) : option tagv :=
  match s with
  | SL [a; b] => match get_str a, get_str b with Some a, Some b => Some (a, b) | _, _ => None end
  | _ => None
  end.

Definition get_msg (s : sx) : option msg :=
  match s with
  | SL [t; tags] =>
      match get_str t, get_list get_tagv tags with
      | Some t, Some tags => Some (mkMsg t tags)
      | _, _ => None
      end
  | _ => None
  end.

Definition get_row (s : sx) : option (Z * msg) :=
  match s with
  | SL [SI n; m] => option_map (fun m => (n, m)) (get_msg m)
  | _ => None
  end.

Definition get_journal (s : sx) : option journal :=
  match s with
  | SL [SI so; SI si; outs; ins] =>
      match get_list get_row outs, get_list get_z ins with
      | Some outs, Some ins => Some (mkJ so si outs ins)
      | _, _ => None
      end
  | _ => None
  end.

Definition get_world (s : sx) : option world :=
  match s with
  | SL [SI st; SI role; SI nin; SI nout; SI maxres; treq; wasact; SI lastt; wr; j] =>
      match get_opt get_z treq, get_bool wasact, get_bool wr, get_journal j with
      | Some treq, Some wasact, Some wr, Some j =>
          Some (mkW st role nin nout maxres treq wasact lastt wr j)
      | _, _, _, _ => None
      end
  | _ => None
  end.

Definition seq_of_msg (m : msg) : option Z :=
  match get T34 (mtags m) with Some v => py_int v | None => None end.

Definition get_cfg (s : sx) : option cfg :=
  match s with
  | SL [b; sd; tg; tm; decl] =>
      match get_str b, get_str sd, get_str tg, get_str tm, get_list get_z decl with
      | Some b, Some sd, Some tg, Some tm, Some decl =>
          Some (mkCfg b sd tg tm sys_maxsize
                      (fun m => match seq_of_msg m with
                                | Some n => negb (existsb (Z.eqb n) decl)
                                | None => true
                                end))
      | _, _, _, _, _ => None
      end
  | _ => None
  end.

Definition get_op (s : sx) : option op :=
  match s with
  | SL [SI 0; m; SI now] => option_map (fun m => OIn m now) (get_msg m)
  | SL [SI 1; m] => option_map OSend (get_msg m)
  | SL [SI 2; SI now] => Some (OTestReq now)
  | SL [SI 3; SI ds; lm] => option_map (ODisc ds) (get_opt get_str lm)
  | _ => None
  end.

Definition sx_srec (s : srec) : sx :=
  SL [sx_outcome (rv (s_res s)); sx_of_list sx_event (s_events s); sx_world (s_after s)].

Definition run_one (c : cfg) (w : world) (ops : list op) : sx :=
  let recs := run c w ops in
  let wf := final c w ops in
  SL (map sx_srec recs
      ++ [sx_of_list (fun r => SL [SI (fst r); sx_msg (snd r)]) (j_out (jr wf))]).

(* [cfg, world, ops] one history;  [1, cfg, world, [ops, ...]] several histories from the same start *)
Definition run_req (req : sx) : sx :=
  match req with
  | SL [c; w; ops] =>
      match get_cfg c, get_world w, get_list get_op ops with
      | Some c, Some w, Some ops => run_one c w ops
      | _, _, _ => err_sx 1
      end
  | SL [SI 1; c; w; hs] =>
      match get_cfg c, get_world w, get_list (get_list get_op) hs with
      | Some c, Some w, Some hs => SL (map (run_one c w) hs)
      | _, _, _ => err_sx 1
      end
  | _ => err_sx 2
  end.

Definition entry (line : str) : str := run_line run_req line.
