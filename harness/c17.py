"""C17 - an order object converges to the exchange's view of the order.

Theorems (Props/C17.v) are about coq/theories/Fix/Order.v (model of FIXNewOrderSingle) composed with
coq/theories/Fix/Exchange.v (reference exchange, FIFO queue per direction).  This harness

 * ties Order.v to asyncfix/protocol/order_single.py: the real FIXNewOrderSingle is driven with real
   FIXMessage objects over random walks and a bounded-exhaustive exploration of the product system, and
   over a separate stream of arbitrary / malformed reports; after every step all attributes, the request
   message (all tags but TransactTime), the return value / exception class are compared with the
   extracted model;
 * runs an independent plain-Python exchange (PyExchange, written from the FIX 4.4 order state change
   matrices) as the other half of the implementation side, and the property's statements as oracle on
   the real object after every step.

Numbers: a model value z stands for the float z / UNIT (UNIT = 4): only binary fractions, on which
float(), str(float) and == are exact."""
import copy
import json
import math
import os
import random
import time

from vlib.core import sx

META = {
    "level": "proof",
    "tables": ["GenChangeStatus", "GenEnums"],
    "files": ["asyncfix/protocol/order_single.py", "asyncfix/protocol/common.py"],
    "rule": "random walks (200 actions) and a bounded-exhaustive exploration (all action sequences over the alphabet "
            "new/cancel/replace x deliver x exchange-receive x 12 exchange actions with 2 fill sizes, pruned at already visited "
            "product states) of the real order object composed with a simulated exchange, plus sequences of arbitrary/"
            "malformed reports on the object alone and clord_root on generated texts; a case is one action sequence, "
            "non-trivial when a cancel or replace request was built and answered; distinct by canonical action list",
    "trusted_base": [
        "Fix/Order.v models order_single.py by hand (tied by this correspondence); status transitions are OrderStatus.change_status, "
        "proved equal to the regenerated graph of the real function (C16_model_is_code)",
        "quantities/prices are exact multiples of 1/4 in the harness, so Python float parsing, printing and comparison are exact; "
        "nan is None in the model",
        "ClOrdIDs are newline-free ASCII text (re `.`/`$`/`\\d` subtleties for newlines and non-ASCII digits are outside the model)",
        "Fix/Exchange.v is the reference exchange of the theorems; harness PyExchange is an independent plain-Python one, compared step by step",
    ],
    "assumptions": [
        "the exchange follows Fix/Exchange.v: answers every request exactly once, reports carry the live ClOrdID, REPLACED carries Price and OrderQty, "
        "cancel rejects carry the order's own status",
        "each direction is a FIFO queue",
        "account is a str (set_account asserts it)",
    ],
}

UNIT = 4
ST = {"CREATED": "Z", "NEW": "0", "PARTIAL": "1", "FILLED": "2", "CANCELED": "4", "PENDING_CANCEL": "6",
      "REJECTED": "8", "SUSPENDED": "9", "PENDING_NEW": "A", "EXPIRED": "C", "PENDING_REPLACE": "E"}
FINISHED = {"2", "4", "8", "C"}
LIVE = {"0", "1", "9"}

D17 = "D17-after-cancel-reject"
K2 = "C17-expired-while-suspended"
K3 = "C17-replaced-while-suspended"


def lib():
    from asyncfix import FIXMessage, FMsg
    from asyncfix.errors import FIXError
    from asyncfix.protocol.common import FOrdStatus
    from asyncfix.protocol.order_single import FIXNewOrderSingle
    return FIXMessage, FMsg, FIXError, FOrdStatus, FIXNewOrderSingle


# --------------------------------------------------------------------------------------------
# canonical projections (shapes mirror OrderRun.v)
# --------------------------------------------------------------------------------------------

def codes(s):
    return [ord(c) for c in s]


def num(v):
    """float/int/numeric text -> multiples of 1/UNIT; inexact values are reported as such."""
    try:
        f = float(v)
    except (TypeError, ValueError):
        return ["notnum", repr(v)]
    if math.isnan(f):
        return None
    z = f * UNIT
    if z != int(z):
        return ["inexact", repr(v)]
    return int(z)


def opt(v):
    return [] if v is None else [v]


def exn_code(e):
    _, _, FIXError, _, _ = lib()
    if isinstance(e, FIXError):
        return 1
    if isinstance(e, AssertionError):
        return 2
    if isinstance(e, ValueError):
        return 3
    if isinstance(e, AttributeError):
        return 4
    return [99, type(e).__name__]


def proj_order(o):
    _, _, _, FOrdStatus, _ = lib()
    st = o.status
    stv = st.value if isinstance(st, FOrdStatus) else st
    def call(f):
        try:
            return 1 if f() else 0
        except Exception as e:  # noqa: BLE001
            return [1, exn_code(e)]
    return [codes(o.clord_id), opt(None if o.orig_clord_id is None else codes(o.orig_clord_id)),
            opt(None if o.order_id is None else codes(o.order_id)), codes(o.ticker), codes(str(o.side)),
            num(o.price), num(o.qty), num(o.leaves_qty), num(o.cum_qty), opt(num(o.avg_px)),
            codes(str(o.ord_type)), codes(o.account), getattr(o, "_clord_id_cnt"),
            ord(stv) if isinstance(stv, str) and len(stv) == 1 else ["status", repr(stv)],
            1 if isinstance(st, FOrdStatus) else 0, num(o.target_price),
            call(o.can_cancel), call(o.can_replace), call(o.is_finished)]


NUMTAGS = {"38", "44"}
KIND = {"D": 0, "F": 1, "G": 2}


def proj_req(m):
    tags = []
    for t, v in m.tags.items():
        if t == "60":
            continue
        if t in NUMTAGS:
            tags.append([int(t), 1, num(v)])
        else:
            tags.append([int(t), 0, codes(v)])
    tags.sort(key=lambda x: x[0])
    return [KIND.get(m.msg_type, ["kind", m.msg_type]), tags]


def val(z):
    return z / UNIT


def build_report(rep, exec_id=1):
    """model/exchange report (list form of OrderRun.sx_rep) -> real FIXMessage."""
    FIXMessage, FMsg, _, _, _ = lib()
    if rep[0] == 0:
        _, clid, orig, oid, ex, st, cum, leaves, avg, px, qty = rep
        m = FIXMessage(FMsg.EXECUTIONREPORT)
        m[11] = "".join(map(chr, clid))
        if orig:
            m[41] = "".join(map(chr, orig[0]))
        m[37] = "".join(map(chr, oid))
        m[17] = exec_id
        m[150] = chr(ex)
        m[39] = chr(st)
        m[14] = val(cum)
        m[151] = val(leaves)
        m[6] = val(avg)
        if px:
            m[44] = val(px[0])
        if qty:
            m[38] = val(qty[0])
        return m
    _, clid, orig, st = rep
    m = FIXMessage(FMsg.ORDERCANCELREJECT)
    m[37] = 0
    m[11] = "".join(map(chr, clid))
    m[41] = "".join(map(chr, orig))
    m[39] = chr(st)
    m[434] = "1"
    return m


# --------------------------------------------------------------------------------------------
# independent plain-Python exchange (oracle side)
# --------------------------------------------------------------------------------------------

class PyExchange:
    """One order at an exchange that follows the FIX 4.4 order state change matrices.
    Quantities are exact multiples of 1/UNIT kept as ints."""

    def __init__(self, oid):
        self.base = "Z"
        self.clord = ""
        self.oid = oid
        self.price = self.qty = self.cum = self.leaves = self.avg = 0
        self.pend = None     # dict(kind 'F'/'G', clid, orig, px, qty)
        self.nrep = 0

    def status(self):
        if self.pend:
            return "6" if self.pend["kind"] == "F" else "E"
        return self.base

    def proj(self):
        p = self.pend
        return [ord(self.base), codes(self.clord), self.price, self.qty, self.cum, self.leaves, self.avg,
                opt(None if p is None else [0 if p["kind"] == "F" else 1, codes(p["clid"]), codes(p["orig"]), p["px"], p["qty"]]),
                self.nrep, ord(self.status())]

    def recv(self, m):
        """m: a real FIXMessage request built by the order object."""
        t = m.msg_type
        if t == "D":
            if self.base == "Z":
                self.base, self.clord = "A", m["11"]
                self.price, self.qty = num(m["44"]), num(m["38"])
                self.cum = self.leaves = self.avg = 0
            return
        if t in ("F", "G"):
            if self.pend is None and self.base != "Z" and m["41"] == self.clord:
                self.pend = dict(kind=t, clid=m["11"], orig=m["41"],
                                 px=num(m["44"]) if t == "G" else 0, qty=num(m["38"]))

    def _exec(self, clid, orig, ex, terms=False):
        self.nrep += 1
        return [0, codes(clid), opt(None if orig is None else codes(orig)), codes(self.oid), ord(ex), ord(self.status()),
                self.cum, self.leaves, self.avg, opt(self.price if terms else None), opt(self.qty if terms else None)]

    def enabled(self, a):
        k = a[0]
        b, p = self.base, self.pend
        if k in (10, 11, 12):
            return b == "A"
        if k == 13:
            return b in ("0", "1") and 0 < a[1] <= self.leaves
        if k in (14, 17):
            return p is not None
        if k == 15:
            return p is not None and p["kind"] == "F" and b in LIVE
        if k == 16:
            return (p is not None and p["kind"] == "G" and p["qty"] > 0 and p["px"] > 0
                    and (b in LIVE or (b == "2" and self.cum < p["qty"])))
        if k in (18, 19):
            return b in LIVE
        if k == 20:
            return b in ("0", "1")
        if k == 21:
            return b == "9"
        return False

    def act(self, a):
        if not self.enabled(a):
            return None
        k, p = a[0], self.pend
        if k == 10:
            return self._exec(self.clord, None, "A")
        if k == 11:
            self.base, self.leaves = "0", self.qty
            return self._exec(self.clord, None, "0")
        if k == 12:
            self.base, self.leaves = "8", 0
            return self._exec(self.clord, None, "8")
        if k == 13:
            self.cum += a[1]
            self.leaves -= a[1]
            self.avg = a[2]
            self.base = "2" if self.leaves == 0 else "1"
            return self._exec(self.clord, None, "F")
        if k == 14:
            return self._exec(p["clid"], p["orig"], "6" if p["kind"] == "F" else "E")
        if k == 15:
            self.base, self.leaves, self.pend, self.clord = "4", 0, None, p["clid"]
            return self._exec(p["clid"], p["orig"], "4")
        if k == 16:
            self.price = p["px"]
            self.qty = max(p["qty"], self.cum)
            self.leaves = self.qty - self.cum
            if self.base != "9":
                self.base = "0" if self.cum == 0 else ("2" if self.leaves == 0 else "1")
            self.pend, self.clord = None, p["clid"]
            return self._exec(p["clid"], p["orig"], "5", terms=True)
        if k == 17:
            self.pend = None
            self.nrep += 1
            return [1, codes(p["clid"]), codes(p["orig"]), ord(self.base)]
        if k == 18:
            self.base, self.leaves = "4", 0
            return self._exec(self.clord, None, "4")
        if k == 19:
            self.base, self.leaves = "C", 0
            return self._exec(self.clord, None, "C")
        if k == 20:
            self.base = "9"
            return self._exec(self.clord, None, "9")
        if k == 21:
            self.base = "0" if self.cum == 0 else "1"
            return self._exec(self.clord, None, "0")
        return None


# --------------------------------------------------------------------------------------------
# implementation-side product system + oracle
# --------------------------------------------------------------------------------------------

DEFAULT_INIT = ["ord", "TICK", "1", 800, 40, "2", "000000", None, "X1"]   # price 200.0, qty 10.0


def sx_init(init):
    root, ticker, side, price, qty, ordtype, account, target, oid = init
    return "[%s,%s,%s,%d,%d,%s,%s,%s,%s]" % (sx(root), sx(ticker), sx(side), price, qty, sx(ordtype), sx(account),
                                             "[]" if target is None else "[%d]" % target, sx(oid))


def sx_rep(rep):
    if rep[0] == 0:
        _, clid, orig, oid, ex, st, cum, leaves, avg, px, qty = rep
        return "[0,%s,%s,%s,%d,%d,%d,%d,%d,%s,%s]" % (
            sx(clid), "[%s]" % sx(orig[0]) if orig else "[]", sx(oid), ex, st, cum, leaves, avg,
            "[%d]" % px[0] if px else "[]", "[%d]" % qty[0] if qty else "[]")
    return "[1,%s,%s,%d]" % (sx(rep[1]), sx(rep[2]), rep[3])


def sx_act(a):
    k = a[0]
    if k == 2:
        return "[2,%s,%s]" % ("[]" if a[1] is None else "[%d]" % a[1], "[]" if a[2] is None else "[%d]" % a[2])
    if k == 13:
        return "[13,%d,%d]" % (a[1], a[2])
    if k in (5, 6):
        return "[%d,%s]" % (k, sx_rep(a[1]))
    return "[%d]" % k


def make_order(init):
    _, _, _, _, FIXNewOrderSingle = lib()
    root, ticker, side, price, qty, ordtype, account, target, _ = init
    return FIXNewOrderSingle(root, ticker, side, val(price), val(qty), ordtype, account,
                             None if target is None else val(target))


def farg(z):
    return math.nan if z is None else val(z)


class Product:
    """real order object || PyExchange with a FIFO queue per direction."""

    def __init__(self, init):
        self.init = init
        self.o = make_order(init)
        self.x = PyExchange(init[8])
        self.c2x = []          # real FIXMessage requests
        self.x2c = []          # reports in list form
        self.ids = []          # ClOrdIDs issued so far
        self.rejects_seen = 0  # cancel rejects processed by the object (class predicate of D17)
        self.k2 = self.k3 = False
        self.answered = 0

    def clone(self):
        c = copy.copy(self)
        c.o = copy.copy(self.o)
        c.x = copy.copy(self.x)
        c.x.pend = None if self.x.pend is None else dict(self.x.pend)
        c.c2x, c.x2c, c.ids = list(self.c2x), list(self.x2c), list(self.ids)
        return c

    def key(self):
        return json.dumps([proj_order(self.o), self.x.proj(), [proj_req(m) for m in self.c2x], self.x2c, self.k2, self.k3,
                           self.rejects_seen > 0])

    def build(self, f):
        try:
            m = f()
        except Exception as e:  # noqa: BLE001
            return [1, exn_code(e)]
        self.c2x.append(m)
        self.ids.append(m["11"])
        return [0, proj_req(m)]

    def step(self, a):
        """returns [observation, order, exchange, len c2x, len x2c, bad]"""
        k = a[0]
        bad = 0
        if k == 0:
            obs = self.build(self.o.new_req)
        elif k == 1:
            obs = self.build(self.o.cancel_req)
        elif k == 2:
            obs = self.build(lambda: self.o.replace_req(farg(a[1]), farg(a[2])))
        elif k == 3:
            if not self.x2c:
                obs = []
            else:
                rep = self.x2c.pop(0)
                m = build_report(rep, self.x.nrep)
                try:
                    if rep[0] == 0:
                        r = [0, 1 if self.o.process_execution_report(m) else 0]
                    else:
                        self.rejects_seen += 1
                        r = [0, 1 if self.o.process_cancel_rej_report(m) else 0]
                except Exception as e:  # noqa: BLE001
                    r = [1, exn_code(e)]
                obs = [rep, r]
        elif k == 4:
            if not self.c2x:
                obs = []
            else:
                m = self.c2x.pop(0)
                self.x.recv(m)
                obs = [proj_req(m)]
        else:
            if k == 19 and self.x.base == "9" and self.x.pend is None:
                bad, self.k2 = 1, True
            if k == 16 and self.x.base == "9" and self.x.enabled(a):
                bad, self.k3 = 1, True
            rep = self.x.act(a)
            if rep is None:
                obs = []
            else:
                if k in (15, 16, 17):
                    self.answered += 1
                self.x2c.append(rep)
                obs = [rep]
        return [obs, proj_order(self.o), self.x.proj(), len(self.c2x), len(self.x2c), bad]

    # ---- the property, stated on the real object -------------------------------------------
    def classes(self):
        """known-finding classes whose predicate accepts this history."""
        c = []
        if self.rejects_seen:
            c.append(D17)
        if self.k2:
            c.append(K2)
        if self.k3:
            c.append(K3)
        return c

    def oracle(self):
        """list of (what, kind) breaches of the property in the current state."""
        _, _, FIXError, FOrdStatus, _ = lib()
        o, x, bad = self.o, self.x, []
        if not isinstance(o.status, FOrdStatus):
            bad.append(("status %r is not a member of FOrdStatus" % (o.status,), "enum"))
        stv = o.status.value if isinstance(o.status, FOrdStatus) else o.status
        outstanding = sum(1 for m in self.c2x if m.msg_type in ("F", "G")) + (1 if x.pend else 0) + sum(
            1 for r in self.x2c if r[0] == 1 or (r[0] == 0 and r[4] in (ord("4"), ord("5")) and r[2]))
        if outstanding > 1:
            bad.append(("%d cancel/replace requests outstanding" % outstanding, "outstanding"))
        if stv in ("0", "1", "9"):
            # C16: cancel / replace requests are permitted exactly for new, partially filled and suspended orders - by the
            # status alone, whatever quantities earlier reports left in the object
            for name, can in (("cancel", o.can_cancel), ("replace", o.can_replace)):
                if not can():
                    bad.append(("order in status %s does not permit a %s request" % (stv, name), "permit"))
        root = o.clord_root(self.init[0])
        for name, can, req in (("cancel", o.can_cancel, lambda c: c.cancel_req()),
                               ("replace", o.can_replace, lambda c: c.replace_req(val(num(o.price) + UNIT), math.nan))):
            c = copy.copy(o)
            if can():
                try:
                    m = req(c)
                except Exception as e:  # noqa: BLE001
                    bad.append(("can_%s() is True but %s_req() raises %s" % (name, name, type(e).__name__), "builder"))
                    continue
                new_id = m["11"]
                pre = root + "--"
                ks = [int(i[len(pre):]) for i in self.ids if i.startswith(pre) and i[len(pre):].isdigit()]
                if new_id in self.ids or not new_id.startswith(pre) or not new_id[len(pre):].isdigit() or (
                        ks and int(new_id[len(pre):]) <= max(ks)):
                    bad.append(("%s_req() ClOrdID %r is not fresh for root %r (issued: %r)" % (name, new_id, root, self.ids), "fresh"))
                if m["41"] != x.clord:
                    bad.append(("%s_req() OrigClOrdID %r but the order is live at the exchange as %r" % (name, m["41"], x.clord), "orig"))
                if outstanding:
                    bad.append(("can_%s() holds while a request is outstanding" % name, "outstanding"))
            elif o.is_finished():
                before = proj_order(c)
                try:
                    req(c)
                    bad.append(("finished order (%s) built a %s request" % (stv, name), "finished"))
                except FIXError:
                    pass
                except Exception as e:  # noqa: BLE001
                    bad.append(("finished order refuses %s_req() with %s instead of FIXError" % (name, type(e).__name__), "finished-class"))
                if proj_order(c) != before:
                    bad.append(("refused %s_req() changed the order" % name, "finished"))
        if o.is_finished():
            c = copy.copy(o)
            try:
                c.new_req()
                bad.append(("finished order built a new-order request", "finished"))
            except AssertionError:
                pass
        if not self.c2x and not self.x2c:
            ok = (stv == x.status()) or (x.pend is not None and stv == x.base)
            if not ok:
                bad.append(("quiescent: order status %s, exchange status %s (own status %s)" % (stv, x.status(), x.base), "converge"))
            if num(o.cum_qty) != x.cum or num(o.leaves_qty) != x.leaves:
                bad.append(("quiescent: order cum/leaves %s/%s, exchange %s/%s" % (o.cum_qty, o.leaves_qty, x.cum / UNIT, x.leaves / UNIT), "converge"))
            if x.base != "Z" and (num(o.price) != x.price or num(o.qty) != x.qty):
                bad.append(("quiescent: order price/qty %s/%s, exchange %s/%s" % (o.price, o.qty, x.price / UNIT, x.qty / UNIT), "converge"))
            if x.pend is None and x.base in FINISHED and not o.is_finished():
                bad.append(("quiescent: exchange finished (%s) but is_finished() is False" % x.base, "converge"))
        return bad


def classify(prod, kind):
    """name of a known-finding class accepting this failure, else None."""
    cl = prod.classes()
    if kind in ("enum", "builder", "finished-class") and D17 in cl:
        return D17
    if kind == "converge":
        if K3 in cl:
            return K3
        if K2 in cl:
            return K2
    return None


def run_walk(ctx, init, acts, model_res, legacy, label):
    """Run one action sequence on the implementation side, compare with the model's answers, run the oracle."""
    prod = Product(init)
    answered = False
    reported = set()
    for i, a in enumerate(acts):
        r = prod.step(a)
        if model_res is not None:
            mr = model_res[i] if i < len(model_res) else None
            if mr != r:
                proj = "order-walk"
                if mr is not None and mr[1] == r[1] and mr[0] == r[0]:
                    proj = "exchange-walk"
                ctx.disagree({"init": init, "acts": acts[:i + 1], "legacy": legacy}, r, mr, proj)
                model_res = None
        for what, kind in prod.oracle():
            cls = classify(prod, kind)
            if (kind, cls) in reported:
                continue
            reported.add((kind, cls))
            ctx.fail({"init": init, "acts": acts[:i + 1]}, "step %d: %s" % (i, what), cls)
        answered = answered or prod.answered > 0
    ctx.traces += 1
    ctx.count(label)
    for a in acts:
        ctx.count("act%d" % a[0])
    ctx.case((init[0], acts), answered,
             sample={"init": init, "acts": acts[:12], "final": proj_order(prod.o)} if len(ctx.samples) < 2 else None)
    return prod


# --------------------------------------------------------------------------------------------
# generators
# --------------------------------------------------------------------------------------------

XACTS = [[10], [11], [12], [14], [15], [16], [17], [18], [19], [20], [21]]


def candidate_actions(prod, fills, repls):
    acts = [[0], [1], [3], [4]] + [[2, p, q] for p, q in repls]
    acts += [[13, f, 800 + f] for f in fills] + XACTS
    return acts


def changes_something(prod, a):
    k = a[0]
    if k == 3:
        return bool(prod.x2c)
    if k == 4:
        return bool(prod.c2x)
    if k >= 10:
        return prod.x.enabled(a)
    return True


def gen_walk(rng, n):
    """random walk (at most n actions): a category is drawn first (client builder / delivery / receipt / exchange action),
    then an action of it; terminal exchange actions are rare so that walks stay alive; a few disabled actions are mixed in."""
    init = list(DEFAULT_INIT)
    init[0] = rng.choice(["ord", "a--b", "x-1", "o--7--", "id 9"])
    init[3] = rng.choice([800, 401, 2])
    init[4] = rng.choice([400, 40, 8, 3])
    if rng.random() < 0.3:
        init[7] = rng.choice([0, 799, 1200])
    prod = Product(init)
    acts = []
    idle = 0
    for _ in range(n):
        fills = sorted({1, 2, 4, max(prod.x.leaves, 1), max(prod.x.leaves - 1, 1)})
        q0 = num(prod.o.qty)
        repls = [(None, None), (num(prod.o.price) + 4, None), (None, q0 + 8), (1, 0), (num(prod.o.price), q0),
                 (None, max(prod.x.cum, 1)), (None, prod.x.cum - 1), (402, q0 + 2), (None, -4), (0, None)]
        r = rng.random()
        if r < 0.04:
            a = rng.choice(candidate_actions(prod, fills, repls))
        else:
            r = rng.random()
            if r < 0.16:
                a = rng.choice([[0], [1], [1]] + [[2, p, q] for p, q in repls])
            elif r < 0.42 and prod.x2c:
                a = [3]
            elif r < 0.58 and prod.c2x:
                a = [4]
            else:
                xs = [a for a in [[13, f, 800 + f] for f in fills] + XACTS if prod.x.enabled(a)]
                if xs:
                    w = [0.03 if (a[0] in (12, 18, 19) or (a[0] == 13 and a[1] == prod.x.leaves)) else (0.3 if a[0] == 15 else
                         (2.0 if a[0] in (13, 17) else 1.0)) for a in xs]
                    a = rng.choices(xs, weights=w)[0]
                else:
                    a = [3] if prod.x2c else ([4] if prod.c2x else [0])
        acts.append(a)
        before = prod.key()
        prod.step(a)
        idle = idle + 1 if prod.key() == before else 0
        if idle >= 6:
            break
    return init, acts


def explore(depth, max_states, legacy_probe=None):
    """bounded-exhaustive exploration: every action sequence up to `depth` over the alphabet, pruned where the
    product state was already visited.  Returns the list of maximal paths."""
    init = list(DEFAULT_INIT)
    init[4] = 8            # qty 2.0: fills 0.5 (partial) and the rest (full)
    root = Product(init)
    seen = {root.key()}
    paths = []
    frontier = [(root, [])]
    for _ in range(depth):
        nxt = []
        for prod, path in frontier:
            fills = sorted({2, max(prod.x.leaves, 1)})
            q0 = num(prod.o.qty)
            repls = [(num(prod.o.price) + 4, None), (None, q0 + 4), (None, 2)]
            extended = False
            for a in candidate_actions(prod, fills, repls):
                if not changes_something(prod, a):
                    continue
                c = prod.clone()
                c.step(a)
                k = c.key()
                if k in seen:
                    # the step itself is still compared: record it as a leaf extension
                    paths.append(path + [a])
                    continue
                seen.add(k)
                extended = True
                nxt.append((c, path + [a]))
                if len(seen) >= max_states:
                    break
            if not extended and path:
                paths.append(path)
            if len(seen) >= max_states:
                break
        frontier = nxt
        if len(seen) >= max_states:
            break
    paths += [p for _, p in frontier]
    return init, paths, len(seen)


STATUSES = "Z012346789ABCDE"
EXECS = "0345689ABCDEFGHI"


def gen_solo(rng, n):
    """operations on the object alone with arbitrary and malformed reports."""
    init = list(DEFAULT_INIT)
    init[0] = rng.choice(["ord", "r--2", "q"])
    o = make_order(init)
    ops = []
    for _ in range(n):
        r = rng.random()
        if r < 0.12:
            op = [0]
        elif r < 0.24:
            op = [1]
        elif r < 0.36:
            op = [2, rng.choice([None, 800, 804, 0]), rng.choice([None, 40, 44, 0])]
        else:
            ids = [o.clord_id] + ([o.orig_clord_id] if o.orig_clord_id else [])
            clid = rng.choice(ids) if rng.random() < 0.9 else rng.choice(["zz", "ord--1", "ord"])
            st = rng.choice(STATUSES) if rng.random() < 0.95 else rng.choice("XY5")
            if rng.random() < 0.75:
                ex = rng.choice(EXECS) if rng.random() < 0.6 else "5"
                cum = rng.choice([0, 2, 4, 40])
                rep = [0, codes(clid), opt(codes(o.clord_id)) if rng.random() < 0.3 else [], codes("OID%d" % rng.randrange(3)), ord(ex), ord(st),
                       cum, rng.choice([0, 4, 36, 40]), rng.choice([0, 800, 801]),
                       opt(rng.choice([800, 808])) if rng.random() < 0.6 else [], opt(rng.choice([40, 48])) if rng.random() < 0.6 else []]
            else:
                rep = [1, codes(clid), codes(o.orig_clord_id or "none"), ord(st)]
            # mostly the right handler, sometimes the wrong one (message type check)
            right = 5 if rep[0] == 0 else 6
            op = [right if rng.random() < 0.92 else 11 - right, rep]
        ops.append(op)
        solo_step(o, op)
    return init, ops


def solo_step(o, op):
    k = op[0]
    def build(f):
        try:
            return [0, proj_req(f())]
        except Exception as e:  # noqa: BLE001
            return [1, exn_code(e)]
    if k == 0:
        obs = build(o.new_req)
    elif k == 1:
        obs = build(o.cancel_req)
    elif k == 2:
        obs = build(lambda: o.replace_req(farg(op[1]), farg(op[2])))
    else:
        m = build_report(op[1])
        try:
            f = o.process_execution_report if k == 5 else o.process_cancel_rej_report
            obs = [0, 1 if f(m) else 0]
        except Exception as e:  # noqa: BLE001
            obs = [1, exn_code(e)]
    return [obs, proj_order(o)]


def run_solo(ctx, init, ops, model_res, legacy):
    o = make_order(init)
    for i, op in enumerate(ops):
        r = solo_step(o, op)
        if model_res is not None and (i >= len(model_res) or model_res[i] != r):
            ctx.disagree({"init": init, "solo": ops[:i + 1], "legacy": legacy}, r, model_res[i] if i < len(model_res) else None, "order-solo")
            break
    ctx.traces += 1
    ctx.count("solo")
    ctx.case(("solo", ops), any(op[0] in (5, 6) for op in ops))


def gen_text(rng):
    n = rng.randrange(0, 9)
    return "".join(rng.choice("ab-- -019") for _ in range(n))


# --------------------------------------------------------------------------------------------
# variant probe
# --------------------------------------------------------------------------------------------

D17_WITNESS = [[0], [4], [11], [3], [1], [4], [17], [3]]      # new, ack, cancel, cancel-reject


def probe_legacy():
    """1 when process_cancel_rej_report leaves orig_clord_id set / stores a str status (code as found),
    0 when the repair fixes/C17-cancel-reject-restores-ids.patch is applied."""
    p = Product(list(DEFAULT_INIT))
    for a in D17_WITNESS:
        p.step(a)
    return 1 if (p.o.orig_clord_id is not None or not hasattr(p.o.status, "name")) else 0


# --------------------------------------------------------------------------------------------
# entry points
# --------------------------------------------------------------------------------------------

def model_line(mode, legacy, init, acts):
    return "[%d,%d,%s,[%s]]" % (mode, legacy, sx_init(init), ",".join(sx_act(a) for a in acts))


def corpus():
    import glob
    out = []
    for f in sorted(glob.glob(os.path.join(os.path.dirname(__file__), "..", "corpus", "C17", "*.json"))):
        rec = json.load(open(f))
        out.append((rec["init"], rec["acts"]))
    return out


def run(ctx):
    t0 = time.time()
    legacy = probe_legacy()
    ctx.extra["variant"] = "legacy (code as found: D17 present)" if legacy else "repaired (cancel reject restores ids)"
    if not legacy and any(k.get("class") == D17 for k in ctx.known):
        ctx.notes.append("note: known finding %s no longer reproduces (repair applied)" % D17)

    walks = corpus() + [(list(DEFAULT_INIT), D17_WITNESS + [[1]])]
    # bounded exhaustive
    init, paths, nstates = explore(ctx.scale(10, 12), ctx.scale(20000, 200000))
    ctx.extra["exhaustive_walks"] = {"depth": ctx.scale(10, 12), "product_states": nstates, "paths": len(paths)}
    walks += [(init, p) for p in paths]
    n_ex = len(walks)
    # random walks
    for _ in range(ctx.scale(1000, 12000)):
        walks.append(gen_walk(ctx.rng, 200))
    solos = [gen_solo(ctx.rng, ctx.rng.randrange(5, 40)) for _ in range(ctx.scale(400, 8000))]
    texts = ["", "a", "--1", "a--1", "a--b--12", "a---5", "a--1--x", "x--", "a--12b", "a-1", "0--0", "ab--007"] + [
        gen_text(ctx.rng) for _ in range(ctx.scale(1500, 20000))]
    ctx.extra["c17_generation_s"] = round(time.time() - t0, 1)

    wres = sres = tres = None
    if ctx.model:
        wres = ctx.model.batch([model_line(0, legacy, i, a) for i, a in walks])
        sres = ctx.model.batch([model_line(1, legacy, i, a) for i, a in solos])
        tres = ctx.model.batch(["[2,%s]" % sx(t) for t in texts])
    for j, (i, a) in enumerate(walks):
        run_walk(ctx, i, a, wres[j] if wres else None, legacy, "exhaustive" if j < n_ex else "random-walk")
    for j, (i, a) in enumerate(solos):
        run_solo(ctx, i, a, sres[j] if sres else None, legacy)
    _, _, _, _, FIXNewOrderSingle = lib()
    for j, t in enumerate(texts):
        got = codes(FIXNewOrderSingle.clord_root(t))
        ctx.count("clord_root")
        ctx.case(("root", t), "--" in t)
        if tres is not None and tres[j] != got:
            ctx.disagree({"clord_root": t}, got, tres[j], "clord-root")
        # freshness depends on: the root of root--k is root (non-empty root)
        if t and "\n" not in t:
            r = FIXNewOrderSingle.clord_root(t)
            if FIXNewOrderSingle.clord_root("%s--%d" % (r, 7)) != r:
                ctx.fail({"clord_root": t}, "clord_root(%r--7) is not %r" % (r, r), None)
    ctx.extra["c17_harness_s"] = round(time.time() - t0, 1)


def search(ctx, cases):
    rng = random.Random(ctx.seed + 1)
    for c in cases:
        if "acts" in c:
            run_walk(ctx, c["init"], c["acts"], None, 0, "search")
            if ctx.failures:
                return
    t_end = time.time() + ctx.scale(30, 300)
    while time.time() < t_end:
        i, a = gen_walk(rng, 120)
        run_walk(ctx, i, a, None, 0, "search")
        if ctx.failures:
            return


def replay(path):
    rec = json.load(open(path))
    case = rec.get("input")
    if not case or "acts" not in case:
        print("replay: no concrete walk; broken:", rec.get("broken"), "input:", case)
        return 1
    prod = Product(case["init"])
    rc = 0
    for i, a in enumerate(case["acts"]):
        r = prod.step(a)
        bad = prod.oracle()
        print("step %d %r -> obs=%r status=%s exchange=%s%s" % (
            i, a, r[0], chr(r[1][13]) if isinstance(r[1][13], int) else r[1][13], prod.x.status(),
            "".join("\n      BREACH: %s [class %s]" % (w, classify(prod, k)) for w, k in bad)))
        if bad:
            rc = 1
    return rc
