#!/bin/bash
# Development tool: run every change delivered by a mutation sub-agent (dir/<n>/patch.diff, demo.py) through mutant.sh
# usage: selftest/mutround.sh <Cxx> <dir>
for d in $2/[0-9]*/; do
  [ -f $d/patch.diff ] || continue
  echo "== $1 $(basename $d)"
  $(dirname $0)/mutant.sh $1 $d/patch.diff $d/demo.py --tests 2>&1 | tail -6
done
