(* C01: the encoder's frame decodes to the message it was made from (printer / parser inversion).
   Part A: decode behind characterising lemmas; Part B: the shape of an encoder frame;
   Part C: the decoder's field loop on header / plain fields; Part D: repeating groups. *)
From Coq Require Import ZArith NArith List Bool Lia ZifyBool.
From AF Require Import Base.Sx Py.Str Fix.Codec Fix.WfMsg Lemmas.StrB.
Import ListNotations.
Open Scope N_scope.

Definition bad_res (silent : bool) (n : Z) : result dres := if silent then Ok (None, n, None) else Exc EAssertion.

Definition decode_fields (G : group_table) (beginstring : str) (silent : bool) (rawlen : Z) (valid_idx : nat)
  (has_next : bool) (frame_len : Z) (encoded : str) (fields : list str) : result dres :=
  match fields with
  | f0 :: f1 :: _ :: _ =>
      match split1 61 f0 with
      | (_, None) => Exc EValue
      | (_, Some v0) =>
          if negb (str_eqb v0 beginstring) then bad_res silent frame_len
          else
            match split1 61 f1 with
            | (_, None) => bad_res silent frame_len
            | (tag1, Some v1) =>
                if negb (str_eqb tag1 T9) then bad_res silent frame_len
                else
                  match py_int v1 with
                  | None => bad_res silent frame_len
                  | Some bl =>
                     if (bl <? 0)%Z then bad_res silent frame_len else
                      let msg_length := (zlen f0 + zlen f1 + 9 + bl)%Z in
                      if (rawlen - Z.of_nat valid_idx <? msg_length)%Z then bad_res silent (Z.of_nat valid_idx)
                      else
                        let ck_expect := ((sum_codes (join SOHs (removelast fields)) + 1) mod 256) in
                        match fields_loop G ck_expect (mkD [] [] UNKNOWN false) fields with
                        | FExc e => Exc e
                        | FReturnBad => bad_res silent frame_len
                        | FCont st =>
                            if d_ck st then Ok (Some (mkMsg (d_type st) (d_root st)), frame_len, Some encoded)
                            else bad_res silent frame_len
                        end
                  end
            end
      end
  | _ => if has_next then bad_res silent frame_len else bad_res silent (Z.of_nat valid_idx)
  end.

Definition fields_of (encoded : str) : list str :=
  match rev (split_on 1 encoded) with
  | [] :: r => rev r
  | _ => split_on 1 encoded
  end.

(* the provisional end of the frame candidate: the next frame-start marker, or the end of the buffer *)
Definition next0 (msg : str) : nat :=
  match find_sub MARK (skipn 5 msg) with Some k => (k + 5)%nat | None => length msg end.

Lemma decode_eq : forall G bs raw silent,
  decode G bs raw silent =
  match find_sub MARK raw with
  | None => bad_res silent (zlen raw - Z.of_nat (marker_tail raw))%Z
  | Some i =>
      let msg := skipn i raw in
      let has_next := match find_sub MARK (skipn 5 msg) with Some _ => true | None => false end in
      let next_msg := cut_at_checksum msg (next0 msg) in
      let encoded := firstn next_msg msg in
      decode_fields G bs silent (zlen raw) i has_next (Z.of_nat i + Z.of_nat next_msg)%Z encoded (fields_of encoded)
  end.
Proof. reflexivity. Qed.

(* ------------------------------------------------------------------ Part A: framing *)

Lemma firstn_exact : forall {A} (a b : list A), firstn (length a) (a ++ b) = a.
Proof. induction a; intros; cbn; [reflexivity | rewrite IHa; reflexivity]. Qed.

Lemma skipn_exact : forall {A} (a b : list A), skipn (length a) (a ++ b) = b.
Proof. induction a; intros; cbn; [reflexivity | apply IHa]. Qed.

Lemma skipn_app_le : forall {A} n (a b : list A), (n <= length a)%nat -> skipn n (a ++ b) = skipn n a ++ b.
Proof.
  induction n; intros a b H; [reflexivity|].
  destruct a; cbn in *; [lia | apply IHn; lia].
Qed.

Lemma MARK_soh_free : cfree 1 MARK.
Proof. apply cfreeb_spec. reflexivity. Qed.

Lemma MARK_nonempty : MARK <> [].
Proof. discriminate. Qed.

Lemma MARK_no_border : ~ In 56 [61; 70; 73; 88; 46].
Proof. intro I. cbn in I. repeat (destruct I as [I|I]; [discriminate|]). exact I. Qed.

(* marker-free junk cannot complete a marker with the first bytes of what follows *)
Lemma find_mark_junk : forall J X, find_sub MARK J = None -> prefixb MARK X = true ->
  find_sub MARK (J ++ X) = Some (length J).
Proof.
  intros J X HJ HX. apply prefixb_spec in HX as [r Er]. subst X.
  pose proof (find_sub_junk_gen 56 [61; 70; 73; 88; 46] J ([61; 70; 73; 88; 46] ++ r) MARK_no_border HJ) as H.
  assert (Hh : find_sub (56 :: [61; 70; 73; 88; 46]) (56 :: [61; 70; 73; 88; 46] ++ r) = Some 0%nat)
    by (apply find_sub_head; apply (prefixb_app MARK r)).
  rewrite Hh in H. cbn [option_map] in H. rewrite Nat.add_0_r in H. exact H.
Qed.

(* what the framing code needs of a frame F: it starts with the marker, has no second marker, and its
   first "<SOH>10=" is the CheckSum field, which ends the frame *)
Definition CK3 : str := T10 ++ [61].
Definition frame_shape (F : str) : Prop :=
  prefixb MARK F = true /\ find_sub MARK (skipn 5 F) = None
  /\ exists A t, F = A ++ CKSEP ++ t ++ [1] /\ cfree 1 t /\ find_sub CKSEP F = Some (length A).

Lemma find_sub_some_bound : forall p a k, find_sub p a = Some k -> (k + length p <= length a)%nat.
Proof.
  intros p a. induction a as [|x a IH]; intros k H.
  - rewrite find_sub_nil in H. destruct (prefixb p []) eqn:E; [|discriminate]. injection H as H. subst k.
    apply (prefixb_len _ _ E).
  - rewrite find_sub_cons in H. destruct (prefixb p (x :: a)) eqn:E.
    + injection H as H. subst k. apply (prefixb_len _ _ E).
    + destruct (find_sub p a) as [k'|] eqn:F; [|discriminate]. injection H as H. subst k.
      specialize (IH k' eq_refl). cbn [length]. lia.
Qed.

Lemma frame_shape_len : forall F, frame_shape F -> (6 <= length F)%nat.
Proof. intros F [H _]. apply (prefixb_len _ _ H). Qed.

(* the provisional end lies at or behind the end of the frame, whatever follows it *)
Lemma next0_ge : forall F R, frame_shape F -> (length F <= next0 (F ++ R))%nat.
Proof.
  intros F R HS. pose proof (frame_shape_len F HS) as HL. destruct HS as [_ [Hn [A [t [EF _]]]]].
  set (F' := A ++ CKSEP ++ t) in *. assert (EF' : F = F' ++ [1]) by (unfold F'; rewrite EF, <- !app_assoc; reflexivity).
  assert (H5 : (5 <= length F')%nat) by (rewrite EF', app_length in HL; cbn in HL; lia).
  unfold next0. rewrite EF' in *. rewrite (skipn_app_le 5 F' [1] H5) in Hn.
  rewrite <- app_assoc, (skipn_app_le 5 F' ([1] ++ R) H5). cbn [app].
  rewrite (find_sub_sep 1 MARK _ R MARK_soh_free MARK_nonempty (find_sub_none_prefix _ _ _ Hn)).
  rewrite !app_length, skipn_length. cbn [length].
  destruct (find_sub MARK R); cbn [option_map]; lia.
Qed.

Lemma ck_assoc : forall A t X, (A ++ CKSEP ++ t ++ [1]) ++ X = (A ++ [1]) ++ (CK3 ++ t) ++ 1 :: X.
Proof.
  intros. unfold CKSEP, CK3, T10. cbn [app]. rewrite <- !app_assoc. cbn [app]. rewrite <- !app_assoc. reflexivity.
Qed.

(* ... and the CheckSum cut brings it back to exactly the end of the frame *)
Lemma cut_full : forall F R n, frame_shape F -> (length F <= n)%nat -> cut_at_checksum (F ++ R) n = length F.
Proof.
  intros F R n [_ [_ [A [t [EF [Ht Hck]]]]]] Hn. unfold cut_at_checksum.
  rewrite firstn_app, (firstn_all2 F) by lia. set (R2 := firstn (n - length F) R).
  rewrite (find_sub_some_ext CKSEP F R2 _ Hck).
  assert (E : F ++ R2 = (A ++ [1]) ++ (CK3 ++ t) ++ 1 :: R2) by (rewrite EF; apply ck_assoc).
  rewrite E. replace (length A + 1)%nat with (length (A ++ [1])) by (rewrite app_length; cbn; lia).
  rewrite skipn_exact.
  assert (Hc : cfree 1 (CK3 ++ t)) by (apply cfree_app; split; [apply cfreeb_spec; reflexivity | assumption]).
  unfold SOHs. rewrite (find_sub_single 1 (CK3 ++ t) R2 Hc).
  rewrite EF, !app_length. cbn [length CKSEP CK3 T10 app]. lia.
Qed.

(* junk ++ frame ++ anything: the candidate is exactly the frame *)
Lemma decode_frame_gen : forall G bs J F R silent,
  find_sub MARK J = None -> frame_shape F ->
  exists hn, decode G bs (J ++ F ++ R) silent
    = decode_fields G bs silent (zlen (J ++ F ++ R)) (length J) hn (zlen J + zlen F)%Z F (fields_of F).
Proof.
  intros G bs J F R silent HJ HS.
  rewrite decode_eq, (find_mark_junk J (F ++ R) HJ (prefixb_app_r _ _ R (proj1 HS))).
  cbv zeta. rewrite skipn_exact, (cut_full F R _ HS (next0_ge F R HS)), firstn_exact.
  eexists. reflexivity.
Qed.

(* junk ++ proper prefix (>= 6 bytes) of a frame: the candidate is the whole prefix *)
Lemma decode_prefix_gen : forall G bs J F P Q silent,
  find_sub MARK J = None -> frame_shape F -> F = P ++ Q -> Q <> [] -> (6 <= length P)%nat ->
  decode G bs (J ++ P) silent
  = decode_fields G bs silent (zlen (J ++ P)) (length J) false (zlen J + zlen P)%Z P (fields_of P).
Proof.
  intros G bs J F P Q silent HJ [Hm [Hn [A [t [EF [Ht Hck]]]]]] EPQ HQ HP.
  assert (HmP : prefixb MARK P = true) by (rewrite EPQ in Hm; apply (prefixb_app_short _ _ _ Hm); exact HP).
  assert (HnP : find_sub MARK (skipn 5 P) = None).
  { rewrite EPQ, (skipn_app_le 5 P Q) in Hn by lia. apply (find_sub_none_prefix _ _ _ Hn). }
  rewrite decode_eq, (find_mark_junk J P HJ HmP). cbv zeta. rewrite skipn_exact.
  assert (Hnext : next0 P = length P) by (unfold next0; rewrite HnP; reflexivity).
  assert (Hcut : cut_at_checksum P (length P) = length P).
  { unfold cut_at_checksum. rewrite firstn_all.
    destruct (find_sub CKSEP P) as [ci|] eqn:Eci; [|reflexivity].
    pose proof (find_sub_some_ext CKSEP P Q ci Eci) as Hext. rewrite <- EPQ, Hck in Hext. injection Hext as Hext. subst ci.
    pose proof (find_sub_some_bound _ _ _ Eci) as Hb. cbn [length CKSEP T10 app] in Hb.
    assert (E : P ++ Q = (A ++ [1]) ++ (CK3 ++ t) ++ [1]).
    { rewrite <- EPQ, EF. rewrite <- (app_nil_r (A ++ CKSEP ++ t ++ [1])). apply ck_assoc. }
    assert (Hl : exists l, P = (A ++ [1]) ++ l /\ (CK3 ++ t) ++ [1] = l ++ Q).
    { apply app_eq_app in E as [l [[E1 E2]|[E1 E2]]]; [exists l; split; assumption|].
      assert (l = []).
      { apply (f_equal (@length N)) in E1. rewrite !app_length in E1. cbn [length] in E1.
        destruct l; [reflexivity | cbn [length] in E1; lia]. }
      subst l. rewrite app_nil_r in E1. exists []. rewrite app_nil_r. split; [symmetry; assumption | cbn [app] in *; congruence]. }
    destruct Hl as [l [E1 E2]].
    destruct (exists_last HQ) as [Q' [q EQ]]. rewrite EQ, app_assoc in E2. apply app_inj_tail in E2 as [E2 _].
    assert (Hl : cfree 1 l).
    { assert (Hc : cfree 1 (CK3 ++ t)) by (apply cfree_app; split; [apply cfreeb_spec; reflexivity | assumption]).
      rewrite E2 in Hc. apply cfree_app in Hc. tauto. }
    rewrite E1. replace (length A + 1)%nat with (length (A ++ [1])) by (rewrite app_length; cbn; lia).
    rewrite skipn_exact. unfold SOHs. rewrite (find_sub_single_none 1 l Hl). reflexivity. }
  rewrite Hnext, Hcut, firstn_all, HnP. reflexivity.
Qed.

(* no marker in the buffer: everything but a trailing proper prefix of the marker is dropped *)
Lemma decode_no_marker : forall G bs raw, find_sub MARK raw = None ->
  decode G bs raw true = Ok (None, (zlen raw - Z.of_nat (marker_tail raw))%Z, None).
Proof. intros G bs raw H. rewrite decode_eq, H. reflexivity. Qed.

(* the field list of a frame made of SOH-free fields, each followed by SOH *)
Lemma fields_of_flat : forall fs, Forall (cfree 1) fs -> fields_of (flat fs) = fs.
Proof.
  intros fs H. unfold fields_of. rewrite (split_on_flat fs H), rev_app_distr. cbn [rev app].
  apply rev_involutive.
Qed.

Lemma zlen_app : forall {A} (a b : list A), zlen (a ++ b) = (zlen a + zlen b)%Z.
Proof. intros. unfold zlen. rewrite app_length. lia. Qed.

(* the decision on a complete, consistent field list *)
Lemma decode_fields_ok : forall G bs silent rawlen idx hn flen encoded t0 f1v f2 rest bl st,
  cfree 61 t0 -> py_int f1v = Some bl -> (0 <= bl)%Z ->
  (zlen (field t0 bs) + zlen (field T9 f1v) + 9 + bl <= rawlen - Z.of_nat idx)%Z ->
  let fields := field t0 bs :: field T9 f1v :: f2 :: rest in
  fields_loop G ((sum_codes (join SOHs (removelast fields)) + 1) mod 256) (mkD [] [] UNKNOWN false) fields = FCont st ->
  d_ck st = true ->
  decode_fields G bs silent rawlen idx hn flen encoded fields =
  Ok (Some (mkMsg (d_type st) (d_root st)), flen, Some encoded).
Proof.
  intros G bs silent rawlen idx hn flen encoded t0 f1v f2 rest bl st Ht0 Hbl Hpos Hlen fields Hloop Hck.
  unfold decode_fields. subst fields. cbv zeta in Hloop.
  unfold field at 1. rewrite (split1_field 61 t0 bs Ht0). rewrite str_eqb_refl. cbn [negb].
  unfold field at 1, T9. rewrite (split1_field 61 [57] f1v) by (intros [E|[]]; discriminate).
  fold T9. rewrite str_eqb_refl. cbn [negb]. rewrite Hbl.
  fold (field t0 bs). fold (field T9 f1v).
  destruct (bl <? 0)%Z eqn:E0; [lia|].
  destruct (rawlen - Z.of_nat idx <? _)%Z eqn:E; [lia|].
  rewrite Hloop, Hck. reflexivity.
Qed.

(* ------------------------------------------------------------------ Part B: the encoder's frame *)

Lemma flat_concat : forall fs, concat (map (fun f => f ++ SOHs) fs) = flat fs.
Proof. reflexivity. Qed.

Definition enc_frame (bs : str) (m : message) (sess : session) (seq time : str) (rest : list str) : str :=
  let fields := field T49 (sender sess) :: field T56 (target sess) :: field T34 seq :: field T52 time :: rest in
  let body := join SOHs fields ++ SOHs in
  let mt := field T35 (msg_type m) in
  let blen := N.of_nat (length body + length mt + 1) in
  let header := [field T8 bs; field T9 (n_to_dec blen); mt] in
  let fixmsg := join SOHs header ++ SOHs ++ body in
  fixmsg ++ field T10 (fmt03 (checksum fixmsg)) ++ SOHs.

Lemma encode_eq : forall bs m sess time raw,
  encode bs m sess time raw =
  match select_seq m sess raw with
  | Exc e => Exc e
  | Ok (seq, sess') =>
      match render_body (msg_tags m) with
      | Exc e => Exc e
      | Ok rest => Ok (enc_frame bs m sess seq time rest, sess')
      end
  end.
Proof.
  intros. unfold encode, bind. destruct (select_seq m sess raw) as [[seq s']|e]; [|reflexivity].
  destruct (render_body (msg_tags m)); reflexivity.
Qed.

Lemma enc_frame_flat : forall bs m sess seq time rest,
  render_body (msg_tags m) = Ok rest ->
  enc_frame bs m sess seq time rest = flat (frame_fields bs m sess seq time).
Proof.
  intros bs m sess seq time rest Er.
  unfold enc_frame, frame_fields, enc_ck, enc_blen, enc_fields, render_total, fields_len. rewrite Er. rewrite !flat_concat.
  cbv zeta.
  set (bf := field T49 (sender sess) :: field T56 (target sess) :: field T34 seq :: field T52 time :: rest).
  set (mt := field T35 (msg_type m)).
  assert (Hb : join SOHs bf ++ SOHs = flat bf) by (apply join_flat; discriminate).
  assert (Hl : (length (join SOHs bf ++ SOHs) + length mt + 1 = length (flat (mt :: bf)))%nat).
  { rewrite Hb, flat_cons, app_length. cbn [length]. lia. }
  rewrite Hl. set (f9 := field T9 (n_to_dec (N.of_nat (length (flat (mt :: bf)))))).
  change (join SOHs [field T8 bs; f9; mt]) with (field T8 bs ++ [1] ++ f9 ++ [1] ++ mt).
  rewrite Hb.
  assert (Hm : (field T8 bs ++ [1] ++ f9 ++ [1] ++ mt) ++ SOHs ++ flat bf = flat (field T8 bs :: f9 :: mt :: bf)).
  { rewrite !flat_cons. unfold SOHs. rewrite <- !app_assoc. reflexivity. }
  rewrite Hm.
  change (field T8 bs :: f9 :: (mt :: bf) ++ [field T10 (fmt03 (checksum (flat (field T8 bs :: f9 :: mt :: bf))))])
    with ((field T8 bs :: f9 :: mt :: bf) ++ [field T10 (fmt03 (checksum (flat (field T8 bs :: f9 :: mt :: bf))))]).
  rewrite flat_app. f_equal. rewrite flat_cons. cbn [flat map concat]. rewrite app_nil_r.
  unfold SOHs. rewrite <- app_assoc. reflexivity.
Qed.

Lemma encode_shape : forall bs m sess time raw frame sess',
  encode bs m sess time raw = Ok (frame, sess') ->
  exists seq rest, select_seq m sess raw = Ok (seq, sess') /\ render_body (msg_tags m) = Ok rest
    /\ frame = flat (frame_fields bs m sess seq time).
Proof.
  intros bs m sess time raw frame sess' H. rewrite encode_eq in H.
  destruct (select_seq m sess raw) as [[seq s']|e] eqn:Es; [|discriminate].
  destruct (render_body (msg_tags m)) as [rest|e] eqn:Er; [|discriminate].
  exists seq, rest. rewrite <- (enc_frame_flat bs m sess seq time rest Er).
  split; [congruence|]. split; [reflexivity | congruence].
Qed.

(* ------------------------------------------------------------------ Part C: containers and single steps *)

Lemma mem_str_In : forall x l, mem_str x l = true <-> In x l.
Proof.
  intros x l. unfold mem_str. rewrite existsb_exists. split.
  - intros [y [I E]]. apply str_eqb_eq in E. subst. assumption.
  - intro I. exists x. split; [assumption | apply str_eqb_refl].
Qed.

Lemma mem_str_false : forall x l, mem_str x l = false <-> ~ In x l.
Proof.
  intros x l. split; intro H.
  - intro I. apply mem_str_In in I. congruence.
  - destruct (mem_str x l) eqn:E; [apply mem_str_In in E; contradiction | reflexivity].
Qed.

Lemma mem_str_cons : forall x y l, mem_str x (y :: l) = str_eqb x y || mem_str x l.
Proof. reflexivity. Qed.

Lemma ct_get_none : forall t c, ct_get t c = None <-> mem_str t (map fst c) = false.
Proof.
  intros t c. induction c as [|[k v] c IH]; cbn [ct_get map fst]; [split; reflexivity|].
  rewrite mem_str_cons, (str_eqb_sym t k). destruct (str_eqb k t); cbn [orb]; [split; discriminate | exact IH].
Qed.

Lemma ct_get_some : forall t c, mem_str t (map fst c) = true -> exists v, ct_get t c = Some v.
Proof.
  intros t c H. destruct (ct_get t c) eqn:E; [eexists; reflexivity|].
  apply ct_get_none in E. congruence.
Qed.

Lemma ct_get_app : forall t a b,
  ct_get t (a ++ b) = match ct_get t a with Some v => Some v | None => ct_get t b end.
Proof.
  intros t a b. induction a as [|[k v] a IH]; cbn [app ct_get]; [reflexivity|].
  destruct (str_eqb k t); [reflexivity | exact IH].
Qed.

Lemma ct_put_new : forall t v c, ct_get t c = None -> ct_put t v c = c ++ [(t, v)].
Proof.
  intros t v c. induction c as [|[k w] c IH]; cbn [ct_get ct_put app]; intro H; [reflexivity|].
  destruct (str_eqb k t); [discriminate | rewrite (IH H); reflexivity].
Qed.

Lemma ct_put_last : forall t v w c, ct_get t c = None -> ct_put t v (c ++ [(t, w)]) = c ++ [(t, v)].
Proof.
  intros t v w c. induction c as [|[k u] c IH]; cbn [ct_get ct_put app]; intro H.
  - rewrite str_eqb_refl. reflexivity.
  - destruct (str_eqb k t); [discriminate | rewrite (IH H); reflexivity].
Qed.

Lemma ct_mem_false : forall t c, ct_get t c = None -> ct_mem t c = false.
Proof. intros t c H. unfold ct_mem. rewrite H. reflexivity. Qed.

Lemma ct_set_new : forall t s c, has_int t = true -> ct_get t c = None -> ct_set t s c = Ok (c ++ [(t, VStr s)]).
Proof.
  intros t s c Hi Hg. unfold ct_set. unfold has_int in Hi. destruct (py_int t); [|discriminate].
  rewrite (ct_mem_false _ _ Hg), (ct_put_new _ _ _ Hg). reflexivity.
Qed.

(* the group entry a parent holds for a child whose [done] items are closed *)
Definition pend (t : str) (done : list container) : container :=
  match done with [] => [] | _ => [(t, VGrp done)] end.

Lemma ct_add_group_pend : forall t it b done, ct_get t b = None ->
  ct_add_group t it (b ++ pend t done) = Ok (b ++ pend t (done ++ [it])).
Proof.
  intros t it b done H. unfold ct_add_group. rewrite ct_get_app, H.
  destruct done as [|d done]; cbn [pend app ct_get].
  - rewrite !app_nil_r. rewrite (ct_put_new _ _ _ H). reflexivity.
  - rewrite str_eqb_refl. rewrite (ct_put_last _ _ _ _ H).
    destruct (d :: done ++ [it]) eqn:E; [discriminate|]. rewrite <- E. reflexivity.
Qed.

(* ---------- frames: the contexts below the dangling ones, and the root ---------- *)

Definition frame := (list ctx * container)%type.

Definition top (fr : frame) : container :=
  match fst fr with [] => snd fr | k :: _ => c_tags k end.

Definition set_top (fr : frame) (b : container) : frame :=
  match fst fr with
  | [] => ([], b)
  | k :: rest => (mkCtx (c_tag k) (c_members k) b :: rest, snd fr)
  end.

Definition accepts (fr : frame) (t : str) : Prop :=
  match fst fr with [] => True | k :: _ => mem_str t (c_members k) = true end.

Definition mkst (D : list ctx) (fr : frame) (ty : str) (ckf : bool) : dst :=
  mkD (snd fr) (D ++ fst fr) ty ckf.

Lemma top_set_top : forall fr b, top (set_top fr b) = b.
Proof. intros [[|k K] root] b; reflexivity. Qed.

Lemma set_top_set_top : forall fr b b', set_top (set_top fr b) b' = set_top fr b'.
Proof. intros [[|k K] root] b b'; reflexivity. Qed.

Lemma set_top_top : forall fr, set_top fr (top fr) = fr.
Proof. intros [[|[t ms tg] K] root]; reflexivity. Qed.

Lemma accepts_set_top : forall fr b t, accepts (set_top fr b) t <-> accepts fr t.
Proof. intros [[|k K] root] b t; cbn; tauto. Qed.

(* pushing a context on a frame *)
Definition push (c : ctx) (fr : frame) : frame := (c :: fst fr, snd fr).

Lemma mkst_push : forall D c fr ty ckf, mkst (D ++ [c]) fr ty ckf = mkst D (push c fr) ty ckf.
Proof. intros. unfold mkst, push. cbn [fst snd]. rewrite <- app_assoc. reflexivity. Qed.

Lemma top_push : forall c fr, top (push c fr) = c_tags c.
Proof. reflexivity. Qed.

Lemma set_top_push : forall t ms tg fr b, set_top (push (mkCtx t ms tg) fr) b = push (mkCtx t ms b) fr.
Proof. reflexivity. Qed.

(* ---------- closing dangling contexts ---------- *)

Fixpoint collapse_p (p : option (str * container)) (D : list ctx) : result (option (str * container)) :=
  match D with
  | [] => Ok p
  | c :: D' => do tg <- add_pending p (c_tags c); collapse_p (Some (c_tag c, tg)) D'
  end.

Definition collapse (p : option (str * container)) (D : list ctx) (k : container) : result container :=
  do p' <- collapse_p p D; add_pending p' k.

Definition nonmem (t : str) (D : list ctx) : Prop := Forall (fun c => mem_str t (c_members c) = false) D.

Lemma pop_while_collapse : forall tag D fr p b,
  nonmem tag D -> accepts fr tag -> collapse p D (top fr) = Ok b ->
  pop_while tag (D ++ fst fr) p (snd fr) = Ok (set_top fr b).
Proof.
  intros tag D. induction D as [|c D IH]; intros [K root] p b Hn Ha Hc; cbn [app fst snd].
  - unfold collapse in Hc. cbn [collapse_p bind] in Hc. unfold top, set_top, accepts in *. cbn [fst snd] in *.
    destruct K as [|k rest]; cbn [pop_while].
    + rewrite Hc. reflexivity.
    + rewrite Hc. cbn [bind c_members c_tag c_tags]. rewrite Ha. reflexivity.
  - inversion Hn as [|? ? Hc1 Hn']; subst.
    unfold collapse in Hc. cbn [collapse_p] in Hc. cbn [pop_while].
    destruct (add_pending p (c_tags c)) as [tg|e]; [|discriminate]. cbn [bind] in *.
    cbn [c_members c_tag c_tags]. rewrite Hc1.
    apply (IH (K, root)); assumption.
Qed.

Lemma collapse_app : forall D1 D2 p k,
  collapse p (D1 ++ D2) k = do p' <- collapse_p p D1; collapse p' D2 k.
Proof.
  induction D1 as [|c D1 IH]; intros D2 p k; [reflexivity|].
  unfold collapse in *. cbn [app collapse_p].
  destruct (add_pending p (c_tags c)); [|reflexivity]. cbn [bind]. apply IH.
Qed.

Lemma collapse_nil : forall k, collapse None [] k = Ok k.
Proof. reflexivity. Qed.

(* ---------- one field: bookkeeping part and structural part ---------- *)

Definition pre (ck_expect : N) (st : dst) (tag val : str) : result dst :=
  if str_eqb tag T10 then
    Ok (mkD (d_root st) (d_stack st) (d_type st) (three_digits val && Z.eqb (Z.of_N ck_expect) (digits_value val)))
  else if str_eqb tag T35 then Ok (mkD (d_root st) (d_stack st) val (d_ck st))
  else Ok st.

Definition post (G : group_table) (tag val : str) (st : dst) : fstep :=
  match lookup_group G tag with
  | Some members =>
      match (match d_stack st with
             | [] => Ok ([], d_root st)
             | _ => pop_while tag (d_stack st) None (d_root st)
             end) with
      | Exc e => FExc e
      | Ok (stack, root) => FCont (mkD root (mkCtx tag members [] :: stack) (d_type st) (d_ck st))
      end
  | None =>
      match d_stack st with
      | [] =>
          if ct_mem tag (d_root st) then
            match py_int tag with
            | None => FExc EFIXMessage
            | Some _ => FCont (mkD (ct_put tag VErr (d_root st)) [] (d_type st) (d_ck st))
            end
          else
            match ct_set tag val (d_root st) with
            | Exc e => FExc e
            | Ok r => FCont (mkD r [] (d_type st) (d_ck st))
            end
      | _ =>
          match pop_while tag (d_stack st) None (d_root st) with
          | Exc e => FExc e
          | Ok ([], root) =>
              if ct_mem tag root then FCont (mkD (ct_put tag VErr root) [] (d_type st) (d_ck st))
              else match ct_set tag val root with
                   | Exc e => FExc e
                   | Ok r => FCont (mkD r [] (d_type st) (d_ck st))
                   end
          | Ok (c :: rest, root) =>
              if ct_mem tag (c_tags c) then
                let fresh := mkCtx (c_tag c) (c_members c) [] in
                match (match rest with
                       | [] => do r <- ct_add_group (c_tag c) (c_tags c) root; Ok ([], r)
                       | p :: rest' =>
                           do tg <- ct_add_group (c_tag c) (c_tags c) (c_tags p);
                           Ok (mkCtx (c_tag p) (c_members p) tg :: rest', root)
                       end) with
                | Exc e => FExc e
                | Ok (rest2, root2) =>
                    match ct_set tag val [] with
                    | Exc e => FExc e
                    | Ok tg => FCont (mkD root2 (mkCtx (c_tag c) (c_members c) tg :: rest2) (d_type st) (d_ck st))
                    end
                end
              else
                match ct_set tag val (c_tags c) with
                | Exc e => FExc e
                | Ok tg => FCont (mkD root (mkCtx (c_tag c) (c_members c) tg :: rest) (d_type st) (d_ck st))
                end
          end
      end
  end.

Lemma field_step_eq : forall G ck st m,
  field_step G ck st m =
  match split1 61 m with
  | (_, None) => FReturnBad
  | (tag, Some val) =>
      match py_int tag with
      | None => FReturnBad
      | Some _ =>
          match pre ck st tag val with
          | Exc e => FExc e
          | Ok st => post G tag val st
          end
      end
  end.
Proof. reflexivity. Qed.

Lemma field_step_field : forall G ck st tag val, cfree 61 tag -> has_int tag = true ->
  field_step G ck st (field tag val) =
  match pre ck st tag val with Exc e => FExc e | Ok st => post G tag val st end.
Proof.
  intros G ck st tag val H Hi. rewrite field_step_eq. unfold field. rewrite split1_field by assumption.
  unfold has_int in Hi. destruct (py_int tag); [reflexivity | discriminate].
Qed.

Lemma pre_other : forall ck st tag val, str_eqb tag T10 = false -> str_eqb tag T35 = false ->
  pre ck st tag val = Ok st.
Proof. intros ck st tag val H1 H2. unfold pre. rewrite H1, H2. reflexivity. Qed.

Lemma app_nil_both : forall {A} (a b : list A), a ++ b = [] -> a = [] /\ b = [].
Proof. intros A a b H. destruct a; [split; [reflexivity | assumption] | discriminate]. Qed.

(* a plain tag: dangling contexts are closed, the field is appended to the current container *)
Lemma post_plain : forall G tag val D fr ty ckf b,
  lookup_group G tag = None -> has_int tag = true ->
  nonmem tag D -> accepts fr tag -> collapse None D (top fr) = Ok b -> ct_get tag b = None ->
  post G tag val (mkst D fr ty ckf) = FCont (mkst [] (set_top fr (b ++ [(tag, VStr val)])) ty ckf).
Proof.
  intros G tag val D fr ty ckf b Hl Hi Hn Ha Hc Hg.
  unfold post. rewrite Hl. unfold mkst. cbn [d_stack d_root d_type d_ck].
  destruct (D ++ fst fr) as [|c0 l0] eqn:E.
  - apply app_nil_both in E as [ED EK]. subst D. destruct fr as [K root]. cbn [fst snd] in *. subst K.
    cbn in Hc. injection Hc as Hc. subst b.
    rewrite (ct_mem_false _ _ Hg), (ct_set_new _ val _ Hi Hg). reflexivity.
  - rewrite <- E. rewrite (pop_while_collapse tag D fr None b Hn Ha Hc).
    destruct fr as [[|k rest] root]; unfold set_top; cbn [fst snd].
    + rewrite (ct_mem_false _ _ Hg), (ct_set_new _ val _ Hi Hg). reflexivity.
    + cbn [c_tags c_tag c_members]. rewrite (ct_mem_false _ _ Hg), (ct_set_new _ val _ Hi Hg). reflexivity.
Qed.

(* a group tag: dangling contexts are closed, a fresh context is pushed *)
Lemma post_group : forall G tag val ms D fr ty ckf b,
  lookup_group G tag = Some ms ->
  nonmem tag D -> accepts fr tag -> collapse None D (top fr) = Ok b ->
  post G tag val (mkst D fr ty ckf) = FCont (mkst [] (push (mkCtx tag ms []) (set_top fr b)) ty ckf).
Proof.
  intros G tag val ms D fr ty ckf b Hl Hn Ha Hc.
  unfold post. rewrite Hl. unfold mkst. cbn [d_stack d_root d_type d_ck].
  destruct (D ++ fst fr) as [|c0 l0] eqn:E.
  - apply app_nil_both in E as [ED EK]. subst D. destruct fr as [K root]. cbn [fst snd] in *. subst K.
    cbn in Hc. injection Hc as Hc. subst b. reflexivity.
  - rewrite <- E. rewrite (pop_while_collapse tag D fr None b Hn Ha Hc).
    destruct (set_top fr b) as [K' root']. reflexivity.
Qed.

(* a plain tag the current item already has: the item is closed and the next one started *)
Lemma post_next_item : forall G tag val D g ms cur fr ty ckf it done pb,
  lookup_group G tag = None -> has_int tag = true ->
  nonmem tag D -> mem_str tag ms = true -> collapse None D cur = Ok it ->
  mem_str tag (map fst it) = true ->
  top fr = pb ++ pend g done -> ct_get g pb = None ->
  post G tag val (mkst D (push (mkCtx g ms cur) fr) ty ckf) =
  FCont (mkst [] (push (mkCtx g ms [(tag, VStr val)]) (set_top fr (pb ++ pend g (done ++ [it])))) ty ckf).
Proof.
  intros G tag val D g ms cur fr ty ckf it done pb Hl Hi Hn Hm Hc Hin Htop Hg.
  unfold post. rewrite Hl. unfold mkst. cbn [d_stack d_root d_type d_ck].
  assert (E : exists c0 l0, D ++ fst (push (mkCtx g ms cur) fr) = c0 :: l0).
  { unfold push. cbn [fst]. destruct D; cbn; eauto. }
  destruct E as [c0 [l0 E]]. rewrite E, <- E.
  rewrite (pop_while_collapse tag D (push (mkCtx g ms cur) fr) None it Hn Hm Hc).
  rewrite set_top_push. unfold push. cbn [fst snd c_tags c_tag c_members].
  unfold ct_mem. destruct (ct_get_some _ _ Hin) as [v Hv]. rewrite Hv.
  assert (Hs : ct_set tag val [] = Ok [(tag, VStr val)]) by (apply (ct_set_new tag val [] Hi); reflexivity).
  destruct fr as [[|p rest'] root]; unfold top, set_top in *; cbn [fst snd] in *.
  - rewrite Htop, (ct_add_group_pend g it pb done Hg). cbn [bind]. rewrite Hs. reflexivity.
  - rewrite Htop, (ct_add_group_pend g it pb done Hg). cbn [bind]. rewrite Hs. reflexivity.
Qed.

(* ------------------------------------------------------------------ the printer as a total function *)

Lemma value_ind2 : forall (P : value -> Prop),
  (forall s, P (VStr s)) -> P VErr ->
  (forall items, Forall (Forall (fun tv => P (snd tv))) items -> P (VGrp items)) ->
  forall v, P v.
Proof.
  intros P HS HE HG. fix IH 1. intros [s|items|]; [apply HS | | apply HE].
  apply HG. revert items. fix IHitems 1. intros [|it items]; constructor; [|apply IHitems].
  revert it. fix IHit 1. intros [|[t v] it]; constructor; [apply IH | apply IHit].
Qed.

Fixpoint vfields (t : str) (v : value) {struct v} : list str :=
  match v with
  | VStr s => [field t s]
  | VErr => []
  | VGrp items =>
      field t (n_to_dec (N.of_nat (length items)))
      :: concat (map (fun it => concat (map (fun tv => vfields (fst tv) (snd tv)) it)) items)
  end.

Definition cfields (c : container) : list str := concat (map (fun tv => vfields (fst tv) (snd tv)) c).

Lemma vfields_grp : forall t items,
  vfields t (VGrp items) = field t (n_to_dec (N.of_nat (length items))) :: concat (map cfields items).
Proof. reflexivity. Qed.

Lemma cfields_cons : forall t v c, cfields ((t, v) :: c) = vfields t v ++ cfields c.
Proof. reflexivity. Qed.

Lemma cfields_app : forall a b, cfields (a ++ b) = cfields a ++ cfields b.
Proof. intros. unfold cfields. rewrite map_app, concat_app. reflexivity. Qed.

(* the monadic printer agrees with the total one whenever it succeeds *)
Lemma render_value_fields : forall v t fs, render_value t v = Ok fs -> fs = vfields t v.
Proof.
  induction v as [s| |items IH] using value_ind2; intros t fs H.
  - cbn [render_value] in H. injection H as H. subst fs. reflexivity.
  - discriminate.
  - rewrite vfields_grp. cbn [render_value] in H.
    set (item_go := fix item_go (it : list (str * value)) : result (list str) :=
           match it with
           | [] => Ok []
           | (t', v') :: it' => do a <- render_value t' v'; do b <- item_go it'; Ok (a ++ b)
           end) in H.
    set (items_go := fix items_go (items : list (list (str * value))) : result (list str) :=
           match items with
           | [] => Ok []
           | it :: rest => do a <- item_go it; do b <- items_go rest; Ok (a ++ b)
           end) in H.
    assert (Hit : forall it, Forall (fun tv => forall t fs, render_value t (snd tv) = Ok fs -> fs = vfields t (snd tv)) it ->
                  forall r, item_go it = Ok r -> r = cfields it).
    { induction it as [|[t' v'] it IHit]; intros HF r Hr.
      - change (@Ok (list str) [] = Ok r) in Hr. injection Hr as Hr. subst r. reflexivity.
      - inversion HF as [|? ? H1 H2]; subst.
        change ((do a <- render_value t' v'; do b <- item_go it; Ok (a ++ b)) = Ok r) in Hr.
        destruct (render_value t' v') as [a|] eqn:Ea; [|discriminate]. cbn [bind] in Hr.
        destruct (item_go it) as [b|] eqn:Eb; [|discriminate]. cbn [bind] in Hr.
        injection Hr as Hr. subst r. rewrite cfields_cons.
        cbn [snd] in H1. rewrite (H1 t' a Ea), (IHit H2 b eq_refl). reflexivity. }
    assert (Hits : forall its, Forall (Forall (fun tv => forall t fs, render_value t (snd tv) = Ok fs -> fs = vfields t (snd tv))) its ->
                   forall r, items_go its = Ok r -> r = concat (map cfields its)).
    { induction its as [|it its IHits]; intros HF r Hr.
      - change (@Ok (list str) [] = Ok r) in Hr. injection Hr as Hr. subst r. reflexivity.
      - inversion HF as [|? ? H1 H2]; subst.
        change ((do a <- item_go it; do b <- items_go its; Ok (a ++ b)) = Ok r) in Hr.
        destruct (item_go it) as [a|] eqn:Ea; [|discriminate]. cbn [bind] in Hr.
        destruct (items_go its) as [b|] eqn:Eb; [|discriminate]. cbn [bind] in Hr.
        injection Hr as Hr. subst r. cbn [map concat].
        rewrite (Hit it H1 a Ea), (IHits H2 b eq_refl). reflexivity. }
    destruct (items_go items) as [r|] eqn:Er; [|discriminate]. cbn [bind] in H.
    injection H as H. subst fs. rewrite (Hits items IH r Er). reflexivity.
Qed.

Lemma render_body_fields : forall c fs, render_body c = Ok fs ->
  fs = cfields (filter (fun tv => negb (mem_str (fst tv) skip_tags)) c).
Proof.
  induction c as [|[t v] c IH]; intros fs H.
  - cbn [render_body] in H. injection H as H. subst fs. reflexivity.
  - cbn [render_body] in H. cbn [filter fst].
    destruct (mem_str t skip_tags); cbn [negb].
    + apply IH. assumption.
    + destruct (render_value t v) as [a|] eqn:Ea; [|discriminate]. cbn [bind] in H.
      destruct (render_body c) as [b|] eqn:Eb; [|discriminate]. cbn [bind] in H.
      injection H as H. subst fs. rewrite cfields_cons, (render_value_fields _ _ _ Ea), (IH b eq_refl). reflexivity.
Qed.

(* ------------------------------------------------------------------ reading the boolean predicates *)

Lemma soh_free_spec : forall s, soh_free s = true <-> cfree 1 s.
Proof. intro s. exact (cfreeb_spec 1 s). Qed.

Lemma eq_free_spec : forall s, eq_free s = true <-> cfree 61 s.
Proof. intro s. exact (cfreeb_spec 61 s). Qed.

Lemma tag_ok_spec : forall t, tag_ok t = true -> cfree 1 t /\ cfree 61 t /\ has_int t = true.
Proof.
  intros t H. unfold tag_ok in H. apply andb_true_iff in H as [H H3]. apply andb_true_iff in H as [H1 H2].
  split; [apply soh_free_spec; assumption | split; [apply eq_free_spec; assumption | assumption]].
Qed.

Lemma is_key_false : forall G t, is_key G t = false <-> lookup_group G t = None.
Proof. intros G t. unfold is_key. destruct (lookup_group G t); split; congruence. Qed.

Lemma wf_value_str : forall G t s, wf_value G t (VStr s) = true -> lookup_group G t = None /\ cfree 1 s.
Proof.
  intros G t s H. cbn [wf_value] in H. apply andb_true_iff in H as [H1 H2].
  split; [apply is_key_false; destruct (is_key G t); [discriminate | reflexivity] | apply soh_free_spec; assumption].
Qed.

Definition wf_entry (G : group_table) (ms : list str) (tv : str * value) : Prop :=
  tag_ok (fst tv) = true /\ mem_str (fst tv) ms = true /\ wf_value G (fst tv) (snd tv) = true.

Lemma wf_value_grp : forall G t items, wf_value G t (VGrp items) = true ->
  exists ms, lookup_group G t = Some ms /\ items <> []
    /\ Forall (fun it => Forall (wf_entry G ms) it /\ item_shape G it = true) items
    /\ items_chain_ok G items = true.
Proof.
  intros G t items H. cbn [wf_value] in H.
  destruct (lookup_group G t) as [ms|]; [|discriminate]. exists ms. split; [reflexivity|].
  apply andb_true_iff in H as [H Hchain]. apply andb_true_iff in H as [H Hne].
  split; [destruct items; [discriminate | discriminate]|]. split; [|assumption].
  clear Hne Hchain. induction items as [|it items IH]; [constructor|].
  apply andb_true_iff in H as [H Hrest]. apply andb_true_iff in H as [Hent Hshape].
  constructor; [|apply IH; assumption]. split; [|assumption].
  clear Hshape Hrest IH. induction it as [|[t' v'] it IHit]; [constructor|].
  apply andb_true_iff in Hent as [Hent Hrest]. apply andb_true_iff in Hent as [Hent Hwf].
  apply andb_true_iff in Hent as [Htag Hmem].
  constructor; [split; [|split]; assumption | apply IHit; assumption].
Qed.

Lemma last_entry_cons : forall {A} (x : A) l,
  last_entry (x :: l) = match l with [] => Some x | _ :: _ => last_entry l end.
Proof. intros. destruct l; reflexivity. Qed.

Lemma open_members_grp : forall G t items,
  open_members G t (VGrp items) =
  match last_entry items with Some it => last_open G it | None => [] end
  ++ [match lookup_group G t with Some ms => ms | None => [] end].
Proof.
  intros G t items. cbn [open_members]. f_equal.
  induction items as [|it items IH]; [reflexivity|].
  rewrite last_entry_cons. destruct items as [|it2 items]; [|exact IH].
  clear IH. unfold last_open. induction it as [|[t' v'] it IHit]; [reflexivity|].
  rewrite last_entry_cons. destruct it as [|e it]; [reflexivity | exact IHit].
Qed.

Lemma open_members_str : forall G t s, open_members G t (VStr s) = [].
Proof. reflexivity. Qed.

Lemma last_open_cons : forall G t v c,
  last_open G ((t, v) :: c) = match c with [] => open_members G t v | _ :: _ => last_open G c end.
Proof. intros. unfold last_open. rewrite last_entry_cons. destruct c; reflexivity. Qed.

Lemma Forall_concat : forall {A} (P : A -> Prop) ls, Forall (Forall P) ls -> Forall P (concat ls).
Proof.
  induction ls as [|l ls IH]; intro H; [constructor|]. inversion H; subst. cbn. apply Forall_app. split; [assumption | apply IH; assumption].
Qed.

Lemma field_soh_free : forall t v, cfree 1 t -> cfree 1 v -> cfree 1 (field t v).
Proof.
  intros t v Ht Hv. unfold field. apply cfree_app. split; [assumption|]. apply cfree_cons. split; [discriminate | assumption].
Qed.

(* every field the encoder renders for a well-formed value is SOH-free *)
Lemma vfields_soh_free : forall G v t, cfree 1 t -> wf_value G t v = true -> Forall (cfree 1) (vfields t v).
Proof.
  intros G v. induction v as [s| |items IH] using value_ind2; intros t Ht Hwf.
  - apply wf_value_str in Hwf as [_ Hs]. constructor; [apply field_soh_free; assumption | constructor].
  - discriminate.
  - rewrite vfields_grp. destruct (wf_value_grp _ _ _ Hwf) as [ms [_ [_ [Hitems _]]]].
    constructor; [apply field_soh_free; [assumption | apply n_to_dec_cfree; reflexivity]|].
    apply Forall_concat. apply Forall_map.
    clear Hwf. induction items as [|it items IHitems]; [constructor|].
    inversion IH as [|? ? IHit IHrest]; subst. inversion Hitems as [|? ? [Hent _] Hrest]; subst.
    constructor; [|apply IHitems; assumption].
    unfold cfields. apply Forall_concat. apply Forall_map.
    clear - IHit Hent. induction it as [|[t' v'] it IHi]; [constructor|].
    inversion IHit; subst. inversion Hent as [|? ? [Htag [_ Hw]] ?]; subst.
    constructor; [|apply IHi; assumption]. cbn [fst snd] in *.
    apply H1; [apply (tag_ok_spec _ Htag) | assumption].
Qed.

(* ------------------------------------------------------------------ Part D: the field loop on values *)

Lemma fields_loop_app : forall G ck a b st,
  fields_loop G ck st (a ++ b) =
  match fields_loop G ck st a with FCont st' => fields_loop G ck st' b | other => other end.
Proof.
  intros G ck a. induction a as [|f a IH]; intros b st; [reflexivity|].
  cbn [app fields_loop]. destruct (field_step G ck st f); try reflexivity. apply IH.
Qed.

Lemma fields_loop_one : forall G ck st f, fields_loop G ck st [f] = field_step G ck st f.
Proof. intros. cbn [fields_loop]. destruct (field_step G ck st f); reflexivity. Qed.

Lemma fields_loop_cons : forall G ck st f fs,
  fields_loop G ck st (f :: fs) =
  match field_step G ck st f with FCont st' => fields_loop G ck st' fs | other => other end.
Proof. reflexivity. Qed.

Lemma free_of_nonmem : forall t D, free_of t (map c_members D) = true -> nonmem t D.
Proof.
  intros t D. induction D as [|c D IH]; intro H; [constructor|].
  cbn [map free_of forallb] in H. apply andb_true_iff in H as [H1 H2].
  constructor; [destruct (mem_str t (c_members c)); [discriminate | reflexivity] | apply IH; assumption].
Qed.

Lemma last_entry_snoc : forall {A} (l : list A) x, last_entry (l ++ [x]) = Some x.
Proof.
  induction l as [|y l IH]; intro x; [reflexivity|].
  cbn [app]. rewrite last_entry_cons. destruct (l ++ [x]) eqn:E; [destruct l; discriminate|]. rewrite <- E. apply IH.
Qed.

Lemma last_entry_none : forall {A} (l : list A), last_entry l = None -> l = [].
Proof.
  induction l as [|x l IH]; intro H; [reflexivity|].
  rewrite last_entry_cons in H. destruct l; [discriminate|]. specialize (IH H). discriminate.
Qed.

Lemma str_eqb_of_mem : forall t u ms, mem_str t ms = true -> mem_str u ms = false -> str_eqb t u = false.
Proof.
  intros t u ms H1 H2. apply str_eqb_neq. intro E. subst. congruence.
Qed.

Section Loop.
Variable G : group_table.
Hypothesis HG : wf_table G = true.

Lemma lookup_group_in : forall g ms, lookup_group G g = Some ms -> exists e, In e G /\ snd e = ms.
Proof.
  intros g ms H. unfold lookup_group in H.
  destruct (find (fun e => str_eqb (fst e) g) G) as [e|] eqn:E; [|discriminate].
  apply find_some in E as [I _]. cbn in H. exists e. split; [assumption | congruence].
Qed.

Lemma members_not_special : forall g ms, lookup_group G g = Some ms ->
  mem_str T10 ms = false /\ mem_str T35 ms = false.
Proof.
  intros g ms H. destruct (lookup_group_in g ms H) as [e [I E]].
  unfold wf_table in HG. apply andb_true_iff in HG as [_ H2].
  rewrite forallb_forall in H2. specialize (H2 e I). rewrite E in H2.
  apply andb_true_iff in H2 as [A B].
  split; [destruct (mem_str T10 ms) | destruct (mem_str T35 ms)]; try reflexivity; discriminate.
Qed.

Lemma framing_not_key : forall t, In t (hdr_tags ++ skip_tags) -> lookup_group G t = None.
Proof.
  intros t I. unfold wf_table in HG. apply andb_true_iff in HG as [H1 _].
  rewrite forallb_forall in H1. specialize (H1 t I). apply is_key_false.
  destruct (is_key G t); [discriminate | reflexivity].
Qed.

Definition tag_good (fr : frame) (t : str) : Prop :=
  tag_ok t = true /\ str_eqb t T10 = false /\ str_eqb t T35 = false /\ accepts fr t.

Lemma tag_good_set_top : forall fr b t, tag_good fr t -> tag_good (set_top fr b) t.
Proof. intros fr b t [A [B [C D]]]. repeat split; try assumption. apply accepts_set_top. assumption. Qed.

(* what the loop does with the fields of one tag *)
Definition value_spec (t : str) (v : value) : Prop :=
  forall ck D fr ty ckf b,
    wf_value G t v = true -> tag_good fr t -> nonmem t D ->
    collapse None D (top fr) = Ok b -> ct_get t b = None ->
    exists D' b2,
      fields_loop G ck (mkst D fr ty ckf) (vfields t v) = FCont (mkst D' (set_top fr b2) ty ckf)
      /\ collapse None D' b2 = Ok (b ++ [(t, v)])
      /\ map c_members D' = open_members G t v.

Lemma step_plain : forall ck t s D fr ty ckf b,
  lookup_group G t = None -> tag_good fr t -> nonmem t D ->
  collapse None D (top fr) = Ok b -> ct_get t b = None ->
  field_step G ck (mkst D fr ty ckf) (field t s) = FCont (mkst [] (set_top fr (b ++ [(t, VStr s)])) ty ckf).
Proof.
  intros ck t s D fr ty ckf b Hl [Htag [H10 [H35 Hacc]]] Hn Hc Hg.
  destruct (tag_ok_spec _ Htag) as [_ [Heq Hint]].
  rewrite (field_step_field G ck _ t s Heq Hint), (pre_other ck _ t s H10 H35).
  apply post_plain; assumption.
Qed.

Lemma entries_loop : forall c, Forall (fun tv => value_spec (fst tv) (snd tv)) c ->
  forall ck D fr ty ckf b,
    Forall (fun tv => wf_value G (fst tv) (snd tv) = true /\ tag_good fr (fst tv)) c ->
    nodupb (map fst c) = true -> Forall (fun tv => ct_get (fst tv) b = None) c -> followers_ok G c = true ->
    match c with tv :: _ => nonmem (fst tv) D | [] => True end ->
    collapse None D (top fr) = Ok b ->
    exists D' b2,
      fields_loop G ck (mkst D fr ty ckf) (cfields c) = FCont (mkst D' (set_top fr b2) ty ckf)
      /\ collapse None D' b2 = Ok (b ++ c)
      /\ map c_members D' = match last_entry c with
                            | Some tv => open_members G (fst tv) (snd tv)
                            | None => map c_members D
                            end.
Proof.
  induction c as [|[t v] c IH]; intros HS ck D fr ty ckf b Hwf Hnd Hfresh Hfol Hhead Hcol.
  - exists D, (top fr). rewrite set_top_top, app_nil_r.
    split; [reflexivity|]. split; [assumption | reflexivity].
  - inversion HS as [|? ? HSv HSc]; subst. inversion Hwf as [|? ? [Hwfv Htg] Hwfc]; subst.
    inversion Hfresh as [|? ? Hfv Hfc]; subst. cbn [fst snd map] in *.
    cbn [nodupb] in Hnd. apply andb_true_iff in Hnd as [Hnot Hnd'].
    destruct (HSv ck D fr ty ckf b Hwfv Htg Hhead Hcol Hfv) as [D1 [b1 [L1 [C1 M1]]]].
    assert (Hfol' : followers_ok G c = true /\ match c with tv :: _ => nonmem (fst tv) D1 | [] => True end).
    { destruct c as [|[t2 v2] c2]; [split; [reflexivity | exact I]|].
      cbn [followers_ok] in Hfol. apply andb_true_iff in Hfol as [F1 F2].
      split; [assumption|]. cbn [fst]. apply free_of_nonmem. rewrite M1. assumption. }
    destruct Hfol' as [Hfol' Hhead'].
    assert (Hfresh' : Forall (fun tv => ct_get (fst tv) (b ++ [(t, v)]) = None) c).
    { rewrite Forall_forall in *. intros [t2 v2] I2. cbn [fst]. rewrite ct_get_app.
      specialize (Hfc _ I2). cbn [fst] in Hfc. rewrite Hfc. cbn [ct_get].
      assert (Ht2 : In t2 (map fst c)) by (apply in_map_iff; exists (t2, v2); split; [reflexivity | assumption]).
      destruct (str_eqb t t2) eqn:E; [|reflexivity].
      apply str_eqb_eq in E. subst t2. apply mem_str_In in Ht2. destruct (mem_str t (map fst c)); discriminate. }
    assert (Hwf' : Forall (fun tv => wf_value G (fst tv) (snd tv) = true /\ tag_good (set_top fr b1) (fst tv)) c).
    { eapply Forall_impl; [|exact Hwfc]. intros tv [A B]. split; [assumption | apply tag_good_set_top; assumption]. }
    assert (Hcol' : collapse None D1 (top (set_top fr b1)) = Ok (b ++ [(t, v)])) by (rewrite top_set_top; assumption).
    destruct (IH HSc ck D1 (set_top fr b1) ty ckf (b ++ [(t, v)]) Hwf' Hnd' Hfresh' Hfol' Hhead' Hcol') as [D2 [b2 [L2 [C2 M2]]]].
    exists D2, b2. rewrite set_top_set_top in L2.
    split; [|split].
    + rewrite cfields_cons, fields_loop_app, L1. exact L2.
    + rewrite C2, <- app_assoc. reflexivity.
    + rewrite M2, last_entry_cons. destruct c as [|p c]; [exact M1|].
      destruct (last_entry (p :: c)) eqn:E; [reflexivity|]. apply last_entry_none in E. discriminate.
Qed.

(* entries of an item of group t (members ms): side conditions from the table *)
Lemma item_entries_good : forall t ms it fr cur,
  lookup_group G t = Some ms -> Forall (wf_entry G ms) it ->
  Forall (fun tv => wf_value G (fst tv) (snd tv) = true /\ tag_good (push (mkCtx t ms cur) fr) (fst tv)) it.
Proof.
  intros t ms it fr cur Hl H. destruct (members_not_special t ms Hl) as [N10 N35].
  eapply Forall_impl; [|exact H]. intros tv [A [B C]]. split; [assumption|].
  repeat split; [assumption | | | exact B].
  - apply (str_eqb_of_mem _ _ ms B N10).
  - apply (str_eqb_of_mem _ _ ms B N35).
Qed.

Lemma item_shape_spec : forall it, item_shape G it = true ->
  it <> [] /\ nodupb (map fst it) = true /\ followers_ok G it = true.
Proof.
  intros it H. unfold item_shape in H. apply andb_true_iff in H as [H H3]. apply andb_true_iff in H as [H1 H2].
  split; [destruct it; [discriminate | discriminate] | split; assumption].
Qed.

Lemma items_loop : forall t ms its, lookup_group G t = Some ms ->
  Forall (Forall (fun tv => value_spec (fst tv) (snd tv))) its ->
  forall ck D cur prev done fr b ty ckf,
    Forall (fun it => Forall (wf_entry G ms) it /\ item_shape G it = true) its ->
    items_chain_ok G (prev :: its) = true ->
    collapse None D cur = Ok prev -> map c_members D = last_open G prev ->
    ct_get t b = None ->
    exists D' cur' done' prev',
      fields_loop G ck (mkst D (push (mkCtx t ms cur) (set_top fr (b ++ pend t done))) ty ckf) (concat (map cfields its))
      = FCont (mkst D' (push (mkCtx t ms cur') (set_top fr (b ++ pend t done'))) ty ckf)
      /\ collapse None D' cur' = Ok prev' /\ done' ++ [prev'] = done ++ prev :: its
      /\ map c_members D' = last_open G prev'.
Proof.
  intros t ms its Hl. induction its as [|it1 its IH]; intros HS ck D cur prev done fr b ty ckf Hwf Hchain Hcol Hmem Hg.
  - exists D, cur, done, prev. repeat split; assumption.
  - inversion HS as [|? ? HS1 HSrest]; subst. inversion Hwf as [|? ? [Hent1 Hshape1] Hwfrest]; subst.
    cbn [items_chain_ok] in Hchain. apply andb_true_iff in Hchain as [Hhead Hchain'].
    unfold item_head_ok in Hhead. destruct it1 as [|[t2 v2] it1']; [discriminate|].
    destruct v2 as [s2| |]; try discriminate.
    apply andb_true_iff in Hhead as [Hin Hfree].
    inversion Hent1 as [|? ? [Htag2 [Hmem2 Hwf2]] Hent1']; subst. cbn [fst snd] in *.
    apply wf_value_str in Hwf2 as [Hl2 _].
    destruct (item_shape_spec _ Hshape1) as [_ [Hnd1 Hfol1]].
    destruct (members_not_special t ms Hl) as [N10 N35].
    destruct (tag_ok_spec _ Htag2) as [_ [Heq2 Hint2]].
    (* the head field closes the previous item *)
    assert (Step1 : field_step G ck (mkst D (push (mkCtx t ms cur) (set_top fr (b ++ pend t done))) ty ckf) (field t2 s2)
                    = FCont (mkst [] (push (mkCtx t ms [(t2, VStr s2)]) (set_top fr (b ++ pend t (done ++ [prev])))) ty ckf)).
    { rewrite (field_step_field G ck _ t2 s2 Heq2 Hint2).
      rewrite (pre_other ck _ t2 s2 (str_eqb_of_mem _ _ ms Hmem2 N10) (str_eqb_of_mem _ _ ms Hmem2 N35)).
      rewrite (post_next_item G t2 s2 D t ms cur (set_top fr (b ++ pend t done)) ty ckf prev done b); try assumption.
      - rewrite set_top_set_top. reflexivity.
      - apply free_of_nonmem. rewrite Hmem. assumption.
      - apply top_set_top. }
    (* the rest of the item *)
    set (frp := set_top fr (b ++ pend t (done ++ [prev]))).
    inversion HS1 as [|? ? _ HS1']; subst.
    assert (Hgood : Forall (fun tv => wf_value G (fst tv) (snd tv) = true /\ tag_good (push (mkCtx t ms [(t2, VStr s2)]) frp) (fst tv)) it1')
      by (apply item_entries_good; assumption).
    cbn [map fst nodupb] in Hnd1. apply andb_true_iff in Hnd1 as [Hnot2 Hnd1'].
    assert (Hfresh : Forall (fun tv => ct_get (fst tv) [(t2, VStr s2)] = None) it1').
    { rewrite Forall_forall. intros [t3 v3] I3. cbn [fst ct_get].
      destruct (str_eqb t2 t3) eqn:E; [|reflexivity]. apply str_eqb_eq in E. subst t3.
      assert (In t2 (map fst it1')) by (apply in_map_iff; exists (t2, v3); split; [reflexivity | assumption]).
      apply mem_str_In in H. destruct (mem_str t2 (map fst it1')); discriminate. }
    assert (Hfol1' : followers_ok G it1' = true).
    { cbn [followers_ok] in Hfol1. destruct it1' as [|[t3 v3] it1'']; [reflexivity|].
      apply andb_true_iff in Hfol1 as [_ F]. exact F. }
    assert (Hhd : match it1' with tv :: _ => nonmem (fst tv) [] | [] => True end) by (destruct it1'; [exact I | constructor]).
    destruct (entries_loop it1' HS1' ck [] (push (mkCtx t ms [(t2, VStr s2)]) frp) ty ckf [(t2, VStr s2)]
                Hgood Hnd1' Hfresh Hfol1' Hhd (collapse_nil _)) as [D1 [cur1 [L1 [C1 M1]]]].
    rewrite set_top_push in L1.
    assert (M1' : map c_members D1 = last_open G ((t2, VStr s2) :: it1')).
    { rewrite M1, last_open_cons. unfold last_open. destruct it1' as [|e it1'']; [reflexivity|].
      destruct (last_entry (e :: it1'')) as [[t3 v3]|] eqn:E; [reflexivity|]. apply last_entry_none in E. discriminate. }
    destruct (IH HSrest ck D1 cur1 ((t2, VStr s2) :: it1') (done ++ [prev]) fr b ty ckf Hwfrest Hchain' C1 M1' Hg)
      as [D' [cur' [done' [prev' [L2 [C2 [E2 M2]]]]]]].
    exists D', cur', done', prev'. split; [|split; [assumption | split; [|assumption]]].
    + cbn [map concat]. rewrite cfields_cons. cbn [vfields].
      rewrite <- app_assoc. cbn [app]. rewrite fields_loop_cons, Step1. rewrite fields_loop_app.
      fold frp. rewrite L1. exact L2.
    + rewrite E2, <- app_assoc. reflexivity.
Qed.

(* the main induction: any well-formed value *)
Lemma value_loop : forall v t, value_spec t v.
Proof.
  induction v as [s| |items IHv] using value_ind2; intros t ck D fr ty ckf b Hwf Htg Hn Hcol Hg.
  - apply wf_value_str in Hwf as [Hl _].
    exists [], (b ++ [(t, VStr s)]). cbn [vfields]. rewrite fields_loop_one.
    split; [apply step_plain; assumption|]. split; reflexivity.
  - discriminate.
  - destruct (wf_value_grp _ _ _ Hwf) as [ms [Hl [Hne [Hitems Hchain]]]].
    assert (IHv' : Forall (Forall (fun tv => value_spec (fst tv) (snd tv))) items).
    { eapply Forall_impl; [|exact IHv]. intros it Hit. eapply Forall_impl; [|exact Hit]. intros tv Htv. apply Htv. }
    clear IHv. rename IHv' into IHv.
    destruct items as [|it1 its]; [contradiction|]. clear Hne.
    inversion IHv as [|? ? IH1 IHrest]; subst. inversion Hitems as [|? ? [Hent1 Hshape1] Hwfrest]; subst.
    destruct Htg as [Htag [H10 [H35 Hacc]]]. destruct (tag_ok_spec _ Htag) as [_ [Heq Hint]].
    destruct (item_shape_spec _ Hshape1) as [Hne1 [Hnd1 Hfol1]].
    (* the count field opens the group *)
    assert (Step0 : field_step G ck (mkst D fr ty ckf) (field t (n_to_dec (N.of_nat (length (it1 :: its)))))
                    = FCont (mkst [] (push (mkCtx t ms []) (set_top fr b)) ty ckf)).
    { rewrite (field_step_field G ck _ t _ Heq Hint), (pre_other ck _ t _ H10 H35).
      apply post_group; assumption. }
    (* first item *)
    assert (Hgood : Forall (fun tv => wf_value G (fst tv) (snd tv) = true /\ tag_good (push (mkCtx t ms []) (set_top fr b)) (fst tv)) it1)
      by (apply item_entries_good; assumption).
    assert (Hfresh : Forall (fun tv => ct_get (fst tv) [] = None) it1) by (rewrite Forall_forall; intros; reflexivity).
    assert (Hhd : match it1 with tv :: _ => nonmem (fst tv) [] | [] => True end) by (destruct it1; [exact I | constructor]).
    destruct (entries_loop it1 IH1 ck [] (push (mkCtx t ms []) (set_top fr b)) ty ckf []
                Hgood Hnd1 Hfresh Hfol1 Hhd (collapse_nil _)) as [D1 [cur1 [L1 [C1 M1]]]].
    rewrite set_top_push in L1. cbn [app] in C1.
    assert (M1' : map c_members D1 = last_open G it1).
    { rewrite M1. unfold last_open. destruct (last_entry it1) as [[t3 v3]|] eqn:E; [reflexivity|].
      apply last_entry_none in E. contradiction. }
    (* remaining items *)
    assert (Eb : set_top fr b = set_top fr (b ++ pend t [])) by (cbn [pend]; rewrite app_nil_r; reflexivity).
    rewrite Eb in L1.
    destruct (items_loop t ms its Hl IHrest ck D1 cur1 it1 [] fr b ty ckf Hwfrest Hchain C1 M1' Hg)
      as [D' [cur' [done' [prev' [L2 [C2 [E2 M2]]]]]]].
    exists (D' ++ [mkCtx t ms cur']), (b ++ pend t done').
    split; [|split].
    + rewrite vfields_grp. cbn [map concat]. rewrite fields_loop_cons, Step0, fields_loop_app.
      rewrite Eb, L1, L2. rewrite mkst_push. reflexivity.
    + rewrite collapse_app. unfold collapse in C2.
      destruct (collapse_p None D') as [p'|]; [|discriminate]. cbn [bind] in *.
      unfold collapse. cbn [collapse_p c_tags c_tag bind]. rewrite C2. cbn [bind add_pending].
      rewrite (ct_add_group_pend t prev' b done' Hg). rewrite E2. reflexivity.
    + rewrite map_app, M2, open_members_grp, Hl. cbn [map c_members app] in *.
      rewrite <- E2, last_entry_snoc. reflexivity.
Qed.

(* ---------- the contexts left open never have CheckSum as a member ---------- *)

Lemma last_entry_in : forall {A} (l : list A) x, last_entry l = Some x -> In x l.
Proof.
  induction l as [|y l IH]; intros x H; [discriminate|].
  rewrite last_entry_cons in H. destruct l; [injection H as H; left; assumption | right; apply IH; assumption].
Qed.

Lemma open_members_no10 : forall v t ms, In ms (open_members G t v) -> mem_str T10 ms = false.
Proof.
  induction v as [s| |items IH] using value_ind2; intros t ms I.
  - destruct I.
  - destruct I.
  - rewrite open_members_grp in I. apply in_app_iff in I as [I|I].
    + destruct (last_entry items) as [it|] eqn:E; [|destruct I].
      apply last_entry_in in E. rewrite Forall_forall in IH. specialize (IH it E).
      unfold last_open in I. destruct (last_entry it) as [[t' v']|] eqn:E'; [|destruct I].
      apply last_entry_in in E'. rewrite Forall_forall in IH. apply (IH (t', v') E' t' ms I).
    + destruct I as [I|[]]. subst ms. destruct (lookup_group G t) as [ms|] eqn:El; [|reflexivity].
      apply (members_not_special t ms El).
Qed.

Lemma nonmem_no10 : forall D t v, map c_members D = open_members G t v -> nonmem T10 D.
Proof.
  intros D t v H. unfold nonmem. rewrite Forall_forall. intros c I.
  apply (open_members_no10 v t). rewrite <- H. apply in_map. assumption.
Qed.

(* ---------- the body of a well-formed message, processed at root level ---------- *)

Definition hdr_keys : list str := [T8; T9; T35; T49; T56; T34; T52].

Lemma body_of_not_skip : forall m tv, In tv (body_of m) -> mem_str (fst tv) skip_tags = false.
Proof.
  intros m tv I. unfold body_of in I. apply filter_In in I as [_ H].
  destruct (mem_str (fst tv) skip_tags); [discriminate | reflexivity].
Qed.

Lemma wf_msg_spec : forall m, wf_msg G m = true ->
  cfree 1 (msg_type m)
  /\ Forall (fun tv => tag_ok (fst tv) = true /\ mem_str (fst tv) hdr_tags = false /\ wf_value G (fst tv) (snd tv) = true) (body_of m)
  /\ nodupb (map fst (body_of m)) = true /\ followers_ok G (body_of m) = true.
Proof.
  intros m H. unfold wf_msg in H. apply andb_true_iff in H as [H H4]. apply andb_true_iff in H as [H H3].
  apply andb_true_iff in H as [H1 H2].
  split; [apply soh_free_spec; assumption|]. split; [|split; assumption].
  rewrite forallb_forall in H2. rewrite Forall_forall. intros tv I. specialize (H2 tv I).
  unfold wf_root_entry in H2. apply andb_true_iff in H2 as [H2 C]. apply andb_true_iff in H2 as [A B].
  repeat split; try assumption. destruct (mem_str (fst tv) hdr_tags); [discriminate | reflexivity].
Qed.

Lemma not_hdr_key : forall t, mem_str t hdr_tags = false -> mem_str t skip_tags = false ->
  mem_str t hdr_keys = false /\ str_eqb t T10 = false /\ str_eqb t T35 = false.
Proof.
  intros t H1 H2. apply mem_str_false in H1. apply mem_str_false in H2.
  split; [|split].
  - apply mem_str_false. intro I. cbn in I, H1, H2. tauto.
  - apply str_eqb_neq. intro E. apply H1. subst. cbn. tauto.
  - apply str_eqb_neq. intro E. apply H1. subst. cbn. tauto.
Qed.

Lemma body_loop : forall m root ck ty ckf, wf_msg G m = true -> map fst root = hdr_keys ->
  exists D' b2,
    fields_loop G ck (mkD root [] ty ckf) (cfields (body_of m)) = FCont (mkst D' ([], b2) ty ckf)
    /\ collapse None D' b2 = Ok (root ++ body_of m) /\ nonmem T10 D'.
Proof.
  intros m root ck ty ckf Hwf Hroot.
  destruct (wf_msg_spec m Hwf) as [_ [Hent [Hnd Hfol]]].
  assert (Hgood : Forall (fun tv => wf_value G (fst tv) (snd tv) = true /\ tag_good ([], root) (fst tv)) (body_of m)).
  { rewrite Forall_forall in *. intros tv I. destruct (Hent tv I) as [A [B C]].
    destruct (not_hdr_key _ B (body_of_not_skip m tv I)) as [_ [E10 E35]].
    split; [assumption|]. repeat split; assumption. }
  assert (Hfresh : Forall (fun tv => ct_get (fst tv) root = None) (body_of m)).
  { rewrite Forall_forall in *. intros tv I. destruct (Hent tv I) as [A [B C]].
    destruct (not_hdr_key _ B (body_of_not_skip m tv I)) as [K _].
    apply ct_get_none. rewrite Hroot. assumption. }
  assert (HS : Forall (fun tv => value_spec (fst tv) (snd tv)) (body_of m)).
  { rewrite Forall_forall. intros tv _. apply value_loop. }
  assert (Hhd : match body_of m with tv :: _ => nonmem (fst tv) [] | [] => True end)
    by (destruct (body_of m); [exact I | constructor]).
  destruct (entries_loop (body_of m) HS ck [] ([], root) ty ckf root Hgood Hnd Hfresh Hfol Hhd (collapse_nil _))
    as [D' [b2 [L [C M]]]].
  exists D', b2. split; [exact L|]. split; [exact C|].
  destruct (last_entry (body_of m)) as [[t v]|] eqn:E.
  - apply (nonmem_no10 D' t v M).
  - destruct D'; [constructor | discriminate].
Qed.

(* ---------- header and trailer fields ---------- *)

Lemma step_root : forall ck t s root ty ckf,
  In t (hdr_tags ++ skip_tags) -> str_eqb t T10 = false -> tag_ok t = true -> ct_get t root = None ->
  field_step G ck (mkD root [] ty ckf) (field t s)
  = FCont (mkD (root ++ [(t, VStr s)]) [] (if str_eqb t T35 then s else ty) ckf).
Proof.
  intros ck t s root ty ckf Hin H10 Htag Hg.
  destruct (tag_ok_spec _ Htag) as [_ [Heq Hint]].
  rewrite (field_step_field G ck _ t s Heq Hint). unfold pre. rewrite H10.
  destruct (str_eqb t T35); cbn [d_root d_stack d_type d_ck];
    apply (post_plain G t s [] ([], root) _ ckf root (framing_not_key t Hin) Hint (Forall_nil _) I (collapse_nil _) Hg).
Qed.

Definition hdr_root (bs blen mt sd tg seq time : str) : container :=
  [(T8, VStr bs); (T9, VStr blen); (T35, VStr mt); (T49, VStr sd); (T56, VStr tg); (T34, VStr seq); (T52, VStr time)].

Lemma header_loop : forall ck bs blen mt sd tg seq time rest,
  fields_loop G ck (mkD [] [] UNKNOWN false)
    (field T8 bs :: field T9 blen :: field T35 mt :: field T49 sd :: field T56 tg :: field T34 seq :: field T52 time :: rest)
  = fields_loop G ck (mkD (hdr_root bs blen mt sd tg seq time) [] mt false) rest.
Proof.
  intros.
  rewrite fields_loop_cons, (step_root ck T8 bs [] UNKNOWN false) by (cbn; tauto || reflexivity).
  rewrite fields_loop_cons, (step_root ck T9 blen) by (cbn; tauto || reflexivity).
  rewrite fields_loop_cons, (step_root ck T35 mt) by (cbn; tauto || reflexivity).
  rewrite fields_loop_cons, (step_root ck T49 sd) by (cbn; tauto || reflexivity).
  rewrite fields_loop_cons, (step_root ck T56 tg) by (cbn; tauto || reflexivity).
  rewrite fields_loop_cons, (step_root ck T34 seq) by (cbn; tauto || reflexivity).
  rewrite fields_loop_cons, (step_root ck T52 time) by (cbn; tauto || reflexivity).
  reflexivity.
Qed.

Lemma trailer_step : forall ck D b2 ty ckf full val z,
  collapse None D b2 = Ok full -> nonmem T10 D -> ct_get T10 full = None ->
  three_digits val = true -> digits_value val = z ->
  field_step G ck (mkst D ([], b2) ty ckf) (field T10 val)
  = FCont (mkD (full ++ [(T10, VStr val)]) [] ty (Z.eqb (Z.of_N ck) z)).
Proof.
  intros ck D b2 ty ckf full val z Hc Hn Hg H3 Hz.
  rewrite (field_step_field G ck _ T10 val) by ((apply cfreeb_spec; reflexivity) || reflexivity).
  unfold pre. rewrite str_eqb_refl, H3, Hz. cbn [andb].
  change (mkD (d_root (mkst D ([], b2) ty ckf)) (d_stack (mkst D ([], b2) ty ckf)) (d_type (mkst D ([], b2) ty ckf))
              (Z.eqb (Z.of_N ck) z)) with (mkst D ([], b2) ty (Z.eqb (Z.of_N ck) z)).
  apply (post_plain G T10 val D ([], b2) ty _ full); try assumption.
  - apply framing_not_key. cbn. tauto.
  - reflexivity.
  - exact I.
Qed.

(* ------------------------------------------------------------------ frames the decoder accepts *)
End Loop.

Section Frames.
Variable G : group_table.


(* everything the decoder lemmas (here and in ReaderL) need to know about a frame *)
Definition frame_ok (bs F : str) (dm : message) : Prop :=
  exists f1v f2 rest bl st,
    let fields := field T8 bs :: field T9 f1v :: f2 :: rest in
    F = flat fields /\ Forall (cfree 1) fields
    /\ frame_shape F
    /\ py_int f1v = Some bl /\ (0 <= bl)%Z /\ (zlen (field T8 bs) + zlen (field T9 f1v) + 9 + bl = zlen F)%Z
    /\ fields_loop G ((sum_codes (join SOHs (removelast fields)) + 1) mod 256) (mkD [] [] UNKNOWN false) fields = FCont st
    /\ d_ck st = true /\ dm = mkMsg (d_type st) (d_root st).

Lemma flat_snoc : forall fs f, flat (fs ++ [f]) = (flat fs ++ f) ++ [1].
Proof. intros. rewrite flat_app. cbn [flat map concat]. rewrite app_nil_r, app_assoc. reflexivity. Qed.

Lemma flat_last : forall fs, fs <> [] -> exists F', flat fs = F' ++ [1].
Proof.
  intros fs H. destruct (exists_last H) as [l [a E]]. subst fs. rewrite flat_snoc. eexists. reflexivity.
Qed.

Lemma prefixb_length : forall p s, prefixb p s = true -> (length p <= length s)%nat.
Proof. intros p s H. apply prefixb_spec in H as [r E]. subst. rewrite app_length. lia. Qed.

(* complete-prefix lemma: marker-free junk, a good frame, then ANY bytes (nothing, garbage, the first bytes
   of the next frame): the frame is decoded to its message; exactly junk + frame are consumed *)
Lemma frame_ok_decode : forall bs J F dm R silent,
  find_sub MARK J = None -> frame_ok bs F dm ->
  decode G bs (J ++ F ++ R) silent = Ok (Some dm, (zlen J + zlen F)%Z, Some F).
Proof.
  intros bs J F dm R silent HJ [f1v [f2 [rest [bl [st H]]]]]. cbv zeta in H.
  destruct H as [HF [Hsoh [Hshape [Hbl [Hpos [Hlen [Hloop [Hck Hdm]]]]]]]].
  destruct (decode_frame_gen G bs J F R silent HJ Hshape) as [hn Hd]. rewrite Hd.
  rewrite HF at 4. rewrite (fields_of_flat _ Hsoh).
  rewrite (decode_fields_ok G bs silent _ (length J) hn _ F T8 f1v f2 rest bl st); try assumption.
  - rewrite Hdm. reflexivity.
  - apply cfreeb_spec. reflexivity.
  - rewrite Hlen, !zlen_app. unfold zlen. lia.
Qed.
End Frames.

(* ------------------------------------------------------------------ the encoder produces such frames *)

Lemma seq_of_msg_ok : forall c z, seq_of_msg c = Ok z -> True.
Proof. trivial. Qed.

(* the sequence number written is the allocated one or the message's own *)
Lemma select_seq_spec : forall m sess raw seq sess',
  select_seq m sess raw = Ok (seq, sess') ->
  (allocates m raw = true /\ seq = z_to_dec (next_out sess)
   /\ sess' = mkSession (sender sess) (target sess) (next_out sess + 1))
  \/ (allocates m raw = false /\ sess' = sess
      /\ exists z, seq_of_msg (msg_tags m) = Ok z /\ seq = z_to_dec z).
Proof.
  intros m sess raw seq sess' H. unfold select_seq in H. unfold allocates.
  destruct raw.
  - right. destruct (seq_of_msg (msg_tags m)) as [z|] eqn:E; [|discriminate]. cbn [bind] in H.
    injection H as H1 H2. subst. split; [reflexivity|]. split; [reflexivity|]. exists z. split; reflexivity.
  - destruct (str_eqb (msg_type m) MT_SEQRESET).
    + right. destruct (ct_mem T34 (msg_tags m)); [|discriminate].
      destruct (seq_of_msg (msg_tags m)) as [z|] eqn:E; [|discriminate]. cbn [bind] in H.
      injection H as H1 H2. subst. split; [reflexivity|]. split; [reflexivity|]. exists z. split; reflexivity.
    + unfold ct_getitem in H. destruct (ct_get T43 (msg_tags m)) as [[s| |]|]; cbn [bind] in H; try discriminate.
      * destruct (str_eqb s Y).
        -- right. destruct (ct_mem T34 (msg_tags m)); [|discriminate].
           destruct (seq_of_msg (msg_tags m)) as [z|] eqn:E; [|discriminate]. cbn [bind] in H.
           injection H as H1 H2. subst. split; [reflexivity|]. split; [reflexivity|]. exists z. split; reflexivity.
        -- left. injection H as H1 H2. subst. repeat split.
      * change (str_eqb Nn Y) with false in H. cbv iota in H.
        left. injection H as H1 H2. subst. repeat split.
Qed.

Lemma select_seq_soh_free : forall m sess raw seq sess', select_seq m sess raw = Ok (seq, sess') -> cfree 1 seq.
Proof.
  intros m sess raw seq sess' H. destruct (select_seq_spec _ _ _ _ _ H) as [[_ [E _]]|[_ [_ [z [_ E]]]]];
    subst; apply z_to_dec_soh_free.
Qed.

Lemma removelast_snoc : forall {A} (l : list A) x, removelast (l ++ [x]) = l.
Proof. intros. apply removelast_last. Qed.

Lemma flat_length : forall f fs, length (flat (f :: fs)) = (length f + 1 + length (flat fs))%nat.
Proof. intros. rewrite flat_cons, app_length. cbn [length]. lia. Qed.

(* ---------- the first "<SOH>10=" of an encoder frame is its CheckSum field ---------- *)

Lemma fmt03_three : forall c, c < 256 -> three_digits (fmt03 c) = true /\ digits_value (fmt03 c) = Z.of_N c.
Proof.
  intros c Hc.
  assert (H : below256 (fun c => three_digits (fmt03 c) && Z.eqb (digits_value (fmt03 c)) (Z.of_N c)) = true)
    by (vm_compute; reflexivity).
  pose proof (below256_spec _ H c Hc) as Hb. cbv beta in Hb. apply andb_true_iff in Hb as [A B].
  split; [assumption | apply Z.eqb_eq; assumption].
Qed.

Definition no_ck (f : str) : Prop := forall X, prefixb CK3 (f ++ X) = false.

Lemma field_no_ck : forall t v, cfree 61 t -> str_eqb t T10 = false -> no_ck (field t v).
Proof.
  intros t v Heq Hne X. unfold field, CK3, T10.
  destruct t as [|a [|b [|c t']]]; cbn [app prefixb].
  - reflexivity.
  - destruct (49 =? a); reflexivity.
  - destruct (N.eqb_spec 49 a) as [Ea|Ea]; [|reflexivity]. destruct (N.eqb_spec 48 b) as [Eb|Eb]; [|reflexivity].
    subst a b. rewrite str_eqb_refl in Hne. discriminate.
  - destruct (49 =? a); [|reflexivity]. destruct (48 =? b); [|reflexivity]. cbn [andb].
    apply cfree_cons in Heq as [_ Heq]. apply cfree_cons in Heq as [_ Heq]. apply cfree_cons in Heq as [Hc _].
    destruct (N.eqb_spec 61 c) as [E|E]; [subst c; contradiction | reflexivity].
Qed.

Lemma find_cksep_flat : forall fs T, fs <> [] -> Forall (cfree 1) fs -> Forall no_ck (tl fs) ->
  prefixb CK3 T = true -> find_sub CKSEP (flat fs ++ T) = Some (length (flat fs) - 1)%nat.
Proof.
  induction fs as [|f fs IH]; intros T Hne Hsoh Hck HT; [contradiction|].
  inversion Hsoh as [|? ? Hf Hsoh']; subst. rewrite flat_cons, <- app_assoc. cbn [app].
  change CKSEP with (1 :: CK3). rewrite (find_sub_first_char 1 CK3 f _ Hf).
  destruct fs as [|g fs'].
  - cbn [flat map concat app]. rewrite HT. f_equal. rewrite app_length. cbn [length]. lia.
  - cbn [tl] in Hck. inversion Hck as [|? ? Hg Hck']; subst.
    rewrite flat_cons at 1. rewrite <- app_assoc. rewrite (Hg _).
    change (1 :: CK3) with CKSEP. rewrite (IH T ltac:(discriminate) Hsoh' Hck' HT). cbn [option_map]. f_equal.
    rewrite app_length. cbn [length]. pose proof (flat_length_pos g fs'). lia.
Qed.

Section Enc.
Variable G : group_table.
Hypothesis HG : wf_table G = true.

Lemma vfields_no_ck : forall v t, cfree 61 t -> str_eqb t T10 = false -> wf_value G t v = true ->
  Forall no_ck (vfields t v).
Proof.
  induction v as [s| |items IH] using value_ind2; intros t Heq Hne Hwf.
  - constructor; [apply field_no_ck; assumption | constructor].
  - discriminate.
  - rewrite vfields_grp. destruct (wf_value_grp _ _ _ Hwf) as [ms [Hl [_ [Hitems _]]]].
    destruct (members_not_special G HG t ms Hl) as [N10 _].
    constructor; [apply field_no_ck; assumption|].
    apply Forall_concat. apply Forall_map.
    clear Hwf. induction items as [|it items IHitems]; [constructor|].
    inversion IH as [|? ? IHit IHrest]; subst. inversion Hitems as [|? ? [Hent _] Hrest]; subst.
    constructor; [|apply IHitems; assumption].
    unfold cfields. apply Forall_concat. apply Forall_map.
    clear - IHit Hent N10. induction it as [|[t' v'] it IHi]; [constructor|].
    inversion IHit; subst. inversion Hent as [|? ? [Htag [Hmem Hw]] ?]; subst.
    constructor; [|apply IHi; assumption]. cbn [fst snd] in *.
    apply H1; [apply (tag_ok_spec _ Htag) | apply (str_eqb_of_mem _ _ ms Hmem N10) | assumption].
Qed.

Lemma cfields_no_ck : forall m, wf_msg G m = true -> Forall no_ck (cfields (body_of m)).
Proof.
  intros m Hwf. destruct (wf_msg_spec G m Hwf) as [_ [Hent _]].
  unfold cfields. apply Forall_concat. apply Forall_map.
  rewrite Forall_forall in *. intros tv I. destruct (Hent tv I) as [A [B C]].
  destruct (not_hdr_key _ B (body_of_not_skip m tv I)) as [_ [E10 _]].
  apply vfields_no_ck; [apply (tag_ok_spec _ A) | assumption | assumption].
Qed.

Lemma cfields_soh_free : forall m, wf_msg G m = true -> Forall (cfree 1) (cfields (body_of m)).
Proof.
  intros m Hwf. destruct (wf_msg_spec G m Hwf) as [_ [Hent _]].
  unfold cfields. apply Forall_concat. apply Forall_map.
  eapply Forall_impl; [|exact Hent]. intros tv [A [_ C]].
  apply (vfields_soh_free G); [apply (tag_ok_spec _ A) | assumption].
Qed.

Lemma encode_frame_ok : forall bs m sess time raw frame sess' seq,
  wf_bs bs = true -> wf_session sess = true -> soh_free time = true -> wf_msg G m = true ->
  no_marker frame = true -> small_frame frame ->
  encode bs m sess time raw = Ok (frame, sess') -> select_seq m sess raw = Ok (seq, sess') ->
  frame_ok G bs frame (decoded_of bs m sess seq time).
Proof.
  intros bs m sess time raw frame sess' seq Hbs Hsess Htime Hwf Hnom Hsmall Henc Hseq.
  destruct (encode_shape _ _ _ _ _ _ _ Henc) as [seq0 [rest [Hseq0 [Hrest HF]]]].
  assert (seq0 = seq) by congruence. subst seq0. clear Hseq0.
  pose proof (render_body_fields _ _ Hrest) as Erest. fold (body_of m) in Erest.
  assert (Etot : render_total (msg_tags m) = cfields (body_of m)) by (unfold render_total; rewrite Hrest; exact Erest).
  unfold wf_bs in Hbs. apply andb_true_iff in Hbs as [Hbs1 Hbs2]. apply soh_free_spec in Hbs2.
  unfold wf_session in Hsess. apply andb_true_iff in Hsess as [Hsd Htg].
  apply soh_free_spec in Hsd. apply soh_free_spec in Htg. apply soh_free_spec in Htime.
  destruct (wf_msg_spec G m Hwf) as [Hmt [Hent [Hnd Hfol]]].
  pose proof (select_seq_soh_free _ _ _ _ _ Hseq) as Hsq.
  set (blen := enc_blen m sess seq time) in *. set (ck := enc_ck bs m sess seq time) in *.
  set (body := body_of m) in *.
  set (tailf := cfields body ++ [field T10 (fmt03 ck)]).
  set (L := field T8 bs :: field T9 (n_to_dec blen) :: field T35 (msg_type m) :: field T49 (sender sess)
            :: field T56 (target sess) :: field T34 seq :: field T52 time :: cfields body).
  assert (Efields : frame_fields bs m sess seq time = L ++ [field T10 (fmt03 ck)]).
  { unfold frame_fields, enc_fields. rewrite Etot. reflexivity. }
  assert (Eck : ck = (sum_codes (flat L)) mod 256).
  { unfold ck, enc_ck, checksum, enc_fields. rewrite Etot. reflexivity. }
  assert (Hck256 : ck < 256) by (rewrite Eck; apply checksum_lt).
  destruct (fmt03_facts ck Hck256) as [Hpy10 [Hlen10 Hsoh10]].
  assert (Eblen : blen = N.of_nat (length (flat (field T35 (msg_type m) :: field T49 (sender sess)
            :: field T56 (target sess) :: field T34 seq :: field T52 time :: cfields body)))).
  { unfold blen, enc_blen, fields_len, enc_fields. rewrite Etot. reflexivity. }
  assert (ElenF : length frame = (length (field T8 bs) + 1 + (length (field T9 (n_to_dec blen)) + 1 + (N.to_nat blen + 7)))%nat).
  { assert (Hb : N.to_nat blen = length (flat (field T35 (msg_type m) :: field T49 (sender sess)
            :: field T56 (target sess) :: field T34 seq :: field T52 time :: cfields body)))
      by (rewrite Eblen, Nat2N.id; reflexivity).
    rewrite Hb, HF, Efields, flat_app, app_length. unfold L. rewrite 2!flat_length.
    assert (H10 : length (flat [field T10 (fmt03 ck)]) = 7%nat).
    { cbn [flat map concat]. rewrite app_nil_r, app_length. unfold field. rewrite app_length. cbn [length].
      rewrite Hlen10. reflexivity. }
    rewrite H10. lia. }
  assert (Hpy9 : py_int (n_to_dec blen) = Some (Z.of_N blen)).
  { apply py_int_n_to_dec. unfold small_frame in Hsmall. revert Hsmall. generalize (10 ^ 4300). intros big Hsmall. lia. }
  exists (n_to_dec blen), (field T35 (msg_type m)),
         (field T49 (sender sess) :: field T56 (target sess) :: field T34 seq :: field T52 time :: tailf),
         (Z.of_N blen),
         (mkD ((hdr_root bs (n_to_dec blen) (msg_type m) (sender sess) (target sess) seq time ++ body)
               ++ [(T10, VStr (fmt03 ck))]) [] (msg_type m) true).
  cbv zeta.
  assert (Eshape : field T8 bs :: field T9 (n_to_dec blen) :: field T35 (msg_type m)
                   :: field T49 (sender sess) :: field T56 (target sess) :: field T34 seq :: field T52 time :: tailf
                   = L ++ [field T10 (fmt03 ck)]) by reflexivity.
  rewrite Eshape.
  split; [rewrite HF, Efields; reflexivity|].
  split.
  { apply Forall_app. split; [|constructor; [apply field_soh_free; [apply cfreeb_spec; reflexivity | assumption] | constructor]].
    unfold L. repeat (constructor; [apply field_soh_free; try assumption; try (apply cfreeb_spec; reflexivity)|]).
    - apply n_to_dec_cfree. reflexivity.
    - apply cfields_soh_free. assumption. }
  split.
  { split; [|split].
    - rewrite HF, Efields. unfold L. rewrite <- app_comm_cons, flat_cons.
      apply prefixb_spec in Hbs1 as [r Er]. rewrite Er. unfold field, T8, FIXDOT. cbn [app].
      reflexivity.
    - unfold no_marker in Hnom. destruct (find_sub MARK (skipn 5 frame)); [discriminate | reflexivity].
    - destruct (flat_last L ltac:(discriminate)) as [A EA].
      assert (EFr : frame = flat L ++ (CK3 ++ fmt03 ck) ++ [1]).
      { rewrite HF, Efields, flat_app. cbn [flat map concat]. rewrite app_nil_r. unfold field, CK3.
        rewrite <- !app_assoc. reflexivity. }
      exists A, (fmt03 ck). split; [|split; [exact Hsoh10|]].
      + rewrite EFr, EA. unfold CKSEP, CK3. rewrite <- !app_assoc. reflexivity.
      + rewrite EFr. rewrite (find_cksep_flat L ((CK3 ++ fmt03 ck) ++ [1])).
        * f_equal. rewrite EA, app_length. cbn [length]. lia.
        * discriminate.
        * unfold L. repeat (constructor; [apply field_soh_free; try assumption; try (apply cfreeb_spec; reflexivity)|]).
          -- apply n_to_dec_cfree. reflexivity.
          -- apply cfields_soh_free. assumption.
        * unfold L. cbn [tl]. repeat (constructor; [apply field_no_ck; [apply cfreeb_spec; reflexivity | reflexivity]|]).
          apply cfields_no_ck. assumption.
        * rewrite <- app_assoc. apply prefixb_app. }
  split; [exact Hpy9|].
  split; [lia|].
  split.
  { unfold zlen. rewrite ElenF. lia. }
  split.
  { rewrite removelast_snoc.
    assert (Esum : (sum_codes (join SOHs L) + 1) mod 256 = ck).
    { rewrite Eck. f_equal. rewrite <- (join_flat L) by discriminate. rewrite sum_codes_app. reflexivity. }
    rewrite Esum. unfold L. rewrite <- !app_comm_cons.
    rewrite (header_loop G HG). rewrite fields_loop_app.
    destruct (body_loop G HG m (hdr_root bs (n_to_dec blen) (msg_type m) (sender sess) (target sess) seq time)
                ck (msg_type m) false Hwf eq_refl) as [D' [b2 [Lb [Cb Nb]]]].
    fold body in Lb, Cb. rewrite Lb. rewrite fields_loop_one.
    destruct (fmt03_three ck Hck256) as [H3d Hdv].
    rewrite (trailer_step G HG ck D' b2 (msg_type m) false _ (fmt03 ck) (Z.of_N ck) Cb Nb); [|  | exact H3d | exact Hdv].
    - rewrite Z.eqb_refl. reflexivity.
    - apply ct_get_none. rewrite map_app. apply mem_str_false. intro I. apply in_app_iff in I as [I|I].
      + cbn in I. repeat (destruct I as [I|I]; [discriminate|]). destruct I.
      + apply in_map_iff in I as [tv [E I]]. rewrite Forall_forall in Hent. destruct (Hent tv I) as [_ [B _]].
        apply mem_str_false in B. apply B. rewrite E. cbn. tauto. }
  split; [reflexivity|].
  unfold decoded_of. fold blen ck body. unfold hdr_root. rewrite <- app_assoc. reflexivity.
Qed.
End Enc.

(* ------------------------------------------------------------------ C01 *)

Definition seq_clause (m : message) (sess : session) (raw : bool) (seq : str) (sess' : session) : Prop :=
  (allocates m raw = true /\ seq = z_to_dec (next_out sess)
   /\ sess' = mkSession (sender sess) (target sess) (next_out sess + 1))
  \/ (allocates m raw = false /\ sess' = sess
      /\ exists z, seq_of_msg (msg_tags m) = Ok z /\ seq = z_to_dec z).

Theorem roundtrip : forall G bs m sess time raw frame sess',
  wf_table G = true -> wf_bs bs = true -> wf_session sess = true -> soh_free time = true ->
  wf_msg G m = true -> no_marker frame = true -> small_frame frame ->
  encode bs m sess time raw = Ok (frame, sess') ->
  exists seq,
    select_seq m sess raw = Ok (seq, sess')
    /\ (forall silent, decode G bs frame silent = Ok (Some (decoded_of bs m sess seq time), zlen frame, Some frame))
    /\ seq_clause m sess raw seq sess'.
Proof.
  intros G bs m sess time raw frame sess' HG Hbs Hsess Htime Hwf Hnom Hsmall Henc.
  destruct (encode_shape _ _ _ _ _ _ _ Henc) as [seq [rest [Hseq _]]].
  exists seq. split; [exact Hseq|]. split.
  - intro silent.
    pose proof (encode_frame_ok G HG bs m sess time raw frame sess' seq Hbs Hsess Htime Hwf Hnom Hsmall Henc Hseq) as Hok.
    pose proof (frame_ok_decode G bs [] frame _ [] silent eq_refl Hok) as Hd.
    cbn [app] in Hd. rewrite app_nil_r in Hd. exact Hd.
  - exact (select_seq_spec _ _ _ _ _ Hseq).
Qed.

(* Stage 1 (flat body) and Stage 2 (one level of groups) are instances *)
Corollary roundtrip_flat : forall G bs m sess time raw frame sess',
  wf_table G = true -> wf_bs bs = true -> wf_session sess = true -> soh_free time = true ->
  wf_msg G m = true -> flat_msg m = true -> no_marker frame = true -> small_frame frame ->
  encode bs m sess time raw = Ok (frame, sess') ->
  exists seq,
    select_seq m sess raw = Ok (seq, sess')
    /\ (forall silent, decode G bs frame silent = Ok (Some (decoded_of bs m sess seq time), zlen frame, Some frame))
    /\ seq_clause m sess raw seq sess'.
Proof. intros. eapply roundtrip; eassumption. Qed.

Corollary roundtrip_depth1 : forall G bs m sess time raw frame sess',
  wf_table G = true -> wf_bs bs = true -> wf_session sess = true -> soh_free time = true ->
  wf_msg G m = true -> depth1_msg m = true -> no_marker frame = true -> small_frame frame ->
  encode bs m sess time raw = Ok (frame, sess') ->
  exists seq,
    select_seq m sess raw = Ok (seq, sess')
    /\ (forall silent, decode G bs frame silent = Ok (Some (decoded_of bs m sess seq time), zlen frame, Some frame))
    /\ seq_clause m sess raw seq sess'.
Proof. intros. eapply roundtrip; eassumption. Qed.

(* ------------------------------------------------------------------ D5 as a per-field predicate *)

Lemma find_sub_some_app : forall p a b k, find_sub p a = Some k -> find_sub p (a ++ b) <> None.
Proof.
  intros p a. induction a as [|x a IH]; intros b k H.
  - rewrite find_sub_nil in H. destruct (prefixb p []) eqn:E; [|discriminate].
    rewrite (find_sub_head p ([] ++ b)); [discriminate | apply prefixb_app_r; assumption].
  - cbn [app]. rewrite find_sub_cons in *. destruct (prefixb p (x :: a)) eqn:E.
    + pose proof (prefixb_app_r p (x :: a) b E) as E'. cbn [app] in E'. rewrite E'. discriminate.
    + destruct (prefixb p (x :: a ++ b)); [discriminate|].
      destruct (find_sub p a) as [k'|] eqn:F; [|discriminate].
      specialize (IH b k' eq_refl). destruct (find_sub p (a ++ b)); [discriminate | contradiction].
Qed.

Definition marker_free (s : str) : bool := negb (contains_sub MARK s).

Lemma marker_free_spec : forall s, marker_free s = true <-> find_sub MARK s = None.
Proof. intro s. unfold marker_free, contains_sub. destruct (find_sub MARK s); split; (discriminate || reflexivity). Qed.

Lemma flat_marker_free : forall fs, marker_free (flat fs) = forallb marker_free fs.
Proof.
  induction fs as [|f fs IH]; [reflexivity|].
  rewrite flat_cons. cbn [forallb]. rewrite <- IH.
  destruct (marker_free f) eqn:Ef.
  - apply marker_free_spec in Ef. cbn [andb].
    destruct (marker_free (flat fs)) eqn:Er.
    + apply marker_free_spec in Er. apply marker_free_spec.
      apply (find_sub_none_sep 1 MARK f (flat fs) MARK_soh_free MARK_nonempty Ef Er).
    + unfold marker_free, contains_sub in *.
      rewrite (find_sub_sep 1 MARK f (flat fs) MARK_soh_free MARK_nonempty Ef).
      destruct (find_sub MARK (flat fs)); [reflexivity | discriminate].
  - cbn [andb]. unfold marker_free, contains_sub in *.
    destruct (find_sub MARK f) as [k|] eqn:F; [|discriminate].
    pose proof (find_sub_some_app MARK f (1 :: flat fs) k F) as H.
    destruct (find_sub MARK (f ++ 1 :: flat fs)); [reflexivity | contradiction].
Qed.

(* exact: the marker occurs past offset 0 of the frame iff it occurs in a field after the first, or in
   the first field from offset 5 on *)
Lemma no_marker_fields : forall f0 fs, (5 <= length f0)%nat ->
  no_marker (flat (f0 :: fs)) = marker_free (skipn 5 f0) && no_marker_in_fields fs.
Proof.
  intros f0 fs H5. unfold no_marker, no_marker_in_fields.
  change (forallb (fun f => negb (contains_sub MARK f)) fs) with (forallb marker_free fs).
  rewrite <- flat_marker_free, flat_cons, (skipn_app_le 5 f0 _ H5).
  assert (Hm : forall s, match find_sub MARK s with None => true | Some _ => false end = marker_free s)
    by (intro s; unfold marker_free, contains_sub; destruct (find_sub MARK s); reflexivity).
  rewrite Hm.
  pose proof (flat_marker_free (skipn 5 f0 :: fs)) as H. rewrite flat_cons in H. rewrite H.
  cbn [forallb]. rewrite flat_marker_free. reflexivity.
Qed.

Lemma no_marker_frame_fields : forall bs m sess time raw frame sess' seq,
  wf_bs bs = true -> encode bs m sess time raw = Ok (frame, sess') -> select_seq m sess raw = Ok (seq, sess') ->
  no_marker frame = no_marker_fields_b bs m sess seq time.
Proof.
  intros bs m sess time raw frame sess' seq Hbs Henc Hseq.
  unfold no_marker_fields_b. fold (marker_free (skipn 5 (field T8 bs))).
  destruct (encode_shape _ _ _ _ _ _ _ Henc) as [seq0 [rest [Hseq0 [_ HF]]]].
  assert (seq0 = seq) by congruence. subst seq0. rewrite HF. unfold frame_fields. cbn [tl].
  apply no_marker_fields. unfold wf_bs in Hbs. apply andb_true_iff in Hbs as [Hb _].
  apply prefixb_length in Hb. unfold FIXDOT in Hb. unfold field, T8. rewrite app_length. cbn [length] in *. lia.
Qed.

(* ------------------------------------------------------------------ the FIX 4.4 table, witnesses *)
From Coq Require Import String Ascii.
From AFGen Require Import GenGroups.

Definition txt (x : string) : str := List.map N_of_ascii (list_ascii_of_string x).
Definition plain (t v : string) : str * value := (txt t, VStr (txt v)).
Definition grp (t : string) (items : list (list (str * value))) : str * value := (txt t, VGrp items).

Lemma fix44_table_wf : wf_table GenGroups.table = true.
Proof. vm_compute. reflexivity. Qed.

Definition ex_sess : session := mkSession (txt "SND") (txt "TGT") 17.
Definition ex_time : str := txt "20230101-10:00:00.000".

(* AllocationInstruction-like message: NoAllocs / NoNestedPartyIDs / NoNestedPartySubIDs, three levels,
   several items per level, optional members present and absent, values containing "=", "10=", "9=" *)
Definition ex_nested : message := mkMsg (txt "J") [
  plain "70" "alloc1";
  grp "78" [
    [plain "79" "acc1"; plain "80" "100";
     grp "539" [ [plain "524" "p1"; plain "525" "D"; plain "538" "1";
                  grp "804" [[plain "545" "s1"; plain "805" "1"]; [plain "545" "s2"; plain "805" "2"]]];
                 [plain "524" "p2"; grp "804" [[plain "545" "s3"]]] ]];
    [plain "79" "acc2"; grp "539" [[plain "524" "p3"]]; plain "81" "x=y"] ];
  plain "58" "hello 10=000 9=5" ].

Definition ex_frame (m : message) : str :=
  match encode beginstring m ex_sess ex_time false with Ok (f, _) => f | Exc _ => [] end.

Lemma nonvacuous :
  wf_table GenGroups.table = true /\ wf_bs beginstring = true /\ wf_session ex_sess = true
  /\ soh_free ex_time = true /\ wf_msg GenGroups.table ex_nested = true
  /\ flat_msg ex_nested = false /\ depth1_msg ex_nested = false
  /\ no_marker (ex_frame ex_nested) = true /\ small_frame (ex_frame ex_nested)
  /\ encode beginstring ex_nested ex_sess ex_time false
     = Ok (ex_frame ex_nested, mkSession (sender ex_sess) (target ex_sess) 18)
  /\ decode GenGroups.table beginstring (ex_frame ex_nested) true
     = Ok (Some (decoded_of beginstring ex_nested ex_sess (z_to_dec 17) ex_time),
           zlen (ex_frame ex_nested), Some (ex_frame ex_nested)).
Proof.
  repeat split; try (vm_compute; reflexivity).
Qed.

(* D5: a well-formed message whose frame does not decode to itself: the whole frame is dropped *)
Definition ex_marker_tag : message :=
  mkMsg (txt "D") [plain "11" "id1"; plain "58" "FIX.x"; plain "55" "MSFT"].
Definition ex_marker_value : message :=
  mkMsg (txt "D") [plain "11" "id1"; plain "58" "see 8=FIX.4.4 spec"; plain "55" "MSFT"].

Lemma marker_refuted : forall m, m = ex_marker_tag \/ m = ex_marker_value ->
  wf_msg GenGroups.table m = true /\ flat_msg m = true /\ small_frame (ex_frame m)
  /\ no_marker (ex_frame m) = false
  /\ (exists sess', encode beginstring m ex_sess ex_time false = Ok (ex_frame m, sess'))
  /\ (exists n, decode GenGroups.table beginstring (ex_frame m) true = Ok (None, n, None))
  /\ snd (fst (reader_run GenGroups.table beginstring [] [ex_frame m])) = [].
Proof.
  intros m [E|E]; subst m; repeat split; try (vm_compute; reflexivity);
    eexists; vm_compute; reflexivity.
Qed.

(* the structural hypotheses of wf_msg are forced too: three messages whose groups use member tags
   only, outside wf_msg, that decode to a different structure *)
Definition ex_follower : message :=    (* root-level Commission after NoAllocs: absorbed into the last item *)
  mkMsg (txt "D") [plain "11" "id1"; grp "78" [[plain "79" "acc"; plain "80" "100"]]; plain "12" "5.0"].
Definition ex_item_head : message :=   (* second item does not repeat a tag of the first: items merge *)
  mkMsg (txt "D") [plain "11" "id1"; grp "78" [[plain "79" "a"]; [plain "80" "b"]]].
Definition ex_item_group_head : message :=   (* items that start with a nested group: nested groups merge *)
  mkMsg (txt "D") [plain "11" "id1"; grp "78" [[grp "539" [[plain "524" "p"]]]; [grp "539" [[plain "524" "q"]]]]].

Definition decoded_tag (m : message) (t : string) : option value :=
  match decode GenGroups.table beginstring (ex_frame m) true with
  | Ok (Some d, _, _) => ct_get (txt t) (msg_tags d)
  | _ => None
  end.

Lemma structure_refuted :
  (wf_msg GenGroups.table ex_follower = false /\ no_marker (ex_frame ex_follower) = true
   /\ decoded_tag ex_follower "78" = Some (VGrp [[plain "79" "acc"; plain "80" "100"; plain "12" "5.0"]])
   /\ decoded_tag ex_follower "12" = None)
  /\ (wf_msg GenGroups.table ex_item_head = false /\ no_marker (ex_frame ex_item_head) = true
      /\ decoded_tag ex_item_head "78" = Some (VGrp [[plain "79" "a"; plain "80" "b"]]))
  /\ (wf_msg GenGroups.table ex_item_group_head = false /\ no_marker (ex_frame ex_item_group_head) = true
      /\ decoded_tag ex_item_group_head "78"
         = Some (VGrp [[grp "539" [[plain "524" "p"]; [plain "524" "q"]]]])).
Proof. repeat split; vm_compute; reflexivity. Qed.
