(* LexL: proofs relating the model Fix/ValidateValue.v (patched SchemaField.validate_value) to the specification
   Fix/Lex.v (FIX 4.4 lexical spaces) - C19. *)
From Coq Require Import ZArith NArith List Bool Lia ZifyBool Btauto.
From AF Require Import Base.Sx Py.Str Fix.Lex Fix.ValidateValue.
Import ListNotations.
Open Scope N_scope.

(* ================================================================ generic list / string facts *)

Lemma str_eqb_eq : forall a b, str_eqb a b = true <-> a = b.
Proof.
  unfold str_eqb. induction a as [|x a IH]; destruct b as [|y b]; split; intro H; try reflexivity; try discriminate.
  - apply andb_prop in H. destruct H as [H1 H2]. apply N.eqb_eq in H1. apply IH in H2. subst. reflexivity.
  - inversion H; subst. rewrite N.eqb_refl. simpl. apply IH. reflexivity.
Qed.

Lemma str_eqb_refl : forall a, str_eqb a a = true.
Proof. intro a. apply str_eqb_eq. reflexivity. Qed.

Lemma mem_str_In : forall s l, mem_str s l = true <-> In s l.
Proof.
  intros s l. unfold mem_str. rewrite existsb_exists. split.
  - intros [x [Hin He]]. apply str_eqb_eq in He. subst. exact Hin.
  - intro Hin. exists s. split; [exact Hin | apply str_eqb_refl].
Qed.

Lemma code_eqb_eq : forall a b, code_eqb a b = true <-> a = b.
Proof.
  unfold code_eqb. induction a as [|x a IH]; destruct b as [|y b]; split; intro H; try reflexivity; try discriminate.
  - simpl in H. apply andb_prop in H. destruct H as [Hl H]. apply andb_prop in H. destruct H as [H1 H2].
    simpl in H1. apply N.eqb_eq in H1. subst.
    f_equal. apply IH. rewrite Hl. exact H2.
  - inversion H; subst. simpl. rewrite Nat.eqb_refl, N.eqb_refl. simpl.
    assert (E : b = b) by reflexivity. apply IH in E. rewrite Nat.eqb_refl in E. exact E.
Qed.

Lemma forallb_rev : forall (A : Type) (f : A -> bool) l, forallb f (rev l) = forallb f l.
Proof.
  intros A f l. destruct (forallb f l) eqn:E.
  - apply forallb_forall. intros x Hx. apply in_rev in Hx. rewrite forallb_forall in E. auto.
  - destruct (forallb f (rev l)) eqn:E2; [|reflexivity].
    rewrite <- E. symmetry. apply forallb_forall. intros x Hx. rewrite forallb_forall in E2. apply E2.
    apply in_rev. rewrite rev_involutive. exact Hx.
Qed.

Lemma filter_all : forall (A : Type) (f : A -> bool) l, forallb f l = true -> filter f l = l.
Proof.
  induction l as [|x l IH]; simpl; intro H; [reflexivity|].
  apply andb_prop in H. destruct H as [H1 H2]. rewrite H1. f_equal. auto.
Qed.

(* characters *)
Lemma dig_bounds : forall c, dig c = true <-> 48 <= c <= 57.
Proof. intro c. unfold dig. lia. Qed.

Lemma dig_not_ws : forall c, dig c = true -> ws_str c = false.
Proof. intros c H. unfold dig in H. unfold ws_str. lia. Qed.

(* deciding whether a code point is a given small constant by looking at its bits *)
Ltac bits c := destruct c as [|c]; [|do 7 (try destruct c as [c|c|])].

(* ================================================================ int(): py_int on strings of the layout -?[0-9]+ *)

Lemma lstrip_nonws : forall ws s, forallb (fun c => negb (ws c)) s = true -> lstrip ws s = s.
Proof.
  intros ws s H. destruct s as [|c s]; [reflexivity|]. simpl in *.
  apply andb_prop in H. destruct H as [H _]. apply negb_true_iff in H. rewrite H. reflexivity.
Qed.

Lemma strip_nonws : forall ws s, forallb (fun c => negb (ws c)) s = true -> strip ws s = s.
Proof.
  intros ws s H. unfold strip. rewrite (lstrip_nonws ws s H).
  rewrite lstrip_nonws; [apply rev_involutive|]. rewrite forallb_rev. exact H.
Qed.

Lemma digits_us_digits : forall s acc, forallb dig s = true ->
  digits_us s acc false = Some (fold_left (fun a c => 10 * a + (c - 48)) s acc).
Proof.
  induction s as [|c s IH]; intros acc H; [reflexivity|].
  simpl in H. apply andb_prop in H. destruct H as [H1 H2].
  cbn [digits_us fold_left]. change (is_digit c) with (dig c). rewrite H1. apply IH. exact H2.
Qed.

(* int() of an ASCII digit string, possibly after a minus sign *)
Lemma py_int_unsigned : forall b, b <> [] -> forallb dig b = true ->
  py_int b = if 4300 <? N.of_nat (length b) then None else Some (Z.of_N (num b)).
Proof.
  intros b Hne Hd. unfold py_int, py_int_gen.
  rewrite strip_nonws.
  2:{ apply forallb_forall. intros x Hx. rewrite forallb_forall in Hd. rewrite (dig_not_ws x (Hd x Hx)). reflexivity. }
  destruct b as [|c r]; [congruence|].
  assert (Hc : dig c = true) by (simpl in Hd; apply andb_prop in Hd; tauto).
  assert (Hf : filter is_digit (c :: r) = c :: r) by (apply filter_all; exact Hd).
  assert (Hu : digits_us (c :: r) 0 false = Some (num (c :: r))) by (apply digits_us_digits; exact Hd).
  apply dig_bounds in Hc.
  assert (Hcases : c = 48 \/ c = 49 \/ c = 50 \/ c = 51 \/ c = 52 \/ c = 53 \/ c = 54 \/ c = 55 \/ c = 56 \/ c = 57) by lia.
  clear Hc Hd Hne.
  repeat (destruct Hcases as [Hcases | Hcases]; [subst c; cbv beta iota; rewrite Hf, Hu; reflexivity|]).
  subst c; cbv beta iota; rewrite Hf, Hu; reflexivity.
Qed.

Lemma py_int_minus : forall b, b <> [] -> forallb dig b = true ->
  py_int (45 :: b) = if 4300 <? N.of_nat (length b) then None else Some (- Z.of_N (num b))%Z.
Proof.
  intros b Hne Hd. unfold py_int, py_int_gen.
  rewrite strip_nonws.
  2:{ simpl. apply forallb_forall. intros x Hx. rewrite forallb_forall in Hd. rewrite (dig_not_ws x (Hd x Hx)). reflexivity. }
  cbv beta iota.
  destruct b as [|c r]; [congruence|].
  assert (Hc : dig c = true) by (simpl in Hd; apply andb_prop in Hd; tauto).
  rewrite (filter_all _ is_digit (c :: r) Hd).
  rewrite (digits_us_digits (c :: r) 0 Hd).
  change (is_digit c) with (dig c). rewrite Hc. reflexivity.
Qed.

(* ================================================================ the int family *)

Lemma opt_minus_cases : forall s,
  (exists r, s = 45 :: r /\ opt_minus s = r /\ is_neg s = true)
  \/ (opt_minus s = s /\ is_neg s = false /\ forall r, s <> 45 :: r).
Proof.
  destruct s as [|c r].
  - right. repeat split. intros r H. discriminate.
  - bits c;
    first [ left; eexists; repeat split; reflexivity
          | right; repeat split; intros r' H'; discriminate ].
Qed.

Lemma layout_int_lex : forall s, layout_int s = lex_int s.
Proof.
  intro s. unfold layout_int, lex_int, digs. change (unsigned s) with (opt_minus s).
  destruct (opt_minus s); reflexivity.
Qed.

Definition int_ok (nz nn : bool) (rg : option (Z * Z)) (v : Z) : bool :=
  negb (nz && (v =? 0)%Z) && negb (nn && (v <? 0)%Z)
  && match rg with Some (lo, hi) => (lo <=? v)%Z && (v <=? hi)%Z | None => true end.

Lemma validate_int_spec : forall nz nn rg s,
  validate_int nz nn rg s = negb (lex_int s && negb (too_many_digits s) && int_ok nz nn rg (int_value s)).
Proof.
  intros nz nn rg s. destruct (lex_int s) eqn:L.
  - assert (HL : layout_int s = true) by (rewrite layout_int_lex; exact L).
    unfold lex_int, digs in L. change (unsigned s) with (opt_minus s) in L.
    apply andb_prop in L. destruct L as [Hne Hd].
    unfold validate_int, too_many_digits, int_value. change (unsigned s) with (opt_minus s). rewrite HL.
    destruct (opt_minus_cases s) as [[r [Hs [Hu Hn]]] | [Hu [Hn _]]]; rewrite Hu in *; rewrite Hn.
    + subst s. rewrite py_int_minus; [| destruct r; [discriminate | congruence] | exact Hd].
      cbn [filter]. change (dig 45) with false. cbv iota. rewrite (filter_all _ dig r Hd).
      destruct (4300 <? N.of_nat (length r)); [reflexivity|].
      unfold int_ok. match goal with |- context [(?x =? 0)%Z] => set (v := x) end.
      destruct nz, nn, rg as [[lo hi]|]; cbn [negb andb];
        destruct (v =? 0)%Z; destruct (v <? 0)%Z; try destruct (lo <=? v)%Z; try destruct (v <=? hi)%Z; reflexivity.
    + rewrite py_int_unsigned; [| destruct s; [discriminate | congruence] | exact Hd].
      rewrite (filter_all _ dig s Hd).
      destruct (4300 <? N.of_nat (length s)); [reflexivity|].
      unfold int_ok. match goal with |- context [(?x =? 0)%Z] => set (v := x) end.
      destruct nz, nn, rg as [[lo hi]|]; cbn [negb andb];
        destruct (v =? 0)%Z; destruct (v <? 0)%Z; try destruct (lo <=? v)%Z; try destruct (v <=? hi)%Z; reflexivity.
  - cbn [andb negb]. unfold validate_int. rewrite layout_int_lex, L.
    destruct (py_int s); [|reflexivity].
    repeat match goal with |- context [if ?b then _ else _] => destruct b end; reflexivity.
Qed.

Definition accepts_kind (k : kind) (s : str) : bool := negb (validate_kind k s).

Lemma kind_int : forall s, accepts_kind KInt s = xorb (lex DInt s) (kf DInt s).
Proof.
  intro s. unfold accepts_kind. cbn [validate_kind lex kf]. rewrite validate_int_spec, negb_involutive.
  unfold int_ok. cbn [andb negb]. rewrite andb_true_r.
  destruct (lex_int s), (too_many_digits s); reflexivity.
Qed.

Lemma kind_positive : forall s, accepts_kind KPositive s = xorb (lex_positive s) (lex_positive s && too_many_digits s).
Proof.
  intro s. unfold accepts_kind. cbn [validate_kind]. rewrite validate_int_spec, negb_involutive.
  unfold int_ok, lex_positive. cbn [andb negb]. rewrite andb_true_r.
  assert (E : negb (int_value s =? 0)%Z && negb (int_value s <? 0)%Z = (0 <? int_value s)%Z) by lia.
  rewrite E. destruct (lex_int s), (too_many_digits s), (0 <? int_value s)%Z; reflexivity.
Qed.

Lemma kind_dayofmonth : forall s, accepts_kind KDayOfMonth s = xorb (lex DDayOfMonth s) (kf DDayOfMonth s).
Proof.
  intro s. unfold accepts_kind. cbn [validate_kind lex kf]. rewrite validate_int_spec, negb_involutive.
  unfold int_ok, lex_dayofmonth. cbn [andb negb].
  destruct (lex_int s), (too_many_digits s), (1 <=? int_value s)%Z, (int_value s <=? 31)%Z; reflexivity.
Qed.

(* ================================================================ the float family *)

Lemma span_digits_spec : forall s ip rest, span_digits s = (ip, rest) ->
  s = ip ++ rest /\ forallb dig ip = true /\ match rest with [] => True | c :: _ => dig c = false end.
Proof.
  induction s as [|c s IH]; intros ip rest H; simpl in H.
  - inversion H; subst. repeat split.
  - change (re_digit c) with (dig c) in H. destruct (dig c) eqn:Hc.
    + destruct (span_digits s) as [a b] eqn:E. inversion H; subst.
      destruct (IH a rest eq_refl) as [H1 [H2 H3]]. subst s. repeat split.
      * simpl. rewrite Hc, H2. reflexivity.
      * exact H3.
    + inversion H; subst. repeat split. exact Hc.
Qed.

Definition dd (c : N) : bool := dig c || (c =? 46).

Lemma dig_not_dot : forall c, dig c = true -> (46 =? c) = false.
Proof. intros c H. unfold dig in H. lia. Qed.

Lemma forallb_dd_app : forall ip x, forallb dig ip = true -> forallb dd (ip ++ x) = forallb dd x.
Proof.
  induction ip as [|c ip IH]; intros x H; [reflexivity|]. simpl in *.
  apply andb_prop in H. destruct H as [H1 H2]. unfold dd at 1. rewrite H1. simpl. auto.
Qed.

Lemma existsb_dig_app : forall ip x, forallb dig ip = true -> existsb dig (ip ++ x) = nonempty ip || existsb dig x.
Proof.
  intros ip x H. destruct ip as [|c ip]; [reflexivity|]. simpl in *.
  apply andb_prop in H. destruct H as [H1 _]. rewrite H1. reflexivity.
Qed.

Lemma count_dots_app : forall ip x, forallb dig ip = true -> count_dots (ip ++ x) = count_dots x.
Proof.
  induction ip as [|c ip IH]; intros x H; [reflexivity|]. cbn [forallb] in H.
  apply andb_prop in H. destruct H as [H1 H2]. unfold count_dots in *. cbn [app filter].
  rewrite (dig_not_dot c H1). auto.
Qed.

Lemma dd_nodots : forall fp, forallb dd fp && (count_dots fp =? 0)%nat = forallb dig fp.
Proof.
  induction fp as [|c fp IH]; [reflexivity|]. unfold count_dots in *. cbn [forallb filter].
  unfold dd at 1. destruct (dig c) eqn:Hc.
  - rewrite (dig_not_dot c Hc). cbn [orb andb]. exact IH.
  - cbn [orb andb]. destruct (c =? 46) eqn:E.
    + apply N.eqb_eq in E. subst c. rewrite N.eqb_refl. cbn [length Nat.eqb]. apply andb_false_r.
    + reflexivity.
Qed.

Lemma existsb_dig_all : forall fp, forallb dig fp = true -> existsb dig fp = nonempty fp.
Proof.
  intros fp H. destruct fp as [|c fp]; [reflexivity|]. simpl in *. apply andb_prop in H. destruct H as [H _].
  rewrite H. reflexivity.
Qed.

Lemma forallb_dd_of_dig : forall l, forallb dig l = true -> forallb dd l = true.
Proof.
  intros l H. apply forallb_forall. intros x Hx. rewrite forallb_forall in H. unfold dd. rewrite (H x Hx). reflexivity.
Qed.

Lemma after_dot_app : forall ip x, forallb dig ip = true -> after_dot (ip ++ x) = after_dot x.
Proof.
  induction ip as [|c ip IH]; intros x H; [reflexivity|]. simpl in *.
  apply andb_prop in H. destruct H as [H1 H2].
  assert (E : (c =? 46) = false) by (unfold dig in H1; lia). rewrite E. auto.
Qed.

Lemma filter_dig_app : forall ip x, forallb dig ip = true -> filter dig (ip ++ x) = ip ++ filter dig x.
Proof. intros ip x H. rewrite filter_app, (filter_all _ dig ip H). reflexivity. Qed.

Lemma after_dot_digits : forall l, forallb dig l = true -> after_dot l = [].
Proof. intros l H. pose proof (after_dot_app l [] H) as E. rewrite app_nil_r in E. exact E. Qed.

Lemma count_dots_digits : forall l, forallb dig l = true -> count_dots l = 0%nat.
Proof. intros l H. pose proof (count_dots_app l [] H) as E. rewrite app_nil_r in E. exact E. Qed.

Lemma after_dot_unsigned : forall s, after_dot s = after_dot (opt_minus s).
Proof.
  intro s. destruct (opt_minus_cases s) as [[r [Hs [Hu _]]] | [Hu _]]; rewrite Hu; [subst s|]; reflexivity.
Qed.

Lemma filter_dig_unsigned : forall s, filter dig s = filter dig (opt_minus s).
Proof.
  intro s. destruct (opt_minus_cases s) as [[r [Hs [Hu _]]] | [Hu _]]; rewrite Hu; [subst s|]; reflexivity.
Qed.

Lemma float_const : FLOAT_OVERFLOW = FLOAT_INF.
Proof. reflexivity. Qed.

Lemma ltb_leb : forall a b : N, (a <? b) = negb (b <=? a).
Proof. intros. lia. Qed.

Lemma validate_float_spec : forall s, validate_float s = negb (lex_float s && negb (float_overflows s)).
Proof.
  intro s. unfold validate_float, layout_float_parts, lex_float, float_overflows, float_is_finite.
  rewrite after_dot_unsigned, filter_dig_unsigned, float_const. change (unsigned s) with (opt_minus s).
  fold dd. change dec_digits with num. change re_digit with dig.
  set (F := FLOAT_INF). clearbody F.
  destruct (span_digits (opt_minus s)) as [ip rest] eqn:E.
  apply span_digits_spec in E. destruct E as [Hu [Hip Hrest]]. rewrite Hu. clear Hu.
  destruct rest as [|c fp].
  - rewrite !app_nil_r. destruct ip as [|c ip]; [reflexivity|].
    rewrite (forallb_dd_of_dig _ Hip), (existsb_dig_all _ Hip), (filter_all _ dig _ Hip).
    rewrite (after_dot_digits _ Hip), (count_dots_digits _ Hip).
    cbn [nonempty Nat.leb andb after_dot]. rewrite ltb_leb, ?app_nil_r. reflexivity.
  - rewrite (forallb_dd_app ip (c :: fp) Hip), (existsb_dig_app ip (c :: fp) Hip), (count_dots_app ip (c :: fp) Hip).
    rewrite (after_dot_app ip (c :: fp) Hip), (filter_dig_app ip (c :: fp) Hip).
    cbn [forallb existsb after_dot filter]. unfold dd at 1. rewrite Hrest. cbn [orb].
    destruct (c =? 46) eqn:Ec.
    + apply N.eqb_eq in Ec. subst c. unfold count_dots. cbn [filter N.eqb Pos.eqb length andb].
      fold (count_dots fp).
      assert (El : (S (count_dots fp) <=? 1)%nat = (count_dots fp =? 0)%nat) by (destruct (count_dots fp); reflexivity).
      rewrite El.
      destruct (forallb dig fp) eqn:Hfp.
      * rewrite (filter_all _ dig fp Hfp), (existsb_dig_all fp Hfp).
        assert (Ed : forallb dd fp && (count_dots fp =? 0)%nat = true) by (rewrite dd_nodots; exact Hfp).
        apply andb_prop in Ed. destruct Ed as [Ed1 Ed2]. rewrite Ed1, Ed2.
        destruct ip as [|c ip]; cbn [nonempty orb andb is_nil negb].
        -- destruct fp as [|c fp]; [reflexivity|]. cbn [nonempty is_nil negb andb]. rewrite ltb_leb. reflexivity.
        -- rewrite ltb_leb. reflexivity.
      * assert (Ed : forallb dd fp && (count_dots fp =? 0)%nat = false) by (rewrite dd_nodots; exact Hfp).
        assert (Ez : forallb dd fp && (nonempty ip || existsb dig fp) && (count_dots fp =? 0)%nat = false).
        { destruct (forallb dd fp), (count_dots fp =? 0)%nat, (nonempty ip || existsb dig fp); try reflexivity; discriminate. }
        rewrite Ez. rewrite andb_false_r. destruct ip; reflexivity.
    + cbn [andb]. destruct ip; reflexivity.
Qed.

Lemma kind_float : forall s, accepts_kind KFloat s = xorb (lex_float s) (lex_float s && float_overflows s).
Proof.
  intro s. unfold accepts_kind. cbn [validate_kind]. rewrite validate_float_spec, negb_involutive.
  destruct (lex_float s), (float_overflows s); reflexivity.
Qed.

(* ================================================================ char, Boolean, String, codes *)

Lemma kind_string : forall s, s <> [] -> accepts_kind KString s = xorb (lex DString s) (kf DString s).
Proof.
  intros s Hne. unfold accepts_kind. cbn [validate_kind lex kf]. unfold validate_str, lex_string, has_equals, in_str.
  destruct s as [|c s]; [congruence|]. cbn [nonempty andb].
  destruct (existsb (N.eqb 1) (c :: s)), (existsb (N.eqb 61) (c :: s)); reflexivity.
Qed.

Lemma kind_char : forall s, s <> [] -> accepts_kind KChar s = xorb (lex DChar s) (kf DChar s).
Proof.
  intros s Hne. unfold accepts_kind. cbn [validate_kind lex kf]. unfold validate_str, lex_char, has_equals, in_str.
  destruct s as [|c [|c2 r]]; [congruence| |].
  - cbn [existsb length Nat.ltb Nat.leb orb andb]. rewrite !orb_false_r, (N.eqb_sym c 1).
    destruct (1 =? c), (61 =? c); reflexivity.
  - cbn [length Nat.ltb Nat.leb andb xorb].
    destruct (existsb (N.eqb 1) (c :: c2 :: r)), (existsb (N.eqb 61) (c :: c2 :: r)); reflexivity.
Qed.

Lemma kind_boolean : forall s, s <> [] -> accepts_kind KBoolean s = lex_boolean s.
Proof.
  intros s Hne. unfold accepts_kind. cbn [validate_kind]. unfold validate_str, lex_boolean, in_str, mem_str.
  destruct s as [|c [|c2 r]]; [congruence| |].
  - cbn [existsb length Nat.ltb Nat.leb orb andb str_eqb].
    rewrite !orb_false_r, !andb_true_r.
    destruct (1 =? c) eqn:E1, (61 =? c) eqn:E2, (c =? 89) eqn:E3, (c =? 78) eqn:E4; try reflexivity; lia.
  - cbn [length Nat.ltb Nat.leb].
    destruct (existsb (N.eqb 1) (c :: c2 :: r)), (existsb (N.eqb 61) (c :: c2 :: r)); reflexivity.
Qed.

Lemma alnum_plain : forall c, alnum c = true -> (1 =? c) = false /\ (61 =? c) = false.
Proof. intros c H. unfold alnum, dig in H. lia. Qed.

Lemma alnum_no_specials : forall s, forallb alnum s = true -> in_str 1 s = false /\ in_str 61 s = false.
Proof.
  induction s as [|c s IH]; intro H; [split; reflexivity|]. cbn [forallb] in H.
  apply andb_prop in H. destruct H as [H1 H2]. destruct (alnum_plain c H1) as [A B]. destruct (IH H2) as [C D].
  unfold in_str in *. cbn [existsb]. rewrite A, B, C, D. split; reflexivity.
Qed.

Lemma exists_non_alnum : forall s, existsb (fun c => negb (re_alnum c)) s = negb (forallb alnum s).
Proof.
  induction s as [|c s IH]; [reflexivity|]. cbn [existsb forallb]. rewrite IH. change (re_alnum c) with (alnum c).
  destruct (alnum c), (forallb alnum s); reflexivity.
Qed.

Lemma validate_code : forall n s, s <> [] ->
  negb (validate_str (Some n) None true s) = lex_code n s.
Proof.
  intros n s Hne. unfold validate_str, lex_code. rewrite exists_non_alnum.
  assert (El : (n <? length s)%nat = negb (length s <=? n)%nat) by lia.
  rewrite El. destruct s as [|c s]; [congruence|]. cbn [nonempty andb].
  destruct (forallb alnum (c :: s)) eqn:Ha.
  - destruct (alnum_no_specials _ Ha) as [A B]. rewrite A, B.
    destruct (length (c :: s) <=? n)%nat; reflexivity.
  - cbn [negb andb]. rewrite andb_false_r.
    destruct (in_str 1 (c :: s)), (in_str 61 (c :: s)), (length (c :: s) <=? n)%nat; reflexivity.
Qed.

(* ================================================================ MultipleValueString *)

Lemma split_on_nonnil : forall c s, split_on c s <> [].
Proof.
  intros c s. destruct s as [|x s]; simpl; [discriminate|].
  destruct (N.eqb x c); [discriminate|]. destruct (split_on c s); discriminate.
Qed.

Lemma split_values : forall s,
  existsb is_nil (split_on 32 s) = negb (values_ok true s)
  /\ existsb is_nil (tl (split_on 32 s)) = negb (values_ok false s).
Proof.
  induction s as [|c s [IH1 IH2]]; [split; reflexivity|].
  cbn [split_on values_ok]. destruct (c =? 32) eqn:E.
  - cbn [existsb is_nil tl negb andb orb]. split; [reflexivity|]. exact IH1.
  - destruct (split_on 32 s) as [|p ps] eqn:Es; [exfalso; exact (split_on_nonnil 32 s Es)|].
    cbn [existsb is_nil tl orb] in *. split; exact IH2.
Qed.

Lemma kind_multi : forall s, s <> [] ->
  accepts_kind KMulti s = xorb (lex DMultipleValueString s) (kf DMultipleValueString s).
Proof.
  intros s Hne. unfold accepts_kind. cbn [validate_kind lex kf]. unfold lex_multi.
  destruct (split_values s) as [E _]. rewrite E.
  unfold validate_str, lex_string, has_equals, in_str.
  destruct s as [|c s]; [congruence|]. cbn [nonempty andb].
  destruct (existsb (N.eqb 1) (c :: s)), (existsb (N.eqb 61) (c :: s)), (values_ok true (c :: s)); reflexivity.
Qed.

(* ================================================================ calendar *)

Lemma leap_eq : forall y, py_is_leap y = leap_year y.
Proof.
  intro y. unfold py_is_leap, leap_year.
  assert (H4 : y mod 400 = 0 -> y mod 4 = 0 /\ y mod 100 = 0).
  { intro H. apply N.mod_divide in H; [|lia]. destruct H as [k Hk]. split; apply N.mod_divide; try lia.
    - exists (k * 100). lia.
    - exists (k * 4). lia. }
  destruct (y mod 400 =? 0) eqn:E1; destruct (y mod 4 =? 0) eqn:E2; destruct (y mod 100 =? 0) eqn:E3; try reflexivity;
    apply N.eqb_eq in E1; destruct (H4 E1) as [A B]; rewrite ?N.eqb_neq in *; congruence.
Qed.

Lemma py_dim_eq : forall y m, valid_month m = true -> py_days_in_month y m = days_in_month y m.
Proof.
  intros y m H. unfold valid_month in H.
  assert (C : m = 1 \/ m = 2 \/ m = 3 \/ m = 4 \/ m = 5 \/ m = 6 \/ m = 7 \/ m = 8 \/ m = 9 \/ m = 10 \/ m = 11 \/ m = 12) by lia.
  unfold py_days_in_month, days_in_month. rewrite leap_eq.
  repeat (destruct C as [C | C]; [subst m; simpl; try destruct (leap_year y); reflexivity|]).
  subst m; reflexivity.
Qed.

Lemma dim_bounds : forall y m, 28 <= days_in_month y m <= 31.
Proof.
  intros. unfold days_in_month. destruct (m =? 2); [destruct (leap_year y); lia|].
  destruct ((m =? 4) || (m =? 6) || (m =? 9) || (m =? 11)); lia.
Qed.

(* ================================================================ fixed-width layouts *)

Lemma validate_datetime_eq : forall f s,
  validate_datetime f s
  = negb (layout f (in_str 46 s && has_S f) s && (strptime_regex_ok (fields f s) && datetime_ok (fields f s))).
Proof. intros. unfold validate_datetime. destruct (layout f _ s); reflexivity. Qed.

Lemma xorb_absorb : forall a k, xorb a (a && k) = a && negb k.
Proof. destruct a, k; reflexivity. Qed.

Lemma matches_length : forall p s, matches p s = true -> length s = length p.
Proof.
  induction p as [|q p IH]; destruct s as [|x s]; simpl; intro H; try discriminate; [reflexivity|].
  apply andb_prop in H. destruct H as [_ H]. f_equal. auto.
Qed.

Lemma matches_nil : forall s, matches [] s = is_nil s.
Proof. destruct s; reflexivity. Qed.

Lemma matches_app : forall p q s,
  matches (p ++ q) s = matches p (firstn (length p) s) && matches q (skipn (length p) s).
Proof.
  induction p as [|a p IH]; intros q s.
  - reflexivity.
  - destruct s as [|x s]; [reflexivity|]. cbn [app matches length firstn skipn]. rewrite IH, andb_assoc. reflexivity.
Qed.

Lemma matches_not_in : forall c p s,
  forallb (fun q => negb (pc_ok q c)) p = true -> matches p s = true -> in_str c s = false.
Proof.
  intros c. induction p as [|q p IH]; destruct s as [|x s]; cbn [forallb matches]; intros Hp Hm; try discriminate; [reflexivity|].
  apply andb_prop in Hp. destruct Hp as [Hq Hp]. apply andb_prop in Hm. destruct Hm as [Hx Hm].
  unfold in_str in *. cbn [existsb]. rewrite (IH s Hp Hm), orb_false_r.
  destruct (c =? x) eqn:E; [|reflexivity]. apply N.eqb_eq in E. subst x. rewrite Hx in Hq. discriminate.
Qed.

Lemma in_str_app : forall c a b, in_str c (a ++ b) = in_str c a || in_str c b.
Proof. intros. unfold in_str. apply existsb_app. Qed.

Lemma field_at_firstn : forall i n k s, (i + n <= k)%nat -> field_at i n (firstn k s) = field_at i n s.
Proof.
  intros i n k s H. unfold field_at. rewrite skipn_firstn_comm, firstn_firstn.
  replace (Init.Nat.min n (k - i)) with n by lia. reflexivity.
Qed.

Lemma skipn_skipn' : forall (A : Type) k i (s : list A), skipn i (skipn k s) = skipn (k + i) s.
Proof.
  induction k as [|k IH]; intros i s; [reflexivity|].
  destruct s as [|x s]; [rewrite !skipn_nil; reflexivity|]. cbn [skipn Nat.add]. apply IH.
Qed.

Lemma field_at_skipn : forall i n k s, field_at i n (skipn k s) = field_at (k + i) n s.
Proof. intros. unfold field_at. rewrite skipn_skipn'. reflexivity. Qed.

(* ================================================================ dates *)

Definition date_ok (d : str) : bool :=
  matches P_Ymd d && (regex_date (fields F_Ymd d) && check_date_fields (fields F_Ymd d)).

Lemma date8 : forall c1 c2 c3 c4 c5 c6 c7 c8, let d := [c1; c2; c3; c4; c5; c6; c7; c8] in
  date_ok d = lex_date d && negb (year0 d).
Proof.
  intros. subst d.
  cbv [date_ok regex_date check_date_fields P_Ymd P_Ym app matches pc_ok fields field_at skipn firstn dec_digits fold_left
       pY pm pd pH pM pS lex_date year0 forallb valid_day num].
  change re_digit with dig.
  set (m := 10 * (10 * 0 + (c5 - 48)) + (c6 - 48)).
  set (y := 10 * (10 * (10 * (10 * 0 + (c1 - 48)) + (c2 - 48)) + (c3 - 48)) + (c4 - 48)).
  destruct (valid_month m) eqn:HM.
  - rewrite (py_dim_eq y m HM). pose proof (dim_bounds y m). unfold valid_month in HM. unfold dig. subst y m. lia.
  - unfold valid_month in HM. unfold dig. lia.
Qed.

Lemma lex_date_len : forall s, lex_date s = true -> length s = 8%nat.
Proof.
  intros s H. do 8 (destruct s as [|? s]; [discriminate H|]). destruct s; [reflexivity | discriminate H].
Qed.

Lemma date_ok_spec : forall d, date_ok d = lex_date d && negb (year0 d).
Proof.
  intro d. destruct (Nat.eq_dec (length d) 8) as [L|L].
  - do 8 (destruct d as [|? d]; [discriminate L|]). destruct d; [|discriminate L]. apply date8.
  - assert (E1 : date_ok d = false).
    { unfold date_ok. destruct (matches P_Ymd d) eqn:E; [|reflexivity]. apply matches_length in E. contradiction. }
    assert (E2 : lex_date d = false).
    { destruct (lex_date d) eqn:E; [|reflexivity]. apply lex_date_len in E. contradiction. }
    rewrite E1, E2. reflexivity.
Qed.

Lemma accept_date : forall s, negb (validate_datetime F_Ymd s) = date_ok s.
Proof.
  intro s. rewrite validate_datetime_eq, negb_involutive. cbn [has_S]. rewrite andb_false_r.
  unfold date_ok, strptime_regex_ok, datetime_ok, layout.
  assert (E1 : regex_time (fields F_Ymd s) = true) by reflexivity.
  assert (E2 : check_time_fields (fields F_Ymd s) = true) by reflexivity.
  rewrite E1, E2, !andb_true_r. reflexivity.
Qed.

Lemma kind_date : forall s, accepts_kind KDate s = xorb (lex_date s) (lex_date s && year0 s).
Proof.
  intro s. unfold accepts_kind. cbn [validate_kind]. rewrite accept_date, date_ok_spec, xorb_absorb. reflexivity.
Qed.

(* ================================================================ times *)

Definition hms_ok (h : str) : bool :=
  matches P_HMS h && (regex_time (fields F_HMS h) && check_time_fields (fields F_HMS h)).
Definition frac_ok (f : str) : bool := is_nil f || matches P_F3 f || matches P_F6 f.

Lemma hms8 : forall c1 c2 c3 c4 c5 c6 c7 c8, let h := [c1; c2; c3; c4; c5; c6; c7; c8] in
  hms_ok h = lex_time h && negb (second60 h).
Proof.
  intros. subst h.
  cbv [hms_ok regex_time check_time_fields P_HMS matches pc_ok fields field_at skipn firstn dec_digits fold_left
       pY pm pd pH pM pS lex_time lex_millis second60 forallb num].
  change re_digit with dig. unfold dig. lia.
Qed.

Lemma hms_ok_spec : forall h, (length h <= 8)%nat -> hms_ok h = lex_time h && negb (second60 h).
Proof.
  intros h L.
  destruct (Nat.eq_dec (length h) 8) as [E|E].
  - do 8 (destruct h as [|? h]; [discriminate E|]). destruct h; [|discriminate E]. apply hms8.
  - assert (E1 : hms_ok h = false).
    { unfold hms_ok. destruct (matches P_HMS h) eqn:M; [|reflexivity]. apply matches_length in M. contradiction. }
    assert (E2 : lex_time h = false).
    { clear E1. do 8 (destruct h as [|? h]; [reflexivity|]). destruct h; [contradiction E; reflexivity | simpl in L; lia]. }
    rewrite E1, E2. reflexivity.
Qed.

Lemma lex_time_split : forall t, lex_time t = lex_time (firstn 8 t) && lex_millis (skipn 8 t).
Proof.
  intro t. do 8 (destruct t as [|? t]; [reflexivity|]).
  cbn [firstn skipn]. unfold lex_time. cbn [lex_millis]. rewrite andb_true_r. reflexivity.
Qed.

Lemma second60_firstn : forall t, second60 t = second60 (firstn 8 t).
Proof. intro t. do 8 (destruct t as [|? t]; [reflexivity|]). reflexivity. Qed.

Lemma lex_millis_frac : forall f, lex_millis f = is_nil f || matches P_F3 f.
Proof.
  intro f.
  do 4 (destruct f as [|? f];
        [cbv [lex_millis is_nil orb matches P_F3 pc_ok]; rewrite ?andb_false_r; reflexivity|]).
  destruct f as [|? f].
  - cbv [lex_millis is_nil orb matches P_F3 pc_ok]. change re_digit with dig. rewrite andb_true_r, !andb_assoc. reflexivity.
  - cbv [lex_millis is_nil orb matches P_F3 pc_ok]. rewrite !andb_false_r. reflexivity.
Qed.

Lemma frac_exclusive : forall f, matches P_F6 f = true -> is_nil f = false /\ matches P_F3 f = false.
Proof.
  intros f H. apply matches_length in H. split.
  - destruct f; [discriminate H | reflexivity].
  - destruct (matches P_F3 f) eqn:E; [|reflexivity]. apply matches_length in E. rewrite E in H. discriminate H.
Qed.

Lemma frac_layout : forall f,
  (if in_str 46 f then matches P_F3 f || matches P_F6 f else is_nil f) = frac_ok f.
Proof.
  intro f. unfold frac_ok. destruct f as [|p r]; [reflexivity|].
  unfold in_str. cbn [existsb is_nil orb]. cbv [P_F6 P_F3 app]. cbn [matches pc_ok]. rewrite (N.eqb_sym 46 p).
  destruct (p =? 46); cbn [andb orb]; [reflexivity|].
  destruct (existsb (N.eqb 46) r); reflexivity.
Qed.

Lemma accept_hms_gen : forall t dot,
  (matches P_HMS (firstn 8 t) = true -> dot = in_str 46 (skipn 8 t)) ->
  layout F_HMS dot t && (regex_time (fields F_HMS t) && check_time_fields (fields F_HMS t))
  = hms_ok (firstn 8 t) && frac_ok (skipn 8 t).
Proof.
  intros t dot Hdot. unfold hms_ok.
  assert (EF : fields F_HMS (firstn 8 t) = fields F_HMS t).
  { unfold fields. rewrite !field_at_firstn by lia. reflexivity. }
  rewrite EF.
  assert (EL : layout F_HMS dot t = matches P_HMS (firstn 8 t)
               && (if dot then matches P_F3 (skipn 8 t) || matches P_F6 (skipn 8 t) else is_nil (skipn 8 t))).
  { unfold layout. destruct dot.
    - rewrite !matches_app. change (length P_HMS) with 8%nat. rewrite andb_orb_distrib_r. reflexivity.
    - rewrite <- (app_nil_r P_HMS) at 1. rewrite matches_app, matches_nil. reflexivity. }
  rewrite EL. destruct (matches P_HMS (firstn 8 t)) eqn:M; [|reflexivity].
  rewrite (Hdot eq_refl), frac_layout. cbn [andb].
  apply andb_comm.
Qed.

Lemma hms_nodot : forall h, matches P_HMS h = true -> in_str 46 h = false.
Proof. intros h H. apply (matches_not_in 46 P_HMS h); [reflexivity | exact H]. Qed.

Lemma accept_time : forall t, negb (validate_datetime F_HMS t) = hms_ok (firstn 8 t) && frac_ok (skipn 8 t).
Proof.
  intro t. rewrite validate_datetime_eq, negb_involutive. cbn [has_S]. rewrite andb_true_r.
  unfold strptime_regex_ok, datetime_ok.
  assert (E1 : regex_date (fields F_HMS t) = true) by reflexivity.
  assert (E2 : check_date_fields (fields F_HMS t) = true) by reflexivity.
  rewrite E1, E2. cbn [andb].
  apply accept_hms_gen. intro M.
  rewrite <- (firstn_skipn 8 t) at 1. rewrite in_str_app, (hms_nodot _ M). reflexivity.
Qed.

Definition micros_time (t : str) : bool := micros (fun b => lex_time b && negb (second60 b)) 12 t.

Lemma micros_time_spec : forall t,
  micros_time t = lex_time (firstn 8 t) && negb (second60 (firstn 8 t)) && matches P_F6 (skipn 8 t).
Proof.
  intro t. unfold micros_time, micros.
  do 15 (destruct t as [|? t];
    [ cbv [length Nat.eqb Nat.add firstn skipn P_F6 P_F3 app matches pc_ok lex_time lex_millis]; cbn [andb];
      rewrite ?andb_false_r; reflexivity |]).
  destruct t as [|? t].
  - cbv [length Nat.eqb Nat.add firstn skipn P_F6 P_F3 app matches pc_ok lex_time lex_millis forallb second60 num fold_left].
    change re_digit with dig. btauto.
  - cbv [length Nat.eqb Nat.add firstn skipn P_F6 P_F3 app matches pc_ok]. cbn [andb]. rewrite ?andb_false_r. reflexivity.
Qed.

Lemma kind_time : forall t, accepts_kind KTimeOnly t = xorb (lex_time t) (kf DUTCTimeOnly t).
Proof.
  intro t. unfold accepts_kind. cbn [validate_kind kf]. rewrite accept_time.
  fold (micros_time t). rewrite micros_time_spec.
  rewrite hms_ok_spec by (rewrite firstn_length; lia).
  rewrite (lex_time_split t), (second60_firstn t), lex_millis_frac. unfold frac_ok.
  pose proof (frac_exclusive (skipn 8 t)) as X.
  destruct (lex_time (firstn 8 t)), (second60 (firstn 8 t)), (is_nil (skipn 8 t)), (matches P_F3 (skipn 8 t)),
    (matches P_F6 (skipn 8 t)); try reflexivity; destruct (X eq_refl); discriminate.
Qed.

(* ================================================================ timestamps *)

Lemma layout_ts_split : forall dot s,
  layout F_YmdHMS dot s
  = matches P_Ymd (firstn 8 s) && matches [PC 45] (firstn 1 (skipn 8 s)) && layout F_HMS dot (skipn 9 s).
Proof.
  intros dot s. unfold layout. destruct dot.
  - rewrite <- !app_assoc.
    rewrite (matches_app P_Ymd), (matches_app [PC 45]). rewrite (matches_app P_Ymd _ s), (matches_app [PC 45]).
    change (length P_Ymd) with 8%nat. change (length [PC 45]) with 1%nat. rewrite skipn_skipn'. cbn [Nat.add].
    destruct (matches P_Ymd (firstn 8 s)), (matches [PC 45] (firstn 1 (skipn 8 s))); reflexivity.
  - rewrite (matches_app P_Ymd), (matches_app [PC 45]).
    change (length P_Ymd) with 8%nat. change (length [PC 45]) with 1%nat. rewrite skipn_skipn'. cbn [Nat.add].
    rewrite andb_assoc. reflexivity.
Qed.

Lemma ymd_nodot : forall d, matches P_Ymd d = true -> in_str 46 d = false.
Proof. intros d H. apply (matches_not_in 46 P_Ymd d); [reflexivity | exact H]. Qed.
Lemma dash_nodot : forall d, matches [PC 45] d = true -> in_str 46 d = false.
Proof. intros d H. apply (matches_not_in 46 [PC 45] d); [reflexivity | exact H]. Qed.

Lemma accept_ts : forall s,
  negb (validate_datetime F_YmdHMS s)
  = date_ok (firstn 8 s) && matches [PC 45] (firstn 1 (skipn 8 s))
    && (hms_ok (firstn 8 (skipn 9 s)) && frac_ok (skipn 8 (skipn 9 s))).
Proof.
  intro s. rewrite validate_datetime_eq, negb_involutive. cbn [has_S]. rewrite andb_true_r.
  unfold strptime_regex_ok, datetime_ok. rewrite layout_ts_split.
  assert (Erd : regex_date (fields F_YmdHMS s) = regex_date (fields F_Ymd (firstn 8 s))).
  { unfold regex_date, fields. cbn [pm pd]. rewrite !field_at_firstn by lia. reflexivity. }
  assert (Ecd : check_date_fields (fields F_YmdHMS s) = check_date_fields (fields F_Ymd (firstn 8 s))).
  { unfold check_date_fields, fields. cbn [pY pm pd]. rewrite !field_at_firstn by lia. reflexivity. }
  assert (Ert : regex_time (fields F_YmdHMS s) = regex_time (fields F_HMS (skipn 9 s))).
  { unfold regex_time, fields. cbn [pH pM pS]. rewrite !field_at_skipn. reflexivity. }
  assert (Ect : check_time_fields (fields F_YmdHMS s) = check_time_fields (fields F_HMS (skipn 9 s))).
  { unfold check_time_fields, fields. cbn [pH pM pS]. rewrite !field_at_skipn. reflexivity. }
  rewrite Erd, Ecd, Ert, Ect. unfold date_ok.
  destruct (matches P_Ymd (firstn 8 s)) eqn:A; [|reflexivity].
  destruct (matches [PC 45] (firstn 1 (skipn 8 s))) eqn:B; [|cbn [andb]; rewrite andb_false_r; reflexivity].
  cbn [andb]. rewrite andb_true_r.
  rewrite <- (accept_hms_gen (skipn 9 s) (in_str 46 s)).
  - set (L := layout F_HMS (in_str 46 s) (skipn 9 s)).
    destruct L, (regex_date (fields F_Ymd (firstn 8 s))), (check_date_fields (fields F_Ymd (firstn 8 s))),
      (regex_time (fields F_HMS (skipn 9 s))), (check_time_fields (fields F_HMS (skipn 9 s))); reflexivity.
  - intro M.
    rewrite <- (firstn_skipn 8 s) at 1. rewrite in_str_app, (ymd_nodot _ A). cbn [orb].
    rewrite <- (firstn_skipn 1 (skipn 8 s)) at 1. rewrite in_str_app, (dash_nodot _ B). cbn [orb].
    rewrite skipn_skipn'. cbn [Nat.add].
    rewrite <- (firstn_skipn 8 (skipn 9 s)) at 1. rewrite in_str_app, (hms_nodot _ M). reflexivity.
Qed.

Lemma lex_ts_split : forall s,
  lex_timestamp s = lex_date (firstn 8 s) && matches [PC 45] (firstn 1 (skipn 8 s)) && lex_time (skipn 9 s).
Proof.
  intro s. do 8 (destruct s as [|? s]; [reflexivity|]).
  destruct s as [|? s].
  - cbn [firstn skipn matches]. rewrite andb_false_r. reflexivity.
  - cbn [firstn skipn matches pc_ok]. unfold lex_timestamp. rewrite andb_true_r. reflexivity.
Qed.

Lemma year0_firstn : forall s, year0 s = year0 (firstn 8 s).
Proof. intro s. do 4 (destruct s as [|? s]; [reflexivity|]). reflexivity. Qed.

Definition micros_ts (s : str) : bool :=
  micros (fun b => lex_timestamp b && negb (year0 b) && negb (second60 (skipn 9 b))) 21 s.

Lemma micros_ts_spec : forall s,
  micros_ts s = lex_date (firstn 8 s) && negb (year0 (firstn 8 s)) && matches [PC 45] (firstn 1 (skipn 8 s))
                && micros_time (skipn 9 s).
Proof.
  intro s. unfold micros_ts, micros_time, micros.
  do 24 (destruct s as [|? s];
    [ cbv [length Nat.eqb Nat.add firstn skipn matches pc_ok lex_date]; cbn [andb];
      rewrite ?andb_false_r; reflexivity |]).
  destruct s as [|? s].
  - cbv [length Nat.eqb Nat.add firstn skipn matches pc_ok lex_timestamp lex_date lex_time lex_millis forallb
         year0 second60 num fold_left valid_day valid_month].
    btauto.
  - cbv [length Nat.eqb Nat.add firstn skipn]. cbn [andb]. rewrite ?andb_false_r. reflexivity.
Qed.

Lemma kind_timestamp : forall s, accepts_kind KTimestamp s = xorb (lex_timestamp s) (kf DUTCTimestamp s).
Proof.
  intro s. unfold accepts_kind. cbn [validate_kind kf]. rewrite accept_ts.
  fold (micros_ts s). rewrite micros_ts_spec, micros_time_spec.
  rewrite date_ok_spec, hms_ok_spec by (rewrite firstn_length; lia).
  rewrite (lex_ts_split s), (year0_firstn s), (lex_time_split (skipn 9 s)), (second60_firstn (skipn 9 s)), lex_millis_frac.
  unfold frac_ok.
  pose proof (frac_exclusive (skipn 8 (skipn 9 s))) as X.
  destruct (lex_date (firstn 8 s)), (year0 (firstn 8 s)), (matches [PC 45] (firstn 1 (skipn 8 s))),
    (lex_time (firstn 8 (skipn 9 s))), (second60 (firstn 8 (skipn 9 s))), (is_nil (skipn 8 (skipn 9 s))),
    (matches P_F3 (skipn 8 (skipn 9 s))), (matches P_F6 (skipn 8 (skipn 9 s)));
    try reflexivity; destruct (X eq_refl); discriminate.
Qed.

(* ================================================================ month-year *)

Definition ym_ok (v : str) : bool :=
  matches P_Ym v && (regex_date (fields F_Ym v) && check_date_fields (fields F_Ym v)).

Lemma accept_ym : forall s, negb (validate_datetime F_Ym s) = ym_ok s.
Proof.
  intro s. rewrite validate_datetime_eq, negb_involutive. cbn [has_S]. rewrite andb_false_r.
  unfold ym_ok, strptime_regex_ok, datetime_ok, layout.
  assert (E1 : regex_time (fields F_Ym s) = true) by reflexivity.
  assert (E2 : check_time_fields (fields F_Ym s) = true) by reflexivity.
  rewrite E1, E2, !andb_true_r. reflexivity.
Qed.

Lemma ym6 : forall c1 c2 c3 c4 c5 c6, let v := [c1; c2; c3; c4; c5; c6] in
  ym_ok v = lex_monthyear v && negb (year0 v).
Proof.
  intros. subst v.
  cbv [ym_ok regex_date check_date_fields P_Ym matches pc_ok fields field_at skipn firstn dec_digits fold_left
       pY pm pd pH pM pS lex_monthyear year0 forallb num].
  change re_digit with dig.
  set (m := 10 * (10 * 0 + (c5 - 48)) + (c6 - 48)).
  set (y := 10 * (10 * (10 * (10 * 0 + (c1 - 48)) + (c2 - 48)) + (c3 - 48)) + (c4 - 48)).
  destruct (valid_month m) eqn:HM.
  - rewrite (py_dim_eq y m HM). pose proof (dim_bounds y m). unfold valid_month in HM. unfold dig. subst y m. lia.
  - unfold valid_month in HM. unfold dig. lia.
Qed.

Lemma ym_ok_len : forall v, ym_ok v = true -> length v = 6%nat.
Proof.
  intros v H. unfold ym_ok in H. apply andb_prop in H. destruct H as [H _]. apply matches_length in H. exact H.
Qed.

Lemma monthyear_len : forall s, lex_monthyear s = true -> length s = 6%nat \/ length s = 8%nat.
Proof.
  intros s H. do 6 (destruct s as [|? s]; [discriminate H|]).
  destruct s as [|? s]; [left; reflexivity|]. destruct s as [|? s]; [discriminate H|].
  destruct s as [|? s]; [right; reflexivity | discriminate H].
Qed.

Lemma validate_monthyear_len : forall s, length s <> 6%nat -> length s <> 8%nat -> validate_monthyear s = true.
Proof.
  intros s H6 H8. unfold validate_monthyear.
  destruct (in_str 119 s).
  - destruct (negb (mem_str (skipn (length s - 2) s) WEEKS)); [reflexivity|].
    rewrite firstn_length.
    assert (E : (Init.Nat.min (length s - 2) (length s) =? 6)%nat = false) by (apply Nat.eqb_neq; lia).
    rewrite E. reflexivity.
  - assert (E : (length s =? 6)%nat = false) by (apply Nat.eqb_neq; exact H6). rewrite E.
    apply negb_false_iff. rewrite accept_date.
    unfold date_ok. destruct (matches P_Ymd s) eqn:M; [|reflexivity]. apply matches_length in M. contradiction.
Qed.

Lemma monthyear6 : forall c1 c2 c3 c4 c5 c6, let s := [c1; c2; c3; c4; c5; c6] in
  negb (validate_monthyear s) = lex_monthyear s && negb (year0 s).
Proof.
  intros. subst s. unfold validate_monthyear.
  cbn [length Nat.sub skipn firstn Nat.eqb negb].
  match goal with |- context [in_str 119 ?l] => destruct (in_str 119 l) eqn:W end.
  - assert (E : lex_monthyear [c1; c2; c3; c4; c5; c6] = false).
    { cbv [in_str existsb] in W. cbv [lex_monthyear forallb]. unfold dig. lia. }
    rewrite E. destruct (negb (mem_str [c5; c6] WEEKS)); reflexivity.
  - rewrite accept_ym. apply ym6.
Qed.

Lemma monthyear8 : forall c1 c2 c3 c4 c5 c6 c7 c8, let s := [c1; c2; c3; c4; c5; c6; c7; c8] in
  negb (validate_monthyear s) = lex_monthyear s && negb (year0 s).
Proof.
  intros. subst s. unfold validate_monthyear.
  cbn [length Nat.sub skipn firstn Nat.eqb negb].
  match goal with |- context [in_str 119 ?l] => destruct (in_str 119 l) eqn:W end.
  - destruct (mem_str [c7; c8] WEEKS) eqn:K; cbn [negb].
    + rewrite accept_ym, ym6. cbv [mem_str existsb WEEKS str_eqb] in K.
      cbv [lex_monthyear forallb year0 num fold_left valid_day]. unfold dig in *. lia.
    + cbv [mem_str existsb WEEKS str_eqb] in K. cbv [in_str existsb] in W.
      assert (E : lex_monthyear [c1; c2; c3; c4; c5; c6; c7; c8] = false).
      { cbv [lex_monthyear forallb]. unfold dig. lia. }
      rewrite E. reflexivity.
  - rewrite accept_date, date8. cbv [in_str existsb] in W.
    cbv [lex_date lex_monthyear forallb year0]. unfold dig. lia.
Qed.

Lemma kind_monthyear : forall s, accepts_kind KMonthYear s = xorb (lex_monthyear s) (lex_monthyear s && year0 s).
Proof.
  intro s. unfold accepts_kind. cbn [validate_kind]. rewrite xorb_absorb.
  destruct (Nat.eq_dec (length s) 6) as [L6|L6].
  - do 6 (destruct s as [|? s]; [discriminate L6|]). destruct s; [|discriminate L6]. apply monthyear6.
  - destruct (Nat.eq_dec (length s) 8) as [L8|L8].
    + do 8 (destruct s as [|? s]; [discriminate L8|]). destruct s; [|discriminate L8]. apply monthyear8.
    + rewrite (validate_monthyear_len s L6 L8).
      destruct (lex_monthyear s) eqn:E; [|reflexivity]. apply monthyear_len in E. destruct E; contradiction.
Qed.

(* ================================================================ validate_value *)

Definition plain (tag ty : str) : field := mkField tag ty [].

Definition kind_of (d : datatype) : kind :=
  match d with
  | DInt => KInt
  | DLength | DData => KUnchecked
  | DNumInGroup | DSeqNum => KPositive
  | DDayOfMonth => KDayOfMonth
  | DFloat | DQty | DPrice | DPriceOffset | DAmt | DPercentage => KFloat
  | DChar => KChar
  | DBoolean => KBoolean
  | DString => KString
  | DMultipleValueString => KMulti
  | DCountry => KCountry
  | DCurrency => KCurrency
  | DExchange => KExchange
  | DMonthYear => KMonthYear
  | DUTCTimestamp => KTimestamp
  | DUTCTimeOnly => KTimeOnly
  | DUTCDateOnly | DLocalMktDate => KDate
  end.

(* the dispatch of validate_value sends every dictionary name of a FIX datatype to the validator of that datatype *)
Lemma classify_ok : forall n d, datatype_of_name n = Some d -> classify (upper n) = kind_of d.
Proof.
  intros n d. unfold datatype_of_name, datatype_names. cbn [assoc_name].
  repeat match goal with
  | |- (if code_eqb n ?k then _ else _) = _ -> _ =>
      destruct (code_eqb n k) eqn:E;
      [ apply code_eqb_eq in E; subst n; intro H; injection H as H; subst d; vm_compute; reflexivity | clear E ]
  end.
  discriminate.
Qed.

Lemma kind_of_supported : forall d, match kind_of d with KUnsupported => true | _ => false end = false.
Proof. destruct d; reflexivity. Qed.

Lemma lex_nil : forall d, lex d [] = false.
Proof. destruct d; reflexivity. Qed.

Lemma kf_nil : forall d, kf d [] = false.
Proof. destruct d; reflexivity. Qed.

Lemma kind_spec : forall d s, s <> [] -> accepts_kind (kind_of d) s = xorb (lex d s) (kf d s).
Proof.
  intros d s Hne.
  assert (Hn : nonempty s = true) by (destruct s; [congruence | reflexivity]).
  destruct d; cbn [kind_of lex kf].
  - apply kind_int.
  - unfold accepts_kind. cbn [validate_kind negb]. rewrite Hn. destruct (lex_positive s); reflexivity.
  - apply kind_positive.
  - apply kind_positive.
  - apply kind_dayofmonth.
  - apply kind_float.
  - apply kind_float.
  - apply kind_float.
  - apply kind_float.
  - apply kind_float.
  - apply kind_float.
  - apply (kind_char s Hne).
  - rewrite xorb_false_r. apply (kind_boolean s Hne).
  - apply (kind_string s Hne).
  - apply (kind_multi s Hne).
  - rewrite xorb_false_r. apply (validate_code 2 s Hne).
  - rewrite xorb_false_r. apply (validate_code 3 s Hne).
  - rewrite xorb_false_r. apply (validate_code 4 s Hne).
  - apply kind_monthyear.
  - apply kind_timestamp.
  - apply kind_time.
  - apply kind_date.
  - apply kind_date.
  - unfold accepts_kind, lex_data. cbn [validate_kind negb]. rewrite Hn. reflexivity.
Qed.

Definition is_endseqno_zero (tag s : str) : bool := str_eqb tag TAG_16 && str_eqb s [48].

Lemma validate_plain : forall tag n d s, datatype_of_name n = Some d ->
  validate_value (plain tag n) s
  = if xorb (lex d s) (kf d s) || (is_endseqno_zero tag s) then Accept false else Raise EFIXMessageError.
Proof.
  intros tag n d s Hd. unfold validate_value.
  destruct s as [|c s].
  - rewrite lex_nil, kf_nil. unfold is_endseqno_zero. rewrite andb_false_r. reflexivity.
  - cbn [is_nil plain f_values f_type negb]. rewrite (classify_ok n d Hd), kind_of_supported.
    assert (K := kind_spec d (c :: s) ltac:(discriminate)). unfold accepts_kind in K.
    rewrite <- K. unfold special_cases, is_endseqno_zero. cbn [f_tag plain].
    destruct (str_eqb tag TAG_16), (str_eqb (c :: s) [48]), (validate_kind (kind_of d) (c :: s)); reflexivity.
Qed.

(* main statement: acceptance is membership in the lexical space, exactly off the known-finding classes *)
Lemma validate_exact : forall tag n d s, datatype_of_name n = Some d -> tag <> TAG_16 ->
  (validate_value (plain tag n) s = Accept false <-> xorb (lex d s) (kf d s) = true).
Proof.
  intros tag n d s Hd Ht. rewrite (validate_plain tag n d s Hd).
  assert (E : is_endseqno_zero tag s = false).
  { unfold is_endseqno_zero. destruct (str_eqb tag TAG_16) eqn:E; [apply str_eqb_eq in E; contradiction | reflexivity]. }
  rewrite E, orb_false_r. destruct (xorb (lex d s) (kf d s)); split; intro H; try reflexivity; discriminate.
Qed.

Lemma validate_lexical : forall tag n d s, datatype_of_name n = Some d -> tag <> TAG_16 -> kf d s = false ->
  (validate_value (plain tag n) s = Accept false <-> lex d s = true).
Proof.
  intros tag n d s Hd Ht Hk. rewrite (validate_exact tag n d s Hd Ht), Hk, xorb_false_r. reflexivity.
Qed.

Lemma validate_deviates : forall tag n d s, datatype_of_name n = Some d -> tag <> TAG_16 -> kf d s = true ->
  (validate_value (plain tag n) s = Accept false <-> lex d s = false).
Proof.
  intros tag n d s Hd Ht Hk. rewrite (validate_exact tag n d s Hd Ht), Hk.
  destruct (lex d s); split; intro H; try reflexivity; discriminate.
Qed.

Lemma validate_endseqno : forall n d s, datatype_of_name n = Some d ->
  (validate_value (plain TAG_16 n) s = Accept false <-> xorb (lex d s) (kf d s) = true \/ s = [48]).
Proof.
  intros n d s Hd. rewrite (validate_plain TAG_16 n d s Hd). unfold is_endseqno_zero. rewrite str_eqb_refl. cbn [andb].
  destruct (xorb (lex d s) (kf d s)); cbn [orb].
  - split; intro; [left|]; reflexivity.
  - destruct (str_eqb s [48]) eqn:E.
    + apply str_eqb_eq in E. split; intro; [right; exact E | reflexivity].
    + split; intro H; [discriminate|]. destruct H as [H|H]; [discriminate|]. apply str_eqb_eq in H. congruence.
Qed.

Lemma validate_no_warning : forall tag n d s, datatype_of_name n = Some d -> validate_value (plain tag n) s <> Accept true.
Proof.
  intros tag n d s Hd. rewrite (validate_plain tag n d s Hd).
  destruct (xorb (lex d s) (kf d s) || is_endseqno_zero tag s); discriminate.
Qed.

Lemma validate_error_class : forall f s e, validate_value f s = Raise e -> e = EFIXMessageError.
Proof.
  intros f s e. unfold validate_value.
  destruct (is_nil s); [intro H; injection H as H; congruence|].
  destruct (negb (is_nil (f_values f))).
  - destruct (mem_str s (f_values f)); intro H; [discriminate | injection H as H; congruence].
  - destruct (special_cases f s _); intro H; [injection H as H; congruence | discriminate].
Qed.

Lemma validate_enum : forall f s, f_values f <> [] ->
  (validate_value f s = Accept false <-> s <> [] /\ In s (f_values f)).
Proof.
  intros f s Hv. unfold validate_value.
  destruct s as [|c s]; cbn [is_nil].
  - split; [discriminate | intros [H _]; congruence].
  - destruct (f_values f) as [|v vs] eqn:E; [congruence|]. cbn [is_nil negb].
    destruct (mem_str (c :: s) (v :: vs)) eqn:M.
    + apply mem_str_In in M. split; [intros _; split; [discriminate | exact M] | reflexivity].
    + split; [discriminate|]. intros [_ H]. apply mem_str_In in H. congruence.
Qed.

(* ================================================================ witnesses of the known findings (on the model) *)

Definition TAG_1 : str := [49].
Definition accepted (r : result) : bool := match r with Accept false => true | _ => false end.
Definition refused (r : result) : bool := match r with Raise EFIXMessageError => true | _ => false end.

(* huge numbers: 4301 digits; 10^309 *)
Lemma int_refuted : exists s, lex DInt s = true /\ validate_value (plain TAG_1 n_INT) s = Raise EFIXMessageError.
Proof. exists (repeat 49 4301). split; vm_compute; reflexivity. Qed.

Lemma float_refuted : exists s, lex DFloat s = true /\ validate_value (plain TAG_1 n_FLOAT) s = Raise EFIXMessageError.
Proof. exists (49 :: repeat 48 309). split; vm_compute; reflexivity. Qed.

(* the largest finite double + half an ulp - 1 is still accepted: the threshold is exact *)
Lemma float_below_threshold_accepted :
  validate_value (plain TAG_1 n_FLOAT) (Sx.n_to_dec (FLOAT_INF - 1)) = Accept false
  /\ validate_value (plain TAG_1 n_FLOAT) (Sx.n_to_dec FLOAT_INF) = Raise EFIXMessageError.
Proof. split; vm_compute; reflexivity. Qed.

(* "a=b" *)
Lemma string_refuted : exists s, lex DString s = true /\ validate_value (plain TAG_1 n_STRING) s = Raise EFIXMessageError.
Proof. exists [97; 61; 98]. split; vm_compute; reflexivity. Qed.

(* LENGTH "-5" *)
Lemma length_refuted : exists s, lex DLength s = false /\ validate_value (plain TAG_1 n_LENGTH) s = Accept false.
Proof. exists [45; 53]. split; vm_compute; reflexivity. Qed.

(* "00000101" *)
Lemma date_refuted : exists s, lex DUTCDateOnly s = true /\ validate_value (plain TAG_1 n_UTCDATEONLY) s = Raise EFIXMessageError.
Proof. exists [48;48;48;48;48;49;48;49]. split; vm_compute; reflexivity. Qed.

(* "000001" *)
Lemma monthyear_refuted : exists s, lex DMonthYear s = true /\ validate_value (plain TAG_1 n_MONTHYEAR) s = Raise EFIXMessageError.
Proof. exists [48;48;48;48;48;49]. split; vm_compute; reflexivity. Qed.

(* "23:59:60" refused, "14:00:00.123456" accepted *)
Lemma timeonly_refuted :
  (exists s, lex DUTCTimeOnly s = true /\ validate_value (plain TAG_1 n_UTCTIMEONLY) s = Raise EFIXMessageError)
  /\ (exists s, lex DUTCTimeOnly s = false /\ validate_value (plain TAG_1 n_UTCTIMEONLY) s = Accept false).
Proof.
  split.
  - exists [50;51;58;53;57;58;54;48]. split; vm_compute; reflexivity.
  - exists [49;52;58;48;48;58;48;48;46;49;50;51;52;53;54]. split; vm_compute; reflexivity.
Qed.

(* "20161231-23:59:60" refused, "20230921-14:00:00.123456" accepted, "00000101-00:00:00" refused *)
Lemma timestamp_refuted :
  (exists s, lex DUTCTimestamp s = true /\ validate_value (plain TAG_1 n_UTCTIMESTAMP) s = Raise EFIXMessageError)
  /\ (exists s, lex DUTCTimestamp s = false /\ validate_value (plain TAG_1 n_UTCTIMESTAMP) s = Accept false)
  /\ (exists s, lex DUTCTimestamp s = true /\ year0 s = true
                /\ validate_value (plain TAG_1 n_UTCTIMESTAMP) s = Raise EFIXMessageError).
Proof.
  split; [|split].
  - exists [50;48;49;54;49;50;51;49;45;50;51;58;53;57;58;54;48]. split; vm_compute; reflexivity.
  - exists [50;48;50;51;48;57;50;49;45;49;52;58;48;48;58;48;48;46;49;50;51;52;53;54]. split; vm_compute; reflexivity.
  - exists [48;48;48;48;48;49;48;49;45;48;48;58;48;48;58;48;48]. repeat split; vm_compute; reflexivity.
Qed.

(* non-vacuity: a leap-day timestamp with milliseconds is outside every class, in the space, and accepted;
   EndSeqNo accepts "0" and "7", refuses "-1" *)
Lemma nonvacuous :
  let s := [50;48;50;52;48;50;50;57;45;50;51;58;53;57;58;53;57;46;57;57;57] in    (* 20240229-23:59:59.999 *)
  datatype_of_name n_UTCTIMESTAMP = Some DUTCTimestamp /\ TAG_1 <> TAG_16 /\ kf DUTCTimestamp s = false
  /\ lex DUTCTimestamp s = true /\ validate_value (plain TAG_1 n_UTCTIMESTAMP) s = Accept false
  /\ validate_value (plain TAG_16 n_SEQNUM) [48] = Accept false
  /\ validate_value (plain TAG_16 n_SEQNUM) [55] = Accept false
  /\ validate_value (plain TAG_16 n_SEQNUM) [45; 49] = Raise EFIXMessageError
  /\ validate_value (plain TAG_1 n_SEQNUM) [48] = Raise EFIXMessageError.
Proof. cbv zeta. repeat split; try discriminate; vm_compute; reflexivity. Qed.

(* ================================================================ per-datatype corollaries *)

Lemma boolean_full : forall tag s, tag <> TAG_16 ->
  (validate_value (plain tag n_BOOLEAN) s = Accept false <-> lex_boolean s = true).
Proof. intros tag s H. exact (validate_lexical tag n_BOOLEAN DBoolean s eq_refl H eq_refl). Qed.

Lemma country_full : forall tag s, tag <> TAG_16 ->
  (validate_value (plain tag n_COUNTRY) s = Accept false <-> lex_code 2 s = true).
Proof. intros tag s H. exact (validate_lexical tag n_COUNTRY DCountry s eq_refl H eq_refl). Qed.

Lemma currency_full : forall tag s, tag <> TAG_16 ->
  (validate_value (plain tag n_CURRENCY) s = Accept false <-> lex_code 3 s = true).
Proof. intros tag s H. exact (validate_lexical tag n_CURRENCY DCurrency s eq_refl H eq_refl). Qed.

Lemma exchange_full : forall tag s, tag <> TAG_16 ->
  (validate_value (plain tag n_EXCHANGE) s = Accept false <-> lex_code 4 s = true).
Proof. intros tag s H. exact (validate_lexical tag n_EXCHANGE DExchange s eq_refl H eq_refl). Qed.

Lemma nonempty_iff : forall s : str, nonempty s = true <-> s <> [].
Proof. destruct s; split; intro H; try reflexivity; try discriminate; congruence. Qed.

Lemma data_full : forall tag s, tag <> TAG_16 ->
  (validate_value (plain tag n_DATA) s = Accept false <-> s <> []).
Proof.
  intros tag s H. rewrite (validate_lexical tag n_DATA DData s eq_refl H eq_refl). apply nonempty_iff.
Qed.

Lemma length_unchecked : forall tag s, tag <> TAG_16 ->
  (validate_value (plain tag n_LENGTH) s = Accept false <-> s <> []).
Proof.
  intros tag s H. rewrite (validate_exact tag n_LENGTH DLength s eq_refl H). cbn [lex kf].
  rewrite <- nonempty_iff. destruct (lex_positive s) eqn:E, (nonempty s) eqn:N; cbn; split; intro X; try reflexivity; try discriminate.
  destruct s; [discriminate E | discriminate N].
Qed.

Lemma int_partial : forall tag s, tag <> TAG_16 -> too_many_digits s = false ->
  (validate_value (plain tag n_INT) s = Accept false <-> lex_int s = true).
Proof.
  intros tag s H K. apply (validate_lexical tag n_INT DInt s eq_refl H). cbn [kf]. rewrite K. apply andb_false_r.
Qed.

Lemma positive_partial : forall tag name s, In name [n_SEQNUM; n_NUMINGROUP] -> tag <> TAG_16 ->
  too_many_digits s = false ->
  (validate_value (plain tag name) s = Accept false <-> lex_positive s = true).
Proof.
  intros tag name s Hn H K. destruct Hn as [Hn | [Hn | []]]; subst name.
  - apply (validate_lexical tag n_SEQNUM DSeqNum s eq_refl H). cbn [kf]. rewrite K. apply andb_false_r.
  - apply (validate_lexical tag n_NUMINGROUP DNumInGroup s eq_refl H). cbn [kf]. rewrite K. apply andb_false_r.
Qed.

Lemma dayofmonth_partial : forall tag s, tag <> TAG_16 -> too_many_digits s = false ->
  (validate_value (plain tag n_DAYOFMONTH) s = Accept false <-> lex_dayofmonth s = true).
Proof.
  intros tag s H K. apply (validate_lexical tag n_DAYOFMONTH DDayOfMonth s eq_refl H). cbn [kf]. rewrite K. apply andb_false_r.
Qed.

Lemma float_partial : forall tag name s,
  In name [n_FLOAT; n_QTY; n_PRICE; n_PRICEOFFSET; n_AMT; n_PERCENTAGE] -> tag <> TAG_16 ->
  float_overflows s = false ->
  (validate_value (plain tag name) s = Accept false <-> lex_float s = true).
Proof.
  intros tag name s Hn H K.
  destruct Hn as [Hn | [Hn | [Hn | [Hn | [Hn | [Hn | []]]]]]]; subst name.
  - apply (validate_lexical tag n_FLOAT DFloat s eq_refl H). cbn [kf]. rewrite K. apply andb_false_r.
  - apply (validate_lexical tag n_QTY DQty s eq_refl H). cbn [kf]. rewrite K. apply andb_false_r.
  - apply (validate_lexical tag n_PRICE DPrice s eq_refl H). cbn [kf]. rewrite K. apply andb_false_r.
  - apply (validate_lexical tag n_PRICEOFFSET DPriceOffset s eq_refl H). cbn [kf]. rewrite K. apply andb_false_r.
  - apply (validate_lexical tag n_AMT DAmt s eq_refl H). cbn [kf]. rewrite K. apply andb_false_r.
  - apply (validate_lexical tag n_PERCENTAGE DPercentage s eq_refl H). cbn [kf]. rewrite K. apply andb_false_r.
Qed.

Lemma string_partial : forall tag s, tag <> TAG_16 -> has_equals s = false ->
  (validate_value (plain tag n_STRING) s = Accept false <-> lex_string s = true)
  /\ (validate_value (plain tag n_CHAR) s = Accept false <-> lex_char s = true)
  /\ (validate_value (plain tag n_MULTIPLEVALUESTRING) s = Accept false <-> lex_multi s = true)
  /\ (validate_value (plain tag n_MULTIPLESTRINGVALUE) s = Accept false <-> lex_multi s = true).
Proof.
  intros tag s H K. repeat split.
  - apply (validate_lexical tag n_STRING DString s eq_refl H). cbn [kf]. rewrite K. apply andb_false_r.
  - apply (validate_lexical tag n_STRING DString s eq_refl H). cbn [kf]. rewrite K. apply andb_false_r.
  - apply (validate_lexical tag n_CHAR DChar s eq_refl H). cbn [kf]. rewrite K. apply andb_false_r.
  - apply (validate_lexical tag n_CHAR DChar s eq_refl H). cbn [kf]. rewrite K. apply andb_false_r.
  - apply (validate_lexical tag n_MULTIPLEVALUESTRING DMultipleValueString s eq_refl H). cbn [kf]. rewrite K. apply andb_false_r.
  - apply (validate_lexical tag n_MULTIPLEVALUESTRING DMultipleValueString s eq_refl H). cbn [kf]. rewrite K. apply andb_false_r.
  - apply (validate_lexical tag n_MULTIPLESTRINGVALUE DMultipleValueString s eq_refl H). cbn [kf]. rewrite K. apply andb_false_r.
  - apply (validate_lexical tag n_MULTIPLESTRINGVALUE DMultipleValueString s eq_refl H). cbn [kf]. rewrite K. apply andb_false_r.
Qed.

Lemma date_partial : forall tag name s, In name [n_UTCDATEONLY; n_LOCALMKTDATE] -> tag <> TAG_16 ->
  year0 s = false ->
  (validate_value (plain tag name) s = Accept false <-> lex_date s = true).
Proof.
  intros tag name s Hn H K. destruct Hn as [Hn | [Hn | []]]; subst name.
  - apply (validate_lexical tag n_UTCDATEONLY DUTCDateOnly s eq_refl H). cbn [kf]. rewrite K. apply andb_false_r.
  - apply (validate_lexical tag n_LOCALMKTDATE DLocalMktDate s eq_refl H). cbn [kf]. rewrite K. apply andb_false_r.
Qed.

Lemma monthyear_partial : forall tag s, tag <> TAG_16 -> year0 s = false ->
  (validate_value (plain tag n_MONTHYEAR) s = Accept false <-> lex_monthyear s = true).
Proof.
  intros tag s H K. apply (validate_lexical tag n_MONTHYEAR DMonthYear s eq_refl H). cbn [kf]. rewrite K. apply andb_false_r.
Qed.

Lemma timeonly_partial : forall tag s, tag <> TAG_16 -> kf DUTCTimeOnly s = false ->
  (validate_value (plain tag n_UTCTIMEONLY) s = Accept false <-> lex_time s = true).
Proof. intros tag s H K. exact (validate_lexical tag n_UTCTIMEONLY DUTCTimeOnly s eq_refl H K). Qed.

Lemma timestamp_partial : forall tag s, tag <> TAG_16 -> kf DUTCTimestamp s = false ->
  (validate_value (plain tag n_UTCTIMESTAMP) s = Accept false <-> lex_timestamp s = true).
Proof. intros tag s H K. exact (validate_lexical tag n_UTCTIMESTAMP DUTCTimestamp s eq_refl H K). Qed.
