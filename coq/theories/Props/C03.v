(* C03 - stream reassembly versus the chunking of the byte stream.
   Theorems only (proofs in AF.Lemmas.ReaderL, on top of AF.Lemmas.RoundTripL).
   Model: reader_loop / reader_step / reader_run of Fix/Codec.v (the body of socket_read_task between
   two read() calls, folded over the reads; validated against asyncfix/connection.py).

   FULL STATEMENT (false of the code today, see the *_refuted theorems below):
     forall fms chunks, Forall (encoder_frame G bs) fms -> concat chunks = concat (map fst fms) ->
       reader_run G bs [] chunks = ([], map delivered fms, map (fun _ => 0) chunks).
   PROVED: the same with the extra hypothesis no_cut_inside_marker (negation of known finding D6: no
   read ends 1-5 bytes into a frame), unbounded in the number of frames and of reads.

   encoder_frame G bs (F, dm) - F is an encoder frame under the hypotheses of C01_roundtrip and dm is the
                                message the decoder returns for it (decoded_of ...).
   delivered (F, dm)          - (dm, F): what the reader hands to _process_message.
   status 0                   - the read ended in "wait for more bytes" (no exception, no fuel exhaustion). *)
From Coq Require Import ZArith NArith List Bool.
From AF Require Import Base.Sx Py.Str Fix.Codec Fix.WfMsg Lemmas.RoundTripL Lemmas.ReaderL.
From AFGen Require Import GenGroups.
Import ListNotations.
Open Scope N_scope.

(* complete-prefix lemma: a frame followed by nothing, or by bytes that begin with a whole frame-start
   marker, decodes to its message and exactly the frame is consumed *)
Theorem C03_complete_prefix : forall G bs fm P silent, wf_table G = true -> encoder_frame G bs fm ->
  P = [] \/ prefixb MARK P = true ->
  decode G bs (fst fm ++ P) silent = Ok (Some (snd fm), zlen (fst fm), Some (fst fm)).
Proof. exact complete_prefix. Qed.
Print Assumptions C03_complete_prefix.

(* wait lemma: every proper prefix of a frame that is at least 6 bytes long (wherever it ends: inside
   BodyLength, right after it, inside a value, inside CheckSum) is left in the buffer untouched *)
Theorem C03_wait : forall G bs fm P Q, wf_table G = true -> encoder_frame G bs fm ->
  fst fm = P ++ Q -> Q <> [] -> (6 <= length P)%nat ->
  decode G bs P true = Ok (None, 0%Z, None).
Proof. exact wait_for_more. Qed.
Print Assumptions C03_wait.

(* any grouping of whole frames into reads: every frame is delivered, in order, the buffer ends empty *)
Theorem C03_whole_frames : forall G bs (groups : list (list (str * message))),
  wf_table G = true -> Forall (Forall (encoder_frame G bs)) groups ->
  reader_run G bs [] (map (fun g => concat (map fst g)) groups)
  = ([], map delivered (concat groups), map (fun _ => 0) groups).
Proof. exact whole_frames_enc. Qed.
Print Assumptions C03_whole_frames.

(* every chunking whose cuts lie at frame boundaries or at least 6 bytes into a frame gives the result
   of the unchunked stream: all frames, in order, empty buffer, no exception *)
Theorem C03_chunk_independent_partial : forall G bs fms chunks,
  wf_table G = true -> Forall (encoder_frame G bs) fms ->
  concat chunks = concat (map fst fms) ->
  no_cut_inside_marker (map fst fms) chunks = true ->
  reader_run G bs [] chunks = ([], map delivered fms, map (fun _ => 0) chunks)
  /\ reader_run G bs [] [concat (map fst fms)] = ([], map delivered fms, [0]).
Proof. exact chunk_independent_enc. Qed.
Print Assumptions C03_chunk_independent_partial.

(* non-vacuity: two encoder frames cut inside BodyLength, inside a value, inside CheckSum and exactly
   6 bytes into the second frame *)
Theorem C03_nonvacuous :
  let chunks := [firstn 11 ex_FA; firstn 30 (skipn 11 ex_FA); firstn 43 (skipn 41 ex_FA);
                 skipn 84 ex_FA ++ firstn 6 ex_FB; skipn 6 ex_FB] in
  concat chunks = concat (map fst ex_stream)
  /\ no_cut_inside_marker (map fst ex_stream) chunks = true
  /\ reader_run GenGroups.table beginstring [] chunks
     = ([], [(ex_dA, ex_FA); (ex_dB, ex_FB)], [0; 0; 0; 0; 0]).
Proof. exact chunks_nonvacuous. Qed.
Print Assumptions C03_nonvacuous.

(* D6: a read ending k = 1..5 bytes into the next frame loses the PRECEDING complete frame (both frames
   for k = 1); when the preceding frame was delivered by an earlier read, the frame that was cut is lost *)
Theorem C03_cut_in_marker_refuted : forall k, In k [1; 2; 3; 4; 5]%nat ->
  let chunks1 := [ex_FA ++ firstn k ex_FB; skipn k ex_FB] in
  let chunks2 := [ex_FA; firstn k ex_FB; skipn k ex_FB] in
  Forall (encoder_frame GenGroups.table beginstring) ex_stream
  /\ concat chunks1 = concat (map fst ex_stream) /\ concat chunks2 = concat (map fst ex_stream)
  /\ no_cut_inside_marker (map fst ex_stream) chunks1 = false
  /\ no_cut_inside_marker (map fst ex_stream) chunks2 = false
  /\ reader_run GenGroups.table beginstring [] chunks1
     = ([], if Nat.eqb k 1 then [] else [(ex_dB, ex_FB)], [0; 0])
  /\ reader_run GenGroups.table beginstring [] chunks2 = ([], [(ex_dA, ex_FA)], [0; 0; 0])
  /\ reader_run GenGroups.table beginstring [] [concat (map fst ex_stream)]
     = ([], [(ex_dA, ex_FA); (ex_dB, ex_FB)], [0]).
Proof. exact cut_in_marker_refuted. Qed.
Print Assumptions C03_cut_in_marker_refuted.

(* D6: marker-free bytes after a frame, arriving in the same read, destroy that frame *)
Theorem C03_garbage_refuted :
  find_sub MARK ex_garbage = None
  /\ reader_run GenGroups.table beginstring [] [ex_FA ++ ex_garbage; ex_FB] = ([], [(ex_dB, ex_FB)], [0; 0])
  /\ reader_run GenGroups.table beginstring [] [ex_FA; ex_FB] = ([], [(ex_dA, ex_FA); (ex_dB, ex_FB)], [0; 0]).
Proof. exact garbage_refuted. Qed.
Print Assumptions C03_garbage_refuted.

(* D6: one-byte reads deliver nothing *)
Theorem C03_one_byte_reads_refuted :
  let chunks := map (fun c => [c]) ex_FA in
  concat chunks = ex_FA
  /\ reader_run GenGroups.table beginstring [] chunks = ([], [], map (fun _ => 0) chunks)
  /\ reader_run GenGroups.table beginstring [] [ex_FA] = ([], [(ex_dA, ex_FA)], [0]).
Proof. exact one_byte_reads_refuted. Qed.
Print Assumptions C03_one_byte_reads_refuted.

(* ---- last clause of C03: marker-free bytes between frames ----
   FULL STATEMENT (false of the code: C03_garbage_refuted, C03_junk_prefix_cut_refuted): marker-free bytes
   anywhere between two frames are skipped and no adjacent frame is lost.  PROVED: the three statements below. *)

(* (1) reads made only of marker-free bytes that arrive at a frame boundary with an empty buffer are
   consumed entirely and change nothing.  The stream is cut at arbitrary frame boundaries into blocks;
   enc_block_ok: the frames of a block are encoder frames, the chunks of the block are a chunking of exactly
   these frames with no_cut_inside_marker, and the junk reads after the block contain no "8=FIX.".
   No further condition on the junk: it may be empty, may end in a proper prefix of the marker. *)
Theorem C03_junk_reads_skipped : forall G bs (blocks : list block),
  wf_table G = true -> Forall (enc_block_ok G bs) blocks ->
  reader_run G bs [] (concat (map block_reads blocks))
  = ([], map delivered (concat (map block_frames blocks)), map (fun _ => 0) (concat (map block_reads blocks))).
Proof. exact junk_reads_skipped_enc. Qed.
Print Assumptions C03_junk_reads_skipped.

(* (2) one read (on any buffer) whose buffer content is  J ++ whole frames ++ P  with J marker-free:
   - at least one whole frame: J is skipped with the first frame (consumed = |J| + |frame|), all frames are
     delivered, P (nothing, or >= 6 bytes of an incomplete frame) stays in the buffer;
   - no whole frame: J is dropped and P waits, exactly when  |J| + |P| < |frame of P|  (or P is empty). *)
Theorem C03_junk_prefix_same_read : forall G bs buf chunk J fms P,
  wf_table G = true -> find_sub MARK J = None -> Forall (encoder_frame G bs) fms ->
  enc_junk_tail_ok G bs J fms P -> buf ++ chunk = J ++ concat (map fst fms) ++ P ->
  reader_step G bs buf chunk = (P, map delivered fms, 0).
Proof. exact junk_prefix_same_read_enc. Qed.
Print Assumptions C03_junk_prefix_same_read.

(* ... and for whole runs: every read is marker-free junk (possibly empty) followed by whole frames
   (possibly none) *)
Theorem C03_junk_prefix_whole_frames : forall G bs (groups : list (str * list (str * message))),
  wf_table G = true ->
  Forall (fun g => find_sub MARK (fst g) = None /\ Forall (encoder_frame G bs) (snd g)) groups ->
  reader_run G bs [] (map (fun g => fst g ++ concat (map fst (snd g))) groups)
  = ([], map delivered (concat (map snd groups)), map (fun _ => 0) groups).
Proof. exact junk_prefix_whole_frames_enc. Qed.
Print Assumptions C03_junk_prefix_whole_frames.

Theorem C03_junk_nonvacuous :
  let j2 : str := [120; 56; 61; 70; 73] in
  find_sub MARK j2 = None
  /\ reader_run GenGroups.table beginstring []
       (concat (map block_reads
          [([], [], [ex_garbage; j2]);
           ([(ex_FA, ex_dA)], [firstn 11 ex_FA; skipn 11 ex_FA], [j2]);
           ([(ex_FB, ex_dB)], [ex_FB], [ex_garbage; ex_garbage])]))
     = ([], [(ex_dA, ex_FA); (ex_dB, ex_FB)], [0; 0; 0; 0; 0; 0; 0; 0])
  /\ reader_step GenGroups.table beginstring [] (j2 ++ ex_FA ++ ex_FB ++ firstn 10 ex_FA)
     = (firstn 10 ex_FA, [(ex_dA, ex_FA); (ex_dB, ex_FB)], 0)
  /\ reader_step GenGroups.table beginstring [] (ex_garbage ++ firstn 83 ex_FA) = (firstn 83 ex_FA, [], 0).
Proof. exact junk_nonvacuous. Qed.
Print Assumptions C03_junk_nonvacuous.

(* (3) D8-junk-prefix-counted-in-length: junk J (3 bytes) in front of a frame cut k bytes before its end,
   2 <= k <= |J|: the frame is lost; k = |J| + 1 waits correctly; whole frames behind junk are fine *)
Theorem C03_junk_prefix_cut_refuted : forall k, In k [2; 3]%nat ->
  find_sub MARK ex_garbage = None /\ length ex_garbage = 3%nat /\ length ex_FA = 87%nat
  /\ reader_run GenGroups.table beginstring []
       [ex_garbage ++ firstn (87 - k) ex_FA; skipn (87 - k) ex_FA ++ ex_FB] = ([], [(ex_dB, ex_FB)], [0; 0])
  /\ reader_run GenGroups.table beginstring []
       [ex_garbage ++ firstn (87 - 4) ex_FA; skipn (87 - 4) ex_FA ++ ex_FB]
     = ([], [(ex_dA, ex_FA); (ex_dB, ex_FB)], [0; 0])
  /\ reader_run GenGroups.table beginstring [] [ex_garbage ++ ex_FA ++ ex_FB]
     = ([], [(ex_dA, ex_FA); (ex_dB, ex_FB)], [0]).
Proof. exact junk_prefix_cut_refuted. Qed.
Print Assumptions C03_junk_prefix_cut_refuted.
