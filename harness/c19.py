"""C19 - field value validation matches the FIX 4.4 datatype lexical spaces.

Theorems (Props/C19.v) relate the model Fix/ValidateValue.v of `SchemaField.validate_value` to the
specification Fix/Lex.v.  This harness ties the model to asyncfix/protocol/schema.py by running both on the same
(field, string) pairs, and runs an independent Python statement of the FIX 4.4 lexical spaces (regular
expressions + calendar) as the property oracle on the implementation's observable behaviour
(accept / exception class)."""
import calendar
import itertools
import json
import os
import re
import warnings
from concurrent.futures import ThreadPoolExecutor

from vlib import core

META = {
    "level": "proof",
    "tables": ["GenLex"],
    "files": ["asyncfix/protocol/schema.py", "tests/FIX44.xml", "tests/TT-FIX44.xml"],
    "rule": "a case is one (tag, datatype name, enumerators, string) validation; per datatype name used by either dictionary "
            "(plus the remaining names of the dispatch): every string of length 0..4 (quick; 0..5 for the narrow alphabets in "
            "thorough) over a type-specific alphabet (digits, '-', '+', '.', '_', ' ', 'e', U+0663, TAB, ...), boundary values "
            "(calendar limits, 4300/4301 digits, 2^1024-2^970), random members and one-edit near-misses of the lexical space; per "
            "enumerated field of both dictionaries every enumerator and its near-misses; a case is non-trivial when the string is "
            "non-empty and not a single character; distinct by (tag, datatype, enum-id, string)",
    "trusted_base": [
        "Fix/ValidateValue.v models int() through Py/Str.py_int, and float(), datetime.strptime and re.fullmatch/re.search only "
        "on the strict ASCII layouts that the patched validators let through (outside the layout every outcome of the CPython "
        "parser ends in the same FIXMessageError); float overflow is the exact comparison |v| >= 2^1024 - 2^970; str.upper is "
        "modelled for ASCII type names",
        "oracle: independent Python re-statement of the FIX 4.4 datatype definitions (regular expressions + calendar.monthrange)",
    ],
    "assumptions": ["values are str objects (validate_value asserts it)",
                    "datatype names in dictionaries are ASCII"],
}

# ------------------------------------------------------------------------------------------------
# Oracle: FIX 4.4 lexical spaces, stated independently of the code (Volume 1, "FIX datatypes")
# ------------------------------------------------------------------------------------------------

# dictionary datatype name -> FIX 4.4 datatype
DATATYPE_OF = {
    "INT": "int", "LENGTH": "Length", "NUMINGROUP": "NumInGroup", "SEQNUM": "SeqNum", "DAYOFMONTH": "DayOfMonth",
    "FLOAT": "float", "QTY": "float", "PRICE": "float", "PRICEOFFSET": "float", "AMT": "float", "PERCENTAGE": "float",
    "CHAR": "char", "BOOLEAN": "Boolean", "STRING": "String",
    "MULTIPLEVALUESTRING": "MultipleValueString", "MULTIPLESTRINGVALUE": "MultipleValueString",
    "COUNTRY": "Country", "CURRENCY": "Currency", "EXCHANGE": "Exchange",
    "MONTHYEAR": "month-year", "UTCTIMESTAMP": "UTCTimestamp", "UTCTIMEONLY": "UTCTimeOnly",
    "UTCDATEONLY": "UTCDateOnly", "LOCALMKTDATE": "LocalMktDate", "DATA": "data",
}
TYPE_NAMES = list(DATATYPE_OF)

RE_INT = re.compile(r"-?[0-9]+\Z")
RE_POSITIVE = re.compile(r"[0-9]*[1-9][0-9]*\Z")
RE_DAY = re.compile(r"0*([1-9]|[12][0-9]|3[01])\Z")
RE_FLOAT = re.compile(r"-?(?=\.?[0-9])[0-9]*\.?[0-9]*\Z")
RE_DATE = re.compile(r"([0-9]{4})([0-9]{2})([0-9]{2})\Z")
RE_TIME = re.compile(r"([0-9]{2}):([0-9]{2}):([0-9]{2})(\.[0-9]{3})?\Z")
RE_MY = re.compile(r"([0-9]{4})([0-9]{2})(?:([0-9]{2})|w[1-5])?\Z")
RE_CODE = re.compile(r"[0-9A-Za-z]+\Z")
SOH = "\x01"


def _date_ok(y, m, d):
    if not 1 <= m <= 12:
        return False
    leap = (y % 4 == 0 and y % 100 != 0) or y % 400 == 0          # proleptic Gregorian, year 0000 included
    dim = 29 if (m == 2 and leap) else calendar.mdays[m]
    return 1 <= d <= dim


def _lex_date(s):
    m = RE_DATE.match(s)
    return bool(m) and _date_ok(int(m.group(1)), int(m.group(2)), int(m.group(3)))


def _lex_time(s):
    m = RE_TIME.match(s)
    return bool(m) and int(m.group(1)) <= 23 and int(m.group(2)) <= 59 and int(m.group(3)) <= 60


def lex(d, s):
    """Is the string s in the lexical space of FIX 4.4 datatype d?  (Field values are never empty.)"""
    if s == "":
        return False
    if d == "int":
        return bool(RE_INT.match(s))
    if d in ("Length", "NumInGroup", "SeqNum"):          # "int field ... value must be positive"
        return bool(RE_POSITIVE.match(s))
    if d == "DayOfMonth":                                # "int field ... values 1 to 31"
        return bool(RE_DAY.match(s))
    if d == "float":
        return bool(RE_FLOAT.match(s))
    if d == "char":
        return len(s) == 1 and s != SOH
    if d == "Boolean":
        return s in ("Y", "N")
    if d == "String":
        return SOH not in s
    if d == "MultipleValueString":
        return SOH not in s and all(tok != "" for tok in s.split(" "))
    if d in ("Country", "Currency", "Exchange"):
        n = {"Country": 2, "Currency": 3, "Exchange": 4}[d]
        return len(s) <= n and bool(RE_CODE.match(s))
    if d in ("UTCDateOnly", "LocalMktDate"):
        return _lex_date(s)
    if d == "UTCTimeOnly":
        return _lex_time(s)
    if d == "UTCTimestamp":
        return len(s) >= 9 and s[8] == "-" and _lex_date(s[:8]) and _lex_time(s[9:])
    if d == "month-year":
        m = RE_MY.match(s)
        if not m or not 1 <= int(m.group(2)) <= 12:
            return False
        return m.group(3) is None or _date_ok(int(m.group(1)), int(m.group(2)), int(m.group(3)))
    if d == "data":
        return True
    raise KeyError(d)


FLOAT_INF = 2 ** 1024 - 2 ** 970        # decimal strings at or above this magnitude become inf in float()
FLOAT_INF_DIGITS = len(str(FLOAT_INF))  # 309


def kf_class(d, s):
    """Known-finding class of a deviation on (datatype, string), or None.  Each class is decided on the input alone
    and is exactly the set of strings on which acceptance differs from the lexical space."""
    inl = lex(d, s)
    if d == "Length":
        return "C19-length-unchecked" if (not inl and s != "") else None
    if d in ("int", "NumInGroup", "SeqNum", "DayOfMonth"):
        return "C19-huge-number" if inl and sum(c in "0123456789" for c in s) > 4300 else None
    if d == "float":
        if inl:
            ip = s.lstrip("-").split(".")[0].lstrip("0")          # integer part; the fraction cannot reach the next integer
            if len(ip) > FLOAT_INF_DIGITS or (len(ip) == FLOAT_INF_DIGITS and int(ip) >= FLOAT_INF):
                return "C19-huge-number"
        return None
    if d in ("String", "char", "MultipleValueString"):
        return "C19-equals-sign-refused" if inl and "=" in s else None
    if d in ("UTCDateOnly", "LocalMktDate", "month-year"):
        return "C19-year-0000-refused" if inl and s[:4] == "0000" else None
    if d in ("UTCTimestamp", "UTCTimeOnly"):
        if inl:
            if d == "UTCTimestamp" and s[:4] == "0000":
                return "C19-year-0000-refused"
            t = s[9:] if d == "UTCTimestamp" else s
            return "C19-leap-second-refused" if t[6:8] == "60" else None
        # microseconds: a valid value with a millisecond part followed by three more digits
        if len(s) > 3 and "." in s[:-6] and s[-3:].isascii() and s[-3:].isdigit() and lex(d, s[:-3]):
            base = s[:-3]
            t = base[9:] if d == "UTCTimestamp" else base
            if t[6:8] != "60" and not (d == "UTCTimestamp" and base[:4] == "0000"):
                return "C19-microseconds-accepted"
        return None
    return None


# ------------------------------------------------------------------------------------------------
# Case generation
# ------------------------------------------------------------------------------------------------

ARABIC3 = "٣"      # ARABIC-INDIC DIGIT THREE: int(), float(), strptime and \d / \w accept it
ALPHA_NUM = ["0", "1", "2", "3", "9", "-", "+", ".", "_", " ", "e", ARABIC3, "\t", "\n"]
ALPHA_STR = ["Y", "N", "a", "Z", "0", "=", SOH, " ", "\t", "é", "_", "-", ".", "\x00"]
ALPHA_CODE = ["A", "Z", "a", "0", "9", "_", "é", ARABIC3, "=", SOH, " ", "-", "@", "."]
ALPHA_DATE = ["0", "1", "2", "3", "5", "6", "9", "-", ":", ".", "w", " ", ARABIC3, "\t"]


def alphabet(d):
    if d in ("int", "Length", "NumInGroup", "SeqNum", "DayOfMonth", "float"):
        return ALPHA_NUM
    if d in ("char", "Boolean", "String", "MultipleValueString", "data"):
        return ALPHA_STR
    if d in ("Country", "Currency", "Exchange"):
        return ALPHA_CODE
    return ALPHA_DATE
