(* C06 - a ResendRequest is answered completely, in order and without side effects.
   Theorems only (proofs in AF.Lemmas.ResendL) about the model Fix/Resend.v of how the dispatcher
   serves a ResendRequest: serve_resend = the call site in _process_message (try / finally that
   restores ACTIVE when the handler leaves RESENDREQ_HANDLING) around _process_resend and what it
   calls, with the repairs D12, R3c, R5a, R5b, R6a (PossDupFlag / OrigSendingTime are set with
   replace=True), R6b (an EndSeqNo above sys.maxsize is read as "everything"), R8a (send_msg journals
   before it writes; replies to a ResendRequest are still only written) and R8c (an acceptor in
   LOGON_INITIAL_RECV may only send Logon / Logout; not reachable from the handler).

   The property for one request (bs, es = texts of tags 7 and 16, None = tag absent) with replay
   filter f in state s is the predicate  resend_correct f s bs es  (Lemmas/ResendL.v):
     the frames written are  chain (rows s) f hi lo hi  over the requested range
     [lo, hi) = [max(1, Begin), max(lo, min(End + 1, next_num_out)))  of already-sent numbers:
       - a retransmission for every journaled application message the filter accepts: number and
         MsgType kept, body = copy_body r = the journaled body with PossDupFlag := Y and then
         OrigSendingTime := the journaled SendingTime, where := overwrites the value of a tag the
         message already carries (position kept) and appends a new tag at the end - for a message
         that carries neither tag: body ++ [43=Y; 122=SendingTime] (C06_copy_of_plain_row);
       - one GapFill(seq = first, NewSeqNo = next) per maximal run of other numbers (session-level,
         declined, missing); hence no session-level message is retransmitted;
     nothing is written for a request that cannot be read, whose EndSeqNo is below its BeginSeqNo, or
     that asks for nothing that was sent; the WHOLE outbound journal, next_num_out (live and stored)
     and the connection state are what they were.
   FULL STATEMENT (what C06 asks):  resend_correct f s bs es  for every filter, every request and
   every reachable state.  It is C06_reply_chain below: no class of exceptions is left. *)
From Coq Require Import ZArith NArith List Bool.
From AF Require Import Base.Sx Py.Str Fix.Resend Lemmas.ResendL.
From AFGen Require Import GenEnums.
Import ListNotations.
Open Scope Z_scope.

(* THE THEOREM.  Every journal whose rows have unique numbers below next_num_out and are
   encoder-shaped (journal_ok + NoDup: invariants of a journal written by send_msg, C05/C13) - with
   holes anywhere, rows that themselves carry tag 43 / 122 -, every replay filter, both states in
   which a ResendRequest is served, and EVERY request (tags absent or unreadable, any BeginSeqNo,
   any EndSeqNo): the reply is exactly the chain over the requested range of already-sent numbers,
   and journal, counters and state are what they were.  Unbounded in the journal. *)
Theorem C06_reply_chain : forall f s bs es,
  (cstate s = ST_ACTIVE \/ cstate s = ST_AWAITING) ->
  journal_ok s -> NoDup (map r_seq (rows s)) ->
  resend_correct f s bs es.
Proof. exact resend_total. Qed.
Print Assumptions C06_reply_chain.

(* and for EVERY state and journal at all (no hypothesis): serving a ResendRequest never changes the
   outbound journal, next_num_out or the stored counter; the only exceptions that can reach the
   dispatcher are AssertionError (BeginSeqNo beyond next_num_out), TagNotFoundError, ValueError and
   OverflowError (BeginSeqNo above 2^63-1 / EndSeqNo below -2^63) - never DuplicatedTagError,
   DuplicateSeqNoError, FIXConnectionError, EncodingError; the state afterwards is ACTIVE
   (RESENDREQ_AWAITING if it was) whether or not the handler aborted; every frame written carries a
   MsgSeqNum of at least 1. *)
Theorem C06_no_side_effects : forall f s bs es,
  let (s', x) := serve_resend f bs es s in
  rows s' = rows s /\ nout s' = nout s /\ sout s' = sout s
  /\ allowed_exc x
  /\ cstate s' = (if cstate s =? ST_AWAITING then ST_AWAITING else ST_ACTIVE)
  /\ exists W, wire s' = wire s ++ W /\ Forall (fun fr => 1 <= r_seq fr) W.
Proof. exact serve_general. Qed.
Print Assumptions C06_no_side_effects.

Theorem C06_state_restored : forall f s bs es,
  (cstate s = ST_ACTIVE \/ cstate s = ST_AWAITING) -> cstate (fst (serve_resend f bs es s)) = cstate s.
Proof. exact serve_state_restored. Qed.
Print Assumptions C06_state_restored.

(* the hypotheses of C06_reply_chain survive serving a request: any sequence of requests is answered correctly *)
Theorem C06_repeated_requests : forall f s bs es f2 bs2 es2,
  (cstate s = ST_ACTIVE \/ cstate s = ST_AWAITING) ->
  journal_ok s -> NoDup (map r_seq (rows s)) ->
  resend_correct f2 (fst (serve_resend f bs es s)) bs2 es2.
Proof. exact serve_repeatable. Qed.
Print Assumptions C06_repeated_requests.

(* pristine journals (original sends numbered 1..n, a suffix may be missing) meet the hypotheses *)
Theorem C06_reply_chain_pristine : forall f s bs es,
  (cstate s = ST_ACTIVE \/ cstate s = ST_AWAITING) -> pristine s -> resend_correct f s bs es.
Proof. exact pristine_total. Qed.
Print Assumptions C06_reply_chain_pristine.

(* special cases spelled out *)
Theorem C06_unreadable_request_ok : forall f s bs es,
  (cstate s = ST_ACTIVE \/ cstate s = ST_AWAITING) -> parse_req bs es = None -> resend_correct f s bs es.
Proof. exact unreadable_correct. Qed.
Print Assumptions C06_unreadable_request_ok.

Theorem C06_begin_nonpositive_as_one : forall f s bs es b,
  py_int bs = Some b -> b < 1 ->
  serve_resend f (Some bs) es s = serve_resend f (dec 1) es s
  /\ requested_range s (Some bs) es = requested_range s (dec 1) es
  /\ (resend_correct f s (Some bs) es <-> resend_correct f s (dec 1) es).
Proof. exact begin_nonpositive_as_one. Qed.
Print Assumptions C06_begin_nonpositive_as_one.

(* "otherwise identical body" for a message that carries neither tag 43 nor tag 122 *)
Theorem C06_copy_of_plain_row : forall r, clean r = true ->
  copy_body r = r_body r ++ [(T_PossDupFlag, V_Y); (T_OrigSendingTime, r_time r)].
Proof. exact copy_body_clean. Qed.
Print Assumptions C06_copy_of_plain_row.

(* what a chain is made of: every frame is the copy of a replayable journaled message or a gap fill *)
Theorem C06_no_session_retransmit : forall J f lim a c W, chain J f lim a c W -> forall fr, In fr W ->
  (exists r, In r J /\ replayable f r = true /\ is_copy_of r fr) \/ (exists x h, is_gap_fill fr x h).
Proof. exact chain_frames. Qed.
Print Assumptions C06_no_session_retransmit.

(* the row hypothesis of journal_ok is an invariant of journals written by send_msg,
   and replies to a ResendRequest never reach the journal *)
Theorem C06_sent_rows_wellformed : forall m s s',
  send_msg m s = Ok s' ->
  rows s' = rows s \/ exists fr, rows s' = rows s ++ [fr] /\ codec_row fr = true.
Proof. exact send_msg_frame_codec_row. Qed.
Print Assumptions C06_sent_rows_wellformed.

(* send_msg journals before it writes (R8a): a send that is refused or fails - state gate, TestRequest
   gate, encoder, DuplicateSeqNoError from the journal - leaves nothing on the wire *)
Theorem C06_failed_send_writes_nothing : forall m s e s', send_msg m s = Exc e s' -> wire s' = wire s.
Proof. exact failed_send_writes_nothing. Qed.
Print Assumptions C06_failed_send_writes_nothing.

(* ---- the witnesses of the former known-finding classes, now positive (each is replayed on the
   implementation by harness/c06.py) *)

(* was C06-leftover-copy-in-range (D12) *)
Theorem C06_second_request_ok :
  resend_correct w_all w_first (dec 2) (dec 0)
  /\ rows w_second = rows w_first /\ nout w_second = 4
  /\ resend_correct w_all w_second (dec 2) (dec 0)
  /\ map r_seq (wire (fst (serve_resend w_all (dec 2) (dec 0) w_second))) = [2; 3; 2; 3].
Proof. exact second_request_ok. Qed.
Print Assumptions C06_second_request_ok.

(* were C06-begin-beyond, C06-request-unparsable *)
Theorem C06_unanswerable_requests_ok :
  resend_correct w_all w_small (dec 5) (dec 0)
  /\ resend_correct w_all w_small (Some [120%N]) (dec 0)
  /\ resend_correct w_all w_small None (dec 0)
  /\ serve_resend w_all (dec 5) (dec 0) w_small
     = (mkSt ST_ACTIVE false None 3 2 2 (rows w_small) [] [] [ST_HANDLING; ST_ACTIVE], Some EAssertion)
  /\ serve_resend w_all (Some [120%N]) (dec 0) w_small
     = (mkSt ST_ACTIVE false None 3 2 2 (rows w_small) [] [] [ST_HANDLING; ST_ACTIVE], Some EValue).
Proof. exact unanswerable_requests_ok. Qed.
Print Assumptions C06_unanswerable_requests_ok.

(* was C06-begin-nonpositive *)
Theorem C06_begin_nonpositive_example :
  resend_correct w_all w_small (dec 0) (dec 0) /\ resend_correct w_all w_small (dec (-3)) (dec 0)
  /\ (let (s', x) := serve_resend w_all (dec (-3)) (dec 0) w_small in
      x = None /\ map r_seq (wire s') = [1; 2] /\ map r_type (wire s') = [MT_SEQUENCERESET; [68%N]]
      /\ cstate s' = ST_ACTIVE /\ nout s' = 3).
Proof. exact begin_nonpositive_example. Qed.
Print Assumptions C06_begin_nonpositive_example.

(* was C06-bounded-end *)
Theorem C06_bounded_end_ok :
  resend_correct w_all w_bounded (dec 2) (dec 2) /\ resend_correct w_all w_bounded2 (dec 2) (dec 3)
  /\ map r_seq (wire (fst (serve_resend w_all (dec 2) (dec 2) w_bounded))) = [2]
  /\ (let s' := fst (serve_resend w_all (dec 2) (dec 3) w_bounded2) in
      map r_seq (wire s') = [2; 3] /\ map (fun r => get_tag T_NewSeqNo (r_body r)) (wire s') = [None; Some [52%N]]).
Proof. exact bounded_end_ok. Qed.
Print Assumptions C06_bounded_end_ok.

(* was C06-hole-before-replayed (D21): rows {1,2,4,5} -> D2, GapFill(3 -> 4), D4, D5 *)
Theorem C06_hole_ok :
  resend_correct w_all w_hole (dec 2) (dec 0)
  /\ (let s' := fst (serve_resend w_all (dec 2) (dec 0) w_hole) in
      map r_seq (wire s') = [2; 3; 4; 5]
      /\ map (fun r => get_tag T_NewSeqNo (r_body r)) (wire s') = [None; Some [52%N]; None; None]).
Proof. exact hole_ok. Qed.
Print Assumptions C06_hole_ok.

(* holes, a session row, a declined row and bounded EndSeqNo together: rows {1 Logon, 2, 5, 6 HB,
   9 (declined), 10}, next 13: Resend(2,10) -> D2, GF(3->5), D5, GF(6->10), D10;
   Resend(3,8) -> GF(3->5), D5, GF(6->9) *)
Theorem C06_holes_and_bounded_end_ok :
  resend_correct w_filter9 w_gappy (dec 2) (dec 10) /\ resend_correct w_filter9 w_gappy (dec 3) (dec 8)
  /\ (let s' := fst (serve_resend w_filter9 (dec 2) (dec 10) w_gappy) in
      map r_seq (wire s') = [2; 3; 5; 6; 10]
      /\ map (fun r => get_tag T_NewSeqNo (r_body r)) (wire s') = [None; Some [53%N]; None; Some [49; 48]%N; None])
  /\ (let s' := fst (serve_resend w_filter9 (dec 3) (dec 8) w_gappy) in
      map r_seq (wire s') = [3; 5; 6]
      /\ map (fun r => get_tag T_NewSeqNo (r_body r)) (wire s') = [Some [53%N]; None; Some [57%N]]).
Proof. exact holes_and_bounded_end_ok. Qed.
Print Assumptions C06_holes_and_bounded_end_ok.

(* was C06-end-beyond-64-bits: EndSeqNo = 2^63 is answered like EndSeqNo = 0 *)
Theorem C06_end_beyond_64_ok :
  resend_correct w_all w_small (dec 2) (dec two63)
  /\ (let (s', x) := serve_resend w_all (dec 2) (dec two63) w_small in
      x = None /\ map r_seq (wire s') = [2] /\ map r_type (wire s') = [[68%N]] /\ cstate s' = ST_ACTIVE).
Proof. exact end_beyond_64_ok. Qed.
Print Assumptions C06_end_beyond_64_ok.

(* was C06-row-carries-possdup-tags: [11=c2; 43=N; 55=SYM] is retransmitted as
   [11=c2; 43=Y; 55=SYM; 122=T2], [122=X; 11=c3] as [122=T3; 11=c3; 43=Y] *)
Theorem C06_possdup_tags_ok :
  resend_correct w_all w_tagged (dec 2) (dec 0)
  /\ (let (s', x) := serve_resend w_all (dec 2) (dec 0) w_tagged in
      x = None /\ map r_seq (wire s') = [2; 3]
      /\ map r_body (wire s')
         = [[([49; 49]%N, [99; 50]%N); (T_PossDupFlag, V_Y); ([53; 53]%N, [83; 89; 77]%N); (T_OrigSendingTime, time_str 2)];
            [(T_OrigSendingTime, time_str 3); ([49; 49]%N, [99; 51]%N); (T_PossDupFlag, V_Y)]]
      /\ rows s' = rows w_tagged /\ cstate s' = ST_ACTIVE).
Proof. exact possdup_tags_ok. Qed.
Print Assumptions C06_possdup_tags_ok.

(* the session-level test is equality on the whole MsgType value (noreply_msgs = the code's set,
   C06_noreply_set_is_code): application types that merely START with a session-level value - AE, AB,
   A1, 0Q, 1A, 2Z, 4B, 5X - are retransmitted: [Logon, AE2, 5X3, HB4, 1A5], Resend(1,0) ->
   GF(1->2), AE2, 5X3, GF(4->5), 1A5 (replayed on the implementation; seeded change C07-6) *)
Theorem C06_session_type_is_equality : forall t, is_sess_type t = true <-> In t noreply_msgs.
Proof. exact is_sess_type_equality. Qed.
Print Assumptions C06_session_type_is_equality.

Theorem C06_prefix_types_ok :
  forallb (fun t => negb (is_sess_type t)) w_prefix_types = true
  /\ resend_correct w_all w_prefixed (dec 1) (dec 0)
  /\ (let s' := fst (serve_resend w_all (dec 1) (dec 0) w_prefixed) in
      map r_seq (wire s') = [1; 2; 3; 4; 5]
      /\ map r_type (wire s') = [MT_SEQUENCERESET; [65; 69]%N; [53; 88]%N; MT_SEQUENCERESET; [49; 65]%N]).
Proof. exact prefix_types_ok. Qed.
Print Assumptions C06_prefix_types_ok.

(* non-vacuity: a journal with application, session, SequenceReset and declined rows and a missing
   suffix, in RESENDREQ_AWAITING, meets the hypotheses of C06_reply_chain *)
Example C06_nonvacuous :
  journal_ok w_rich /\ NoDup (map r_seq (rows w_rich)) /\ cstate w_rich = ST_AWAITING
  /\ (let s' := fst (serve_resend w_filter (dec 2) (dec 0) w_rich) in
      map r_seq (wire s') = [2; 3; 5; 6] /\ map r_type (wire s') = [[68%N]; MT_SEQUENCERESET; [68%N]; MT_SEQUENCERESET]
      /\ map (fun r => get_tag T_NewSeqNo (r_body r)) (wire s') = [None; Some [53%N]; None; Some [57%N]]
      /\ rows s' = rows w_rich /\ nout s' = 9 /\ cstate s' = ST_AWAITING).
Proof. exact nonvacuous. Qed.
Print Assumptions C06_nonvacuous.

(* the model's noreply_msgs is the code's literal (regenerated by gen_const.py) *)
From AF Require Import Lemmas.ConstTieL.
From AFGen Require Import GenConst.
Theorem C06_noreply_set_is_code : same_set Resend.noreply_msgs noreply_values = true.
Proof. exact noreply_set_is_code. Qed.
Print Assumptions C06_noreply_set_is_code.
