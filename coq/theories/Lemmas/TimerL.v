(* Proofs about the watchdog model Fix/Timer.v (C12). *)
From Coq Require Import ZArith NArith List Bool Lia.
From AF Require Import Base.Sx Py.Str Fix.Timer.
From AFGen Require Import GenTimer.
Import ListNotations.
Open Scope Z_scope.

(* ------------------------------------------------------------------ regenerated constants *)
(* These equalities are re-checked against the regenerated GenTimer on every run: an edit of a
   threshold, of the sleep period or of the state numbering breaks them (and what follows). *)
Lemma thr_probe_eq : forall hb, thr thr_probe hb = (hb - 1) * 1000.
Proof. intro; unfold thr, thr_probe; cbn [fst snd]; lia. Qed.
Lemma thr_dead_eq : forall hb, thr thr_dead hb = 2 * hb * 1000.
Proof. intro; unfold thr, thr_dead; cbn [fst snd]; lia. Qed.
Lemma thr_treq_eq : forall hb, thr thr_treq hb = 2 * hb * 1000.
Proof. intro; unfold thr, thr_treq; cbn [fst snd]; lia. Qed.
Lemma tick_ms_eq : tick_ms = 1000. Proof. reflexivity. Qed.
Lemma st_order : ST_DISCONNECTED_BROKEN_CONN < ST_NETWORK_CONN_ESTABLISHED <= ST_ACTIVE.
Proof. unfold ST_DISCONNECTED_BROKEN_CONN, ST_NETWORK_CONN_ESTABLISHED, ST_ACTIVE; lia. Qed.

(* ------------------------------------------------------------------ vocabulary *)
Definition live (s : st) : Prop := s_conn s = true /\ s_state s = ST_ACTIVE.
Definition dead_st (hb : Z) : st := mkSt ST_DISCONNECTED_BROKEN_CONN hb 0 None false 0.

Lemma div1000 : forall t, 0 <= t - t / 1000 * 1000 < 1000.
Proof. intro t. pose proof (Z.div_mod t 1000). pose proof (Z.mod_pos_bound t 1000). lia. Qed.
Lemma div1000_pos : forall t, 1000 <= t -> 1 <= t / 1000.
Proof. intros t H. pose proof (div1000 t). lia. Qed.

Ltac bool_lia :=
  repeat match goal with
         | H : (_ <? _) = true |- _ => apply Z.ltb_lt in H
         | H : (_ <? _) = false |- _ => apply Z.ltb_ge in H
         | H : (_ <=? _) = true |- _ => apply Z.leb_le in H
         | H : (_ <=? _) = false |- _ => apply Z.leb_gt in H
         | H : (_ =? _) = true |- _ => apply Z.eqb_eq in H
         | H : (_ =? _) = false |- _ => apply Z.eqb_neq in H
         end.

(* closed form of one watchdog iteration on a connected ACTIVE session *)
Definition tick_spec (now : Z) (s : st) : st * list out :=
  let hb := s_hb s in
  let fire := (hb - 1) * 1000 <? now - s_mlt s in
  match s_id s with
  | None =>
      if fire then
        let n := now / 1000 in
        if negb (n =? 0) && (2 * hb * 1000 <? now - n * 1000)
        then (dead_st hb, [testreq_frame n; ODisconnect])
        else (mkSt ST_ACTIVE hb now (Some n) true (s_gap s), [testreq_frame n])
      else (s, [])
  | Some n =>
      if 2 * hb * 1000 <? now - n * 1000 then (dead_st hb, [ODisconnect])
      else ((if fire then set_mlt s now else s), [])
  end.

Lemma tick_live : forall now s, live s -> 0 <= s_hb s -> s_id s <> Some 0 -> tick now s = tick_spec now s.
Proof.
  intros now [stt hb mlt id conn g] [Hc Hs] Hhb Hid. cbn in Hc, Hs, Hhb, Hid. subst conn stt.
  unfold tick, tick_spec. cbn [s_conn s_state s_hb s_mlt s_id negb].
  rewrite thr_probe_eq, Z.eqb_refl. cbn [andb].
  destruct id as [n|].
  - assert (Hn : n <> 0) by congruence.
    cbn [truthy]. apply Z.eqb_neq in Hn. rewrite Hn. cbn [negb].
    destruct ((hb - 1) * 1000 <? now - mlt) eqn:F.
    + cbn [set_mlt s_state s_hb s_mlt s_id s_conn]. rewrite thr_dead_eq, Z.sub_diag.
      replace (2 * hb * 1000 <? 0) with false by (symmetry; apply Z.ltb_ge; lia).
      rewrite andb_false_r. cbn [set_mlt s_id s_hb s_state s_mlt s_conn]. rewrite thr_treq_eq, Hn. cbn [negb andb].
      destruct (2 * hb * 1000 <? now - n * 1000) eqn:T; reflexivity.
    + cbn [s_mlt s_hb s_id]. rewrite thr_dead_eq.
      replace (2 * hb * 1000 <? now - mlt) with false by (symmetry; apply Z.ltb_ge; bool_lia; lia).
      rewrite andb_false_r. cbn [set_mlt s_id s_hb s_state s_mlt s_conn]. rewrite thr_treq_eq, Hn. cbn [negb andb].
      destruct (2 * hb * 1000 <? now - n * 1000) eqn:T; reflexivity.
  - cbn [truthy].
    destruct ((hb - 1) * 1000 <? now - mlt) eqn:F.
    + cbn [set_mlt set_id s_state s_hb s_mlt s_id s_conn]. rewrite thr_dead_eq, Z.sub_diag.
      replace (2 * hb * 1000 <? 0) with false by (symmetry; apply Z.ltb_ge; lia).
      rewrite andb_false_r. cbn [set_mlt set_id s_id s_hb s_state s_mlt s_conn]. rewrite thr_treq_eq.
      destruct (negb (now / 1000 =? 0) && (2 * hb * 1000 <? now - now / 1000 * 1000)) eqn:T; reflexivity.
    + cbn [s_mlt s_hb s_id]. rewrite thr_dead_eq.
      replace (2 * hb * 1000 <? now - mlt) with false by (symmetry; apply Z.ltb_ge; bool_lia; lia).
      rewrite andb_false_r. reflexivity.
Qed.

(* ------------------------------------------------------------------ single iterations *)
Definition idle_at (s : st) (hb t0 : Z) : Prop :=
  live s /\ s_hb s = hb /\ s_id s = None /\ s_mlt s = t0 /\ s_gap s = 0.

Lemma tick_idle : forall now s hb t0,
  idle_at s hb t0 -> 0 <= hb -> now - t0 <= (hb - 1) * 1000 -> tick now s = (s, []).
Proof.
  intros now s hb t0 (L & Hh & Hi & Hm & Hg) Hhb Hle.
  rewrite tick_live; [| assumption | lia | congruence].
  unfold tick_spec. rewrite Hi, Hh, Hm.
  replace ((hb - 1) * 1000 <? now - t0) with false by (symmetry; apply Z.ltb_ge; lia). reflexivity.
Qed.

Definition probing_st (hb now : Z) : st := mkSt ST_ACTIVE hb now (Some (now / 1000)) true 0.

Lemma tick_probe : forall now s hb t0,
  idle_at s hb t0 -> 1 <= hb -> 1000 <= now -> (hb - 1) * 1000 < now - t0 ->
  tick now s = (probing_st hb now, [testreq_frame (now / 1000)]).
Proof.
  intros now s hb t0 (L & Hh & Hi & Hm & Hg) Hhb Hnow Hgt.
  rewrite tick_live; [| assumption | lia | congruence].
  unfold tick_spec. rewrite Hi, Hh, Hm, Hg.
  replace ((hb - 1) * 1000 <? now - t0) with true by (symmetry; apply Z.ltb_lt; lia).
  pose proof (div1000 now).
  replace (2 * hb * 1000 <? now - now / 1000 * 1000) with false by (symmetry; apply Z.ltb_ge; lia).
  rewrite andb_false_r. reflexivity.
Qed.

(* a probe is outstanding and its deadline (id + 2 hb seconds) has not passed: nothing is emitted *)
Lemma tick_waiting : forall now s n,
  live s -> s_id s = Some n -> n <> 0 -> 0 <= s_hb s -> now <= (n + 2 * s_hb s) * 1000 ->
  exists m, tick now s = (set_mlt s m, []).
Proof.
  intros now s n L Hi Hn Hhb Hle.
  rewrite tick_live; [| assumption | lia | congruence].
  unfold tick_spec. rewrite Hi.
  replace (2 * s_hb s * 1000 <? now - n * 1000) with false by (symmetry; apply Z.ltb_ge; lia).
  destruct ((s_hb s - 1) * 1000 <? now - s_mlt s).
  - exists now. reflexivity.
  - exists (s_mlt s). destruct s; reflexivity.
Qed.

(* ... and the first iteration after the deadline disconnects *)
Lemma tick_timeout : forall now s n,
  live s -> s_id s = Some n -> n <> 0 -> 0 <= s_hb s -> (n + 2 * s_hb s) * 1000 < now ->
  tick now s = (dead_st (s_hb s), [ODisconnect]).
Proof.
  intros now s n L Hi Hn Hhb Hlt.
  rewrite tick_live; [| assumption | lia | congruence].
  unfold tick_spec. rewrite Hi.
  replace (2 * s_hb s * 1000 <? now - n * 1000) with true by (symmetry; apply Z.ltb_lt; lia).
  reflexivity.
Qed.

(* ------------------------------------------------------------------ runs *)
Definition outs (s : st) (evs : list ev) : list (list out) := map r_out (trace s evs).

(* k iterations one sleep period apart, the first at time p *)
Fixpoint ticks (p : Z) (k : nat) : list ev :=
  match k with
  | O => []
  | S k' => Tick p :: ticks (p + tick_ms) k'
  end.

Lemma trace_app : forall a s b, trace s (a ++ b) = trace s a ++ trace (final s a) b.
Proof.
  induction a as [|e a IH]; intros s b; [reflexivity|].
  cbn [app trace]. unfold final. cbn [fold_left]. destruct (step s e) as [s' o] eqn:E. cbn [fst].
  rewrite IH. reflexivity.
Qed.

Lemma final_app : forall a s b, final s (a ++ b) = final (final s a) b.
Proof. intros; unfold final; apply fold_left_app. Qed.

Lemma outs_app : forall a s b, outs s (a ++ b) = outs s a ++ outs (final s a) b.
Proof. intros; unfold outs; rewrite trace_app, map_app; reflexivity. Qed.

Lemma trace_ev : forall evs s, map r_ev (trace s evs) = evs.
Proof.
  induction evs as [|e evs IH]; intro s; [reflexivity|].
  cbn [trace]. destruct (step s e) as [s' o]. cbn [map r_ev]. rewrite IH. reflexivity.
Qed.

Lemma ticks_app : forall a p b, ticks p (a + b) = ticks p a ++ ticks (p + Z.of_nat a * 1000) b.
Proof.
  induction a as [|a IH]; intros p b.
  - cbn. f_equal. lia.
  - cbn [Nat.add ticks app]. rewrite IH, tick_ms_eq. do 3 f_equal. lia.
Qed.

Lemma outs_cons : forall s e r, outs s (e :: r) = snd (step s e) :: outs (fst (step s e)) r.
Proof. intros; unfold outs; cbn [trace]; destruct (step s e); reflexivity. Qed.

Lemma final_cons : forall s e r, final s (e :: r) = final (fst (step s e)) r.
Proof. reflexivity. Qed.

(* silence not yet long enough: k iterations change nothing and emit nothing *)
Lemma quiet_ticks : forall k p s hb t0,
  idle_at s hb t0 -> 0 <= hb -> p + (Z.of_nat k - 1) * 1000 - t0 <= (hb - 1) * 1000 ->
  outs s (ticks p k) = repeat [] k /\ final s (ticks p k) = s.
Proof.
  induction k as [|k IH]; intros p s hb t0 I Hhb Hle; [split; reflexivity|].
  cbn [ticks repeat]. rewrite outs_cons, final_cons. cbn [step].
  rewrite (tick_idle p s hb t0 I Hhb) by lia. cbn [fst snd].
  destruct (IH (p + tick_ms) s hb t0 I Hhb) as [A B]; [rewrite tick_ms_eq; lia|].
  rewrite A, B. split; reflexivity.
Qed.

Lemma live_set_mlt : forall s m, live s -> live (set_mlt s m).
Proof. intros s m [A B]; split; assumption. Qed.

(* a probe is outstanding: until its deadline nothing is emitted (no second probe, no disconnect) *)
Lemma waiting_ticks : forall k p s n,
  live s -> s_id s = Some n -> n <> 0 -> 0 <= s_hb s ->
  p + (Z.of_nat k - 1) * 1000 <= (n + 2 * s_hb s) * 1000 ->
  outs s (ticks p k) = repeat [] k /\ exists m, final s (ticks p k) = set_mlt s m.
Proof.
  induction k as [|k IH]; intros p s n L Hi Hn Hhb Hle.
  - split; [reflexivity|]. exists (s_mlt s). destruct s; reflexivity.
  - cbn [ticks repeat]. rewrite outs_cons, final_cons. cbn [step].
    destruct (tick_waiting p s n L Hi Hn Hhb) as [m E]; [lia|]. rewrite E. cbn [fst snd].
    destruct (IH (p + tick_ms) (set_mlt s m) n) as [A [m' B]];
      [apply live_set_mlt; assumption | assumption | assumption | assumption
      | rewrite tick_ms_eq; cbn [set_mlt s_hb]; lia |].
    rewrite A, B. split; [reflexivity|]. exists m'. reflexivity.
Qed.

(* ------------------------------------------------------------------ C12_probe, C12_dead_peer *)
Lemma probe_run : forall hb s t0 p (k : nat),
  1 <= hb -> idle_at s hb t0 -> 1000 <= p ->
  let tp := p + Z.of_nat k * 1000 in
  tp - 1000 - t0 <= (hb - 1) * 1000 < tp - t0 ->
  outs s (ticks p (k + 1)) = repeat [] k ++ [[testreq_frame (tp / 1000)]]
  /\ final s (ticks p (k + 1)) = probing_st hb tp
  /\ t0 + (hb - 1) * 1000 < tp <= t0 + hb * 1000.
Proof.
  intros hb s t0 p k Hhb I Hp tp [Hprev Hfire].
  rewrite ticks_app, outs_app, final_app.
  destruct (quiet_ticks k p s hb t0 I) as [A B]; [lia | subst tp; lia |].
  rewrite A, B. cbn [ticks]. rewrite outs_cons, final_cons. cbn [step].
  fold tp. rewrite (tick_probe tp s hb t0 I Hhb) by (subst tp; lia).
  cbn [fst snd outs trace map final fold_left]. repeat split; lia.
Qed.

Lemma probing_live : forall hb t, live (probing_st hb t).
Proof. split; reflexivity. Qed.

Lemma dead_peer_run : forall hb s t0 p (k m : nat),
  1 <= hb -> idle_at s hb t0 -> 1000 <= p ->
  let tp := p + Z.of_nat k * 1000 in
  let n := tp / 1000 in
  let td := tp + Z.of_nat (S m) * 1000 in
  tp - 1000 - t0 <= (hb - 1) * 1000 < tp - t0 ->
  td - 1000 <= (n + 2 * hb) * 1000 < td ->
  outs s (ticks p (k + 1 + (m + 1))) =
    repeat [] k ++ [[testreq_frame n]] ++ repeat [] m ++ [[ODisconnect]]
  /\ final s (ticks p (k + 1 + (m + 1))) = dead_st hb
  /\ t0 + (3 * hb - 1) * 1000 < td <= t0 + (3 * hb + 1) * 1000.
Proof.
  intros hb s t0 p k m Hhb I Hp tp n td Hk Hm.
  destruct (probe_run hb s t0 p k Hhb I Hp Hk) as (A & B & C). fold tp in A, B, C. fold n in A.
  rewrite (ticks_app (k + 1)), outs_app, final_app, A, B.
  replace (p + Z.of_nat (k + 1) * 1000) with (tp + 1000) by (subst tp; lia).
  rewrite (ticks_app m), outs_app, final_app.
  assert (Hn : n <> 0) by (subst n; pose proof (div1000_pos tp); subst tp; lia).
  destruct (waiting_ticks m (tp + 1000) (probing_st hb tp) n (probing_live hb tp)) as [W [mm F]];
    [reflexivity | assumption | cbn; lia | cbn [probing_st s_hb]; subst td; lia |].
  rewrite W, F. cbn [ticks]. rewrite outs_cons, final_cons. cbn [step].
  rewrite (tick_timeout _ _ n);
    [| apply live_set_mlt, probing_live | reflexivity | assumption | cbn; lia
     | cbn [set_mlt probing_st s_hb]; subst td; lia ].
  cbn [fst snd outs trace map final fold_left set_mlt probing_st s_hb].
  rewrite <- !app_assoc. cbn [app].
  pose proof (div1000 tp). fold n in H.
  repeat split; subst td; lia.
Qed.

(* ------------------------------------------------------------------ facts about one step *)
Definition is_testreq (o : out) : bool :=
  match o with OWire KTestRequest _ => true | _ => false end.
Definition writes_testreq (r : row) : bool := existsb is_testreq (r_out r).
Definition is_tick (e : ev) : bool := match e with Tick _ => true | _ => false end.
Definition is_raw (e : ev) : bool := match e with AppRaw _ _ => true | _ => false end.

Ltac crush_one :=
  match goal with
  | |- context [match ?x with _ => _ end] => is_var x; destruct x eqn:?
  | |- context [if ?c then _ else _] =>
      lazymatch c with
      | context [match _ with _ => _ end] => fail
      | _ => first [ let v := eval vm_compute in c in
                     lazymatch v with
                     | true => change c with true
                     | false => change c with false
                     end
                   | destruct c eqn:? ]
      end
  end.

Ltac bool_split :=
  repeat match goal with
         | H : _ && _ = true |- _ => apply andb_true_iff in H; destruct H
         | H : _ && _ = false |- _ => apply andb_false_iff in H; destruct H
         | H : _ || _ = true |- _ => apply orb_true_iff in H; destruct H
         | H : _ || _ = false |- _ => apply orb_false_iff in H; destruct H
         | H : negb _ = true |- _ => apply negb_true_iff in H
         | H : negb _ = false |- _ => apply negb_false_iff in H
         end.

Ltac unfold_states :=
  unfold ST_ACTIVE, ST_RESENDREQ_AWAITING, ST_DISCONNECTED_BROKEN_CONN, ST_NETWORK_CONN_ESTABLISHED in *.

Ltac crush_cbn :=
  cbn [s_state s_hb s_mlt s_id s_conn s_gap fst snd negb andb orb app existsb is_testreq] in *.

Ltac step_crush :=
  unfold step, tick, recv, app_probe, app_raw, check_gap, dispatch, finalize, session_up, disconnect,
         set_mlt, set_id, set_state, truthy, testreq_frame, thr, thr_probe, thr_dead, thr_treq in *;
  crush_cbn; repeat (crush_one; crush_cbn).

(* while a probe is outstanding no further TestRequest is written by the watchdog or send_test_req;
   the id survives unless a Heartbeat echoing it arrives (in sequence or behind a gap) or the connection is dropped *)
Lemma pending_step : forall s e n s' o,
  s_id s = Some n -> n <> 0 -> is_raw e = false -> step s e = (s', o) ->
  existsb is_testreq o = false /\
  (s_id s' = Some n \/ s_conn s' = false \/
   exists ta da v, e = Recv ta da (MHeartbeat (Some v)) /\ parse_id v = n).
Proof.
  intros [stt hb mlt id conn g] e n s' o Hi Hn Hr E. cbn in Hi. subst id.
  apply Z.eqb_neq in Hn.
  destruct e as [t | t d m | t | t rid]; [| destruct m as [rid | rid | | nw] | | discriminate Hr];
    revert E; step_crush; intro E; inversion E; subst; cbn; try rewrite Hn in *; try discriminate;
    split; try reflexivity; auto.
  all: try (right; right; bool_lia; eauto).
Qed.

(* a dropped connection stays dropped and writes nothing *)
Lemma dead_step : forall s e s' o,
  s_conn s = false -> step s e = (s', o) -> existsb is_testreq o = false /\ s_conn s' = false.
Proof.
  intros [stt hb mlt id conn g] e s' o Hc E. cbn in Hc. subst conn.
  destruct e as [t | t d m | t | t rid]; revert E; step_crush; intro E; inversion E; subst; cbn; auto.
Qed.

(* a TestRequest written by the watchdog or by send_test_req() carries int(time) and becomes the outstanding id *)
Lemma probe_step : forall s e s' o,
  is_raw e = false -> step s e = (s', o) -> existsb is_testreq o = true ->
  (s_id s' = Some (ev_time e / 1000) \/ s_conn s' = false) /\ (s_id s = None \/ s_id s = Some 0).
Proof.
  intros [stt hb mlt id conn g] e s' o Hr E.
  destruct e as [t | t d m | t | t rid]; [| destruct m as [rid | rid | | nw] | | discriminate Hr];
    revert E; step_crush; intro E; inversion E; subst; cbn; intro W; try discriminate W; bool_lia; subst; auto.
Qed.

Lemma id_nonzero_step : forall s e s' o,
  s_id s <> Some 0 -> 1000 <= ev_time e -> step s e = (s', o) -> s_id s' <> Some 0.
Proof.
  intros [stt hb mlt id conn g] e s' o Hi Ht E. cbn in Hi.
  pose proof (div1000_pos (ev_time e) Ht) as Hd.
  destruct e as [t | t d m | t | t rid]; [| destruct m as [rid | rid | | nw] | |];
    revert E; step_crush; intro E; inversion E; subst; cbn in *; try assumption; try discriminate;
    try (intro X; inversion X; lia).
Qed.

(* hb is never changed; a connected session is ACTIVE or awaiting a resend (other states are not entered by
   the modelled events) *)
Definition ok (hb : Z) (s : st) : Prop := s_hb s = hb /\ (s_conn s = true -> session_up s = true).

Lemma ok_step : forall hb s e s' o, ok hb s -> step s e = (s', o) -> ok hb s'.
Proof.
  intros hb [stt h mlt id conn g] e s' o [Hh Hs] E. cbn in Hh, Hs. subst h. unfold session_up in Hs. cbn in Hs.
  destruct e as [t | t d m | t | t rid]; [| destruct m as [rid | rid | | nw] | |];
    revert E; step_crush; intro E; inversion E; subst; split; cbn; auto; try discriminate;
    unfold session_up; cbn; intros; try reflexivity; try (rewrite Z.eqb_refl; reflexivity);
    try (rewrite Z.eqb_refl, orb_true_r; reflexivity); auto.
  all: try (apply Hs; assumption).
  all: repeat match goal with H : (_ =? _) = _ |- _ => rewrite H in * end; cbn in *;
       auto using orb_true_r; try (apply Hs; assumption).
  all: try (specialize (Hs H); discriminate Hs).
Qed.

Lemma conn_step : forall s e s' o, step s e = (s', o) -> s_conn s' = true -> s_conn s = true.
Proof.
  intros s e s' o E H. destruct (s_conn s) eqn:C; [reflexivity|].
  destruct (dead_step s e s' o C E) as [_ X]. congruence.
Qed.

Definition probe_row (r : row) : option Z :=
  match r_ev r with
  | Tick t | AppProbe t => if writes_testreq r then Some t else None
  | _ => None
  end.

(* where an outstanding id comes from: it was there before, or this very step wrote the probe *)
Lemma id_origin_step : forall hb s e s' o n,
  ok hb s -> step s e = (s', o) -> s_conn s' = true -> s_id s' = Some n ->
  s_id s = Some n \/ exists t, probe_row (mkRow e o s') = Some t /\ n = t / 1000.
Proof.
  intros hb0 [stt hb mlt id conn g] e s' o n [_ Hs] E. unfold session_up in Hs. cbn in Hs.
  destruct e as [t | t d m | t | t rid]; [| destruct m as [rid | rid | | nw] | |];
    revert E; step_crush; intro E; inversion E; subst; cbn; intros C I; try discriminate; auto;
    try (inversion I; subst; right; eexists; split; [reflexivity|reflexivity]).
  all: subst conn; specialize (Hs eq_refl); bool_lia;
       repeat match goal with H : _ || _ = _ |- _ => first [apply orb_true_iff in H | apply orb_false_iff in H] end;
       bool_lia; unfold ST_ACTIVE, ST_RESENDREQ_AWAITING, ST_NETWORK_CONN_ESTABLISHED in *; intuition lia.
Qed.

(* a Heartbeat echoing the outstanding id clears it - in sequence or BEHIND A GAP *)
Lemma answer_clears : forall s ta d v s' o,
  s_conn s = true -> session_up s = true -> 0 <= d -> s_id s = Some (parse_id v) ->
  step s (Recv ta d (MHeartbeat (Some v))) = (s', o) -> s_id s' = None.
Proof.
  intros [stt hb mlt id conn g] ta d v s' o Hc Hs Hd Hi. unfold session_up in Hs. cbn in Hc, Hs, Hi. subst.
  intro E. revert E. step_crush; intro E; inversion E; subst; cbn; try reflexivity;
    bool_lia; try lia; try congruence;
    try (rewrite Hs in *; discriminate).
  all: apply orb_true_iff in Hs; destruct Hs as [Hs | Hs]; bool_lia;
       unfold ST_ACTIVE, ST_RESENDREQ_AWAITING, ST_DISCONNECTED_BROKEN_CONN in *; lia.
Qed.

(* when the watchdog drops a logged-on session, either a probe was outstanding and its deadline has passed, or a
   resend was awaited and the last-message clock is more than 2 hb s old *)
Lemma wd_step : forall hb s t s' o,
  1 <= hb -> ok hb s -> s_id s <> Some 0 -> 1000 <= t -> tick t s = (s', o) -> In ODisconnect o ->
  (exists n, s_id s = Some n /\ (n + 2 * hb) * 1000 < t)
  \/ (s_state s = ST_RESENDREQ_AWAITING /\ 2 * hb * 1000 < t - s_mlt s).
Proof.
  intros hb [stt h mlt id conn g] t s' o Hhb [Hh Hs] Hi Ht E D. unfold session_up in Hs. cbn in Hh, Hs, Hi. subst h.
  pose proof (div1000 t) as Hdiv.
  revert E. step_crush; intro E; inversion E; subst; cbn in D;
    try (exfalso; intuition discriminate).
  all: bool_split; bool_lia; subst; try (specialize (Hs eq_refl)); bool_split; bool_lia; unfold_states.
  all: first [ left; eexists; split; [reflexivity | lia]
             | right; split; [assumption | lia]
             | exfalso; lia
             | exfalso; congruence ].
Qed.

(* ------------------------------------------------------------------ C12_live_peer *)
Fixpoint sorted (evs : list ev) : Prop :=
  match evs with
  | [] => True
  | e :: r => (forall e', In e' r -> ev_time e <= ev_time e') /\ sorted r
  end.

Definition wd_disconnect (r : row) : Prop := is_tick (r_ev r) = true /\ In ODisconnect (r_out r).

(* a Heartbeat echoing id n that arrives no later than n + 2 hb seconds - whatever its sequence number *)
Definition is_answer (hb n : Z) (r : row) : Prop :=
  exists ta da v, r_ev r = Recv ta da (MHeartbeat (Some v)) /\ 0 <= da /\ parse_id v = n
                  /\ ta <= (n + 2 * hb) * 1000.

(* every TestRequest written by the watchdog (or send_test_req) at time t, i.e. with id t/1000, is answered later in the run *)
Fixpoint answers (hb : Z) (tr : list row) : Prop :=
  match tr with
  | [] => True
  | r :: rest =>
      (forall t, probe_row r = Some t -> exists r', In r' rest /\ is_answer hb (t / 1000) r')
      /\ answers hb rest
  end.

(* while a resend is awaited no watchdog iteration finds the last-message clock older than 2 hb s
   (the gap is closed, or in-sequence traffic resumes, in time) *)
Fixpoint gap_ok (hb : Z) (s : st) (evs : list ev) : Prop :=
  match evs with
  | [] => True
  | e :: r =>
      match e with
      | Tick t => s_conn s = true -> s_state s = ST_RESENDREQ_AWAITING -> t - s_mlt s <= 2 * hb * 1000
      | _ => True
      end /\ gap_ok hb (fst (step s e)) r
  end.

Definition pending_ok (hb : Z) (s : st) (tr : list row) : Prop :=
  s_conn s = true -> forall n, s_id s = Some n -> exists r, In r tr /\ is_answer hb n r.

Lemma in_trace_ev : forall s evs r, In r (trace s evs) -> In (r_ev r) evs.
Proof. intros s evs r H. rewrite <- (trace_ev evs s). apply in_map. assumption. Qed.

Lemma answering_no_wd : forall hb evs s,
  1 <= hb -> ok hb s -> s_id s <> Some 0 -> sorted evs -> Forall (fun e => 1000 <= ev_time e) evs ->
  gap_ok hb s evs -> answers hb (trace s evs) -> pending_ok hb s (trace s evs) ->
  Forall (fun r => ~ wd_disconnect r) (trace s evs).
Proof.
  intros hb evs. induction evs as [|e evs IH]; intros s Hhb Hok Hid Hso Hti Hgap Han Hpe; [constructor|].
  cbn [trace] in *. cbn [gap_ok] in Hgap. destruct (step s e) as [s' o] eqn:E. cbn [fst] in Hgap.
  destruct Hso as [Hhd Hso]. inversion Hti as [|? ? Ht Hti']; subst. destruct Hgap as [Hg0 Hgap].
  cbn [answers] in Han. destruct Han as [Hprobe Han].
  pose proof (ok_step hb s e s' o Hok E) as Hok'.
  pose proof (id_nonzero_step s e s' o Hid Ht E) as Hid'.
  constructor.
  - (* the head row is not a watchdog disconnect *)
    intros [Htick Hdisc]. cbn [r_ev r_out] in Htick, Hdisc.
    destruct e as [t | | |]; try discriminate Htick. cbn [step] in E. cbn [ev_time] in Ht.
    assert (Hc : s_conn s = true).
    { destruct (s_conn s) eqn:C; [reflexivity|]. unfold tick in E. rewrite C in E. cbn in E.
      inversion E; subst o. destruct Hdisc. }
    destruct (wd_step hb s t s' o Hhb Hok Hid Ht E Hdisc) as [[n [Hn Hlate]] | [Haw Hold]].
    + destruct (Hpe Hc n Hn) as [r [[Hr | Hr] (ta & da & v & Hev & Hda & Hpar & Hdl)]].
      * subst r. cbn [r_ev] in Hev. discriminate Hev.
      * apply in_trace_ev in Hr. specialize (Hhd _ Hr). rewrite Hev in Hhd. cbn [ev_time] in Hhd. lia.
    + specialize (Hg0 Hc Haw). lia.
  - apply IH; try assumption.
    (* the invariant for the remaining run *)
    intros Hc' n Hn.
    pose proof (conn_step s e s' o E Hc') as Hc.
    destruct (id_origin_step hb s e s' o n Hok E Hc' Hn) as [Hold | [t [Hp Hnt]]].
    + destruct (Hpe Hc n Hold) as [r [[Hr | Hr] Hans]].
      * (* the answer would be this very step: then the id is cleared *)
        exfalso. subst r. destruct Hans as (ta & da & v & Hev & Hda & Hpar & _). cbn [r_ev] in Hev. subst e.
        rewrite <- Hpar in Hold.
        pose proof (answer_clears s ta da v s' o Hc (proj2 Hok Hc) Hda Hold E). congruence.
      * exists r. split; assumption.
    + subst n. apply Hprobe. assumption.
Qed.

(* scenarios whose inbound traffic is all in sequence (and contains no SequenceReset) *)
Definition plain (m : msg) : bool := match m with MGapFill _ => false | _ => true end.
Definition inseq_ev (e : ev) : Prop :=
  match e with Recv _ d m => d = 0 /\ plain m = true | _ => True end.
Definition inseq_evb (e : ev) : bool :=
  match e with Recv _ d m => (d =? 0) && plain m | _ => true end.
Lemma inseq_evb_ok : forall e, inseq_evb e = true -> inseq_ev e.
Proof.
  intros [t | t d m | t | t rid] H; cbn in *; auto.
  apply andb_true_iff in H. destruct H as [A B]. split; [apply Z.eqb_eq; assumption | assumption].
Qed.
Definition okA (hb : Z) (s : st) : Prop := s_hb s = hb /\ (s_conn s = true -> s_state s = ST_ACTIVE).

Lemma okA_step : forall hb s e s' o, okA hb s -> inseq_ev e -> step s e = (s', o) -> okA hb s'.
Proof.
  intros hb [stt h mlt id conn g] e s' o [Hh Hs] Hin E. cbn in Hh, Hs. subst h.
  destruct e as [t | t d m | t | t rid]; [| destruct Hin as [Hd Hp]; subst d; destruct m as [rid | rid | | nw]; [| | | discriminate Hp] | |];
    revert E; step_crush; intro E; inversion E; subst; split; cbn; auto; try discriminate.
  all: intro Hc; specialize (Hs Hc); bool_lia; subst;
       unfold ST_ACTIVE, ST_RESENDREQ_AWAITING in *; try lia; try reflexivity.
Qed.

Lemma okA_ok : forall hb s, okA hb s -> ok hb s.
Proof.
  intros hb s [Hh Hs]. split; [assumption|]. intro Hc. unfold session_up. rewrite (Hs Hc), Z.eqb_refl. reflexivity.
Qed.

Lemma gap_ok_inseq : forall hb evs s, okA hb s -> Forall inseq_ev evs -> gap_ok hb s evs.
Proof.
  intros hb evs. induction evs as [|e evs IH]; intros s Hok Hin; [exact I|].
  inversion Hin as [|? ? He Hin']; subst. cbn [gap_ok]. split.
  - destruct e; try exact I. intros Hc Ha. destruct Hok as [_ Hs]. rewrite (Hs Hc) in Ha. discriminate Ha.
  - destruct (step s e) as [s' o] eqn:E. cbn [fst]. apply IH; [eapply okA_step; eassumption | assumption].
Qed.

(* valid in-sequence traffic never pauses longer than G before an iteration: `fed G last evs`, last = time of the
   last in-sequence message *)
Fixpoint fed (G last : Z) (evs : list ev) : Prop :=
  match evs with
  | [] => True
  | Tick t :: r => t - last <= G /\ fed G last r
  | Recv t d m :: r => d = 0 /\ plain m = true /\ fed G t r
  | AppProbe _ :: _ => False
  | AppRaw _ _ :: r => fed G last r
  end.

Lemma recv_idle : forall t m s hb t0, idle_at s hb t0 -> plain m = true ->
  exists o, recv t 0 m s = (set_mlt s t, o) /\ ~ In ODisconnect o /\ existsb is_testreq o = false.
Proof.
  intros t m s hb t0 ([Hc Hs] & Hh & Hi & Hm & Hg) Hp.
  destruct s as [stt h mlt id conn g]. cbn in Hc, Hs, Hh, Hi, Hm, Hg. subst.
  destruct m as [r | r | | nw]; [destruct r | | | discriminate Hp];
    eexists; (split; [reflexivity|]); cbn; intuition discriminate.
Qed.

Lemma fed_quiet : forall hb G evs s t0,
  0 <= hb -> G <= (hb - 1) * 1000 -> idle_at s hb t0 -> fed G t0 evs ->
  Forall (fun r => is_tick (r_ev r) = true -> r_out r = []) (trace s evs)
  /\ Forall (fun r => ~ In ODisconnect (r_out r) /\ writes_testreq r = false) (trace s evs).
Proof.
  intros hb G evs. induction evs as [|e evs IH]; intros s t0 Hhb HG I F; [split; constructor|].
  destruct e as [t | t d m | t | t rid]; cbn [fed] in F.
  - destruct F as [Fl F]. cbn [trace step]. rewrite (tick_idle t s hb t0 I Hhb) by lia.
    destruct (IH s t0 Hhb HG I F) as [A B].
    split; constructor; auto; cbn; try (split; [tauto | reflexivity]).
  - destruct F as (Hd & Hp & F). subst d. cbn [trace step].
    destruct (recv_idle t m s hb t0 I Hp) as [o [E [ND NT]]]. rewrite E.
    assert (I' : idle_at (set_mlt s t) hb t).
    { destruct I as (L & Hh & Hi & Hm & Hg). repeat split; try apply L; assumption. }
    destruct (IH (set_mlt s t) t Hhb HG I' F) as [A B].
    split; constructor; auto; cbn; try discriminate.
  - destruct F.
  - cbn [trace step].
    assert (E : app_raw t rid s = (s, [ORaise])).
    { destruct I as ([Hc Hs] & Hh & Hi & Hm & Hg). destruct s as [stt h mlt id conn g]. cbn in Hc, Hs, Hh, Hi, Hm, Hg. subst.
      reflexivity. }
    rewrite E. destruct (IH s t0 Hhb HG I F) as [A B].
    split; constructor; auto; cbn; try discriminate.
    split; [intuition discriminate | reflexivity].
Qed.

(* the general form: out-of-sequence traffic allowed, answers count wherever they are numbered *)
Lemma live_peer_gaps : forall hb evs s,
  1 <= hb -> ok hb s -> s_id s = None -> sorted evs -> Forall (fun e => 1000 <= ev_time e) evs ->
  gap_ok hb s evs -> answers hb (trace s evs) ->
  Forall (fun r => ~ wd_disconnect r) (trace s evs).
Proof.
  intros hb evs s Hhb Hok Hid So Hti Hg An.
  apply (answering_no_wd hb evs s); try assumption.
  - congruence.
  - intros _ n Hn. congruence.
Qed.

Lemma live_peer : forall hb evs s t0,
  1 <= hb -> idle_at s hb t0 -> Forall (fun e => 1000 <= ev_time e) evs ->
  (fed ((hb - 1) * 1000) t0 evs \/ (sorted evs /\ Forall inseq_ev evs /\ answers hb (trace s evs))) ->
  Forall (fun r => ~ wd_disconnect r) (trace s evs).
Proof.
  intros hb evs s t0 Hhb I Hti [F | (So & Hin & An)].
  - destruct (fed_quiet hb ((hb - 1) * 1000) evs s t0) as [_ B]; [lia | lia | assumption | assumption |].
    eapply Forall_impl; [| exact B]. intros r [ND _] [_ D]. auto.
  - destruct I as ([Hc Hs] & Hh & Hi & Hm & Hg).
    assert (HA : okA hb s) by (split; auto).
    apply (live_peer_gaps hb evs s); try assumption.
    + apply okA_ok; assumption.
    + apply gap_ok_inseq; assumption.
Qed.

(* ------------------------------------------------------------------ C12_single_outstanding *)
Definition no_raw (evs : list ev) : Prop := Forall (fun e => is_raw e = false) evs.

Lemma dead_silent : forall evs s r,
  s_conn s = false -> In r (trace s evs) -> writes_testreq r = false.
Proof.
  induction evs as [|e evs IH]; intros s r Hc Hin; [destruct Hin|].
  cbn [trace] in Hin. destruct (step s e) as [s' o] eqn:E.
  destruct (dead_step s e s' o Hc E) as [W C].
  destruct Hin as [Hr | Hr]; [subst r; exact W | eapply IH; eassumption].
Qed.

(* while id n is outstanding, the next TestRequest frame is preceded by a Heartbeat echoing n *)
Lemma pending_blocks : forall evs s n k rk,
  s_id s = Some n -> n <> 0 -> no_raw evs ->
  nth_error (trace s evs) k = Some rk -> writes_testreq rk = true ->
  exists j rj ta da v, (j < k)%nat /\ nth_error (trace s evs) j = Some rj
                    /\ r_ev rj = Recv ta da (MHeartbeat (Some v)) /\ parse_id v = n.
Proof.
  induction evs as [|e evs IH]; intros s n k rk Hi Hn Hr Hk W; [destruct k; discriminate Hk|].
  inversion Hr as [|? ? Hre Hr']; subst.
  cbn [trace] in *. destruct (step s e) as [s' o] eqn:E.
  destruct (pending_step s e n s' o Hi Hn Hre E) as [Wo Hnext].
  destruct k as [|k].
  - cbn in Hk. inversion Hk; subst rk. unfold writes_testreq in W. cbn in W. congruence.
  - cbn [nth_error] in Hk.
    destruct Hnext as [Hsame | [Hdead | (ta & da & v & He & Hp)]].
    + destruct (IH s' n k rk Hsame Hn Hr' Hk W) as (j & rj & ta & da & v & Hj & Hnj & Hev & Hp).
      exists (S j), rj, ta, da, v. repeat split; try assumption. lia.
    + pose proof (dead_silent evs s' rk Hdead (nth_error_In _ _ Hk)). congruence.
    + exists 0%nat, (mkRow e o s'), ta, da, v. repeat split; try assumption. lia.
Qed.

Lemma single_outstanding : forall evs s i k ri rk,
  s_id s <> Some 0 -> no_raw evs -> Forall (fun e => 1000 <= ev_time e) evs ->
  (i < k)%nat ->
  nth_error (trace s evs) i = Some ri -> nth_error (trace s evs) k = Some rk ->
  writes_testreq ri = true -> writes_testreq rk = true ->
  exists j rj ta da v, (i < j < k)%nat /\ nth_error (trace s evs) j = Some rj
                    /\ r_ev rj = Recv ta da (MHeartbeat (Some v))
                    /\ parse_id v = ev_time (r_ev ri) / 1000.
Proof.
  induction evs as [|e evs IH]; intros s i k ri rk Hid Hr Hti Hik Hi Hk Wi Wk; [destruct i; discriminate Hi|].
  inversion Hr as [|? ? Hre Hr']; subst. inversion Hti as [|? ? Ht Hti']; subst.
  cbn [trace] in *. destruct (step s e) as [s' o] eqn:E.
  destruct k as [|k]; [lia|]. cbn [nth_error] in Hk.
  destruct i as [|i].
  - cbn in Hi. inversion Hi; subst ri. cbn [r_ev]. unfold writes_testreq in Wi. cbn [r_out] in Wi.
    destruct (probe_step s e s' o Hre E Wi) as [[Hnew | Hdead] _].
    + assert (Hn : ev_time e / 1000 <> 0) by (pose proof (div1000_pos _ Ht); lia).
      destruct (pending_blocks evs s' _ k rk Hnew Hn Hr' Hk Wk) as (j & rj & ta & da & v & Hj & Hnj & Hev & Hp).
      exists (S j), rj, ta, da, v. repeat split; try assumption; lia.
    + pose proof (dead_silent evs s' rk Hdead (nth_error_In _ _ Hk)). congruence.
  - cbn [nth_error] in Hi.
    pose proof (id_nonzero_step s e s' o Hid Ht E) as Hid'.
    destruct (IH s' i k ri rk Hid' Hr' Hti' ltac:(lia) Hi Hk Wi Wk) as (j & rj & ta & da & v & Hj & Hnj & Hev & Hp).
    exists (S j), rj, ta, da, v. repeat split; try assumption; lia.
Qed.

(* ------------------------------------------------------------------ inbound TestRequest / Heartbeat *)
Lemma recv_live_eq : forall now m s, live s -> plain m = true ->
  recv now 0 m s = let '(s1, o) := dispatch m s in (set_mlt s1 now, o).
Proof.
  intros now m [stt hb mlt id conn g] [Hc Hs] Hp. cbn in Hc, Hs. subst.
  destruct m as [r | r | | nw]; [| | | discriminate Hp].
  - destruct id as [n|]; [destruct r as [v|] |]; try reflexivity.
    unfold recv, dispatch, check_gap. cbn [s_conn s_state s_id negb orb andb session_up].
    cbn. destruct (n =? parse_id v); reflexivity.
  - reflexivity.
  - reflexivity.
Qed.

Lemma testreq_answered : forall now rid s, live s ->
  recv now 0 (MTestRequest rid) s =
  (set_mlt s now, [OWire KHeartbeat (Some (match rid with Some v => v | None => [48%N] end))]).
Proof. intros now rid s L. rewrite recv_live_eq by (assumption || reflexivity). reflexivity. Qed.

Lemma wrong_id_logout : forall now v s n, live s -> s_id s = Some n -> parse_id v <> n ->
  recv now 0 (MHeartbeat (Some v)) s =
  (set_mlt (dead_st (s_hb s)) now, [OWire KLogout None; ODisconnect]).
Proof.
  intros now v s n L Hi Hne. rewrite recv_live_eq by (assumption || reflexivity). cbn [dispatch]. rewrite Hi.
  replace (n =? parse_id v) with false by (symmetry; apply Z.eqb_neq; congruence).
  destruct L as [Hc Hs]. unfold disconnect. rewrite Hs. reflexivity.
Qed.

Lemma matching_id_clears : forall now v s, live s -> s_id s = Some (parse_id v) ->
  recv now 0 (MHeartbeat (Some v)) s = (set_mlt (set_id s None) now, []).
Proof.
  intros now v s L Hi. rewrite recv_live_eq by (assumption || reflexivity). cbn [dispatch]. rewrite Hi, Z.eqb_refl. reflexivity.
Qed.

Lemma heartbeat_without_id_ignored : forall now s, live s ->
  recv now 0 (MHeartbeat None) s = (set_mlt s now, []).
Proof.
  intros now s L. rewrite recv_live_eq by (assumption || reflexivity). cbn [dispatch]. destruct (s_id s); reflexivity.
Qed.

Lemma unsolicited_id_ignored : forall now v s, live s -> s_id s = None ->
  recv now 0 (MHeartbeat (Some v)) s = (set_mlt s now, []).
Proof. intros now v s L Hi. rewrite recv_live_eq by (assumption || reflexivity). cbn [dispatch]. rewrite Hi. reflexivity. Qed.

(* ------------------------------------------------------------------ heartbeat protocol behind a sequence gap *)
Definition awaiting (s : st) : Prop := s_conn s = true /\ s_state s = ST_RESENDREQ_AWAITING.

(* a message numbered above the expected number: a ResendRequest is sent once and the state becomes
   RESENDREQ_AWAITING; the message is still dispatched; it is NOT finalized (last-message clock untouched) *)
Lemma recv_behind_gap_active : forall now d m s, live s -> 0 < d -> plain m = true ->
  recv now d m s =
  let '(s1, o) := dispatch m (set_state s ST_RESENDREQ_AWAITING d) in (s1, OWire KResendRequest None :: o).
Proof.
  intros now d m [stt hb mlt id conn g] [Hc Hs] Hd Hp. cbn in Hc, Hs. subst.
  unfold recv, check_gap, session_up. cbn [s_conn s_state negb orb].
  replace (ST_ACTIVE <=? ST_DISCONNECTED_BROKEN_CONN) with false by reflexivity.
  rewrite Z.eqb_refl. cbn [orb negb].
  replace (d <? 0) with false by (symmetry; apply Z.ltb_ge; lia).
  replace (0 <? d) with true by (symmetry; apply Z.ltb_lt; lia).
  replace (ST_ACTIVE =? ST_RESENDREQ_AWAITING) with false by reflexivity.
  destruct m as [r | r | | nw]; [| | | discriminate Hp];
    destruct (dispatch _ _) as [s1 o1]; reflexivity.
Qed.

Lemma recv_behind_gap_awaiting : forall now d m s, awaiting s -> 0 < d -> plain m = true ->
  recv now d m s = dispatch m s.
Proof.
  intros now d m [stt hb mlt id conn g] [Hc Hs] Hd Hp. cbn in Hc, Hs. subst.
  unfold recv, check_gap, session_up. cbn [s_conn s_state negb orb].
  replace (ST_RESENDREQ_AWAITING <=? ST_DISCONNECTED_BROKEN_CONN) with false by reflexivity.
  rewrite Z.eqb_refl. rewrite orb_true_r. cbn [orb negb].
  replace (d <? 0) with false by (symmetry; apply Z.ltb_ge; lia).
  replace (0 <? d) with true by (symmetry; apply Z.ltb_lt; lia).
  destruct m as [r | r | | nw]; [| | | discriminate Hp];
    destruct (dispatch _ _) as [s1 o1]; reflexivity.
Qed.

(* C12_answer_behind_gap_counts: the matching Heartbeat clears the outstanding probe although it is numbered
   above the expected number; the last-message clock is not refreshed *)
Lemma answer_behind_gap_counts : forall now d v s, 0 < d -> s_id s = Some (parse_id v) ->
  (live s -> recv now d (MHeartbeat (Some v)) s
             = (set_id (set_state s ST_RESENDREQ_AWAITING d) None, [OWire KResendRequest None]))
  /\ (awaiting s -> recv now d (MHeartbeat (Some v)) s = (set_id s None, [])).
Proof.
  intros now d v s Hd Hi. split; intro L.
  - rewrite recv_behind_gap_active by (assumption || reflexivity).
    cbn [dispatch set_state s_id]. rewrite Hi, Z.eqb_refl. reflexivity.
  - rewrite recv_behind_gap_awaiting by (assumption || reflexivity).
    cbn [dispatch]. rewrite Hi, Z.eqb_refl. reflexivity.
Qed.

Lemma testreq_behind_gap_answered : forall now d rid s, 0 < d ->
  let hbt := OWire KHeartbeat (Some (match rid with Some v => v | None => [48%N] end)) in
  (live s -> recv now d (MTestRequest rid) s
             = (set_state s ST_RESENDREQ_AWAITING d, [OWire KResendRequest None; hbt]))
  /\ (awaiting s -> recv now d (MTestRequest rid) s = (s, [hbt])).
Proof.
  intros now d rid s Hd hbt. split; intro L.
  - rewrite recv_behind_gap_active by (assumption || reflexivity). reflexivity.
  - rewrite recv_behind_gap_awaiting by (assumption || reflexivity). reflexivity.
Qed.

Lemma wrong_id_behind_gap_logout : forall now d v s n, 0 < d -> s_id s = Some n -> parse_id v <> n ->
  (live s -> recv now d (MHeartbeat (Some v)) s
             = (dead_st (s_hb s), [OWire KResendRequest None; OWire KLogout None; ODisconnect]))
  /\ (awaiting s -> recv now d (MHeartbeat (Some v)) s = (dead_st (s_hb s), [OWire KLogout None; ODisconnect])).
Proof.
  intros now d v s n Hd Hi Hne. split; intro L.
  - rewrite recv_behind_gap_active by (assumption || reflexivity).
    cbn [dispatch set_state s_id]. rewrite Hi.
    replace (n =? parse_id v) with false by (symmetry; apply Z.eqb_neq; congruence). reflexivity.
  - rewrite recv_behind_gap_awaiting by (assumption || reflexivity).
    cbn [dispatch]. rewrite Hi.
    replace (n =? parse_id v) with false by (symmetry; apply Z.eqb_neq; congruence).
    destruct L as [Hc Hs]. unfold disconnect. rewrite Hs. reflexivity.
Qed.

(* the gap is closed: an in-sequence message, or a gap fill, that reaches the number that opened the gap brings the
   session back to ACTIVE; in-sequence messages are finalized (clock refreshed) also while the resend is awaited *)
Lemma gap_closes : forall now m s, awaiting s -> plain m = true ->
  (forall n v, s_id s = Some n -> m = MHeartbeat (Some v) -> n = parse_id v) ->
  let '(s1, o) := dispatch m s in
  recv now 0 m s =
  ((if s_gap s <=? 0 then set_mlt (set_state s1 ST_ACTIVE 0) now
    else set_mlt (set_state s1 ST_RESENDREQ_AWAITING (s_gap s - 1)) now), o).
Proof.
  intros now m [stt hb mlt id conn g] [Hc Hs] Hp Hm. cbn in Hc, Hs. subst.
  assert (F : forall s1, s_state s1 = ST_RESENDREQ_AWAITING -> s_gap s1 = g ->
              finalize now 1 s1 = if g <=? 0 then set_mlt (set_state s1 ST_ACTIVE 0) now
                                  else set_mlt (set_state s1 ST_RESENDREQ_AWAITING (g - 1)) now).
  { intros s1 H1 H2. unfold finalize. rewrite H1, H2, Z.eqb_refl. change (1 - 1) with 0.
    destruct (g <=? 0); reflexivity. }
  destruct m as [r | r | | nw]; [| | | discriminate Hp].
  - destruct id as [n|]; [destruct r as [v|] |].
    + specialize (Hm n v eq_refl eq_refl). subst n. cbn [dispatch s_id]. rewrite Z.eqb_refl.
      cbn [s_gap]. rewrite <- F by reflexivity.
      unfold recv, check_gap, dispatch, session_up. cbn. rewrite Z.eqb_refl. reflexivity.
    + cbn [dispatch s_id s_gap]. rewrite <- F by reflexivity. reflexivity.
    + cbn [dispatch s_id s_gap]. rewrite <- F by reflexivity. reflexivity.
  - cbn [dispatch s_gap]. rewrite <- F by reflexivity. reflexivity.
  - cbn [dispatch s_gap]. rewrite <- F by reflexivity. reflexivity.
Qed.

Lemma gap_fill_closes : forall now nw s, awaiting s -> 1 <= nw ->
  recv now 0 (MGapFill nw) s =
  ((if s_gap s <=? nw - 1 then set_mlt (set_state s ST_ACTIVE 0) now
    else set_mlt (set_state s ST_RESENDREQ_AWAITING (s_gap s - nw)) now), []).
Proof.
  intros now nw [stt hb mlt id conn g] [Hc Hs] Hn. cbn in Hc, Hs. subst.
  unfold recv, session_up. cbn [s_conn s_state negb orb].
  replace (ST_RESENDREQ_AWAITING <=? ST_DISCONNECTED_BROKEN_CONN) with false by reflexivity.
  rewrite Z.eqb_refl, orb_true_r. cbn [negb orb Z.ltb Z.compare Z.eqb].
  replace (nw <? 1) with false by (symmetry; apply Z.ltb_ge; lia).
  unfold finalize. cbn [s_state s_gap]. rewrite Z.eqb_refl.
  destruct (g <=? nw - 1); reflexivity.
Qed.

(* the silence clock while a resend is awaited: traffic that is all behind the unfilled gap does not refresh it, no
   TestRequest is written (the probe test applies to ACTIVE only), and as long as the clock is at most 2 hb s old
   nothing happens ... *)
Definition behind_gap_ev (hb t0 : Z) (e : ev) : Prop :=
  match e with
  | Tick t => t - t0 <= 2 * hb * 1000
  | Recv _ d m => 0 < d /\ plain m = true
  | _ => False
  end.

Lemma behind_gap_quiet : forall hb t0 evs s,
  awaiting s -> s_hb s = hb -> s_id s = None -> s_mlt s = t0 ->
  Forall (behind_gap_ev hb t0) evs ->
  final s evs = s
  /\ Forall (fun r => writes_testreq r = false /\ ~ In ODisconnect (r_out r)
                      /\ (is_tick (r_ev r) = true -> r_out r = [])) (trace s evs).
Proof.
  intros hb t0 evs. induction evs as [|e evs IH]; intros s A Hh Hi Hm F; [split; [reflexivity | constructor]|].
  apply Forall_cons_iff in F. destruct F as [He F'].
  assert (E : exists o, step s e = (s, o) /\ existsb is_testreq o = false /\ ~ In ODisconnect o
                        /\ (is_tick e = true -> o = [])).
  { destruct e as [t | t d m | t | t rid]; cbn [behind_gap_ev] in He.
    - exists []. cbn [step]. split; [| split; [reflexivity | split; [tauto | reflexivity]]].
      destruct A as [Hc Hs]. destruct s as [stt h mlt id conn g]. cbn in Hc, Hs, Hi, Hh, Hm. subst stt h mlt id conn.
      unfold tick. cbn [s_conn s_state s_hb s_mlt s_id negb].
      replace (ST_RESENDREQ_AWAITING =? ST_ACTIVE) with false by reflexivity.
      cbn [andb s_mlt s_hb s_id]. rewrite thr_dead_eq.
      replace (2 * hb * 1000 <? t - t0) with false by (symmetry; apply Z.ltb_ge; lia).
      rewrite andb_false_r. reflexivity.
    - destruct He as [Hd Hp]. cbn [step]. rewrite recv_behind_gap_awaiting by assumption.
      destruct m as [r | r | | nw]; [| | | discriminate Hp]; cbn [dispatch]; try rewrite Hi;
        eexists; (split; [reflexivity|]); cbn; repeat split; try discriminate; intuition discriminate.
    - destruct He.
    - destruct He. }
  destruct E as [o [E [W [D T]]]].
  cbn [trace]. rewrite final_cons, E. cbn [fst].
  destruct (IH s A Hh Hi Hm F') as [Fi Fo].
  split; [exact Fi|]. constructor; [cbn; auto | exact Fo].
Qed.

(* ... and the first iteration that finds it older drops the peer - unprobed, whatever it sends behind the gap *)
Lemma gap_timeout : forall now s,
  awaiting s -> s_id s = None -> s_mlt s <> 0 -> 2 * s_hb s * 1000 < now - s_mlt s ->
  tick now s = (dead_st (s_hb s), [ODisconnect]).
Proof.
  intros now [stt hb mlt id conn g] [Hc Hs] Hi Hm Hl. cbn [s_conn s_state s_hb s_mlt s_id] in Hc, Hs, Hi, Hm, Hl. subst.
  unfold tick. cbn [s_conn s_state s_hb s_mlt s_id negb].
  replace (ST_RESENDREQ_AWAITING =? ST_ACTIVE) with false by reflexivity.
  cbn [andb s_mlt s_hb s_id]. rewrite thr_dead_eq.
  replace (mlt =? 0) with false by (symmetry; apply Z.eqb_neq; assumption).
  replace (2 * hb * 1000 <? now - mlt) with true by (symmetry; apply Z.ltb_lt; lia).
  reflexivity.
Qed.

(* ------------------------------------------------------------------ small intervals, other states *)
(* hb = 0: probe and disconnect in the same iteration whenever time.time() is not a whole second *)
Lemma hb0_immediate : forall now s t0,
  idle_at s 0 t0 -> 1000 <= now -> -1000 < now - t0 -> now mod 1000 <> 0 ->
  tick now s = (dead_st 0, [testreq_frame (now / 1000); ODisconnect]).
Proof.
  intros now s t0 (L & Hh & Hi & Hm & Hg) Hnow Hgt Hmod.
  rewrite tick_live; [| assumption | lia | congruence].
  unfold tick_spec. rewrite Hi, Hh, Hm.
  replace ((0 - 1) * 1000 <? now - t0) with true by (symmetry; apply Z.ltb_lt; lia).
  pose proof (div1000_pos now Hnow). pose proof (Z.div_mod now 1000 ltac:(lia)). pose proof (Z.mod_pos_bound now 1000 ltac:(lia)).
  replace (now / 1000 =? 0) with false by (symmetry; apply Z.eqb_neq; lia).
  replace (2 * 0 * 1000 <? now - now / 1000 * 1000) with true by (symmetry; apply Z.ltb_lt; lia).
  reflexivity.
Qed.

(* outside ACTIVE only the last-message test applies: silence of more than 2 hb s drops the connection,
   and a connection on which nothing was ever received (last = 0.0) is never dropped *)
Lemma nonactive_tick : forall now s,
  s_conn s = true -> s_state s <> ST_ACTIVE -> ST_DISCONNECTED_BROKEN_CONN < s_state s -> s_id s = None ->
  tick now s =
  if negb (s_mlt s =? 0) && (2 * s_hb s * 1000 <? now - s_mlt s)
  then (dead_st (s_hb s), [ODisconnect]) else (s, []).
Proof.
  intros now [stt hb mlt id conn g] Hc Hs Hb Hi. cbn in Hc, Hs, Hb, Hi. subst.
  unfold tick. cbn [s_conn s_state s_hb s_mlt s_id negb].
  replace (stt =? ST_ACTIVE) with false by (symmetry; apply Z.eqb_neq; assumption).
  cbn [andb s_mlt s_hb]. rewrite thr_dead_eq.
  destruct (negb (mlt =? 0) && (2 * hb * 1000 <? now - mlt)); [|reflexivity].
  unfold disconnect. cbn [s_state]. apply Z.ltb_lt in Hb. rewrite Hb. reflexivity.
Qed.

(* int(time.time()) = 0 (the first second of the epoch) makes the id falsy but not None:
   the next due probe raises inside the loop before its sleep *)
Lemma epoch_spin : forall now s,
  live s -> s_id s = Some 0 -> (s_hb s - 1) * 1000 < now - s_mlt s -> tick now s = (s, [OSpin]).
Proof.
  intros now [stt hb mlt id conn g] [Hc Hs] Hi Hf. cbn in Hc, Hs, Hi, Hf. subst.
  unfold tick. cbn [s_conn s_state s_hb s_mlt s_id negb].
  rewrite Z.eqb_refl, thr_probe_eq. cbn [andb].
  replace ((hb - 1) * 1000 <? now - mlt) with true by (symmetry; apply Z.ltb_lt; lia).
  reflexivity.
Qed.

(* ------------------------------------------------------------------ witnesses *)
(* merge of a tick train and a train of application messages, time ordered, ticks first at equal times *)
Fixpoint merge_fuel (fuel : nat) (a b : list ev) : list ev :=
  match fuel with
  | O => []
  | S f =>
      match a, b with
      | [], _ => b
      | _, [] => a
      | x :: a', y :: b' =>
          if ev_time x <=? ev_time y then x :: merge_fuel f a' b else y :: merge_fuel f a b'
      end
  end.
Definition merge (a b : list ev) : list ev := merge_fuel (length a + length b) a b.

Fixpoint app_msgs (t period : Z) (k : nat) : list ev :=
  match k with O => [] | S k' => Recv t 0 MApp :: app_msgs (t + period) period k' end.

Definition active0 (hb t0 : Z) : st := mkSt ST_ACTIVE hb t0 None true 0.

Fixpoint sortedb (evs : list ev) : bool :=
  match evs with
  | [] => true
  | e :: r => forallb (fun e' => ev_time e <=? ev_time e') r && sortedb r
  end.

Lemma sortedb_sorted : forall evs, sortedb evs = true -> sorted evs.
Proof.
  induction evs as [|e r IH]; intro H; [exact I|].
  cbn in H. apply andb_true_iff in H. destruct H as [A B]. split; [|auto].
  intros e' Hin. rewrite forallb_forall in A. specialize (A e' Hin). lia.
Qed.

(* maximal pause of valid inbound traffic before any event of the run (boolean form) *)
Fixpoint gap_le (G last : Z) (evs : list ev) : bool :=
  match evs with
  | [] => true
  | Recv t _ _ :: r => (t - last <=? G) && gap_le G t r
  | e :: r => (ev_time e - last <=? G) && gap_le G last r
  end.

Definition wd_disconnectb (r : row) : bool :=
  is_tick (r_ev r) && existsb (fun o => match o with ODisconnect => true | _ => false end) (r_out r).

Lemma wd_disconnectb_ok : forall r, wd_disconnectb r = true -> wd_disconnect r.
Proof.
  intros r H. unfold wd_disconnectb in H. apply andb_true_iff in H. destruct H as [A B].
  split; [assumption|]. apply existsb_exists in B. destruct B as [o [Hin Ho]].
  destruct o; try discriminate. assumption.
Qed.

Definition only_app (evs : list ev) : bool :=
  forallb (fun e => match e with Tick _ | Recv _ 0 MApp => true | _ => false end) evs.

(* D19, hb = 30: application traffic every 29.5 s, never a pause above one interval; the probe written at
   +29.25 s is never answered; the watchdog drops the session at +89.25 s *)
Definition d19_evs : list ev := merge (ticks 1000000250 120) (app_msgs 1000029500 29500 4).

Lemma unanswered_probe_refuted :
  exists hb t0 evs,
    2 <= hb /\ sorted evs /\ only_app evs = true /\ gap_le (hb * 1000) t0 evs = true /\
    exists r, In r (trace (active0 hb t0) evs) /\ wd_disconnect r.
Proof.
  exists 30, 1000000000, d19_evs.
  split; [lia|]. split; [apply sortedb_sorted; vm_compute; reflexivity|].
  split; [vm_compute; reflexivity|]. split; [vm_compute; reflexivity|].
  assert (H : existsb wd_disconnectb (trace (active0 30 1000000000) d19_evs) = true) by (vm_compute; reflexivity).
  apply existsb_exists in H. destruct H as [r [Hin Hr]]. exists r. split; [assumption | apply wd_disconnectb_ok; assumption].
Qed.

(* hb = 1: the probe threshold hb - 1 is 0; traffic every 0.5 s, probe at the first iteration, dropped at +2.25 s *)
Definition d19_hb1_evs : list ev := merge (ticks 1000000250 5) (app_msgs 1000000500 500 9).

Lemma unanswered_probe_hb1_refuted :
  exists evs,
    sorted evs /\ only_app evs = true /\ gap_le 500 1000000000 evs = true /\
    exists r, In r (trace (active0 1 1000000000) evs) /\ wd_disconnect r.
Proof.
  exists d19_hb1_evs.
  split; [apply sortedb_sorted; vm_compute; reflexivity|].
  split; [vm_compute; reflexivity|]. split; [vm_compute; reflexivity|].
  assert (H : existsb wd_disconnectb (trace (active0 1 1000000000) d19_hb1_evs) = true) by (vm_compute; reflexivity).
  apply existsb_exists in H. destruct H as [r [Hin Hr]]. exists r. split; [assumption | apply wd_disconnectb_ok; assumption].
Qed.

(* the TESTREQUEST gate of send_msg lets a second TestRequest through exactly when one is outstanding *)
Definition raw_evs : list ev := ticks 1000000000 6 ++ [AppRaw 1000006000 [88; 49]%N].

Lemma raw_testrequest_refuted :
  exists evs i k ri rk,
    (i < k)%nat /\ nth_error (trace (active0 5 1000000000) evs) i = Some ri
    /\ nth_error (trace (active0 5 1000000000) evs) k = Some rk
    /\ writes_testreq ri = true /\ writes_testreq rk = true
    /\ forall j rj, (i < j < k)%nat -> nth_error (trace (active0 5 1000000000) evs) j = Some rj ->
                    is_tick (r_ev rj) = true.
Proof.
  exists raw_evs, 5%nat, 6%nat.
  eexists. eexists. split; [lia|]. split; [vm_compute; reflexivity|]. split; [vm_compute; reflexivity|].
  split; [reflexivity|]. split; [reflexivity|]. intros j rj Hj. lia.
Qed.

(* ------------------------------------------------------------------ non-vacuity *)
(* hb = 30, first iteration at +0.25 s: k = 29 quiet iterations, probe at +29.25 s, m = 59 more, dropped at +89.25 s *)
Example dead_peer_instance :
  outs (active0 30 1000000000) (ticks 1000000250 (29 + 1 + (59 + 1))) =
    repeat [] 29 ++ [[testreq_frame 1000029]] ++ repeat [] 59 ++ [[ODisconnect]]
  /\ final (active0 30 1000000000) (ticks 1000000250 (29 + 1 + (59 + 1))) = dead_st 30.
Proof.
  pose proof (dead_peer_run 30 (active0 30 1000000000) 1000000000 1000000250 29 59
                ltac:(lia) ltac:(repeat split; reflexivity) ltac:(lia)
                ltac:(split; [vm_compute; discriminate | vm_compute; reflexivity])
                ltac:(split; [vm_compute; discriminate | vm_compute; reflexivity])) as (A & B & _).
  split; [exact A | exact B].
Qed.

(* a peer that answers: silent but for a Heartbeat echoing each probe 50 s after it (hb = 30, two probe cycles) *)
Definition answering_evs : list ev :=
  merge (ticks 1000000250 170)
        [Recv 1000079250 0 (MHeartbeat (Some [49;48;48;48;48;50;57]%N));
         Recv 1000158250 0 (MHeartbeat (Some [49;48;48;48;49;48;57]%N))].

Fixpoint answersb (hb : Z) (tr : list row) : bool :=
  match tr with
  | [] => true
  | r :: rest =>
      match probe_row r with
      | Some t =>
          existsb (fun r' => match r_ev r' with
                             | Recv ta da (MHeartbeat (Some v)) =>
                                 (0 <=? da) && (parse_id v =? t / 1000) && (ta <=? (t / 1000 + 2 * hb) * 1000)
                             | _ => false end) rest
      | None => true
      end && answersb hb rest
  end.

Lemma answersb_ok : forall hb tr, answersb hb tr = true -> answers hb tr.
Proof.
  induction tr as [|r rest IH]; intro H; [exact I|].
  cbn [answersb] in H. apply andb_true_iff in H. destruct H as [A B]. split; [|auto].
  intros t Ht. rewrite Ht in A. apply existsb_exists in A. destruct A as [r' [Hin Hr']].
  exists r'. split; [assumption|].
  destruct (r_ev r') as [| ta da [[v|] | | |] | |] eqn:Ev; try discriminate.
  apply andb_true_iff in Hr'. destruct Hr' as [P Q]. apply andb_true_iff in P. destruct P as [P0 P].
  bool_lia. exists ta, da, v.
  split; [exact Ev|]. repeat split; lia.
Qed.

Example live_peer_nonvacuous :
  sorted answering_evs /\ answers 30 (trace (active0 30 1000000000) answering_evs)
  /\ (length (filter writes_testreq (trace (active0 30 1000000000) answering_evs)) = 2)%nat
  /\ Forall (fun r => ~ wd_disconnect r) (trace (active0 30 1000000000) answering_evs).
Proof.
  assert (S : sorted answering_evs) by (apply sortedb_sorted; vm_compute; reflexivity).
  assert (A : answers 30 (trace (active0 30 1000000000) answering_evs)) by (apply answersb_ok; vm_compute; reflexivity).
  split; [exact S|]. split; [exact A|]. split; [vm_compute; reflexivity|].
  assert (Q : Forall inseq_ev answering_evs).
  { apply Forall_forall. intros e He.
    assert (F : forallb inseq_evb answering_evs = true) by (vm_compute; reflexivity).
    rewrite forallb_forall in F. apply inseq_evb_ok. exact (F e He). }
  apply (live_peer 30 answering_evs (active0 30 1000000000) 1000000000);
    [lia | repeat split; reflexivity | | right; split; [assumption | split; assumption]].
  apply Forall_forall. intros e He.
  assert (F : forallb (fun e => 1000 <=? ev_time e) answering_evs = true) by (vm_compute; reflexivity).
  rewrite forallb_forall in F. specialize (F e He). lia.
Qed.

(* ------------------------------------------------------------------ witnesses with a sequence gap *)
Fixpoint gap_okb (hb : Z) (s : st) (evs : list ev) : bool :=
  match evs with
  | [] => true
  | e :: r =>
      match e with
      | Tick t => negb (s_conn s && (s_state s =? ST_RESENDREQ_AWAITING)) || (t - s_mlt s <=? 2 * hb * 1000)
      | _ => true
      end && gap_okb hb (fst (step s e)) r
  end.

Lemma gap_okb_ok : forall hb evs s, gap_okb hb s evs = true -> gap_ok hb s evs.
Proof.
  intros hb evs. induction evs as [|e evs IH]; intros s H; [exact I|].
  cbn [gap_okb] in H. apply andb_true_iff in H. destruct H as [A B]. cbn [gap_ok]. split; [|auto].
  destruct e; try exact I. intros Hc Hs. rewrite Hc, Hs, Z.eqb_refl in A. cbn [andb negb orb] in A. apply Z.leb_le in A. exact A.
Qed.

(* hb = 30: the probe written at +29.25 s is answered at +31 s by a Heartbeat numbered one above the expected
   number (the message before it was lost); the peer gap-fills at +33 s; the second probe (+62.25 s) is answered in
   sequence.  The answer behind the gap counts: the peer is never dropped. *)
Definition gap_answer_evs : list ev :=
  merge (ticks 1000000250 95)
        [Recv 1000031000 1 (MHeartbeat (Some [49;48;48;48;48;50;57]%N));
         Recv 1000033000 0 (MGapFill 2);
         Recv 1000070000 0 (MHeartbeat (Some [49;48;48;48;48;54;50]%N))].

Example answer_behind_gap_instance :
  sorted gap_answer_evs /\ gap_ok 30 (active0 30 1000000000) gap_answer_evs
  /\ answers 30 (trace (active0 30 1000000000) gap_answer_evs)
  /\ (2 <= length (filter writes_testreq (trace (active0 30 1000000000) gap_answer_evs)))%nat
  /\ Forall (fun r => ~ wd_disconnect r) (trace (active0 30 1000000000) gap_answer_evs).
Proof.
  assert (S : sorted gap_answer_evs) by (apply sortedb_sorted; vm_compute; reflexivity).
  assert (G : gap_ok 30 (active0 30 1000000000) gap_answer_evs) by (apply gap_okb_ok; vm_compute; reflexivity).
  assert (A : answers 30 (trace (active0 30 1000000000) gap_answer_evs)) by (apply answersb_ok; vm_compute; reflexivity).
  split; [exact S|]. split; [exact G|]. split; [exact A|].
  split; [vm_compute; repeat constructor|].
  apply (live_peer_gaps 30 gap_answer_evs (active0 30 1000000000)); try assumption; try lia; try reflexivity.
  - split; [reflexivity | intros _; reflexivity].
  - apply Forall_forall. intros e He.
    assert (F : forallb (fun e => 1000 <=? ev_time e) gap_answer_evs = true) by (vm_compute; reflexivity).
    rewrite forallb_forall in F. specialize (F e He). lia.
Qed.

(* REFUTED: "a peer whose traffic is all behind an unfilled gap is probed and, if it answers, not dropped".
   hb = 30, Heartbeats every 10 s from +5 s, all numbered above the expected number: the session waits for the
   resend, the probe test does not apply outside ACTIVE, no TestRequest is ever written, and the peer is dropped at
   +60.25 s, the first iteration that finds the last in-sequence message more than 2 hb s old. *)
Fixpoint gap_msgs (t period d : Z) (k : nat) : list ev :=
  match k with O => [] | S k' => Recv t d (MHeartbeat None) :: gap_msgs (t + period) period (d + 1) k' end.

Definition unfilled_gap_evs : list ev := merge (ticks 1000000250 70) (gap_msgs 1000005000 10000 1 7).

Definition behind_gapb (e : ev) : bool :=
  match e with Tick _ => true | Recv _ d _ => 0 <? d | _ => false end.

Lemma unfilled_gap_refuted :
  exists evs,
    sorted evs /\ forallb behind_gapb evs = true /\ gap_le 10000 1000000000 evs = true
    /\ answers 30 (trace (active0 30 1000000000) evs)
    /\ forallb (fun r => negb (writes_testreq r)) (trace (active0 30 1000000000) evs) = true
    /\ exists r, In r (trace (active0 30 1000000000) evs) /\ wd_disconnect r.
Proof.
  exists unfilled_gap_evs.
  split; [apply sortedb_sorted; vm_compute; reflexivity|].
  split; [vm_compute; reflexivity|]. split; [vm_compute; reflexivity|].
  split; [apply answersb_ok; vm_compute; reflexivity|].
  split; [vm_compute; reflexivity|].
  assert (H : existsb wd_disconnectb (trace (active0 30 1000000000) unfilled_gap_evs) = true) by (vm_compute; reflexivity).
  apply existsb_exists in H. destruct H as [r [Hin Hr]]. exists r. split; [assumption | apply wd_disconnectb_ok; assumption].
Qed.

(* an answer within 2 hb - 1 s of the moment the probe was written meets the absolute deadline id + 2 hb s *)
Lemma answer_deadline : forall hb t ta, ta <= t + (2 * hb - 1) * 1000 -> ta <= (t / 1000 + 2 * hb) * 1000.
Proof. intros hb t ta H. pose proof (div1000 t). lia. Qed.

Lemma constants :
  (forall hb, thr thr_probe hb = (hb - 1) * 1000) /\ (forall hb, thr thr_dead hb = 2 * hb * 1000)
  /\ (forall hb, thr thr_treq hb = 2 * hb * 1000) /\ tick_ms = 1000.
Proof. repeat split; auto using thr_probe_eq, thr_dead_eq, thr_treq_eq. Qed.

Example traffic_instance :
  let evs := merge (ticks 1000000250 12) (app_msgs 1000004000 4000 3) in
  fed ((5 - 1) * 1000) 1000000000 evs
  /\ Forall (fun r => ~ wd_disconnect r) (trace (active0 5 1000000000) evs).
Proof.
  intro evs.
  assert (F : fed ((5 - 1) * 1000) 1000000000 evs) by (vm_compute; repeat split; discriminate).
  split; [exact F|].
  apply (live_peer 5 evs (active0 5 1000000000) 1000000000); [lia | repeat split; reflexivity | | left; exact F].
  apply Forall_forall. intros e He.
  assert (G : forallb (fun e => 1000 <=? ev_time e) evs = true) by (vm_compute; reflexivity).
  rewrite forallb_forall in G. specialize (G e He). lia.
Qed.
