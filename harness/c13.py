"""C13 - the journal is a faithful per-session, per-direction message store.

Theorems (Props/C13.v) are about coq/theories/Fix/Journal.v; this harness ties that model to
asyncfix/journaler.py by running both on the same interleaved operation sequences over several
sessions, and runs an independent dict-of-dicts reference store as the property oracle."""
import json

from harness import journal_common as jc

META = {
    "level": "proof",
    "tables": [],
    "files": ["asyncfix/journaler.py", "asyncfix/session.py"],
    "rule": "random interleaved operation sequences (create/load incl. mirror-image CompID pairs, persist both directions with "
            "sparse/descending/2^62 numbers and lenient spellings, set_seq_num, range queries, listings, reopen); a case is one "
            "sequence, non-trivial when it stores at least two messages and runs a range query; distinct by canonical op list",
    "trusted_base": ["model of SQLite statement semantics and Python sqlite3 transaction control in Fix/Journal.v (validated here and by C08's crash harness against real files)"],
    "assumptions": ["sequence numbers fit SQLite's 64-bit INTEGER", "message bytes are passed as bytes (the method asserts it)"],
}


class RefStore:
    """Independent reference: map (sid, dir, n) -> bytes plus stored counters per session."""

    def __init__(self):
        self.ids = {}      # (target, sender) -> sid
        self.ctr = {}      # sid -> [out, in] stored = last number
        self.msgs = {}     # (sid, dir) -> {n: bytes}
        self.order = []    # insertion order of (n, sid, dir)
        self.hs = []       # session objects: [sid, t, s, next_out, next_in]

    @staticmethod
    def seq_of(msg):
        i = msg.find(b"\x0134=")
        if i < 0:
            return None
        j = msg.find(b"\x01", i + 1)
        if j < 0:
            return None
        try:
            return int(msg[i + 4:j])
        except ValueError:
            return None

    def step(self, op):
        k = op[0]
        if k == 0:
            key = (op[1], op[2])
            if key not in self.ids:
                sid = len(self.ids) + 1
                self.ids[key] = sid
                self.ctr[sid] = [0, 0]
            sid = self.ids[key]
            h = [sid, jc.enc_text(op[1]), jc.enc_text(op[2]), self.ctr[sid][0] + 1, self.ctr[sid][1] + 1]
            self.hs.append(h)
            return list(h)
        if k == 1:
            sid, d, msg = self.hs[op[1]][0], op[2], op[3]
            n = self.seq_of(msg)
            if n is None:
                return 2
            m = self.msgs.setdefault((sid, d), {})
            if n in m:
                return 1
            m[n] = msg
            self.order.append((n, sid, d))
            self.ctr[sid][0 if d == 1 else 1] = n
            return 0
        if k == 2:
            h = self.hs[op[1]]
            o, i = op[2], op[3]
            if o is not None:
                if o <= 0:
                    return [3, h[3], h[4]]
                h[3] = o
            if i is not None:
                if i <= 0:
                    return [3, h[3], h[4]]
                h[4] = i
            sid = h[0]
            self.ctr[sid] = [h[3] - 1, h[4] - 1]
            for d, lim in ((1, h[3]), (0, h[4])):
                m = self.msgs.get((sid, d), {})
                for n in [n for n in m if n >= lim]:
                    del m[n]
                    self.order.remove((n, sid, d))
            return [0, h[3], h[4]]
        if k == 3:
            m = self.msgs.get((self.hs[op[1]][0], op[2]), {})
            return [list(m[n]) for n in sorted(m) if op[3] <= n <= op[4]]
        if k == 4:
            m = self.msgs.get((self.hs[op[1]][0], op[2]), {})
            return [list(m[op[3]])] if op[3] in m else []
        if k == 5:
            return [[sid, jc.enc_text(t), jc.enc_text(s), self.ctr[sid][0] + 1, self.ctr[sid][1] + 1]
                    for (t, s), sid in sorted(self.ids.items(), key=lambda kv: kv[1])]
        if k == 6:
            sids = None if not op[1] else {self.hs[h][0] for h in op[1]}
            return [[n, list(self.msgs[(sid, d)][n]), d, sid] for (n, sid, d) in self.order
                    if (sids is None or sid in sids) and (op[2] is None or d == op[2])]
        if k == 7:
            n = self.seq_of(op[1])
            return [] if n is None else [n]
        if k == 8:
            return 0
        raise ValueError(op)


def nontrivial(ops):
    return sum(1 for o in ops if o[0] == 1) >= 2 and any(o[0] == 3 for o in ops)


def show(ops):
    return [[(x.hex() if isinstance(x, bytes) else x) for x in o] for o in ops]


def load(ops):
    return [[(bytes.fromhex(x) if (o[0] in (1, 7) and isinstance(x, str)) else x) for x in o] for o in ops]


def check_seq(ctx, ops, model_res):
    impl = jc.run_impl(ops)
    ref = RefStore()
    want = [ref.step(o) for o in ops]
    ctx.case(show(ops), nontrivial(ops), sample={"ops": show(ops)[:8], "impl": impl[:8]} if len(ctx.samples) < 2 else None)
    for o in ops:
        ctx.count("op%d" % o[0])
    ctx.traces += 1
    for i, (a, b) in enumerate(zip(impl, want)):
        if a != b:
            small = shrink(ops[:i + 1])
            ctx.fail({"ops": show(small)}, "step %d: implementation returned %r, reference store %r (shrunk to %d ops)" % (i, a, b, len(small)))
            break
    if model_res is not None and impl != model_res:
        i = next((i for i, (a, b) in enumerate(zip(impl, model_res)) if a != b), min(len(impl), len(model_res)))
        ctx.disagree({"ops": show(ops[:i + 1])}, impl[i] if i < len(impl) else None,
                     model_res[i] if i < len(model_res) else None, "journal-op-results")


def differs(ops):
    """implementation vs reference store on a candidate op list (invalid candidates count as not failing)"""
    try:
        impl = jc.run_impl(ops)
        ref = RefStore()
        want = [ref.step(o) for o in ops]
    except Exception:
        return False
    return impl != want


def shrink(ops):
    from vlib.core import ddmin
    try:
        return ddmin(ops, differs, max_tests=150)
    except Exception:
        return ops


BIG_N = 2500


def big_store_ops():
    """One long-lived store: BIG_N outbound and 1100 inbound messages of one session, a second session next to it, then
    range queries of every size, a truncation in the middle and the queries again.  Paging / batching / caching inside
    the journal only shows on ranges of a thousand rows and more, which the random histories (<= 30 operations) never build."""
    big = 2 ** 63 - 1
    ops = [[0, "A", "B"], [0, "C", "D"]]
    for n in range(1, BIG_N + 1):
        ops.append([1, 0, 1, b"8=FIX.4.4\x019=5\x0135=D\x0134=%d\x0158=o%d\x0110=000\x01" % (n, n)])
        if n <= 1100:
            ops.append([1, 0, 0, b"8=FIX.4.4\x019=5\x0135=8\x0134=%d\x0158=i%d\x0110=000\x01" % (n, n)])
        if n % 50 == 0:
            ops.append([1, 1, 1, b"8=FIX.4.4\x019=5\x0135=D\x0134=%d\x0158=other\x0110=000\x01" % (n // 50)])
    queries = [[3, 0, 1, 1, BIG_N], [3, 0, 1, 1, big], [3, 0, 1, 500, 1999], [3, 0, 1, 1000, 1000], [3, 0, 1, 999, 1001],
               [3, 0, 1, 1001, 2001], [3, 0, 0, 1, big], [3, 0, 0, 100, 1100], [3, 1, 1, 1, big], [4, 0, 1, 1000], [4, 0, 1, 2000],
               [6, None, None], [6, [0], 1], [5]]
    ops += queries
    ops += [[2, 0, 1500, None]] + queries + [[2, 0, None, 1001]] + queries + [[1, 0, 1, b"8=FIX.4.4\x0134=1500\x01again"]] + queries[:3]
    return ops


def big_store(ctx):
    ops = big_store_ops()
    impl = jc.run_impl(ops)
    ref = RefStore()
    want = [ref.step(o) for o in ops]
    ctx.case(("big-store", BIG_N), True)
    ctx.traces += 1
    ctx.count("big-store:operations", len(ops))
    for i, (a, b) in enumerate(zip(impl, want)):
        if a != b:
            op = ops[i]
            what = "implementation returned %d item(s), reference store %d" % (len(a), len(b)) \
                if isinstance(a, list) and isinstance(b, list) and len(a) != len(b) else \
                "implementation %r, reference store %r" % (str(a)[:200], str(b)[:200])
            ctx.fail({"big_store": {"messages": BIG_N}, "step": i, "op": show([op])[0] if op[0] != 1 else ["persist", op[1], op[2]]},
                     "large store (%d outbound / 1100 inbound messages), step %d %r: %s" % (BIG_N, i, op if op[0] != 1 else "persist", what))
            break


def run(ctx):
    n = ctx.scale(1500, 40000)
    seqs = [jc.gen_ops(ctx.rng, ctx.rng.randrange(3, 31)) for _ in range(n)]
    # corpus of past disagreements first
    seqs = corpus() + seqs
    model_out = [None] * len(seqs)
    if ctx.model:
        model_out = ctx.model.batch(["[0,%s]" % jc.sx_ops(s) for s in seqs])
    for ops, mr in zip(seqs, model_out):
        check_seq(ctx, ops, mr)
    big_store(ctx)


def corpus():
    import glob
    import os
    out = []
    for f in sorted(glob.glob(os.path.join(os.path.dirname(__file__), "..", "corpus", "C13", "*.json"))):
        out.append(load(json.load(open(f))["ops"]))
    return out


def search(ctx, cases):
    """A proof or the correspondence broke: look for an input on which the implementation itself breaks the property."""
    import random
    rng = random.Random(ctx.seed + 1)
    for c in cases:
        check_seq(ctx, load(c["ops"]), None)
        if ctx.failures:
            return
    for _ in range(ctx.scale(3000, 30000)):
        check_seq(ctx, jc.gen_ops(rng, rng.randrange(3, 25)), None)
        if ctx.failures:
            return


def replay(path):
    rec = json.load(open(path))
    case = rec.get("input")
    if not case:
        print("replay: no concrete input; broken:", rec.get("broken"))
        return 1
    if case.get("big_store"):
        ops = big_store_ops()
        impl = jc.run_impl(ops)
        ref = RefStore()
        want = [ref.step(o) for o in ops]
        bad = [i for i, (a, b) in enumerate(zip(impl, want)) if a != b]
        for i in bad[:5]:
            print("step %d %r: implementation and reference store differ (%s items / %s items)" % (
                i, ops[i] if ops[i][0] != 1 else "persist", len(impl[i]) if isinstance(impl[i], list) else impl[i],
                len(want[i]) if isinstance(want[i], list) else want[i]))
        return 1 if bad else 0
    ops = load(case["ops"])
    impl = jc.run_impl(ops)
    ref = RefStore()
    want = [ref.step(o) for o in ops]
    for i, (a, b) in enumerate(zip(impl, want)):
        print("step %d %r: impl=%r reference=%r%s" % (i, show([ops[i]])[0], a, b, "" if a == b else "   <-- differs"))
    return 0 if impl == want else 1
