(* Python string / bytes primitives used by asyncfix, as total Gallina functions.
   Text and bytes are [list N] (code points; bytes are < 256).  No proofs here. *)
From Coq Require Import ZArith NArith List Bool.
From AF Require Import Base.Sx.
Import ListNotations.
Open Scope N_scope.

Definition str_eqb (a b : str) : bool :=
  (fix go (a b : str) : bool :=
     match a, b with
     | [], [] => true
     | x :: a', y :: b' => N.eqb x y && go a' b'
     | _, _ => false
     end) a b.

Fixpoint prefixb (p s : str) : bool :=
  match p, s with
  | [], _ => true
  | x :: p', y :: s' => N.eqb x y && prefixb p' s'
  | _ :: _, [] => false
  end.

(* s.find(p): index of the first occurrence, None for -1.  (p non-empty in all uses.) *)
Fixpoint find_sub_from (p s : str) (i : nat) : option nat :=
  if prefixb p s then Some i else
  match s with
  | [] => None
  | _ :: s' => find_sub_from p s' (S i)
  end.
Definition find_sub (p s : str) : option nat := find_sub_from p s 0.

Definition contains_sub (p s : str) : bool :=
  match find_sub p s with Some _ => true | None => false end.

(* s.split(c) for a one-character separator: always at least one piece. *)
Fixpoint split_on (c : N) (s : str) : list str :=
  match s with
  | [] => [[]]
  | x :: s' =>
      if N.eqb x c then [] :: split_on c s'
      else match split_on c s' with
           | [] => [[x]]          (* unreachable: split_on never returns [] *)
           | p :: ps => (x :: p) :: ps
           end
  end.

(* s.split(c, 1): one piece when c does not occur, otherwise exactly two. *)
Fixpoint split1 (c : N) (s : str) : str * option str :=
  match s with
  | [] => ([], None)
  | x :: s' =>
      if N.eqb x c then ([], Some s')
      else let (a, b) := split1 c s' in (x :: a, b)
  end.

(* sep.join(ps) *)
Fixpoint join (sep : str) (ps : list str) : str :=
  match ps with
  | [] => []
  | [p] => p
  | p :: ps' => p ++ sep ++ join sep ps'
  end.

Definition sum_codes (s : str) : N := fold_left N.add s 0.

(* ---------- int(text) ---------- *)

(* whitespace stripped by int() for code points < 256 (probed on CPython 3.12):
   text: 9-13, 32, 133, 160 (not 28-31);  bytes: 9-13, 32 *)
Definition ws_bytes (c : N) : bool := ((9 <=? c) && (c <=? 13)) || (c =? 32).
Definition ws_str (c : N) : bool :=
  ((9 <=? c) && (c <=? 13)) || (c =? 32) || (c =? 133) || (c =? 160).

Fixpoint lstrip (ws : N -> bool) (s : str) : str :=
  match s with
  | c :: s' => if ws c then lstrip ws s' else s
  | [] => []
  end.
Definition strip (ws : N -> bool) (s : str) : str := rev (lstrip ws (rev (lstrip ws s))).

Definition is_digit (c : N) : bool := (48 <=? c) && (c <=? 57).

(* digits with single interior underscores; returns value *)
Fixpoint digits_us (s : str) (acc : N) (prev_us : bool) : option N :=
  match s with
  | [] => if prev_us then None else Some acc
  | c :: s' =>
      if is_digit c then digits_us s' (10 * acc + (c - 48)) false
      else if c =? 95 then (if prev_us then None else digits_us s' acc true)
      else None
  end.

Definition py_int_gen (ws : N -> bool) (s : str) : option Z :=
  let s := strip ws s in
  let (neg, body) :=
    match s with
    | 45 :: r => (true, r)
    | 43 :: r => (false, r)
    | _ => (false, s)
    end in
  match body with
  | [] => None
  | c :: _ =>
      if N.ltb 4300 (N.of_nat (length (filter is_digit body))) then None   (* CPython's int_max_str_digits *)
      else if is_digit c then
        match digits_us body 0 false with
        | Some n => Some (if neg then Z.opp (Z.of_N n) else Z.of_N n)
        | None => None
        end
      else None
  end.

(* int(str) on latin-1 text; int(bytes) *)
Definition py_int (s : str) : option Z := py_int_gen ws_str s.
Definition py_int_bytes (s : str) : option Z := py_int_gen ws_bytes s.

(* "%0.3i" % n  and "%i" % n for n >= 0 *)
Definition pad3 (s : str) : str :=
  match length s with
  | 0%nat => [48; 48; 48]
  | 1%nat => 48 :: 48 :: s
  | 2%nat => 48 :: s
  | _ => s
  end.
Definition fmt03 (n : N) : str := pad3 (n_to_dec n).

Definition SOH : N := 1.
Definition EQ : N := 61.

(* slicing *)
Definition slice_from {A} (n : nat) (l : list A) : list A := skipn n l.
Definition slice_to {A} (n : nat) (l : list A) : list A := firstn n l.
