(* Sx front end of the watchdog model (C12).
   request : [hb, [state, connected, mlt_ms, [id]?, gap], [event, ...]]
     event : [0, t] Tick
           | [1, t, kind, rid?, d] Recv numbered next_num_in + d (kind 0 Heartbeat, 1 TestRequest, 2 application)
           | [1, t, 3, [], d, nw] Recv SequenceReset with NewSeqNo = next_num_in + nw
           | [2, t] send_test_req() | [3, t, rid] send_msg(TestRequest(112 = rid))
   answer  : per event [outs, [state, connected, mlt_ms, [id]?, gap]]
     out   : [0, kind, rid?] frame (kind 0 Heartbeat, 1 TestRequest, 2 ResendRequest, 5 Logout) | [1] disconnect
           | [2] timer spins | [3] raised to the caller | [4] outside the model *)
From Coq Require Import ZArith NArith List Bool.
From AF Require Import Base.Sx Py.Str Fix.Timer.
Import ListNotations.
Open Scope Z_scope.

Definition get_st (hb : Z) (s : sx) : option st :=
  match s with
  | SL [SI state; c; SI mlt; i; SI g] =>
      match get_bool c, get_opt get_z i with
      | Some c, Some i => Some (mkSt state hb mlt i c g)
      | _, _ => None
      end
  | _ => None
  end.

Definition get_ev (s : sx) : option ev :=
  match s with
  | SL [SI 0; SI t] => Some (Tick t)
  | SL [SI 1; SI t; SI k; r; SI d] =>
      match get_opt get_str r with
      | Some r =>
          if k =? 0 then Some (Recv t d (MHeartbeat r))
          else if k =? 1 then Some (Recv t d (MTestRequest r))
          else if k =? 2 then Some (Recv t d MApp)
          else None
      | None => None
      end
  | SL [SI 1; SI t; SI 3; _; SI d; SI nw] => Some (Recv t d (MGapFill nw))
  | SL [SI 2; SI t] => Some (AppProbe t)
  | SL [SI 3; SI t; r] => option_map (AppRaw t) (get_str r)
  | _ => None
  end.

Definition sx_kind (k : kind) : sx :=
  SI (match k with KHeartbeat => 0 | KTestRequest => 1 | KResendRequest => 2 | KLogout => 5 end).

Definition sx_out (o : out) : sx :=
  match o with
  | OWire k rid => SL [SI 0; sx_kind k; sx_of_opt sx_of_str rid]
  | ODisconnect => SL [SI 1]
  | OSpin => SL [SI 2]
  | ORaise => SL [SI 3]
  | OUnmodelled => SL [SI 4]
  end.

Definition sx_st (s : st) : sx :=
  SL [SI (s_state s); sx_of_bool (s_conn s); SI (s_mlt s); sx_of_opt SI (s_id s); SI (s_gap s)].

Definition sx_row (r : row) : sx := SL [sx_of_list sx_out (r_out r); sx_st (r_st r)].

Definition run (req : sx) : sx :=
  match req with
  | SL [SI hb; s; evs] =>
      match get_st hb s, get_list get_ev evs with
      | Some s, Some evs => sx_of_list sx_row (trace s evs)
      | _, _ => err_sx 1
      end
  | _ => err_sx 2
  end.

Definition entry (line : str) : str := run_line run line.
