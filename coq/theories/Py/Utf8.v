(* Python's text encoders on a list of code points.

   text.encode("latin-1"): the identity when every code point is below 256, otherwise
   UnicodeEncodeError (None).  This is what AsyncFIXConnection.send_msg applies to the encoder's
   text before the transport write (since the repair of D9).

   text.encode("utf-8") (what send_msg used before that repair):
   1-4 byte forms; a surrogate (D800-DFFF) or a value above 10FFFF has no encoding
   (Python raises UnicodeEncodeError for a lone surrogate; values above 10FFFF cannot occur in
   a Python str): the result is None.  No proofs here. *)
From Coq Require Import NArith List Bool.
From AF Require Import Base.Sx.
Import ListNotations.
Open Scope N_scope.

Definition utf8_cp (c : N) : option str :=
  if c <? 128 then Some [c]
  else if c <? 2048 then Some [192 + c / 64; 128 + c mod 64]
  else if c <? 65536 then
    if (55296 <=? c) && (c <=? 57343) then None
    else Some [224 + c / 4096; 128 + (c / 64) mod 64; 128 + c mod 64]
  else if c <=? 1114111 then
    Some [240 + c / 262144; 128 + (c / 4096) mod 64; 128 + (c / 64) mod 64; 128 + c mod 64]
  else None.

Fixpoint utf8 (s : str) : option str :=
  match s with
  | [] => Some []
  | c :: s' =>
      match utf8_cp c, utf8 s' with
      | Some b, Some r => Some (b ++ r)
      | _, _ => None
      end
  end.

Definition latin1 (s : str) : option str :=
  if forallb (fun c => c <? 256) s then Some s else None.
