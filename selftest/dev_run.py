import sys, time, importlib, logging
import os; sys.path.insert(0,'/verif'); sys.path.insert(0, os.environ.get('VERIF_REPO','/repo'))
from vlib import core
pid=sys.argv[1]; tier=sys.argv[2] if len(sys.argv)>2 else 'quick'
mod=importlib.import_module('harness.'+pid.lower())
ctx=core.Ctx(pid,tier,int(os.environ.get("VERIF_SEED","0")))
import os
exe='/verif/ocaml/build/%s/runner'%pid
if not os.path.exists(exe):
    core.coqproject(); print(core.make(['extract/Extract%s.vo'%pid])[1][-500:]); print(core.build_runner(pid))
ctx.model=core.Model(exe)
t=time.time(); mod.run(ctx)
print('time',round(time.time()-t,1),'evals',ctx.evaluations,'nontrivial',len(ctx.nontrivial),'disagree',len(ctx.disagreements),'fail',len(ctx.failures),'known',ctx.known_hits)
for d in ctx.disagreements[:3]: print('DIS',str(d)[:1500])
for d in ctx.failures[:5]: print('FAIL',str(d)[:1500])
print(ctx.dist)
