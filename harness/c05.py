"""C05 - outbound messages are numbered consecutively and journaled under that number.

Theorems (Props/C05.v) are about send_msg and its callers in coq/theories/Fix/Session.v; this harness ties
that model to asyncfix (connection.send_msg -> Codec.encode -> Journaler.persist_msg) on histories that
interleave send attempts of every type, allowed and refused, in every connection state, with inbound traffic
that itself causes sends, from several starting counters; the oracle is a running monitor of
'wire number = journal key = stored counter - 1'."""
import itertools
import json
import random

from harness import session_common as sc

META = {
    "level": "proof",
    "tables": ["GenEnums"],
    "files": ["asyncfix/connection.py", "asyncfix/codec.py", "asyncfix/session.py", "asyncfix/journaler.py"],
    "rule": "histories of send attempts (Logon, Logout, application, Heartbeat, TestRequest with and without a pending probe, "
            "ResendRequest, SequenceReset and PossDup messages numbered by themselves, application messages carrying header flags that "
            "do not make them retransmissions: PossResend(97)=Y/N, PossDupFlag=N / =y, GapFillFlag on a non-SequenceReset, "
            "OrigSendingTime alone) interleaved with inbound messages that cause "
            "sends (Logon reply, TestRequest -> Heartbeat, gaps -> ResendRequest, wrong TestReqID / integrity failures -> Logout, "
            "ResendRequest -> replay) and send_test_req / disconnect calls; exhaustive to length 2 over the full alphabet and "
            "length 3 over the core alphabet from NETWORK_CONN_ESTABLISHED (both roles), LOGON_INITIAL_SENT, ACTIVE, "
            "RESENDREQ_AWAITING and a disconnected state, starting counters 1, 7 and 2^40; random to length 30 with starting "
            "counters up to 2^62. A case is one history; non-trivial when it contains an accepted and a refused send; "
            "distinct by start + concrete operations",
    "trusted_base": [
        "message-level abstraction: 'the exact bytes' are compared as the decoded field list of the written frame and of the "
        "journal row (both decoded by the real Codec); flat messages only",
        "application hooks modelled as non-raising, non-sending event recorders; atomic semantics (C14 covers interleavings)",
        "abstract journal of the model (validated against the real SQLite journal after every step: stored counters, row keys; "
        "row contents at the end of each history)",
        "harness/session_common.py (driver, frame builder, generators) and the oracle below",
    ],
    "assumptions": ["sequence numbers inside SQLite's INTEGER range", "ASCII field values"],
}

MOD = "harness.c05"

SEND_CORE = [{"t": "A"}, {"t": "5"}, {"t": "D"}, {"t": "0"}, {"t": "1"}]
SEND_FULL = SEND_CORE + [{"t": "1", "id": "match"}, {"t": "2"}, {"t": "8"}, {"t": "4", "seq": "nout"}, {"t": "4", "seq": "below"}, {"t": "4", "seq": "above"},
                         {"t": "4", "seq": "missing"}, {"t": "4", "seq": "nout", "plain": True}, {"t": "4", "seq": "below", "plain": True},
                         {"t": "4", "seq": "above", "plain": True}, {"t": "D", "pd": True, "seq": "below"}, {"t": "D", "pd": True, "seq": "nout"},
                         {"t": "D", "pd": True, "seq": "missing"}, {"t": "D", "stale": "34", "seq": "below"},
                         {"t": "D", "stale": "N", "seq": "below"}, {"t": "D", "stale": "N", "seq": "above"}, {"t": "D", "pdn": True}]
# application messages carrying header flags that do NOT make them retransmissions: PossResend(97)=Y/N, PossDupFlag=N or
# a value other than the literal "Y", GapFillFlag(123)=Y on a message that is not a SequenceReset, OrigSendingTime alone,
# LastMsgSeqNumProcessed; a plain SequenceReset with PossResend.  All are NEW messages: numbered, journaled, counted
SEND_FLAGS = [{"t": "D", "extra": [["97", "Y"]]}, {"t": "8", "extra": [["97", "Y"], ["122", "20221231-23:59:59.000"]]},
              {"t": "0", "extra": [["97", "Y"]]}, {"t": "D", "extra": [["97", "N"]]}, {"t": "D", "extra": [["43", "N"]]},
              {"t": "D", "extra": [["43", "y"]]}, {"t": "D", "extra": [["123", "Y"]]}, {"t": "D", "extra": [["122", "20221231-23:59:59.000"]]},
              {"t": "D", "extra": [["369", "5"], ["50", "Y"], ["57", "Y"]]},
              {"t": "4", "seq": "nout", "extra": [["97", "Y"]]}, {"t": "5", "extra": [["97", "Y"]]}, {"t": "A", "extra": [["97", "Y"]]}]
IN_CORE = [{"cls": "logon", "rel": "at"}, {"cls": "app", "rel": "at"}, {"cls": "app", "rel": "plus1"}, {"cls": "tr", "rel": "at"},
           {"cls": "hb", "rel": "at", "id": "wrong"}]
IN_FULL = IN_CORE + [{"cls": "logon", "rel": "plus1"}, {"cls": "hb", "rel": "at", "id": "match"}, {"cls": "logout", "rel": "at"},
                     {"cls": "app", "rel": "below"}, {"cls": "app", "rel": "at", "defect": "bad49"},
                     {"cls": "app", "rel": "at", "defect": "no49"}, {"cls": "gf", "rel": "at", "new": "fwd3"},
                     {"cls": "rr", "rel": "at", "b": "first", "e": "inf"}, {"cls": "rr", "rel": "at", "b": "last", "e": "same"},
                     {"cls": "rr", "rel": "at", "b": "beyond", "e": "inf"}]


def alphabet(full):
    a = [("send", s) for s in (SEND_FULL if full else SEND_CORE)]
    a += [("in", s) for s in (IN_FULL if full else IN_CORE)]
    a += [("treq",)]
    if full:
        a += [("disc", 3, None), ("disc", 3, "bye")]
    return a


def start_list(counters=(1, 7, 2 ** 40)):
    sl = []
    for nout in counters:
        for role, st in ((2, 6), (1, 6), (1, 7), (2, 17), (1, 17), (2, 12), (2, 3)):
            sl.append({"role": role, "st": st, "nin": 5, "nout": nout, "maxres": 9 if st == 12 else 0, "treq": None,
                       "wasact": st in (17, 12), "wr": st > 3})
    return sl


def make_jobs(spec):
    kind = spec[0]
    if kind == "exh":
        _, full, length, lo, hi = spec
        sl = start_list()
        al = alphabet(full)
        jobs = []
        for c in itertools.islice(itertools.product(range(len(sl)), *[range(len(al))] * length), lo, hi):
            jobs.append((sl[c[0]], [al[i] for i in c[1:]] + [("send", {"t": "D"})]))
        return jobs
    if kind == "flags":
        # every start x every flagged application send (SEND_FLAGS), before and after each symbol of the core
        # alphabet and followed by a ResendRequest for everything / a plain send (is the row there? is the number consumed?)
        sl = start_list()
        core = alphabet(False)
        follow = [("send", {"t": "D"}), ("in", {"cls": "rr", "rel": "at", "b": "first", "e": "inf"}), ("in", {"cls": "tr", "rel": "at"}),
                  ("disc", 3, "bye")]
        jobs = []
        for st in sl:
            for f in SEND_FLAGS:
                for x in follow:
                    jobs.append((st, [("send", f), x, ("send", {"t": "D"})]))
                for x in core:
                    jobs.append((st, [x, ("send", f), ("send", {"t": "D"})]))
        return jobs
    if kind == "rand":
        _, seed, n, maxlen = spec
        rng = random.Random(seed)
        from harness import c04
        al = alphabet(True) + [("send", f) for f in SEND_FLAGS]
        jobs = []
        for _ in range(n):
            st = dict(rng.choice(start_list((1, 2, 7, 100, 2 ** 31, 2 ** 62))))
            if rng.random() < 0.5:
                # some real traffic first, so that the journal holds rows a ResendRequest can ask for
                st["prelude"] = [("set", {"st": 17})] + [("op", [1, ["D", [["11", "P%d" % j]]]]) for j in range(rng.randrange(1, 5))]
                st.pop("nout")
            items = []
            for _ in range(rng.randrange(2, maxlen + 1)):
                r = rng.random()
                if r < 0.55:
                    items.append(rng.choice(al))
                elif r < 0.8:
                    items.append(("in", c04.rand_sym(rng)))
                else:
                    items.append(("send", rng.choice(SEND_CORE)))
            jobs.append((st, items, [rng.randrange(1, 6)] if rng.random() < 0.2 else []))
        return jobs
    if kind == "cases":
        return [(dict(c["start"], prelude=[tuple(x) for x in c.get("prelude", [])]),
                 [("op", op, bytes.fromhex(fr) if fr else None) for op, fr in zip(c["ops"], c["frames"])],
                 c.get("declined", [])) for c in spec[1]]
    raise ValueError(spec)


# ------------------------------------------------------------------------------------------
# property oracle
# ------------------------------------------------------------------------------------------

def _tag(msg, t):
    for k, v in msg[1]:
        if k == t:
            return v
    return None


def _int(v):
    try:
        return int(v)
    except (TypeError, ValueError):
        return None


def oracle(h):
    """Observes: frames written (decoded), exception class of send calls, live next_num_out, stored outbound
    counter (Journaler.sessions), journal rows (Journaler.get_all_msgs)."""
    fails = []
    w0 = h.worlds[0]
    expected = w0["sout"] + 1           # 'starting from the session's stored counter'
    if w0["nout"] != expected or any(n >= expected for n, _ in w0["out_rows"]):
        return fails                    # the start itself is outside the invariant (not a start the library produces)
    if (w0["st"] > 3) != w0["wr"]:
        return fails
    cls_hist = None                     # a class-D20 step occurred: numbering claims are void from there on
    sent = {}                           # number -> frame projection of the NEW frames written
    for i, (op, step) in enumerate(zip(h.ops, h.steps)):
        before, after = h.worlds[i], h.worlds[i + 1]
        wires = [sc.msg_uncodes(e[1]) for e in step[1] if e[0] == 0]
        if op[0] == 1 and op[1][0] == "4" and _tag(op[1], "123") != "Y" and _tag(op[1], "43") != "Y" and step[0] != 4:
            cls_hist = cls_hist or "D20-app-raw-seqnum"     # application-sent SequenceReset that is not a gap fill
        keys_before = [n for n, _ in before["out_rows"]]
        keys_after = [n for n, _ in after["out_rows"]]
        # --- refused sends are free ---
        if op[0] in (1, 2) and step[0] == 4:
            if wires or after["nout"] != before["nout"] or after["sout"] != before["sout"] or keys_after != keys_before:
                fails.append((i, "send refused with FIXConnectionError consumed a number / left a row / wrote a frame", None))
            continue
        if op[0] == 1 and before["st"] < 6 and step[0] != 4:
            fails.append((i, "send on a connection in state %d was not refused" % before["st"], None))
        # --- journal first, then write (R8a): holds for every send, also after a class-D20 step ---
        if op[0] in (1, 2) and step[0] != 0 and wires:
            fails.append((i, "send raised (outcome %r) after it had written %d frame(s)" % (step[0], len(wires)), None))
        if op[0] == 1 and step[0] == 0:
            if len(wires) != 1:
                fails.append((i, "send_msg returned but wrote %d frames" % len(wires), None))
            else:
                w = wires[0]
                if not (_tag(w, "43") == "Y" or (w[0] == "4" and _tag(w, "123") == "Y")):
                    n = _int(_tag(w, "34"))
                    if n not in keys_after:
                        fails.append((i, "send_msg returned, frame %r is on the wire but not in the journal" % n, None))
        # --- new frames: consecutive numbers, journaled under their number, stored counter follows ---
        # new = not a reply to a ResendRequest (PossDupFlag=Y retransmission / SequenceReset-GapFill)
        new = [w for w in wires if not (_tag(w, "43") == "Y" or (w[0] == "4" and _tag(w, "123") == "Y"))]
        for w in new:
            n = _int(_tag(w, "34"))
            if n != expected:
                fails.append((i, "new %s frame carries MsgSeqNum %r, the previous new frame had %r" % (w[0], n, expected - 1), cls_hist))
            if n is not None:
                if n in sent and cls_hist is None:
                    fails.append((i, "MsgSeqNum %d used for two new frames" % n, None))
                sent[n] = w
                expected = n + 1
        if new:
            last = _int(_tag(new[-1], "34"))
            if last is not None:
                if last not in keys_after:
                    fails.append((i, "frame %d was written but is not in the journal" % last, cls_hist))
                if after["sout"] != last:
                    fails.append((i, "stored outbound counter is %r after frame %d was sent" % (after["sout"], last), cls_hist))
                if after["nout"] != last + 1:
                    fails.append((i, "next_num_out is %r after frame %d was sent" % (after["nout"], last), cls_hist))
        else:
            # nothing new was written (nothing at all, or retransmissions / gap fills only): numbers and journal stay
            if (after["nout"], after["sout"], keys_after) != (before["nout"], before["sout"], keys_before):
                fails.append((i, "no new frame was written but the outbound numbers / journal changed: %r -> %r" % (
                    (before["nout"], before["sout"], keys_before), (after["nout"], after["sout"], keys_after)), cls_hist))
        if len(fails) >= 3:
            return fails
    # --- the journal gives back what was sent (end of history) ---
    final = {n: sc.msg_uncodes(m) for n, m in h.final_rows}
    for n, w in sent.items():
        if cls_hist is None and final.get(n) != w:
            fails.append((len(h.ops) - 1, "journal row %d differs from the frame written under that number" % n, None))
            break
    return fails


def nontrivial(h):
    acc = any(e[0] == 0 for s in h.steps for e in s[1])
    ref = any(s[0] == 4 for s in h.steps)
    return acc and ref


def distribution(h):
    keys = ["start_state_%d" % h.world0["st"], "start_nout_%s" % ("small" if h.world0["nout"] < 1000 else "large")]
    for o, s in zip(h.ops, h.steps):
        if o[0] == 1:
            keys.append("send_%s_%s" % (o[1][0], "refused" if s[0] == 4 else ("ok" if s[0] == 0 else "exc%s" % (s[0],))))
        elif o[0] == 0:
            keys.append("in_" + (o[1][0] if o[1][0] in sc.SESSION_TYPES else "app"))
    return keys


# ------------------------------------------------------------------------------------------
# entry points
# ------------------------------------------------------------------------------------------

def _chunks(total, n):
    step = max(1, (total + n - 1) // n)
    return [(lo, min(total, lo + step)) for lo in range(0, total, step)]


def run(ctx):
    ns = len(start_list())
    specs = []
    full2 = ns * len(alphabet(True)) ** 2
    core3 = ns * len(alphabet(False)) ** 3
    for lo, hi in _chunks(full2, 16):
        specs.append(("exh", True, 2, lo, hi))
    for lo, hi in _chunks(core3, 16):
        specs.append(("exh", False, 3, lo, hi))
    specs.append(("flags",))
    if ctx.tier == "thorough":
        full3 = ns * len(alphabet(True)) ** 3
        rs = random.Random(ctx.seed + 3)
        for _ in range(32):
            lo = rs.randrange(0, full3 - 3000)
            specs.append(("exh", True, 3, lo, lo + 3000))
    nrand = ctx.scale(1600, 30000)
    for _ in range(16):
        specs.append(("rand", ctx.rng.randrange(1 << 30), nrand // 16, 30))
    cp = corpus()
    if cp:
        specs = [("cases", cp)] + specs
    tot = sc.run_specs(ctx, MOD, specs, timeout=ctx.scale(400, 3000))
    ctx.extra["histories"] = tot["n"]
    ctx.extra["operations"] = tot["steps"]
    ctx.extra["cpu_impl_s"] = round(tot["impl_s"], 1)
    ctx.extra["cpu_model_s"] = round(tot["model_s"], 1)


def corpus():
    import glob
    import os
    out = []
    for f in sorted(glob.glob(os.path.join(os.path.dirname(__file__), "..", "corpus", "C05", "*.json"))):
        out.append(json.load(open(f)))
    return out


def search(ctx, cases):
    saved, ctx.model = ctx.model, None
    try:
        specs = []
        if cases:
            specs.append(("cases", [c for c in cases if c and "ops" in c]))
        rng = random.Random(ctx.seed + 1)
        specs += [("rand", rng.randrange(1 << 30), ctx.scale(300, 3000), 30) for _ in range(16)]
        sc.run_specs(ctx, MOD, specs, timeout=ctx.scale(120, 600))
    finally:
        ctx.model = saved


def replay(path):
    rec = json.load(open(path))
    case = rec.get("input")
    if not case or "ops" not in case:
        print("replay: no concrete input; broken:", rec.get("broken"))
        return 1
    h = sc.replay_case(case)
    fails = oracle(h)
    for i, (op, st) in enumerate(zip(h.ops, h.steps)):
        ev = [[e[0], sc.uncodes(e[1][0]), [tv for tv in sc.msg_uncodes(e[1])[1] if tv[0] in ("34", "43")]] for e in st[1] if e[0] == 0]
        print("step %d %s -> exc=%s frames=%s state=%s nout=%s stored_out=%s journal_keys=%s" % (
            i, [op[0], op[1][0], [tv for tv in op[1][1] if tv[0] in ("34", "43", "7", "16")]] if op[0] in (0, 1) else op,
            st[0], ev, st[2][0], st[2][3], st[2][9], st[2][11]))
    for i, what, cls in fails:
        print("property oracle: step %d: %s [class %s]" % (i, what, cls))
    return 1 if fails else 0
